import vflib
WRAPS = ("psGetEntropy", "gettimeofday", "time", "clock_gettime")
def run(ctx):
    st = [dict(variant="asan", name="c01", sources=["checks/c01_appdata.c", "harness/mx_wraps.c"], wraps=WRAPS, libs=["-lcrypto"],
               shards=vflib.NCPU, timeout=7200 if ctx.thorough else 1200),
          # the keyless-PSK grid once more without sanitizers: a sanitizer abort inside the victim must not be the only thing between a
          # keyless peer and a completed handshake (and the default-flags build is what is deployed)
          dict(variant="prod", name="c01p", sources=["checks/c01_appdata.c", "harness/mx_wraps.c"], wraps=WRAPS, libs=["-lcrypto"],
               shards=vflib.NCPU, args=["--part", "psk", "--psk-full"], timeout=1200)]
    rule = ("Part 1: each case = one (scenario, role under attack, cut point after the k-th record delivered to it, injection) executed on a fork()ed clone of the live "
            "connection: plaintext/random/foreign-connection/reflected application_data records, copies of genuine records already delivered to the target (the last one; DTLS also "
            "all of them, one datagram each), forged PLAINTEXT HANDSHAKE records with every message type a peer "
            "without keys can write (hello_request, client_hello, server_hello, hello_verify_request, new_session_ticket, end_of_early_data, encrypted_extensions, "
            "empty certificate, server_key_exchange, certificate_request, server_hello_done, certificate_verify, client_key_exchange, finished with random "
            "verify_data, key_update, [CCS][finished]; DTLS with the expected message and record sequence numbers), TLS 1.3 records sealed under the peer's "
            "handshake key, records the unverified peer seals before its Finished, and application encode attempts before completion. After every keyless "
            "injection into an incomplete handshake both directions of the API are probed at once (no completion reported by matrixSslHandshakeIsComplete or a "
            "MATRIXSSL_HANDSHAKE_COMPLETE return, also after the answer was flushed; matrixSslEncodeToOutdata still refused); then the honest handshake and honest "
            "tagged traffic continue and every delivery is checked for completion and provenance. "
            "Part 2 (keyless RFC 4279 peers): a MatrixSSL endpoint holding none of the victim's pre-shared keys - unknown identities of 1/15/16/128 octets, "
            "15-octet prefix / 17-octet extension of a known identity, known identities of 16 and 128 octets x key := empty (length 0 forced in the attacker's own "
            "store), all-zero (1/16/64 octets), known key with one bit flipped, random - against a server with a three-entry PSK table and, mirrored, as a server "
            "against a PSK client; TLS 1.1/1.2, DTLS 1.0/1.2, all four TLS_PSK_WITH_AES suites, extended master secret on/off; the victim must never report "
            "completion, deliver, or accept data for sending; right identity + right key is the control of every cell. The sanitizer build runs a sub-grid in the "
            "quick tier, the stage built with the repository's default flags runs the full grid in both tiers. "
            "Part 3 (captured DTLS datagrams re-injected by a keyless attacker): after the handshake the sender emits N tagged datagrams (76 quick, 150 thorough, 450 "
            "in the burst patterns); they reach the receiver in 13 arrival patterns (in order, swapped pairs, reversed blocks of 8/31/32/33, stragglers held back "
            "3 / 31-33 / 63-65 positions, bursts of 31..70 lost for good / turning up late, in order with copies of the sender's whole handshake flights (all epochs) "
            "interleaved, seeded random delays); after EVERY arrival a copy of every datagram that arrived before and is at most 80 sequence numbers behind the newest "
            "(plus every 8th older one and the sender's Finished record) is re-injected, nearest first and farthest first alternately, i.e. every distance 0..80 "
            "incl. the window edges 31/32/33 and 63/64/65; DTLS 1.0/1.2, CBC and AEAD, server and client as receiver (quick: 3 suites, thorough: every enabled suite). "
            "Each honest payload may be reported to the application at most once and only byte-identical; afterwards a fresh honest datagram must still be delivered "
            "exactly once (control), and in the patterns that stay inside the window all N payloads must have been delivered. In Part 1 a DTLS datagram delivered a second time is reported as well. "
            "distinct_nontrivial counts distinct (version, scenario, role, cut point, handshake state, injection) tuples whose injection was actually delivered to a "
            "live target, plus distinct (version, suite, EMS, victim role, identity class, key class) keyless-PSK cells in which the victim got as far as the key check, "
            "plus distinct (version, suite, receiver role, arrival pattern, distance behind the newest record <= 80) of re-injected copies.")
    return vflib.std_run(ctx, st, "exploration", rule,
        ["sample credentials under /repo/testkeys", "attacker strength 2 reads traffic keys from the honest peer's ssl_t (libcrypto seals the record)",
         "rehandshake states and DHE_PSK suites are compiled out of the default configuration",
         "Part 3 replays copies only within one epoch of an established session and keeps the distance sweep to 80 records behind the newest (older ones sampled); a forged record "
         "of the current epoch is answered with a fatal alert by the library, so window manipulation by forged sequence numbers followed by replays is not reachable",
         "the keyless PSK peer is this library driven with a key store edited through the internal header (an attacker runs whatever code it likes); the victim is driven through the public API only"], min_nontrivial=200)
