import vflib
WRAPS = ("psGetEntropy", "gettimeofday", "time", "clock_gettime")
def run(ctx):
    st = [dict(variant="asan", name="c01", sources=["checks/c01_appdata.c", "harness/mx_wraps.c"], wraps=WRAPS, libs=["-lcrypto"],
               shards=vflib.NCPU, timeout=7200 if ctx.thorough else 1200),
          # the keyless-PSK grid once more without sanitizers: a sanitizer abort inside the victim must not be the only thing between a
          # keyless peer and a completed handshake (and the default-flags build is what is deployed)
          dict(variant="prod", name="c01p", sources=["checks/c01_appdata.c", "harness/mx_wraps.c"], wraps=WRAPS, libs=["-lcrypto"],
               shards=vflib.NCPU, args=["--part", "psk", "--psk-full"], timeout=1200)]
    rule = ("Part 1: each case = one (scenario, role under attack, cut point after the k-th record delivered to it, injection) executed on a fork()ed clone of the live "
            "connection: plaintext/random/foreign-connection/reflected application_data records, forged PLAINTEXT HANDSHAKE records with every message type a peer "
            "without keys can write (hello_request, client_hello, server_hello, hello_verify_request, new_session_ticket, end_of_early_data, encrypted_extensions, "
            "empty certificate, server_key_exchange, certificate_request, server_hello_done, certificate_verify, client_key_exchange, finished with random "
            "verify_data, key_update, [CCS][finished]; DTLS with the expected message and record sequence numbers), TLS 1.3 records sealed under the peer's "
            "handshake key, records the unverified peer seals before its Finished, and application encode attempts before completion. After every keyless "
            "injection into an incomplete handshake both directions of the API are probed at once (no completion reported by matrixSslHandshakeIsComplete or a "
            "MATRIXSSL_HANDSHAKE_COMPLETE return, also after the answer was flushed; matrixSslEncodeToOutdata still refused); then the honest handshake and honest "
            "tagged traffic continue and every delivery is checked for completion and provenance. "
            "Part 2 (keyless RFC 4279 peers): a MatrixSSL endpoint holding none of the victim's pre-shared keys - unknown identities of 1/15/16/128 octets, "
            "15-octet prefix / 17-octet extension of a known identity, known identities of 16 and 128 octets x key := empty (length 0 forced in the attacker's own "
            "store), all-zero (1/16/64 octets), known key with one bit flipped, random - against a server with a three-entry PSK table and, mirrored, as a server "
            "against a PSK client; TLS 1.1/1.2, DTLS 1.0/1.2, all four TLS_PSK_WITH_AES suites, extended master secret on/off; the victim must never report "
            "completion, deliver, or accept data for sending; right identity + right key is the control of every cell. The sanitizer build runs a sub-grid in the "
            "quick tier, the stage built with the repository's default flags runs the full grid in both tiers. "
            "distinct_nontrivial counts distinct (version, scenario, role, cut point, handshake state, injection) tuples whose injection was actually delivered to a "
            "live target, plus distinct (version, suite, EMS, victim role, identity class, key class) keyless-PSK cells in which the victim got as far as the key check.")
    return vflib.std_run(ctx, st, "exploration", rule,
        ["sample credentials under /repo/testkeys", "attacker strength 2 reads traffic keys from the honest peer's ssl_t (libcrypto seals the record)",
         "rehandshake states and DHE_PSK suites are compiled out of the default configuration",
         "the keyless PSK peer is this library driven with a key store edited through the internal header (an attacker runs whatever code it likes); the victim is driven through the public API only"], min_nontrivial=200)
