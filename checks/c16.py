import vflib
WRAPS = ("psGetEntropy", "gettimeofday", "time")
def run(ctx):
    st = [dict(variant="asan", name="c16", sources=["checks/c16_dtls.c", "harness/mx_wraps.c"], wraps=WRAPS,
               shards=vflib.NCPU, timeout=10800 if ctx.thorough else 1500)]
    rule = ("Each case = (a) one delivery schedule - one fate per datagram in global send order: deliver, drop, duplicate, late duplicate, delay k rounds, swap with next, "
            "delayed-and-duplicated; optionally spurious timer expiries - applied to a complete in-memory DTLS handshake (full / session-id resumed / client-auth / full with RFC 5077 ticket issued / resumed by ticket) plus a "
            "bidirectional data exchange, driven with the reference applications' discipline in logical rounds: all 2^m drop patterns over the first m datagrams, every single "
            "duplicate/swap/delay position, seeded random schedules, every single spurious-timeout point; or (b) one replay case on a fork()ed clone of an established session "
            "(four establishment variants): each captured record / multi-record datagram (epoch 0 handshake, Finished, application data, superseded-epoch Finished) replayed at "
            "each position of a fresh exchange alone, after the peer's Finished, twice, or in pairs; and the sequence-gap family (g = 1..40 datagrams lost in a row, then replays "
            "of the post-gap, pre-gap, older and late in-window records). Suites PSK-CBC (0x008c, 0x00ae), RSA-CBC/GCM (0x002f, 0x009c), ECDHE-RSA-CBC/GCM (0xc013, 0xc02f) x "
            "DTLS 1.0/1.2 x PMTU 1500/600/400 (256 for PSK). distinct_nontrivial = distinct (version, suite, PMTU, handshake kind, fates actually consumed, spurious events) for "
            "schedules and distinct (version, suite, PMTU, kind, establishment, mode, record identity (direction, epoch, sequence, datagram?), second record, position) or "
            "(…, gap, variant, direction) for replays.")
    return vflib.std_run(ctx, st, "fault_enumeration", rule,
        ["the transport drops, duplicates, delays and reorders whole datagrams but never forges, truncates or coalesces them (forgery is C02/C08)",
         "timers are logical: a retransmission timer fires only in a round with an empty network (reference-application discipline: server session created on first datagram, "
         "completed client never times out, resumed-complete server never resends), except in the explicitly generated spurious-timeout class",
         "rehandshakes are compiled out in this configuration, so 'previous epoch' means epoch 0 and the epoch of a superseded (retransmitted) Finished",
         "PMTU 256 is only exercised with PSK suites: a 2048-bit RSA ClientKeyExchange/ServerKeyExchange/CertificateVerify does not fit one 256-byte datagram and the library answers internal_error by design",
         "an application datagram that the schedule itself delays across rounds carries no delivery obligation (a record of a superseded epoch may be discarded); at-most-once still applies"],
        min_nontrivial=2000)
