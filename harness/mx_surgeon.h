/* mx_surgeon.h - the "key-holding peer": opens and seals records with libcrypto using keys read
 * from an endpoint's ssl_t (attacker strength 2 in DESIGN.md 2.4). */
#ifndef MX_SURGEON_H
#define MX_SURGEON_H
#include "mx.h"
#include <openssl/evp.h>
#include <openssl/hmac.h>

static int mx13_keylen(uint16_t suite) { return suite == 0x1301 ? 16 : 32; }
static const EVP_CIPHER *mx13_cipher(uint16_t suite) { return suite == 0x1301 ? EVP_aes_128_gcm() : suite == 0x1302 ? EVP_aes_256_gcm() : EVP_chacha20_poly1305(); }
static void mx13_nonce(const unsigned char iv[12], unsigned long long seq, unsigned char out[12]) { memcpy(out, iv, 12); for (int i = 0; i < 8; i++) out[11 - i] ^= (unsigned char) (seq >> (8 * i)); }
static unsigned long long mx_seq8(const unsigned char s[8]) { unsigned long long v = 0; for (int i = 0; i < 8; i++) v = (v << 8) | s[i]; return v; }

/* seal inner (content || type byte already appended by caller) -> rec (5 + il + 16). outerType normally 23 */
static int mx13_seal(uint16_t suite, const unsigned char *key, const unsigned char *iv, unsigned long long seq,
                     const unsigned char *inner, int il, int outerType, unsigned char *rec)
{
    unsigned char n[12]; int l = 0, l2 = 0;
    rec[0] = (unsigned char) outerType; rec[1] = 3; rec[2] = 3; rec[3] = (unsigned char) ((il + 16) >> 8); rec[4] = (unsigned char) (il + 16);
    mx13_nonce(iv, seq, n);
    EVP_CIPHER_CTX *x = EVP_CIPHER_CTX_new();
    EVP_EncryptInit_ex(x, mx13_cipher(suite), NULL, NULL, NULL);
    EVP_CIPHER_CTX_ctrl(x, EVP_CTRL_AEAD_SET_IVLEN, 12, NULL);
    EVP_EncryptInit_ex(x, NULL, NULL, key, n);
    unsigned char aad[5] = { 23, 3, 3, rec[3], rec[4] };   /* the AAD a conforming sender uses */
    EVP_EncryptUpdate(x, NULL, &l, aad, 5);
    EVP_EncryptUpdate(x, rec + 5, &l, inner, il);
    EVP_EncryptFinal_ex(x, rec + 5 + l, &l2);
    EVP_CIPHER_CTX_ctrl(x, EVP_CTRL_AEAD_GET_TAG, 16, rec + 5 + il);
    EVP_CIPHER_CTX_free(x);
    return 5 + il + 16;
}
/* open rec (with 5-byte header) -> out; returns inner length (content+type+padding) or -1 */
static int mx13_open(uint16_t suite, const unsigned char *key, const unsigned char *iv, unsigned long long seq,
                     const unsigned char *rec, int reclen, unsigned char *out)
{
    int ctl = reclen - 5 - 16, l = 0, l2 = 0; unsigned char n[12];
    if (ctl < 0) return -1;
    mx13_nonce(iv, seq, n);
    EVP_CIPHER_CTX *x = EVP_CIPHER_CTX_new();
    EVP_DecryptInit_ex(x, mx13_cipher(suite), NULL, NULL, NULL);
    EVP_CIPHER_CTX_ctrl(x, EVP_CTRL_AEAD_SET_IVLEN, 12, NULL);
    EVP_DecryptInit_ex(x, NULL, NULL, key, n);
    EVP_DecryptUpdate(x, NULL, &l, rec, 5);
    EVP_DecryptUpdate(x, out, &l, rec + 5, ctl);
    EVP_CIPHER_CTX_ctrl(x, EVP_CTRL_AEAD_SET_TAG, 16, (void *) (rec + 5 + ctl));
    int ok = EVP_DecryptFinal_ex(x, out + l, &l2);
    EVP_CIPHER_CTX_free(x);
    return ok > 0 ? ctl : -1;
}
#endif
