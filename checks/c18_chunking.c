/* C18 - TLS behaviour depends on the bytes received, not on how they are chunked.
 *
 * Metamorphic monitor.  For each scenario a recording run (both endpoints, flight at a time)
 * yields each direction's byte stream plus, for every byte, how much output the receiving
 * endpoint had produced when that byte was delivered (causality bound).  Then each endpoint is
 * re-run ALONE, in a child fork()ed from the same parent snapshot (identical process-global
 * state, entropy pinned per endpoint, virtual clock), against the recorded peer stream under many
 * partitions of the input into receive calls and many partial-send patterns; a byte is never
 * delivered earlier, relative to the endpoint's own output, than in the recording.  The normalised
 * trace (event sequence, delivered plaintext, emitted bytes) must equal the reference trace.
 *
 * MatrixSSL peers never emit TLS 1.3 compatibility ChangeCipherSpec records, HelloRequest or a
 * renegotiation ClientHello, so the recording run also plays the part of a conforming non-MatrixSSL
 * peer / middlebox ("augmented" scenarios): while a flight is moved from the sender to the receiver,
 * records such a peer may legally send are spliced into the stream
 *   - TLS 1.3: 1 or 2 change_cipher_spec records (14 03 03 00 01 01) at every record boundary
 *     between the first ClientHello / ServerHello / HelloRetryRequest and the sender's Finished;
 *   - TLS 1.3: [CCS x n][alert] in place of the sender's protected flight, the alert in plaintext or
 *     sealed under the sender's handshake traffic key, warning close_notify or fatal;
 *   - TLS <= 1.2: an authentic HelloRequest (server) or renegotiation ClientHello (client), sealed
 *     with the sender's current write state by mx_seal_as() before / between / after its
 *     application data records (the sender's own alone re-runs seal the same records at the same
 *     points, so their sequence numbers advance exactly as in the recording).
 *   - TLS <= 1.2: application data pipelined directly behind the Finished of the side that finishes FIRST (MatrixSSL itself waits for the
 *     peer's Finished): the client's first records right behind [ClientKeyExchange][CCS][Finished] of a full handshake (TLS False Start,
 *     RFC 7918; server-side support is compiled in by default) and, in resumed handshakes, the server's first records behind
 *     [ServerHello][CCS][Finished].  The records are sealed with the sender's write state by mx_seal_as() as soon as its Finished is encoded.
 * The recording run and every alone re-run see the same augmented stream; the oracle is unchanged. */
#include "mx_surgeon.h"
#include <sys/mman.h>
#include <limits.h>

enum { BAD_NONE = 0, BAD_CA, BAD_NAME };
enum { AUG_NONE = 0, AUG_CCS_ALL, AUG_CCS_TYP, AUG_CCS_ONE, AUG_ABORT, AUG_HREQ, AUG_RENEG, AUG_PIPE };
typedef struct {
    char name[72]; int ver; uint16_t suite; int clientAuth, resumed, ticket, bad;
    int hrr, early;       /* TLS 1.3 flavours: HelloRetryRequest (client's first share is for a group the server lacks), accepted 0-RTT data */
    int light;            /* small application payloads: the scenario is about the handshake / the spliced records */
    int aug, n;           /* augmentation kind; number of CCS records per position */
    int dir, ord;         /* AUG_CCS_ONE: direction (0 = client->server) and ordinal of the legal position; AUG_ABORT: direction of the alert */
    int prot, lvl, desc;  /* AUG_ABORT: sealed under the handshake traffic key or plaintext; alert level / description */
    int athello;          /* AUG_ABORT: replace the first record after the first one whatever its type (ServerHello after HelloRetryRequest) */
    int slots;            /* AUG_HREQ / AUG_RENEG: bit i = before the sender's application record i, bit 3 = after the last */
    int pipe;             /* AUG_PIPE: number of application records (1..3) the first finisher sends right behind its Finished */
    int roles;            /* roles to re-run alone: bit MX_CLIENT / bit MX_SERVER */
} scn_t;
static scn_t scns[440]; static int nscn;
static scn_t *add(const char *n, int v, uint16_t s, int ca, int res, int tk, int bad)
{
    scn_t *x = &scns[nscn++]; memset(x, 0, sizeof *x); snprintf(x->name, sizeof x->name, "%s", n);
    x->ver = v; x->suite = s; x->clientAuth = ca; x->resumed = res; x->ticket = tk; x->bad = bad; x->roles = 3;
    return x;
}
static scn_t *derive(const scn_t *base, const char *fmt, ...)
{
    scn_t *x = &scns[nscn++]; *x = *base; x->light = 1; char suf[48]; va_list ap; va_start(ap, fmt); vsnprintf(suf, sizeof suf, fmt, ap); va_end(ap);
    snprintf(x->name, sizeof x->name, "%s+%s", base->name, suf);
    return x;
}
#define MAXORD_C 5
#define MAXORD_S 7
static void build_scenarios(void)
{
    add("rsa-cbc", MX_TLS11, 0x002f, 0, 0, 0, 0);
    add("ecdhe-rsa-gcm", MX_TLS12, 0xc02f, 0, 0, 0, 0);
    add("psk-cbc256", MX_TLS12, 0x00ae, 0, 0, 0, 0);
    add("rsa-gcm-clientauth", MX_TLS12, 0x009c, 1, 0, 0, 0);
    add("rsa-cbc-resumed", MX_TLS12, 0x003c, 0, 1, 0, 0);
    add("ecdhe-ecdsa-ticket", MX_TLS12, 0xc02b, 0, 1, 1, 0);
    add("aes128gcm", MX_TLS13, 0x1301, 0, 0, 0, 0);
    add("chacha-clientauth", MX_TLS13, 0x1303, 1, 0, 0, 0);
    add("aes256gcm-resumed", MX_TLS13, 0x1302, 0, 1, 0, 0);
    add("untrusted-ca", MX_TLS12, 0xc02f, 0, 0, 0, BAD_CA);
    add("untrusted-ca", MX_TLS13, 0x1301, 0, 0, 0, BAD_CA);
    add("wrong-name", MX_TLS12, 0x003c, 0, 0, 0, BAD_NAME);
    if (vf_thorough) for (int v = MX_TLS11; v <= MX_TLS13; v++) for (int i = 0; i < MX_NSUITES; i++) if (mx_suite_ok_for(&mx_suites[i], v)) add(mx_suites[i].name, v, mx_suites[i].id, (i % 3) == 1 && mx_suites[i].auth != MX_AUTH_PSK, (i % 4) == 2, 0, 0);

    /* ---- TLS 1.3 flavours MatrixSSL produces itself but the list above lacked ---- */
    scn_t t13[5]; int n13 = 0;
    { scn_t *x = add("aes128gcm-hrr", MX_TLS13, 0x1301, 0, 0, 0, 0); x->hrr = 1; x->light = 1; t13[n13++] = *x; }
    { scn_t *x = add("aes128gcm-early", MX_TLS13, 0x1301, 0, 1, 0, 0); x->early = 1; x->light = 1; t13[n13++] = *x; }
    { scn_t b; memset(&b, 0, sizeof b); b.ver = MX_TLS13; b.roles = 3;
      snprintf(b.name, sizeof b.name, "aes128gcm"); b.suite = 0x1301; t13[n13++] = b;
      snprintf(b.name, sizeof b.name, "chacha-clientauth"); b.suite = 0x1303; b.clientAuth = 1; t13[n13++] = b;
      snprintf(b.name, sizeof b.name, "aes256gcm-resumed"); b.suite = 0x1302; b.clientAuth = 0; b.resumed = 1; t13[n13++] = b; }

    /* ---- compatibility CCS at the legal positions (RFC 8446 section 5 and appendix D.4) ---- */
    for (int i = 0; i < n13; i++) {
        const scn_t *b = &t13[i]; scn_t *x;
        x = derive(b, "ccs1-everywhere"); x->aug = AUG_CCS_ALL; x->n = 1;
        x = derive(b, "ccs2-everywhere"); x->aug = AUG_CCS_ALL; x->n = 2;
        x = derive(b, "ccs1-typical"); x->aug = AUG_CCS_TYP; x->n = 1;
        int singles = vf_thorough || i == 0 || i == 1 || i == 3;   /* quick: HelloRetryRequest, early data, client authentication */
        if (singles) for (int d = 0; d < 2; d++) for (int o = 0; o < (d ? MAXORD_S : MAXORD_C); o++) for (int n = 1; n <= (vf_thorough ? 2 : 1); n++) {
            x = derive(b, "ccs%d@%s%d", n, d ? "s" : "c", o); x->aug = AUG_CCS_ONE; x->n = n; x->dir = d; x->ord = o; x->roles = 1 << (d == 0 ? MX_SERVER : MX_CLIENT);
        }
    }
    /* ---- [CCS x n][alert] instead of the sender's protected flight ---- */
    for (int d = 0; d < 2; d++) for (int prot = 0; prot < 2; prot++) for (int a = 0; a < 2; a++) for (int n = 1; n <= 2; n++) {
        if (n == 2 && !vf_thorough && !(a == 1 && prot == d)) continue;
        scn_t *x = derive(&t13[2], "ccs%d+%s-%s@%s", n, prot ? "protected" : "plaintext", a ? "fatal40" : "close-notify", d ? "s" : "c");
        x->aug = AUG_ABORT; x->n = n; x->dir = d; x->prot = prot; x->lvl = a ? 2 : 1; x->desc = a ? 40 : 0; x->roles = 1 << (d == 0 ? MX_SERVER : MX_CLIENT);
    }
    for (int a = 0; a < 2; a++) {   /* the server refuses the second ClientHello: HelloRetryRequest, CCS, plaintext alert */
        scn_t *x = derive(&t13[0], "ccs1+plaintext-%s@s-after-hrr", a ? "fatal40" : "close-notify");
        x->aug = AUG_ABORT; x->n = 1; x->dir = 1; x->prot = 0; x->lvl = a ? 2 : 1; x->desc = a ? 40 : 0; x->athello = 1; x->roles = 1 << MX_CLIENT;
    }
    /* ---- TLS <= 1.2: authentic HelloRequest / renegotiation ClientHello around the application data ---- */
    scn_t l12[4]; int n12 = 0;
    { scn_t b; memset(&b, 0, sizeof b); b.roles = 3;
      b.ver = MX_TLS12; b.suite = 0x00ae; snprintf(b.name, sizeof b.name, "psk-cbc256"); l12[n12++] = b;
      b.ver = MX_TLS12; b.suite = 0x009c; snprintf(b.name, sizeof b.name, "rsa-gcm"); l12[n12++] = b;
      b.ver = MX_TLS11; b.suite = 0x002f; snprintf(b.name, sizeof b.name, "rsa-cbc"); l12[n12++] = b;
      b.ver = MX_TLS12; b.suite = 0x003c; b.resumed = 1; snprintf(b.name, sizeof b.name, "rsa-cbc-resumed"); l12[n12++] = b; }
    static const int slots_q[] = { 1, 2, 8, 15 }, slots_t[] = { 1, 2, 4, 8, 3, 6, 15 };
    for (int i = 0; i < n12; i++) for (int k = 0; k < (vf_thorough ? 7 : 4); k++) {
        int sl = vf_thorough ? slots_t[k] : slots_q[k];
        if (!vf_thorough && i >= 2 && sl != 2 && sl != 15) continue;
        scn_t *x = derive(&l12[i], "hello-request@%x", sl); x->aug = AUG_HREQ; x->slots = sl;
        if (i < 2 && (sl == 2 || sl == 15 || vf_thorough)) { x = derive(&l12[i], "reneg-client-hello@%x", sl); x->aug = AUG_RENEG; x->slots = sl; }
    }
    /* ---- TLS <= 1.2: application data pipelined right behind the Finished of the side that finishes first ---- */
    scn_t p12[6]; int np = 0;
    { scn_t b; memset(&b, 0, sizeof b); b.roles = 3;
      b.ver = MX_TLS12; b.suite = 0xc02f; snprintf(b.name, sizeof b.name, "ecdhe-rsa-gcm"); p12[np++] = b;
      b.ver = MX_TLS11; b.suite = 0x002f; snprintf(b.name, sizeof b.name, "rsa-cbc"); p12[np++] = b;
      b.ver = MX_TLS12; b.suite = 0x00ae; snprintf(b.name, sizeof b.name, "psk-cbc256"); p12[np++] = b;
      b.ver = MX_TLS12; b.suite = 0x009c; b.clientAuth = 1; snprintf(b.name, sizeof b.name, "rsa-gcm-clientauth"); p12[np++] = b; b.clientAuth = 0;
      b.ver = MX_TLS12; b.suite = 0x003c; b.resumed = 1; snprintf(b.name, sizeof b.name, "rsa-cbc-resumed"); p12[np++] = b;
      b.ver = MX_TLS12; b.suite = 0xc02b; b.resumed = 1; b.ticket = 1; snprintf(b.name, sizeof b.name, "ecdhe-ecdsa-ticket"); p12[np++] = b; }
    for (int i = 0; i < np; i++) for (int n = 1; n <= 3; n++) {
        if (!vf_thorough && (n == 3 || (n == 2 && (i == 2 || i == 3)))) continue;
        scn_t *x = derive(&p12[i], "pipelined-data%d", n); x->aug = AUG_PIPE; x->pipe = n;
        if (!vf_thorough) x->roles = 1 << (x->resumed ? MX_CLIENT : MX_SERVER);   /* quick: the receiver of the pipelined records only */
    }
}
static const char *aug_class(const scn_t *s)
{
    switch (s->aug) { case AUG_CCS_ALL: case AUG_CCS_TYP: case AUG_CCS_ONE: return "compat-ccs"; case AUG_ABORT: return s->prot ? "ccs+protected-alert" : "ccs+plaintext-alert";
                      case AUG_HREQ: return "hello-request"; case AUG_RENEG: return "reneg-client-hello"; case AUG_PIPE: return "pipelined-app-data"; default: return NULL; }
}

/* ---- endpoint driver with a fixed application policy ---- */
#define MAXEV 64
#define STREAMCAP 120000
typedef struct {
    unsigned char out[STREAMCAP]; int outlen;       /* everything the endpoint emitted */
    unsigned char got[STREAMCAP]; int gotlen;       /* delivered plaintext */
    char ev[MAXEV][24]; int nev;
    int stuck, fed;
    int told, untold_at_quiescence; /* completion made known through a return code (HANDSHAKE_COMPLETE or APP_DATA) / not known although complete when the endpoint went idle */
    int hsc_send, hsc_recv; /* how many times matrixSslSentData / the receive path returned MATRIXSSL_HANDSHAKE_COMPLETE */
    int reqclose_on_send;   /* send-side outcome: kept as a flag because its position relative to receive-side events is decided by the caller's own call order */
    char left[240];         /* state the connection leaves behind (see left_behind) */
} trace_t;
typedef struct { int off, len; unsigned char b[1200]; } splice_t;   /* a record the key-holding peer puts in front of raw output offset `off` */
typedef struct {
    mx_ep e; trace_t *t; int role; int sentApp, sentClose; int expectPeerApp;
    const scn_t *s;
    int hs_end;       /* raw output offset at which this endpoint's handshake output ended (INT_MAX until known) */
    splice_t sp[6]; int nsp, spdone;
    int piped;        /* AUG_PIPE: the pipelined records have been sealed */
    int partial;      /* partial-send pattern: 0 = all at once, 1 = one byte at a time, 2 = n-1 then rest, 3 = seeded */
    vf_rng rng;
} drv_t;
static const int app_len_heavy[2][3] = { { 1, 700, 16384 }, { 33, 16384, 5000 } };   /* payloads each role submits on completion */
static const int app_len_light[2][3] = { { 1, 700, 300 }, { 33, 900, 200 } };
static const int early_len[2] = { 100, 50 };
static const int pipe_len[3] = { 29, 300, 1 };
static int pipe_role(const scn_t *s) { return s->resumed ? MX_SERVER : MX_CLIENT; }   /* the side whose Finished goes out first */
static int pipe_total(const scn_t *s, int role) { int t = 0; if (s->aug == AUG_PIPE && role == pipe_role(s)) for (int i = 0; i < s->pipe; i++) t += pipe_len[i]; return t; }
static int app_len(const scn_t *s, int role, int i) { return s->light ? app_len_light[role][i] : app_len_heavy[role][i]; }
static int app_total(const scn_t *s, int role) { return app_len(s, role, 0) + app_len(s, role, 1) + app_len(s, role, 2) + (s->early && role == MX_CLIENT ? early_len[0] + early_len[1] : 0) + pipe_total(s, role); }

static void ev(trace_t *t, const char *fmt, ...) { if (t->nev < MAXEV) { va_list ap; va_start(ap, fmt); vsnprintf(t->ev[t->nev++], 24, fmt, ap); va_end(ap); } }
static void drv_policy(drv_t *d);
static void on_app(mx_ep *e, const unsigned char *pt, uint32 len) { drv_t *d = e->user; d->t->told = 1; if (d->t->gotlen + (int) len < (int) sizeof d->t->got) { memcpy(d->t->got + d->t->gotlen, pt, len); d->t->gotlen += len; } drv_policy(d); }
/* the key-holding peer: an authentic HelloRequest / renegotiation ClientHello in front of the sender's next record */
static void drv_splice(drv_t *d, int slot)
{
    const scn_t *s = d->s; mx_ep *e = &d->e;
    if (!(s->slots & (1 << slot)) || d->nsp >= 6) return;
    unsigned char body[1100]; int bl = 0;
    if (s->aug == AUG_HREQ && d->role == MX_SERVER) { memset(body, 0, 4); bl = 4; }
    else if (s->aug == AUG_RENEG && d->role == MX_CLIENT) {   /* the client's own first ClientHello message serves as the renegotiation ClientHello */
        mx_rec r; if (!mx_rec_at(d->t->out, d->t->outlen, 0, 0, &r) || r.type != 22 || r.len > (int) sizeof body) { ev(d->t, "SPLICEFAIL"); return; }
        memcpy(body, d->t->out + 5, r.len); bl = r.len;
    } else return;
    splice_t *p = &d->sp[d->nsp];
    int n = mx_seal_as(e, 22, body, bl, p->b);
    if (n <= 0 || n > (int) sizeof p->b) { ev(d->t, "SPLICEFAIL"); return; }
    p->len = n; p->off = d->t->outlen + e->ssl->outlen; d->nsp++;
}
/* the side that finishes first does not wait for the peer's Finished: its first application records go out right behind its own */
static void drv_pipeline(drv_t *d)
{
    const scn_t *s = d->s; mx_ep *e = &d->e;
    for (int i = 0; i < s->pipe && d->nsp < 6; i++) {
        unsigned char p[512]; splice_t *sp = &d->sp[d->nsp];
        mx_payload(p, pipe_len[i], 0x0c18, d->role, 20 + i);
        int n = mx_seal_as(e, 23, p, pipe_len[i], sp->b);
        if (n <= 0 || n > (int) sizeof sp->b) { ev(d->t, "SPLICEFAIL"); return; }
        sp->len = n; sp->off = d->t->outlen + e->ssl->outlen; d->nsp++;
    }
}
static void drv_policy(drv_t *d)
{
    mx_ep *e = &d->e;
    if (d->s->aug == AUG_PIPE && !d->piped && d->role == pipe_role(d->s) && !e->dead && (e->ssl->flags & SSL_FLAGS_WRITE_SECURE) && e->ssl->hsState == SSL_HS_FINISHED && e->ssl->outlen > 0) {
        d->piped = 1; drv_pipeline(d);
    }
    /* The endpoint that receives spliced HelloRequest / ClientHello records answers each with an alert of the library's own.  Its application is
       a responder: it writes once the peer's data has been delivered (an event with a position in the input stream) - were it to write on
       learning of the completion, the order of its records and those alerts would hinge on which call reports the completion (see below). */
    int responder = (d->s->aug == AUG_HREQ && d->role == MX_CLIENT) || (d->s->aug == AUG_RENEG && d->role == MX_SERVER);
    if (!d->sentApp && matrixSslHandshakeIsComplete(e->ssl) && !e->dead && (!responder || d->t->gotlen >= d->expectPeerApp)) {
        d->sentApp = 1; d->hs_end = d->t->outlen + e->ssl->outlen; ev(d->t, "COMPLETE");
        for (int i = 0; i < 3; i++) { static unsigned char p[16400]; int l = app_len(d->s, d->role, i); drv_splice(d, i); mx_payload(p, l, 0x0c18, d->role, i); int rc = mx_send(e, p, l); if (rc <= 0) ev(d->t, "ENCFAIL%d", rc); }
        drv_splice(d, 3);
    }
    if (d->sentApp && !d->sentClose && d->t->gotlen >= d->expectPeerApp && !e->dead) {
        d->sentClose = 1; int ol0 = e->ssl->outlen; MX_ENTER(); int crc = matrixSslEncodeClosureAlert(e->ssl); MX_LEAVE(); ev(d->t, "CLOSING"); if (crc < 0) ev(d->t, "CLOSEFAIL%d", crc);
        if (vf_verbose > 1) fprintf(stderr, "  [%s] closure alert rc=%d outlen %d -> %d bFlags=%x\n", e->name, crc, ol0, e->ssl->outlen, e->ssl->bFlags);
    }
}
static void drv_drain(drv_t *d)
{
    mx_ep *e = &d->e; trace_t *t = d->t;
    for (int guard = 0; guard < 200000; guard++) {
        unsigned char *ob; mx_actor = e->id; MX_ENTER(); int n = matrixSslGetOutdata(e->ssl, &ob); MX_LEAVE();
        if (n <= 0) break;
        int m = n;
        if (d->partial == 1) m = 1; else if (d->partial == 2) m = n > 1 ? n - 1 : 1; else if (d->partial == 3) m = 1 + (int) vf_below(&d->rng, n);
        if (t->outlen + m < (int) sizeof t->out) { memcpy(t->out + t->outlen, ob, m); t->outlen += m; }
        MX_ENTER(); int rc = matrixSslSentData(e->ssl, m); MX_LEAVE();
        if (vf_verbose > 1) fprintf(stderr, "  [%s] sent %d of %d -> rc %d (fed so far %d) len=%d\n", e->name, m, n, rc, t->fed, n);
        if (rc == MATRIXSSL_HANDSHAKE_COMPLETE) { e->hsDone = 1; t->hsc_send++; t->told = 1; }
        else if (rc == MATRIXSSL_REQUEST_CLOSE) { e->closeReq = 1; t->reqclose_on_send = 1; }
        else if (rc < 0) { ev(t, "SENTERR%d", rc); e->dead = 1; break; }
        drv_policy(d);
    }
}
/* as mx_process_rc, with one event per alert handed to the application (several may arrive in one receive call) */
static int drv_process_rc(drv_t *d, int rc, unsigned char *pt, uint32 ptl)
{
    mx_ep *e = &d->e;
    for (int guard = 0; guard < 100000; guard++) {
        e->lastrc = rc;
        if (rc == MATRIXSSL_APP_DATA || rc == MATRIXSSL_APP_DATA_COMPRESSED) {
            e->nApp++; e->appBytes += ptl; on_app(e, pt, ptl);
            mx_actor = e->id; e->calls++; MX_ENTER(); rc = matrixSslProcessedData(e->ssl, &pt, &ptl); MX_LEAVE();
            continue;
        }
        if (rc == MATRIXSSL_RECEIVED_ALERT) {
            e->nAlertIn++; if (ptl >= 2) { e->alertLevel = pt[0]; e->alertDesc = pt[1]; ev(d->t, "ALERTIN%d.%d", pt[0], pt[1]); } else ev(d->t, "ALERTIN-len%u", ptl);
            mx_actor = e->id; e->calls++; MX_ENTER(); rc = matrixSslProcessedData(e->ssl, &pt, &ptl); MX_LEAVE();
            continue;
        }
        if (rc == MATRIXSSL_HANDSHAKE_COMPLETE) e->hsDone = 1;
        if (rc == MATRIXSSL_REQUEST_CLOSE) e->closeReq = 1;
        if (rc < 0) e->dead = 1;
        return rc;
    }
    vf_violation("harness:process-loop", "", "ProcessedData loop did not terminate");
    return -1;
}
static void drv_feed(drv_t *d, const unsigned char *b, int n, int coalesce)
{
    mx_ep *e = &d->e; trace_t *t = d->t; int off = 0;
    /* an application stops reading once the session failed; input presented after that is C15's subject, and whether any is
       left over depends on the chunking by construction */
    while (off < n && !e->dead && !(e->ssl->flags & SSL_FLAGS_ERROR)) {
        unsigned char *rb, *pt = NULL; uint32 ptl = 0; mx_actor = e->id;
        MX_ENTER(); int cap = coalesce ? matrixSslGetReadbufOfSize(e->ssl, n - off, &rb) : matrixSslGetReadbuf(e->ssl, &rb); MX_LEAVE();
        if (cap <= 0) { ev(t, "RBUFERR%d", cap); e->dead = 1; break; }
        int m = cap < n - off ? cap : n - off;
        memcpy(rb, b + off, m); off += m; t->fed += m;
        MX_ENTER(); int rc = matrixSslReceivedData(e->ssl, m, &pt, &ptl); MX_LEAVE();
        if (vf_verbose > 1) fprintf(stderr, "  [%s] fed %d -> rc %d (total fed %d)\n", e->name, m, rc, t->fed);
        { int hd = e->hsDone; e->hsDone = 0; rc = drv_process_rc(d, rc, pt, ptl); if (e->hsDone) { t->hsc_recv++; t->told = 1; } e->hsDone |= hd; }
        if (rc < 0) ev(t, "RECVERR%d", rc);
        if (rc == MATRIXSSL_REQUEST_CLOSE) ev(t, "RECV-REQCLOSE");
        drv_policy(d);
    }
}
static mx_cfg scn_cfg(const scn_t *s)
{
    mx_cfg c = { .ver = s->ver, .suite = s->suite, .clientAuth = s->clientAuth, .useTicket = s->ticket, .noCallback = 1 };
    if (s->clientAuth) c.strictCb = 1;
    if (s->early) c.earlyData = 16384;
    if (s->bad == BAD_CA) c.ckeys = mx_keys.srv_psk;     /* a key set without any CA */
    if (s->bad == BAD_NAME) c.expectedName = "wrong.example"; else if (mx_suite_by_id(s->suite)->auth != MX_AUTH_PSK && s->bad != BAD_CA) c.expectedName = "localhost";
    return c;
}
static int drv_open(drv_t *d, const scn_t *s, int role, sslSessionId_t *sid, trace_t *t)
{
    mx_cfg c = scn_cfg(s);
    memset(d, 0, sizeof *d); d->t = t; d->role = role; d->s = s; d->hs_end = INT_MAX; memset(t, 0, sizeof *t);
    int rc;
    if (s->hrr) {   /* as mx_new_server / mx_new_client, plus key-exchange groups: the client's only share is for x25519, the server has secp256r1 alone */
        sslSessOpts_t o; mx_opts(&o, &c, role); mx_ep *e = &d->e; uint16_t gs[1] = { 23 }, gc[2] = { 29, 23 };
        if ((role == MX_SERVER ? matrixSslSessOptsSetKeyExGroups(&o, gs, 1, 1) : matrixSslSessOptsSetKeyExGroups(&o, gc, 2, 1)) < 0) return -1;
        memset(e, 0, sizeof *e); e->role = role; e->ver = c.ver; e->id = role == MX_SERVER ? 1 : 0; e->name = role == MX_SERVER ? "S" : "C"; mx_actor = e->id;
        psCipher16_t cs[1] = { c.suite }; e->sid = sid; MX_ENTER();
        rc = role == MX_SERVER ? matrixSslNewServerSession(&e->ssl, mx_pick_skeys(&c), NULL, &o)
                               : matrixSslNewClientSession(&e->ssl, mx_pick_ckeys(&c), sid, cs, 1, NULL, c.expectedName, NULL, NULL, &o);
        MX_LEAVE(); e->wantTake = 1; if (rc > 0) rc = 0;
    } else rc = role == MX_SERVER ? mx_new_server(&d->e, &c) : mx_new_client(&d->e, &c, sid);
    d->e.user = d; d->e.on_app = on_app; d->expectPeerApp = app_total(s, !role);
    if (rc >= 0 && s->early && role == MX_CLIENT) {   /* 0-RTT: two early records right behind the ClientHello */
        if (matrixSslGetMaxEarlyData(d->e.ssl) <= 0) return -9;
        for (int i = 0; i < 2; i++) { unsigned char p[128]; mx_payload(p, early_len[i], 0x0c18, role, 10 + i); if (mx_send(&d->e, p, early_len[i]) <= 0) return -8; }
    }
    return rc;
}
static void prime(const scn_t *s, sslSessionId_t *sid)
{   /* priming connection inside this child: identical in every child because entropy is pinned */
    mx_cfg c = { .ver = s->ver, .suite = s->suite, .useTicket = s->ticket, .earlyData = s->early ? 16384 : 0 }; mx_conn k;
    if (mx_conn_open(&k, &c, sid) == 0) { mx_conn_run(&k, NULL, NULL, 300); } mx_conn_close(&k);
}

/* ---- shared area for child -> parent results ---- */
typedef struct { int a, b; } grp_t;
typedef struct {
    int ok; int len[2];                       /* stream lengths: [0] client->server */
    unsigned char stream[2][STREAMCAP]; int need[2][STREAMCAP];   /* what each receiver is fed (augmented), and the causality bound of every byte */
    int nins[2]; grp_t ins[2][48];            /* spliced byte ranges of each stream (adjacent splices merged) */
    int npos[2], nccs[2], applied;            /* legal CCS positions met per direction, CCS records spliced, anything spliced at all */
    int muted[2];                             /* the sender of direction d aborted with an alert: its later output never reaches the wire */
    trace_t ref[2];                           /* traces of both endpoints in the recording run */
    trace_t alone;                            /* trace of an alone run */
    int established;
} shared_t;
static shared_t *SH;

static void st_put(int d, const unsigned char *b, int n, int needv, int spliced)
{
    if (n <= 0 || SH->len[d] + n >= STREAMCAP) return;
    int a = SH->len[d];
    memcpy(SH->stream[d] + a, b, n); for (int i = 0; i < n; i++) SH->need[d][a + i] = needv; SH->len[d] += n;
    if (spliced) {
        SH->applied++;
        if (SH->nins[d] && SH->ins[d][SH->nins[d] - 1].b == a) SH->ins[d][SH->nins[d] - 1].b = a + n;
        else if (SH->nins[d] < 48) SH->ins[d][SH->nins[d]++] = (grp_t) { a, a + n };
    }
}
static const unsigned char CCS[6] = { 0x14, 3, 3, 0, 1, 1 };
/* a legal position for compatibility CCS records in direction d, in front of record k (k < 0: behind the only record of the flight) */
static void ccs_position(const scn_t *s, int d, int k, int needv)
{
    int o = SH->npos[d]++, put = 0;
    if (s->aug == AUG_CCS_ALL) put = 1;
    else if (s->aug == AUG_CCS_ONE) put = d == s->dir && o == s->ord;
    else if (s->aug == AUG_CCS_TYP) put = d == 0 ? k == 1 : o == 0;   /* client: in front of its second flight / second ClientHello / early data; server: behind ServerHello or HelloRetryRequest */
    if (put) for (int i = 0; i < s->n; i++) { st_put(d, CCS, 6, needv, 1); SH->nccs[d]++; }
}
/* move the sender's new output into the receiver's stream, playing the conforming foreign peer / middlebox on the way, and deliver it */
static void link_move(const scn_t *s, int d, drv_t *snd, drv_t *rcv, int *pos, int *rix)
{
    trace_t *ts = snd->t; int needv = rcv->t->outlen, from = SH->len[d], p = *pos;
    if (SH->muted[d] || SH->muted[!d]) { *pos = ts->outlen; return; }
    while (p < ts->outlen) {
        while (snd->spdone < snd->nsp && snd->sp[snd->spdone].off <= p) { st_put(d, snd->sp[snd->spdone].b, snd->sp[snd->spdone].len, needv, 1); snd->spdone++; }
        mx_rec r; if (!mx_rec_at(ts->out, ts->outlen, p, 0, &r)) { st_put(d, ts->out + p, ts->outlen - p, needv, 0); p = ts->outlen; break; }
        int k = (*rix)++;
        if (s->ver == MX_TLS13) {
            if (s->aug == AUG_ABORT && d == s->dir && k >= 1 && (r.type == 23 || s->athello)) {
                unsigned char al[64]; int an;
                for (int i = 0; i < s->n; i++) { st_put(d, CCS, 6, needv, 1); SH->nccs[d]++; }
                if (s->prot) { unsigned char inner[3] = { (unsigned char) s->lvl, (unsigned char) s->desc, 21 }; sslSec_t *sc = &snd->e.ssl->sec; an = mx13_seal(snd->e.ssl->cipher->ident, sc->tls13HsWriteKey, sc->tls13HsWriteIv, 0, inner, 3, 23, al); }
                else { al[0] = 21; al[1] = 3; al[2] = 3; al[3] = 0; al[4] = 2; al[5] = (unsigned char) s->lvl; al[6] = (unsigned char) s->desc; an = 7; }
                st_put(d, al, an, needv, 1);
                SH->muted[d] = 1; p = ts->outlen; break;
            }
            /* RFC 8446 section 5: CCS may arrive at any time after the first ClientHello and before the peer's Finished */
            if (k >= 1 && (d == 0 ? p < snd->hs_end : !snd->sentApp)) ccs_position(s, d, k, needv);
        }
        st_put(d, ts->out + p, r.hdr + r.len, needv, 0); p += r.hdr + r.len;
        if (s->ver == MX_TLS13 && k == 0 && p == ts->outlen) ccs_position(s, d, -1, needv);   /* behind a lone first ClientHello / HelloRetryRequest */
    }
    while (snd->spdone < snd->nsp && snd->sp[snd->spdone].off <= p) { st_put(d, snd->sp[snd->spdone].b, snd->sp[snd->spdone].len, needv, 1); snd->spdone++; }
    *pos = ts->outlen;
    if (SH->len[d] > from) drv_feed(rcv, SH->stream[d] + from, SH->len[d] - from, 0);
}

static void record_run(void *a_)
{
    const scn_t *s = a_; sslSessionId_t *sid; matrixSslNewSessionId(&sid, NULL);
    static drv_t C, S; trace_t *tc = &SH->ref[0], *ts = &SH->ref[1];
    if (s->resumed) prime(s, sid);
    if (drv_open(&S, s, MX_SERVER, NULL, ts) < 0 || drv_open(&C, s, MX_CLIENT, sid, tc) < 0) return;
    int posC = 0, posS = 0, rixC = 0, rixS = 0;   /* how much of each endpoint's output has been delivered to the other; records seen per direction */
    for (int round = 0; round < 40; round++) {
        int c0 = posC, s0 = posS;
        drv_drain(&C); link_move(s, 0, &C, &S, &posC, &rixC);
        drv_drain(&S); link_move(s, 1, &S, &C, &posS, &rixS);
        drv_drain(&C);
        if (tc->outlen == posC && ts->outlen == posS && c0 == posC && s0 == posS) break;
    }
    SH->established = C.sentApp && S.sentApp;
    SH->ok = 1;
}

/* chunkers */
enum { CH_FLIGHT = 0, CH_FIXED, CH_RECALIGN, CH_STRADDLE, CH_COALESCE, CH_RANDOM, CH_INSCUT_A, CH_INSCUT_B, CH_INSTRICKLE, CH_SHIFT };
typedef struct { const scn_t *s; int role; int kind, arg, partial; } alone_arg;
static const char *chunk_class(const alone_arg *a)
{
    if (a->partial) return a->partial == 1 ? "partial-send-1" : a->partial == 2 ? "partial-send-n-1" : "partial-send-random";
    switch (a->kind) { case CH_FLIGHT: return "flight"; case CH_FIXED: return a->arg == 1 ? "byte-at-a-time" : a->arg == 5 ? "header-size" : a->arg < 10 ? "tiny-fixed" : "fixed"; case CH_RECALIGN: return "record-aligned";
                       case CH_STRADDLE: return "record-straddling"; case CH_COALESCE: return "coalesced"; case CH_INSCUT_A: case CH_INSCUT_B: return "cut-at-spliced-record"; case CH_INSTRICKLE: return "trickle-behind-spliced-record"; case CH_SHIFT: return "record-shifted";
                       default: return "random"; }
}
/* feed one endpoint its recorded input stream under the partition of `a`, never earlier than causally possible */
static void drive(drv_t *Dp, const alone_arg *a)
{
#define D (*Dp)
    trace_t *t = D.t; int dirIn = a->role == MX_SERVER ? 0 : 1;
    const unsigned char *in = SH->stream[dirIn]; int inlen = SH->len[dirIn]; const int *need = SH->need[dirIn];
    const grp_t *ins = SH->ins[dirIn]; int nins = SH->nins[dirIn];
    D.partial = a->partial; vf_rng_init(&D.rng, vf_seed, a->arg * 7 + a->kind); vf_rng g; vf_rng_init(&g, vf_seed * 3 + 1, a->arg * 13 + a->kind);
    /* record table of the input stream */
    static int rs[4096]; int nr = 0; { int o = 0; mx_rec r; while (nr < 4095 && mx_rec_at(in, inlen, o, 0, &r)) { rs[nr++] = o; o += r.hdr + r.len; } rs[nr] = o; }
    int pos = 0, ri = 0;
    for (int guard = 0; guard < 2000000; guard++) {
        drv_drain(&D);
        /* idle point: everything sent, nothing buffered, waiting for input.  A completed handshake must have been made known by now.  (While the
           start of a further record is buffered the library answers REQUEST_RECV and reports the completion with the call that completes that
           record - APP_DATA, or SentData after the response to it: deferred, not lost.) */
        if (matrixSslHandshakeIsComplete(D.e.ssl) && !t->told && !D.e.dead && D.e.ssl->inlen == 0) t->untold_at_quiescence = 1;
        if (pos >= inlen || D.e.dead || (D.e.ssl->flags & SSL_FLAGS_ERROR)) break;
        int lim = pos; while (lim < inlen && need[lim] <= t->outlen) lim++;
        if (lim == pos) { t->stuck = 1; break; }    /* the endpoint has emitted less than in the recording: next bytes may not be delivered yet */
        int n = lim - pos, coal = 0;
        while (ri + 1 < nr && rs[ri + 1] <= pos) ri++;   /* record containing pos */
        int rstart = rs[ri], rend = ri < nr ? rs[ri + 1] : inlen;
        switch (a->kind) {
        case CH_FLIGHT: break;
        case CH_FIXED: if (n > a->arg) n = a->arg; break;
        case CH_RECALIGN: if (rend > pos && rend - pos < n) n = rend - pos; break;
        case CH_STRADDLE: { /* from a record start: split inside the header (1..5), one byte before / behind the end of the record (6, 7); from inside a record: up to its end */
            int full = rend - rstart, cut = pos != rstart ? rend - pos : a->arg <= 5 ? a->arg : a->arg == 6 ? full - 1 : full + 1;
            if (cut < 1) cut = 1;
            if (cut < n) n = cut;
            break; }
        case CH_SHIFT: { int c = rend + a->arg; if (c > pos && c - pos < n) n = c - pos; break; }   /* every call ends arg bytes into the NEXT record: [rest of record i][first arg bytes of record i+1] */
        case CH_COALESCE: coal = 1; break;
        case CH_RANDOM: n = 1 + (int) vf_below(&g, n > 3000 ? 3000 : n); break;
        case CH_INSCUT_A: case CH_INSCUT_B:   /* whole flights, but one cut at a fixed distance from the start / the end of every spliced group */
            for (int i = 0; i < nins; i++) { int c = (a->kind == CH_INSCUT_A ? ins[i].a : ins[i].b) + a->arg; if (c > pos && c < pos + n) n = c - pos; }
            break;
        case CH_INSTRICKLE: { /* everything up to arg bytes behind a spliced group in one call, then the record behind the group in pieces of 1 (partial 0) .. */
            int step = 1 + a->arg / 100, k = a->arg % 100;
            for (int i = 0; i < nins; i++) {
                int c = ins[i].b + k, e = ins[i].b, j = 0; while (j < nr && rs[j] < ins[i].b) j++; e = j < nr ? rs[j + 1] : inlen;   /* end of the record that follows the group */
                if (c > pos && c < pos + n) n = c - pos;
                else if (pos >= c && pos < e && step < n) n = step;
            }
            break; }
        }
        drv_feed(&D, in + pos, n, coal); pos += n;
    }
    drv_drain(&D);
#undef D
}

/* ---- the state a connection leaves behind ----
 * What the NEXT connection finds is part of the outcome: the client's sslSessionId_t (filled by the library on completion, on NewSessionTicket,
 * cleared on errors) and the server's session-cache entry.  After the stream has been consumed both sessions are deleted and the trace gets
 *   sid=   a digest of the client's sslSessionId_t: idLen, id, masterSecret, cipherId, ticket state / length / bytes / lifetime, every TLS 1.3 PSK
 *          (key, identity, resumption flag, cipher, lifetime, age_add, max_early_data)                                        [client re-runs]
 *   ch=    length and digest of the first flight a NEW client session created with that sslSessionId_t emits, entropy re-seeded to a constant
 *          beforehand (so the bytes depend on the sid alone)                                                                    [client re-runs]
 *   next=  outcome of that follow-up handshake against a new server session in the same child: established, resumed as seen by client and
 *          server.  For this the OTHER endpoint of the scenario is replayed flight-at-a-time against its recorded input first, so that the
 *          server's cache entry / the client's sid exist as after the recorded connection    [probe: scenarios with full payloads; all in thorough] */
static uint64_t fnv(uint64_t h, const void *p, size_t n) { const unsigned char *b = p; for (size_t i = 0; i < n; i++) { h ^= b[i]; h *= 0x100000001b3ULL; } return h; }
static uint64_t sid_digest(const sslSessionId_t *sid, char *brief, size_t cap)
{
    uint64_t h = 0xcbf29ce484222325ULL; int npsk = 0;
    h = fnv(h, &sid->idLen, sizeof sid->idLen); h = fnv(h, sid->id, sid->idLen <= SSL_MAX_SESSION_ID_SIZE ? sid->idLen : SSL_MAX_SESSION_ID_SIZE);
    h = fnv(h, sid->masterSecret, SSL_HS_MASTER_SIZE); h = fnv(h, &sid->cipherId, sizeof sid->cipherId);
    h = fnv(h, &sid->sessionTicketState, sizeof sid->sessionTicketState); h = fnv(h, &sid->sessionTicketLen, sizeof sid->sessionTicketLen);
    if (sid->sessionTicket && sid->sessionTicketLen > 0) h = fnv(h, sid->sessionTicket, sid->sessionTicketLen);
    h = fnv(h, &sid->sessionTicketLifetimeHint, sizeof sid->sessionTicketLifetimeHint);
    for (const psTls13Psk_t *k = sid->psk; k && npsk < 64; k = k->next, npsk++) {
        h = fnv(h, &k->pskLen, sizeof k->pskLen); if (k->pskKey) h = fnv(h, k->pskKey, k->pskLen);
        h = fnv(h, &k->pskIdLen, sizeof k->pskIdLen); if (k->pskId) h = fnv(h, k->pskId, k->pskIdLen);
        h = fnv(h, &k->isResumptionPsk, sizeof k->isResumptionPsk);
        if (k->params) { h = fnv(h, &k->params->cipherId, sizeof k->params->cipherId); h = fnv(h, &k->params->ticketAgeAdd, 4); h = fnv(h, &k->params->ticketLifetime, 4); h = fnv(h, &k->params->maxEarlyData, 4); h = fnv(h, &k->params->majVer, 1); h = fnv(h, &k->params->minVer, 1); }
    }
    snprintf(brief, cap, "id%d/c%04x/t%d.%d/p%d", (int) sid->idLen, (unsigned) sid->cipherId, (int) sid->sessionTicketLen, (int) sid->sessionTicketState, npsk);
    return h;
}
static void left_behind(const alone_arg *a, drv_t *D, drv_t *O, sslSessionId_t *sid, int probe)
{
    const scn_t *s = a->s; trace_t *t = D->t; size_t n = 0, cap = sizeof t->left; t->left[0] = 0;
    if (probe && O && O->e.ssl) { alone_arg oa = { s, !a->role, CH_FLIGHT, 0, 0 }; drive(O, &oa); }
    mx_ep_free(&D->e); if (O) mx_ep_free(&O->e);     /* the server's cache entry gets its master secret when the session is deleted */
    if (a->role == MX_CLIENT) { char b[64]; uint64_t h = sid_digest(sid, b, sizeof b); n += snprintf(t->left + n, cap - n, "sid=%s:%016llx ", b, (unsigned long long) h); }
    if (a->role != MX_CLIENT && !probe) return;
    mx_entropy_seed(0xc18f0110a5ULL);
    mx_cfg c = scn_cfg(s); mx_ep S2, C2; unsigned char *b = NULL;
    if (mx_new_server(&S2, &c) < 0 || mx_new_client(&C2, &c, sid) < 0) { snprintf(t->left + n, cap - n, "next=open-failed"); return; }
    int fl = mx_take(&C2, &b);
    if (a->role == MX_CLIENT) n += snprintf(t->left + n, cap - n, "ch=%d:%016llx ", fl, (unsigned long long) fnv(0xcbf29ce484222325ULL, b, fl > 0 ? fl : 0));
    if (probe) {
        if (fl > 0) mx_feed(&S2, b, fl);
        mx_pump(&S2, &C2);   /* arguments are (first taker, second taker): the server answers first */
        n += snprintf(t->left + n, cap - n, "next=est%d/cres%d/sres%d", mx_both_done(&C2, &S2), C2.ssl ? (int) matrixSslIsResumedSession(C2.ssl) : -1, S2.ssl ? (int) matrixSslIsResumedSession(S2.ssl) : -1);
    }
    free(b); mx_ep_free(&C2); mx_ep_free(&S2);
}
static int probe_wanted(const scn_t *s) { return vf_thorough || !s->light; }

static void alone_run(void *a_)
{
    alone_arg *a = a_; const scn_t *s = a->s; sslSessionId_t *sid; matrixSslNewSessionId(&sid, NULL);
    static drv_t D; trace_t *t = &SH->alone;
    if (s->resumed) prime(s, sid);
    /* keep object creation order identical to the recording run (server first) so that entropy draws line up */
    static drv_t other; static trace_t ot; int probe = probe_wanted(s);
    memset(&other, 0, sizeof other);
    if (a->role == MX_SERVER) { if (drv_open(&D, s, MX_SERVER, NULL, t) < 0) return; if (probe && drv_open(&other, s, MX_CLIENT, sid, &ot) < 0) return; }
    else { if (drv_open(&other, s, MX_SERVER, NULL, &ot) < 0) return; if (drv_open(&D, s, MX_CLIENT, sid, t) < 0) return; }
    drive(&D, a);
    left_behind(a, &D, &other, sid, probe);
    SH->ok = 1;
}

static int run_child(void (*fn)(void *), void *arg, const char *desc)
{
    SH->ok = 0;
    int rc = vf_fork_case(fn, arg, "c18", desc, 300);
    return rc == 0 && SH->ok;
}
static void report(const scn_t *s, const alone_arg *a, const char *what, const char *desc, const char *fmt, ...)
{
    char key[240], msg[800]; va_list ap; va_start(ap, fmt); vsnprintf(msg, sizeof msg, fmt, ap); va_end(ap);
    if (aug_class(s)) snprintf(key, sizeof key, "c18:%s:%s:%s:%s:%s", what, mx_vername[s->ver], a->role ? "server" : "client", aug_class(s), chunk_class(a));
    else snprintf(key, sizeof key, "c18:%s:%s:%s:%s", what, mx_vername[s->ver], a->role ? "server" : "client", chunk_class(a));
    vf_violation(key, desc, "%s | scenario=%s role=%s", msg, s->name, a->role ? "server" : "client");
}
static void evstr(const trace_t *t, char *o, size_t cap) { size_t n = 0; o[0] = 0; for (int i = 0; i < t->nev && n + 26 < cap; i++) n += snprintf(o + n, cap - n, "%s%s", i ? "," : "", t->ev[i]); }
static void dump_stream(int d)
{
    int o = 0, k = 0; mx_rec r; fprintf(stderr, "stream %s (%d bytes):", d ? "s->c" : "c->s", SH->len[d]);
    while (mx_rec_at(SH->stream[d], SH->len[d], o, 0, &r)) { int sp = 0; for (int i = 0; i < SH->nins[d]; i++) if (o >= SH->ins[d][i].a && o < SH->ins[d][i].b) sp = 1; fprintf(stderr, " %s[%d:t%d:%d@%d need%d]", sp ? "*" : "", k++, r.type, r.len, o, SH->need[d][o]); o += r.hdr + r.len; }
    fprintf(stderr, "\n");
}

int main(int argc, char **argv)
{
    vf_init(argc, argv); if (vf_flag("-vv")) vf_verbose = 2; mx_global_init(); mx_keys_load();
    SH = mmap(NULL, sizeof *SH, PROT_READ | PROT_WRITE, MAP_SHARED | MAP_ANONYMOUS, -1, 0);
    build_scenarios();
    long idx = 0, lightidx = 0; static trace_t ref;
    for (int si = 0; si < nscn; si++) {
        const scn_t *s = &scns[si]; char desc[260], sname[100];
        snprintf(sname, sizeof sname, "%s/%s", mx_vername[s->ver], s->name);
        if (vf_case) { char want[100] = ""; sscanf(vf_case, "scn=%99s", want); if (strcmp(want, sname)) continue; }
        /* scenarios with small payloads are cheap: one shard takes all their re-runs, so that the recording is not repeated in every shard */
        int whole = s->light && !vf_case, mine_all = 1;
        if (whole) mine_all = vf_mine(lightidx++);
        if (whole && !mine_all) continue;
        mx_entropy_seed(vf_seed * 1009 + si);
        memset(SH->len, 0, sizeof SH->len); memset(SH->nins, 0, sizeof SH->nins); memset(SH->npos, 0, sizeof SH->npos); memset(SH->nccs, 0, sizeof SH->nccs); memset(SH->muted, 0, sizeof SH->muted); SH->applied = 0; SH->established = 0;
        snprintf(desc, sizeof desc, "scn=%s record", sname);
        if (!run_child(record_run, (void *) s, desc)) { vf_incon("recording run failed for %s", sname); continue; }
        if (s->aug == AUG_CCS_ONE && !SH->applied) { vf_stat("ccs_position_absent", 1); continue; }   /* the ordinal is beyond the last legal position of this scenario */
        if (s->aug && !SH->applied) { vf_incon("nothing was spliced into %s", sname); continue; }
        if (s->aug == AUG_CCS_ALL && (SH->npos[0] > MAXORD_C || SH->npos[1] > MAXORD_S)) vf_incon("%s has %d/%d legal CCS positions: more than the single-position scenarios enumerate", sname, SH->npos[0], SH->npos[1]);
        /* A spliced stream that does not establish flight-at-a-time is not judged here: the partitions below are (a partition that does
           establish disagrees with the reference); if none disagrees, the scenario said nothing */
        int unestablished = s->bad == BAD_NONE && s->aug != AUG_ABORT && !SH->established; long viol0 = vf_nviol;
        if (unestablished && !s->aug) { vf_incon("recording run of %s did not establish", sname); continue; }
        if (vf_verbose) { dump_stream(0); dump_stream(1); }
        if (vf_shard == 0 || whole) {
            vf_stat("scenarios", 1); vf_stat("stream_bytes", SH->len[0] + SH->len[1]);
            if (s->aug) { vf_stat("scenarios_augmented", 1); vf_statf(1, "scenarios_%s", aug_class(s)); vf_stat("spliced_ccs_records", SH->nccs[0] + SH->nccs[1]); vf_stat("spliced_groups", SH->nins[0] + SH->nins[1]); }
        }
        for (int role = 0; role < 2; role++) {
            if (!(s->roles & (1 << role))) continue;
            int dirIn = role == MX_SERVER ? 0 : 1, nins = SH->nins[dirIn], maxg = 0; for (int i = 0; i < nins; i++) if (SH->ins[dirIn][i].b - SH->ins[dirIn][i].a > maxg) maxg = SH->ins[dirIn][i].b - SH->ins[dirIn][i].a;
            /* reference: the endpoint alone, flight at a time; must reproduce what it did in the recording */
            alone_arg ra = { s, role, CH_FLIGHT, 0, 0 };
            snprintf(desc, sizeof desc, "scn=%s role=%d kind=%d arg=%d partial=%d", sname, role, ra.kind, ra.arg, ra.partial);
            if (!run_child(alone_run, &ra, desc)) { vf_incon("reference alone run failed %s role %d", sname, role); continue; }
            memcpy(&ref, &SH->alone, sizeof ref);
            if (ref.outlen != SH->ref[role].outlen || memcmp(ref.out, SH->ref[role].out, ref.outlen)) { vf_incon("alone reference run of %s role %d is not reproducible (%d vs %d output bytes): determinism not achieved", sname, role, ref.outlen, SH->ref[role].outlen); continue; }
            /* the variants */
            static alone_arg v[700]; int nv = 0;
            static const int fx_q[] = { 1, 2, 3, 4, 5, 6, 7, 8, 9, 13, 16, 64, 511, 1000 };
            for (int i = 0; i < 14; i++) v[nv++] = (alone_arg) { s, role, CH_FIXED, fx_q[i], 0 };
            if (vf_thorough) for (int f = 10; f < 60; f++) v[nv++] = (alone_arg) { s, role, CH_FIXED, f, 0 };
            v[nv++] = (alone_arg) { s, role, CH_RECALIGN, 0, 0 };
            for (int c = 1; c <= 7; c++) v[nv++] = (alone_arg) { s, role, CH_STRADDLE, c, 0 };
            for (int c = 1; c <= (vf_thorough ? 9 : 5); c++) v[nv++] = (alone_arg) { s, role, CH_SHIFT, c, 0 };
            v[nv++] = (alone_arg) { s, role, CH_COALESCE, 0, 0 };
            for (int r = 0; r < (vf_thorough ? 40 : 6); r++) v[nv++] = (alone_arg) { s, role, CH_RANDOM, r, 0 };
            for (int p = 1; p <= 3; p++) { v[nv++] = (alone_arg) { s, role, CH_FLIGHT, 0, p }; v[nv++] = (alone_arg) { s, role, CH_FIXED, 7, p }; v[nv++] = (alone_arg) { s, role, CH_RANDOM, 50 + p, p }; }
            if (nins) {   /* every split point around the spliced records */
                int kmax = maxg < 14 ? maxg + 2 : 8; if (s->aug == AUG_PIPE && vf_thorough) kmax = maxg < 420 ? maxg + 2 : 420;   /* thorough: every cut position inside the pipelined records */
                for (int k = -2; k <= kmax; k++) if (k) v[nv++] = (alone_arg) { s, role, CH_INSCUT_A, k, 0 };
                for (int k = -2; k <= 8; k++) if (k) v[nv++] = (alone_arg) { s, role, CH_INSCUT_B, k, 0 };
                static const int tk[] = { 1, 2, 4, 5, 6, 9 };
                for (int i = 0; i < 6; i++) for (int st = 1; st <= 3; st += 2) v[nv++] = (alone_arg) { s, role, CH_INSTRICKLE, (st - 1) * 100 + tk[i], 0 };
            }
            for (int vi = 0; vi < nv; vi++) {
                if (whole ? !mine_all : !vf_mine(idx++)) continue;
                alone_arg *a = &v[vi];
                snprintf(desc, sizeof desc, "scn=%s role=%d kind=%d arg=%d partial=%d", sname, role, a->kind, a->arg, a->partial);
                if (vf_case && strcmp(vf_case, desc)) continue;
                vf_stat("cases", 1); if (s->aug) vf_stat("cases_augmented", 1);
                if (!run_child(alone_run, a, desc)) continue;    /* crash/hang already recorded */
                trace_t *t = &SH->alone; char e1[700], e2[700]; evstr(&ref, e1, sizeof e1); evstr(t, e2, sizeof e2);
                vf_distinct("%s|%d|%d|%d|%d", sname, role, a->kind, a->arg, a->partial);
                if (vi == 4 || vi == 16) vf_sample("%s %s chunking=%s(%d) partial=%d: %d bytes in, %d out, events %s", sname, role ? "server" : "client", chunk_class(a), a->arg, a->partial, t->fed, t->outlen, e2);
                if (vf_verbose) { fprintf(stderr, "REF  events %s out=%d got=%d reqclose=%d left [%s]\nTHIS events %s out=%d got=%d reqclose=%d stuck=%d left [%s]\n", e1, ref.outlen, ref.gotlen, ref.reqclose_on_send, ref.left, e2, t->outlen, t->gotlen, t->reqclose_on_send, t->stuck, t->left);
                    int d0 = 0; while (d0 < t->outlen && d0 < ref.outlen && t->out[d0] == ref.out[d0]) d0++; fprintf(stderr, "first diff at %d; this tail:", d0); for (int i = d0; i < t->outlen && i < d0 + 40; i++) fprintf(stderr, " %02x", t->out[i]); fprintf(stderr, "\n"); }
                if (strcmp(e1, e2)) report(s, a, "events-differ", desc, "events [%s] vs reference [%s]", e2, e1);
                /* Which call carries MATRIXSSL_HANDSHAKE_COMPLETE legitimately depends on coalescing (application data in the same
                   buffer implies it), so the counts are recorded only; but an endpoint that goes idle with a completed handshake
                   nobody was told about has lost the event. */
                else if (t->untold_at_quiescence) report(s, a, "completion-never-reported", desc, "handshake complete but neither HANDSHAKE_COMPLETE nor APP_DATA had been returned when the endpoint went idle (send-side notifications %d, receive-side %d)", t->hsc_send, t->hsc_recv);
                else if (t->gotlen != ref.gotlen || memcmp(t->got, ref.got, ref.gotlen)) report(s, a, "delivered-data-differs", desc, "delivered %d bytes vs reference %d", t->gotlen, ref.gotlen);
                else if (t->outlen != ref.outlen || memcmp(t->out, ref.out, ref.outlen)) { int d = 0; while (d < t->outlen && d < ref.outlen && t->out[d] == ref.out[d]) d++; report(s, a, "output-differs", desc, "emitted %d bytes vs reference %d, first difference at offset %d", t->outlen, ref.outlen, d); }
                else if (t->stuck) report(s, a, "output-differs", desc, "endpoint stopped emitting before the reference did (stuck at input offset %d)", t->fed);
                else if (strcmp(t->left, ref.left)) report(s, a, "state-left-behind-differs", desc, "after the same stream: [%s] vs reference [%s]", t->left, ref.left);
                else { vf_stat("traces_equal", 1); if (t->hsc_recv + t->hsc_send != ref.hsc_recv + ref.hsc_send) vf_stat("completion_code_coalesced_with_appdata", 1); }
            }
        }
        if (unestablished && vf_nviol == viol0 && !vf_case) vf_incon("recording run of %s did not establish, and no partition behaved differently", sname);
    }
    mx_keys_free(); matrixSslClose();
    vf_flush();
    return 0;
}
