#!/usr/bin/env python3
"""Shared driver library: sanitizer builds of /repo's working tree, harness
compilation, sharded execution, sanitizer-report keying, known-findings
matching, evidence and replay files."""
import fcntl, hashlib, json, os, re, shutil, subprocess, sys, time, glob

VERIF = os.path.dirname(os.path.dirname(os.path.abspath(__file__)))
REPO = os.environ.get("VERIF_REPO", "/repo")
SCRATCH = os.environ.get("VERIF_SCRATCH", "/var/tmp/verif-build")
NCPU = int(os.environ.get("VERIF_JOBS", str(os.cpu_count() or 4)))
GUARD = "MATRIXSSL_VERIF"

SAN_COMMON = "-g -fno-omit-frame-pointer"
VARIANTS = {
    # name: (CC, EXTRA_CFLAGS for the repository build, flags for harness compile+link)
    "asan": ("gcc", "-O1 %s -fsanitize=address,undefined -fno-sanitize-recover=all" % SAN_COMMON,
             "-O1 %s -fsanitize=address,undefined -fno-sanitize-recover=all" % SAN_COMMON),
    "tsan": ("gcc", "-O1 %s -fsanitize=thread" % SAN_COMMON, "-O1 %s -fsanitize=thread" % SAN_COMMON),
    "fuzz": ("clang-14", "-O1 %s -fsanitize=fuzzer-no-link,address,undefined -fno-sanitize-recover=undefined -fno-sanitize=object-size" % SAN_COMMON,
             "-O1 %s -fsanitize=fuzzer,address,undefined -fno-sanitize-recover=undefined -fno-sanitize=object-size" % SAN_COMMON),
    "prod": ("gcc", "-g", "-O1 -g"),
}

BUILD_EXT = (".c", ".h", ".S", ".s", ".mk", ".inc", ".in", ".sh", ".pl", ".def")


def log(*a):
    print(*a, file=sys.stderr, flush=True)


def repo_files():
    out = subprocess.run(["git", "-C", REPO, "ls-files", "-co", "--exclude-standard"],
                         capture_output=True, text=True, check=True).stdout.split("\n")
    files = []
    for f in out:
        if not f:
            continue
        top = f.split("/")[0]
        if top in ("doc", "xcode", "testkeys") or f.endswith(".html"):
            continue
        p = os.path.join(REPO, f)
        if not os.path.isfile(p) or os.path.islink(p) and not os.path.exists(p):
            continue
        base = os.path.basename(f)
        if f.endswith(BUILD_EXT) or base.startswith(("Makefile", "GNUmakefile")) or "makefiles/" in f:
            files.append(f)
    return sorted(files)


_tree_hash = None
_use_fd = None


def tree_hash():
    global _tree_hash
    if _tree_hash:
        return _tree_hash
    h = hashlib.sha256()
    for f in repo_files():
        h.update(f.encode() + b"\0")
        with open(os.path.join(REPO, f), "rb") as fh:
            h.update(hashlib.sha256(fh.read()).digest())
    _tree_hash = h.hexdigest()[:16]
    return _tree_hash


class Lock:
    def __init__(self, path):
        os.makedirs(os.path.dirname(path), exist_ok=True)
        self.path = path

    def __enter__(self):
        self.fd = open(self.path, "w")
        fcntl.flock(self.fd, fcntl.LOCK_EX)
        return self

    def __exit__(self, *a):
        fcntl.flock(self.fd, fcntl.LOCK_UN)
        self.fd.close()


def prune_old(keep_hash):
    if not os.path.isdir(SCRATCH):
        return
    for d in os.listdir(SCRATCH):
        p = os.path.join(SCRATCH, d)
        if d == keep_hash or not os.path.isdir(p) or d.startswith("."):
            continue
        # keep nothing from older trees (disk is limited); only remove when no running check uses it
        try:
            with open(os.path.join(SCRATCH, ".use-" + d), "a") as fd:
                fcntl.flock(fd, fcntl.LOCK_EX | fcntl.LOCK_NB)
                shutil.rmtree(p, ignore_errors=True)
                for f in glob.glob(os.path.join(SCRATCH, ".lock-" + d + "*")):
                    os.unlink(f)
            os.unlink(os.path.join(SCRATCH, ".use-" + d))
        except OSError:
            pass


def build(variant):
    """Build /repo's current working tree with the variant's flags in scratch;
    returns the directory of the built copy."""
    th = tree_hash()
    cc, cflags, _ = VARIANTS[variant]
    root = os.path.join(SCRATCH, th)
    dst = os.path.join(root, variant)
    stamp = os.path.join(dst, ".built")
    os.makedirs(SCRATCH, exist_ok=True)
    global _use_fd
    if _use_fd is None:
        _use_fd = open(os.path.join(SCRATCH, ".use-" + th), "a")
        fcntl.flock(_use_fd, fcntl.LOCK_SH)
    with Lock(os.path.join(SCRATCH, ".lock-" + th + "-" + variant)):
        if os.path.exists(stamp):
            return dst
        t0 = time.time()
        prune_old(th)
        shutil.rmtree(dst, ignore_errors=True)
        os.makedirs(dst)
        files = repo_files()
        p = subprocess.run(["rsync", "-a", "--files-from=-", REPO + "/", dst + "/"],
                           input="\n".join(files), text=True, capture_output=True)
        if p.returncode:
            raise SystemExit("HARNESS-ERROR rsync failed: " + p.stderr[-2000:])
        cmd = ["make", "-j%d" % NCPU, "libs", "CC=" + cc, "EXTRA_CFLAGS=%s -D%s" % (cflags, GUARD)]
        p = subprocess.run(cmd, cwd=dst, capture_output=True, text=True)
        if p.returncode:
            sys.stderr.write(p.stdout[-3000:] + p.stderr[-6000:])
            raise SystemExit("HARNESS-ERROR build of variant %s failed" % variant)
        for lib in ("matrixssl/libssl_s.a", "crypto/libcrypt_s.a", "core/libcore_s.a"):
            if not os.path.exists(os.path.join(dst, lib)):
                raise SystemExit("HARNESS-ERROR missing " + lib)
        open(stamp, "w").write(str(time.time()))
        log("[build] %s built in %.0fs at %s" % (variant, time.time() - t0, dst))
    return dst


def inc_flags(dst):
    return ["-I" + dst, "-I" + dst + "/core/include", "-I" + dst + "/core/config",
            "-I" + dst + "/core/osdep/include", "-I" + dst + "/core", "-I" + dst + "/crypto",
            "-I" + dst + "/matrixssl", "-I" + VERIF + "/harness", "-D" + GUARD]


def lib_flags(dst):
    return [dst + "/matrixssl/libssl_s.a", dst + "/crypto/libcrypt_s.a", dst + "/core/libcore_s.a"]


def compile_harness(variant, name, sources, wraps=(), extra_libs=(), extra_cflags=(), cc=None):
    dst = build(variant)
    vcc, _, hflags = VARIANTS[variant]
    cc = cc or vcc
    srcs = [s if os.path.isabs(s) else os.path.join(VERIF, s) for s in sources]
    h = hashlib.sha256()
    deps = srcs + sorted(glob.glob(VERIF + "/harness/*.h")) + sorted(glob.glob(VERIF + "/harness/*.inc"))
    for s in deps:
        h.update(open(s, "rb").read())
    h.update(repr((wraps, extra_libs, extra_cflags, hflags, cc)).encode())
    bindir = os.path.join(dst, "vbin")
    os.makedirs(bindir, exist_ok=True)
    out = os.path.join(bindir, "%s-%s" % (name, h.hexdigest()[:12]))
    with Lock(out + ".lock"):
        if os.path.exists(out):
            return out
        for old in glob.glob(os.path.join(bindir, name + "-*")):
            if not old.endswith(".lock"):
                try:
                    os.unlink(old)
                except OSError:
                    pass
        cmd = [cc] + hflags.split() + ["-w"] + list(extra_cflags) + inc_flags(dst) + srcs + lib_flags(dst)
        if wraps:
            cmd.append("-Wl," + ",".join("--wrap=" + w for w in wraps))
        cmd += list(extra_libs) + ["-lpthread", "-lm", "-o", out + ".tmp"]
        p = subprocess.run(cmd, capture_output=True, text=True)
        if p.returncode:
            sys.stderr.write(p.stderr[-8000:])
            raise SystemExit("HARNESS-ERROR compiling %s failed" % name)
        os.rename(out + ".tmp", out)
    return out


# ---------------------------------------------------------------- reports ---

LIBDIRS = ("/core/", "/crypto/", "/matrixssl/")
FRAME_RE = re.compile(r"^\s*#(\d+) 0x[0-9a-f]+ in (\S+) (\S+)")
ASAN_RE = re.compile(r"ERROR: (AddressSanitizer|LeakSanitizer|UndefinedBehaviorSanitizer): ([A-Za-z0-9_-]+(?: [a-z-]+)?)")
UBSAN_RE = re.compile(r"^(\S+?):(\d+):(\d+): runtime error: (.*)$")
TSAN_RE = re.compile(r"WARNING: ThreadSanitizer: ([^(]+?) \(pid")


GENERIC_ALLOC = {"psBufInit", "psDynBufInit", "psDynBufGrow", "psDynBufAppendSize", "pstm_init_size", "pstm_init", "pstm_grow", "pstm_init_copy",
                 "pstm_init_for_read_unsigned_bin", "psMallocNative", "psCallocNative", "psReallocNative", "psStrdupN", "psBufFromData", "psDynBufDetach"}
SKIP_FN = ("__interceptor_", "__wrap_", "__asan", "__sanitizer", "__lsan", "__ubsan", "__tsan", "operator ")


def _lib_func(frames, variant_root=None, skip_generic=False):
    """innermost frame that belongs to the library under test: built under the scratch tree, or
    (crypto/ and core/ are compiled with relative paths) a relative source path."""
    for fn, path in frames:
        if fn.startswith(SKIP_FN):
            continue
        if "/verif/harness/" in path or "/verif/checks/" in path or "/verif/gen/" in path:
            continue
        if skip_generic and fn in GENERIC_ALLOC:
            continue
        if ("verif-build" in path or SCRATCH in path) and any(d in path for d in LIBDIRS):
            return fn
        if not path.startswith("/") and not path.startswith("(") and (".c:" in path or ".h:" in path):
            return fn
    return None


def norm_msg(m):
    m = re.sub(r"0x[0-9a-f]+", "N", m)
    m = re.sub(r"-?\d+", "N", m)
    return m.strip()


def sanitizer_keys(text):
    """Return list of (key, excerpt) found in a sanitizer stderr dump."""
    out = []
    lines = text.split("\n")
    i = 0
    while i < len(lines):
        ln = lines[i]
        m = UBSAN_RE.match(ln.strip())
        if m:
            f = os.path.basename(m.group(1))
            frames = []
            j = i + 1
            while j < len(lines) and FRAME_RE.match(lines[j]):
                mm = FRAME_RE.match(lines[j])
                frames.append((mm.group(2), mm.group(3)))
                j += 1
            fn = _lib_func(frames) or (frames[0][0] if frames else f)
            msg = norm_msg(m.group(4))
            msg = re.sub(r"type '.*?'", "T", msg)
            out.append(("ubsan:%s:%s" % (fn, msg.replace(" ", "-")[:60]), "\n".join(lines[i:j][:12])))
            i = j
            continue
        m = ASAN_RE.search(ln)
        if m:
            tool, kind = m.group(1), m.group(2).split()[0]
            j = i + 1
            frames = []
            blocks = []
            while j < len(lines) and not ASAN_RE.search(lines[j]) and not UBSAN_RE.match(lines[j].strip()):
                mm = FRAME_RE.match(lines[j])
                if mm:
                    frames.append((mm.group(2), mm.group(3)))
                elif frames:
                    blocks.append(frames)
                    frames = []
                j += 1
            if frames:
                blocks.append(frames)
            if tool == "LeakSanitizer":
                seen = set()
                for b in blocks:
                    fn = _lib_func(b, skip_generic=True) or _lib_func(b) or (b[0][0] if b else "?")
                    if fn not in seen:
                        seen.add(fn)
                        out.append(("lsan:leak:%s" % fn, "\n".join("%s %s" % x for x in b[:8])))
                if not blocks:
                    out.append(("lsan:leak:?", ln))
            else:
                fn = (_lib_func(blocks[0]) if blocks else None) or (blocks[0][0][0] if blocks and blocks[0] else "?")
                out.append(("asan:%s:%s" % (kind, fn), "\n".join(lines[i:min(j, i + 25)])))
            i = j
            continue
        i += 1
    return out


def tsan_reports(text):
    """Split TSan log text into reports; key = kind + unordered pair of innermost lib functions."""
    out = []
    for blk in re.split(r"={18}\n", text):
        m = TSAN_RE.search(blk)
        if not m:
            continue
        kind = m.group(1).strip().replace(" ", "-")
        stacks, cur = [], []
        for ln in blk.split("\n"):
            mm = FRAME_RE.match(ln)
            if mm:
                cur.append((mm.group(2), mm.group(3)))
            elif cur:
                stacks.append(cur)
                cur = []
        if cur:
            stacks.append(cur)
        fns = []
        for s in stacks[:2]:
            fns.append(_lib_func(s) or (s[0][0] if s else "?"))
        out.append(("tsan:%s:%s" % (kind, "|".join(sorted(fns))), blk[:3000]))
    return out


# ------------------------------------------------------------- findings ---

def load_findings():
    p = os.environ.get("VERIF_FINDINGS") or os.path.join(VERIF, "known_findings.json")
    if not os.path.exists(p):
        return []
    return json.load(open(p)).get("findings", [])


def match_finding(findings, pid, key):
    for f in findings:
        if f.get("status") != "open" or f.get("property") != pid:
            continue
        pat = f.get("key")
        if pat == key or (f.get("key_regex") and re.fullmatch(f["key_regex"], key)):
            return f
    return None


class Result:
    """Aggregates JSONL records produced by harness shards."""

    def __init__(self, pid):
        self.pid = pid
        self.stats = {}
        self.distinct = set()
        self.samples = []
        self.viol = {}      # key -> record
        self.incon = []
        self.extra = {}

    def add_stat(self, k, v):
        self.stats[k] = self.stats.get(k, 0) + v

    def add_violation(self, key, msg, replay=None):
        if key not in self.viol:
            self.viol[key] = {"key": key, "msg": msg, "replay": replay, "count": 0}
        self.viol[key]["count"] += 1

    def ingest_file(self, path):
        if not os.path.exists(path):
            return
        with open(path, errors="replace") as fh:
            for ln in fh:
                ln = ln.strip()
                if not ln:
                    continue
                try:
                    r = json.loads(ln)
                except Exception:
                    self.incon.append("unparsable record: " + ln[:200])
                    continue
                self.ingest(r)

    def ingest(self, r):
        t = r.get("t")
        if t == "stat":
            self.add_stat(r["k"], r["v"])
        elif t == "max":
            self.stats[r["k"]] = max(self.stats.get(r["k"], 0), r["v"])
        elif t == "dh":
            self.distinct.update(r["v"])
        elif t == "d":
            self.distinct.add(r["k"])
        elif t == "sample":
            if len(self.samples) < 12:
                self.samples.append(r["v"])
        elif t == "viol":
            self.add_violation(r["key"], r.get("msg", ""), r.get("replay"))
        elif t == "crash":
            keys = sanitizer_keys(r.get("stderr", ""))
            case = r.get("case", "")
            if not keys:
                sig = r.get("status")
                keys = [("crash:%s:%s" % (r.get("cls", "case"), sig), r.get("stderr", "")[-1500:])]
            for k, ex in keys:
                self.add_violation(k, ex, r.get("replay") or case)
        elif t == "hang":
            self.add_violation("hang:" + r.get("cls", "case"), "watchdog fired: " + r.get("case", ""), r.get("replay") or r.get("case"))
        elif t == "incon":
            self.incon.append(r.get("msg", ""))


def run_shards(binary, nshards, args, seed, tier, timeout, env=None, outdir=None, result=None, pid="?"):
    """Run `binary --shard i/n --seed S --tier T --out file args...` for all shards in parallel."""
    outdir = outdir or os.path.join(SCRATCH, ".out", "%s-%d" % (pid, os.getpid()))
    shutil.rmtree(outdir, ignore_errors=True)
    os.makedirs(outdir)
    e = dict(os.environ)
    e.setdefault("ASAN_OPTIONS", "abort_on_error=0:detect_leaks=1:allocator_may_return_null=1:handle_abort=1:detect_stack_use_after_return=0:malloc_context_size=12")
    e.setdefault("UBSAN_OPTIONS", "print_stacktrace=1")
    e.setdefault("LSAN_OPTIONS", "exitcode=23")
    if env:
        e.update(env)
    procs = []
    for i in range(nshards):
        of = os.path.join(outdir, "shard%d.jsonl" % i)
        ef = open(os.path.join(outdir, "shard%d.err" % i), "w")
        cmd = [binary, "--shard", "%d/%d" % (i, nshards), "--seed", str(seed), "--tier", tier, "--out", of] + list(args)
        procs.append((i, subprocess.Popen(cmd, stdout=ef, stderr=ef, env=e, cwd=outdir), of, ef))
    res = result or Result(pid)
    deadline = time.time() + timeout
    for i, p, of, ef in procs:
        try:
            rc = p.wait(timeout=max(1, deadline - time.time()))
        except subprocess.TimeoutExpired:
            p.kill()
            p.wait()
            rc = None
            res.incon.append("shard %d exceeded the wall-clock watchdog (%ds)" % (i, timeout))
        ef.close()
        res.ingest_file(of)
        if rc not in (0, None):
            err = open(ef.name, errors="replace").read()
            keys = sanitizer_keys(err)
            if keys:
                for k, ex in keys:
                    res.add_violation(k, ex, "shard %d of %s" % (i, " ".join(args)))
            else:
                res.incon.append("shard %d exited with status %s: %s" % (i, rc, err[-800:]))
    res.extra["outdir"] = outdir
    return res


def finish(pid, tier, seed, level, res, t0, rule, nontrivial, evaluations, min_nontrivial, assumptions, extra_cov=None, keep_out=False):
    """Known-findings matching, VIOLATION / KNOWN-FINDING lines, evidence file, exit code."""
    assert level in ("exploration", "fault_enumeration", "model_checking", "proof", "translation_validation", "other"), level
    findings = load_findings()
    os.makedirs(os.path.join(VERIF, "replays"), exist_ok=True)
    os.makedirs(os.path.join(VERIF, "evidence"), exist_ok=True)
    new, known = [], {}
    for key, v in sorted(res.viol.items()):
        f = match_finding(findings, pid, key)
        if f:
            known.setdefault(f["id"], (f, []))[1].append(key)
        else:
            new.append(v)
    for fid, (f, keys) in sorted(known.items()):
        print("KNOWN-FINDING: property=%s %s [%s] %s" % (pid, fid, ",".join(keys[:3]), f.get("what", "")))
    for v in new:
        rp = os.path.join(VERIF, "replays", "%s-%s.json" % (pid, hashlib.sha1(v["key"].encode()).hexdigest()[:10]))
        json.dump({"property": pid, "key": v["key"], "msg": v["msg"], "replay": v["replay"], "seed": seed, "tier": tier,
                   "tree": tree_hash()}, open(rp, "w"), indent=1)
        print("VIOLATION property=%s replay=%s key=%s" % (pid, rp, v["key"]))
        log("  detail: " + (v["msg"] or "")[:1500])
    cov = {"evaluations": int(evaluations), "distinct_nontrivial": int(nontrivial), "rule": rule,
           "samples": res.samples[:12] or ["(none)"], "stats": res.stats,
           "known_findings_seen": sorted(known.keys()), "violation_keys": [v["key"] for v in new],
           "inconclusive": res.incon[:10], "tree_hash": tree_hash()}
    if extra_cov:
        cov.update(extra_cov)
    ev = {"property_id": pid, "tier": tier, "seed": int(seed), "level": level, "coverage": cov,
          "assumptions": assumptions, "wall_s": round(time.time() - t0, 2), "violations": len(new)}
    # The committed evidence describes the registered commands run against /repo itself: replays and runs against a scratch
    # copy of the repository (seeded-change experiments, maintainers' worktrees) must not overwrite it.
    if os.environ.get("VERIF_NO_EVIDENCE") or os.path.realpath(REPO) != "/repo":
        evpath = os.path.join(SCRATCH, ".out", "evidence-%s-%d.json" % (pid, os.getpid()))
        os.makedirs(os.path.dirname(evpath), exist_ok=True)
    else:
        evpath = os.path.join(VERIF, "evidence", pid + ".json")
    json.dump(ev, open(evpath, "w"), indent=1)
    if not keep_out and res.extra.get("outdir") and not new:
        shutil.rmtree(res.extra["outdir"], ignore_errors=True)
    log("[%s] tier=%s seed=%s evaluations=%d distinct_nontrivial=%d violations=%d known=%d inconclusive=%d wall=%.1fs" % (
        pid, tier, seed, evaluations, nontrivial, len(new), len(known), len(res.incon), time.time() - t0))
    for k in sorted(res.stats):
        log("    %-40s %d" % (k, res.stats[k]))
    if new:
        return 1
    if res.incon:
        for m in res.incon[:5]:
            log("  INCONCLUSIVE: " + m[:500])
        return 2
    if nontrivial < min_nontrivial:
        log("  INCONCLUSIVE: observed only %d distinct non-trivial cases (< %d)" % (nontrivial, min_nontrivial))
        return 2
    return 0


class Ctx:
    def __init__(self, pid, tier, seed, replay=None, keep=False, verbose=False):
        self.pid, self.tier, self.seed, self.replay, self.keep, self.verbose = pid, tier, seed, replay, keep, verbose
        self.t0 = time.time()
        self.thorough = tier == "thorough"


def std_run(ctx, stages, level, rule, assumptions, min_nontrivial=2, nontrivial=None, evaluations=None, post=None, extra_cov=None):
    """stages: list of dicts {variant, name, sources, wraps, libs, shards, args, timeout, env}.
    Each stage binary speaks the vf.h JSONL protocol. Replay: --case <spec> passed to every stage."""
    res = Result(ctx.pid)
    for st in stages:
        binary = compile_harness(st.get("variant", "asan"), st["name"], st["sources"], tuple(st.get("wraps", ())),
                                 tuple(st.get("libs", ())), tuple(st.get("cflags", ())))
        args = list(st.get("args", []))
        shards = st.get("shards", NCPU)
        if ctx.replay:
            rp = json.load(open(ctx.replay)) if os.path.exists(ctx.replay) else {"replay": ctx.replay}
            case = rp.get("replay") or ""
            if st.get("replay_filter") and not st["replay_filter"](case):
                continue
            args += ["--case", case]
            shards = 1
        if ctx.verbose:
            args.append("-v")
        run_shards(binary, shards, args, ctx.seed, ctx.tier, st.get("timeout", 3600 if ctx.thorough else 900),
                   env=st.get("env"), result=res, pid=ctx.pid + "-" + st["name"])
    if post:
        post(res)
    ev = res.stats.get("cases", 0) if evaluations is None else (evaluations(res) if callable(evaluations) else evaluations)
    nt = len(res.distinct) if nontrivial is None else (nontrivial(res) if callable(nontrivial) else nontrivial)
    return finish(ctx.pid, ctx.tier, ctx.seed, level, res, ctx.t0, rule, nt, ev, min_nontrivial if not ctx.replay else 0,
                  assumptions, extra_cov=extra_cov(res) if callable(extra_cov) else extra_cov, keep_out=ctx.keep)
