/* c04_mint.h - credentials with a ground-truth label for the C04 checks (shared by c04_auth.c, where the prover is a
 * MatrixSSL endpoint, and c04_ossl.c, where the prover is OpenSSL and therefore presents ANY chain it is given).
 * Include after mx.h (virtual clock mx_now) with -I gen (certgen.h). */
#ifndef C04_MINT_H
#define C04_MINT_H
#include "certgen.h"

enum { L_GOOD = 0, L_EXPIRED_LEAF, L_NOTYET_LEAF, L_UNTRUSTED, L_SIG_CORRUPT, L_WRONG_NAME, L_ISSUER_NOT_CA, L_UNKNOWN_CRIT, L_EXPIRED_INT, L_SELF_SIGNED, L_WRONG_KEY, L_ANCHOR_PATHLEN, L_INT_PATHLEN, L_NO_TRUST,
       L_N,                                    /* labels a MatrixSSL prover can be asked to present (stage 1) end here */
       /* labels aimed at validation paths that fail with a return code rather than an authStatus; only a foreign prover sends these */
       L_UNTRUSTED_ROOT_SENT = L_N, L_UNTRUSTED_SS_NOKU_1990, L_CA_KU_NO_CERTSIGN, L_V1_INT, L_INT_UNKNOWN_CRIT, L_LEAF_CRIT_EKU, L_INT_MD5, L_INT_SHA1, L_AKI_MISMATCH,
       L_DUP_GOOD, L_DUP_UNTRUSTED, L_ORDER_GOOD, L_ORDER_UNTRUSTED, L_EXTRA_GOOD, L_EXTRA_UNTRUSTED, L_UNRELATED_ANCHOR_APPENDED,
       /* intermediate WITHOUT a basicConstraints extension (RFC 5280 4.2.1.9 / 6.1.4 (k): not a CA whatever its keyUsage says; PKITS 4.6.1) */
       L_INT_NO_BC_KU_CERTSIGN, L_INT_NO_BC_NO_KU, L_INT_NO_BC_NO_KU_1990, L_INT_NO_BC_KU_DIGSIG, L_NALL };
static const char *lname[] = { "good", "expired-leaf", "not-yet-valid-leaf", "untrusted-ca", "signature-corrupt", "wrong-expected-name", "issuer-not-ca", "unknown-critical-extension", "expired-intermediate", "self-signed-unanchored", "wrong-key-proof-of-possession", "anchor-pathlen-exceeded", "intermediate-pathlen-exceeded", "verifier-has-no-trust-anchors",
                               "untrusted-root-sent-along", "untrusted-ca-no-keyusage-1990-sent-along", "ca-keyusage-lacks-keycertsign", "v1-intermediate", "intermediate-unknown-critical-extension", "leaf-critical-eku-without-tls-purpose", "md5-signed-intermediate", "sha1-signed-intermediate", "leaf-signed-by-other-key-aki-mismatch",
                               "duplicate-intermediate", "duplicate-untrusted-root", "chain-in-wrong-order", "untrusted-chain-in-wrong-order", "unrelated-certificate-appended", "untrusted+unrelated-cert-appended", "unrelated-trust-anchor-appended",
                               "intermediate-without-basicconstraints-keyusage-keycertsign", "intermediate-without-basicconstraints-and-keyusage", "intermediate-without-basicconstraints-and-keyusage-dated-1990", "intermediate-without-basicconstraints-keyusage-lacks-keycertsign" };
/* what the label means for the verifier */
enum { V_GOOD = 0,   /* must be accepted */
       V_FAIL,       /* chain validation must fail: completion only through the application's explicit override */
       V_POP,        /* the prover does not hold the leaf's private key: never */
       V_EITHER };   /* all certificates are genuine and a path to the anchor exists, but the list on the wire is not leaf-first-each-certifying-the-previous: accepting and refusing are both defensible */
static int label_verdict(int l) { return l == L_GOOD ? V_GOOD : l == L_WRONG_KEY ? V_POP : (l == L_DUP_GOOD || l == L_ORDER_GOOD || l == L_EXTRA_GOOD) ? V_EITHER : V_FAIL; }
/* chain-shape dimension "the leaf sits under an intermediate CA that is sent along" applies to labels whose defect is in the leaf / the anchor choice */
static int label_allows_via(int l) { return !(l == L_ISSUER_NOT_CA || l == L_EXPIRED_INT || l == L_ANCHOR_PATHLEN || l == L_INT_PATHLEN || l == L_SELF_SIGNED || l == L_NO_TRUST || (l >= L_N && l != L_LEAF_CRIT_EKU && l != L_AKI_MISMATCH)); }

/* ---- certificate callback modes (shared by all stages).  Contract of sslCertCb_t (matrixsslApiTypes.h), identical for every protocol version:
 *      0                          accept: clears whatever alert validation left pending
 *      SSL_ALLOW_ANON_CONNECTION  accept, the peer counts as anonymous
 *      > 0                        that TLS alert is sent, the handshake ends
 *      < 0                        internal error: internal_error alert, the handshake ends */
enum { CB_NONE = 0, CB_STRICT, CB_PERMISSIVE, CB_ANON, CB_N,          /* the ordinary modes: no callback / returns the alert it is shown / returns 0 / returns SSL_ALLOW_ANON_CONNECTION */
       CB_NEG1 = CB_N, CB_NEG2, CB_NEGBIG, CB_OTHER_ALERT, CB_255, CB_NALL };   /* callbacks that say "do not continue" whatever they are shown */
static const char *cbname[] = { "no-callback", "strict-callback", "permissive-callback", "allow-anon-callback",
                                "callback-returns-minus-1", "callback-returns-minus-2", "callback-returns-int32-min", "callback-returns-another-alert", "callback-returns-255" };
#define CB_REFUSES(m) ((m) >= CB_NEG1)
#define CB_OVERRIDES(m) ((m) == CB_PERMISSIVE || (m) == CB_ANON)
static int cb_calls, cb_nonzero, cb_last, cb_chainlen;   /* bookkeeping (single-threaded) */
static void cb_note(psX509Cert_t *c, int32 alert) { cb_calls++; cb_last = alert; if (alert) cb_nonzero++; cb_chainlen = 0; for (; c; c = c->next) cb_chainlen++; }
static int32 cb_strict(ssl_t *ssl, psX509Cert_t *c, int32 alert) { (void) ssl; cb_note(c, alert); return alert; }
static int32 cb_permissive(ssl_t *ssl, psX509Cert_t *c, int32 alert) { (void) ssl; cb_note(c, alert); return 0; }
static int32 cb_anon(ssl_t *ssl, psX509Cert_t *c, int32 alert) { (void) ssl; cb_note(c, alert); return SSL_ALLOW_ANON_CONNECTION; }
static int32 cb_neg1(ssl_t *ssl, psX509Cert_t *c, int32 alert) { (void) ssl; cb_note(c, alert); return -1; }
static int32 cb_neg2(ssl_t *ssl, psX509Cert_t *c, int32 alert) { (void) ssl; cb_note(c, alert); return -2; }
static int32 cb_negbig(ssl_t *ssl, psX509Cert_t *c, int32 alert) { (void) ssl; cb_note(c, alert); return (int32) (-2147483647 - 1); }
static int32 cb_other_alert(ssl_t *ssl, psX509Cert_t *c, int32 alert) { (void) ssl; cb_note(c, alert); return alert == SSL_ALERT_ACCESS_DENIED ? SSL_ALERT_INSUFFICIENT_SECURITY : SSL_ALERT_ACCESS_DENIED; }
static int32 cb_255(ssl_t *ssl, psX509Cert_t *c, int32 alert) { (void) ssl; cb_note(c, alert); return 255; }
static sslCertCb_t cb_fn(int mode)
{
    static const sslCertCb_t f[CB_NALL] = { NULL, cb_strict, cb_permissive, cb_anon, cb_neg1, cb_neg2, cb_negbig, cb_other_alert, cb_255 };
    return f[mode];
}
static void cb_reset(void) { cb_calls = cb_nonzero = cb_last = cb_chainlen = 0; }

#define L_INT_NO_BC(l) ((l) == L_INT_NO_BC_KU_CERTSIGN || (l) == L_INT_NO_BC_NO_KU || (l) == L_INT_NO_BC_NO_KU_1990 || (l) == L_INT_NO_BC_KU_DIGSIG)
#define MINT_MAXCHAIN 6
typedef struct {
    cg_cert chain[MINT_MAXCHAIN]; int nchain;   /* as the prover presents it, leaf first */
    const cg_key *proverKey;                    /* private key the prover holds (the leaf's, except for wrong-key) */
    const cg_key *leafKey;
    cg_cert anchor;                             /* the verifier's only trust anchor (label verifier-has-no-trust-anchors: the caller loads nothing) */
    const char *expected;                       /* name the verifier expects (client verifying a server), or NULL */
} mint_t;
static void mint_free(mint_t *m) { for (int i = 0; i < m->nchain; i++) cg_cert_free(&m->chain[i]); cg_cert_free(&m->anchor); m->nchain = 0; }
static void mint_dup(cg_cert *dst, const cg_cert *src) { *dst = *src; dst->der = (unsigned char *) malloc(src->len); memcpy(dst->der, src->der, src->len); }

/* mint the peer's credentials for one label; 0 = success, 1 = label not expressible with this key type, -1 = failure */
static int mint_der(int leafType, int verifierIsServer, int label, int viaInt, mint_t *out)
{
    long now = mx_now; memset(out, 0, sizeof *out);
    int rootType = leafType == CG_K_ED25519 ? CG_K_P256 : (leafType == CG_K_P256 ? CG_K_P256 : CG_K_RSA2048);
    const cg_key *rootK = cg_key_get(rootType, 0), *otherRootK = cg_key_get(rootType, 3), *intK = cg_key_get(rootType, 1);
    const cg_key *leafK = cg_key_get(leafType, 2), *wrongK = cg_key_get(leafType, 4), *int2K = cg_key_get(rootType, 5);
    if (!rootK || !otherRootK || !intK || !leafK || !wrongK || !int2K) return -1;
    if (label == L_INT_MD5 && rootType != CG_K_RSA2048) return 1;
    cg_spec root, oroot, inter, inter2, leaf, unrel; cg_cert rc = { 0 }, oc = { 0 }, ic = { 0 }, i2c = { 0 }, lc = { 0 }, uc = { 0 };
    /* anchor-pathlen-exceeded: the trust anchor itself says "no intermediate CA below me" and the peer presents one */
    cg_spec_ca(&root, "Verif C04", "c04 root", rootK, NULL, NULL, now, label == L_ANCHOR_PATHLEN ? 0 : -1);
    cg_spec_ca(&oroot, "Verif C04", "c04 other root", otherRootK, NULL, NULL, now, -1);
    cg_spec_ca(&unrel, "Verif C04 elsewhere", "c04 unrelated root", int2K, NULL, NULL, now, -1);
    if (label == L_UNTRUSTED_SS_NOKU_1990) { oroot.ku = 0; oroot.not_before = 631152000L; /* 1990-01-01 */ }
    int underOther = label == L_UNTRUSTED_ROOT_SENT || label == L_UNTRUSTED_SS_NOKU_1990 || label == L_DUP_UNTRUSTED;     /* the leaf's real issuer is the root the verifier does not trust */
    int useInt2 = label == L_INT_PATHLEN || label == L_ORDER_GOOD || label == L_ORDER_UNTRUSTED;
    int useInt = !underOther && (label == L_ISSUER_NOT_CA || label == L_EXPIRED_INT || label == L_ANCHOR_PATHLEN || label == L_INT_PATHLEN || useInt2 || label == L_CA_KU_NO_CERTSIGN || label == L_V1_INT || label == L_INT_UNKNOWN_CRIT
                                 || label == L_INT_MD5 || label == L_INT_SHA1 || L_INT_NO_BC(label) || label == L_DUP_GOOD || label == L_EXTRA_GOOD || (viaInt && label_allows_via(label)));
    if (useInt) {
        cg_spec_ca(&inter, "Verif C04", "c04 intermediate", intK, &root, rootK, now, label == L_INT_PATHLEN ? 0 : -1);
        if (useInt2) cg_spec_ca(&inter2, "Verif C04", "c04 second intermediate", int2K, &inter, intK, now, -1);
        if (label == L_ISSUER_NOT_CA) { inter.bc_ca = 0; }
        if (label == L_EXPIRED_INT) { inter.not_before = now - 400L * 86400; inter.not_after = now - 10L * 86400; }
        if (label == L_CA_KU_NO_CERTSIGN) inter.ku_bits = CG_KU_DIGSIG | CG_KU_CRLSIGN;
        if (label == L_V1_INT) inter.version = 0;
        if (L_INT_NO_BC(label)) { inter.bc = 0;                                           /* v3, every other extension as a CA would carry it; only basicConstraints is absent */
            if (label == L_INT_NO_BC_NO_KU || label == L_INT_NO_BC_NO_KU_1990) inter.ku = 0;
            if (label == L_INT_NO_BC_NO_KU_1990) inter.not_before = 631152000L;           /* 1990-01-01: older than RFC 3280, the age up to which the library tolerates a missing keyUsage */
            if (label == L_INT_NO_BC_KU_DIGSIG) inter.ku_bits = CG_KU_DIGSIG | CG_KU_CRLSIGN; }
        if (label == L_INT_UNKNOWN_CRIT) inter.unk = 2;
        if (label == L_INT_MD5) inter.sigalg = CG_RSA_MD5;
        if (label == L_INT_SHA1) inter.sigalg = rootType == CG_K_RSA2048 ? CG_RSA_SHA1 : CG_ECDSA_SHA1;
    }
    long leafNotBefore = label == L_EXPIRED_INT ? now - 400L * 86400 : 0;
    const char *host = verifierIsServer ? "client.c04.test" : "server.c04.test";
    const cg_spec *isp = underOther ? &oroot : useInt2 ? &inter2 : useInt ? &inter : &root; const cg_key *ik = underOther ? otherRootK : useInt2 ? int2K : useInt ? intK : rootK;
    cg_spec_leaf(&leaf, "Verif C04", host, leafK, isp, ik, now);
    if (leafNotBefore) leaf.not_before = leafNotBefore;
    switch (label) {
    case L_EXPIRED_LEAF: leaf.not_before = now - 400L * 86400; leaf.not_after = now - 10L * 86400; break;
    case L_NOTYET_LEAF: leaf.not_before = now + 10L * 86400; leaf.not_after = now + 400L * 86400; break;
    case L_SIG_CORRUPT: leaf.sigmode = CG_SM_FLIP; leaf.flip_bit = 77; break;
    case L_UNKNOWN_CRIT: leaf.unk = 2; break;
    case L_NO_TRUST: break;                /* an ordinary leaf under a root the verifier does not have: the verifier has no trust anchor at all (self-signed variant: L_SELF_SIGNED with the wrong anchor) */
    case L_SELF_SIGNED: leaf.issuer = leaf.subject; leaf.signer = leafK; leaf.aki = 0; break;
    case L_LEAF_CRIT_EKU: leaf.eku_mask = CG_EKU_CODE | CG_EKU_EMAIL; leaf.eku_crit = 1; break;
    case L_AKI_MISMATCH: leaf.signer = otherRootK; memcpy(leaf.akid, otherRootK->skid, 20); break;     /* names the claimed issuer, is signed (correctly) by another CA key and says so in its authorityKeyIdentifier */
    default: break; }
    if (cg_make_cert(&root, &rc) || cg_make_cert(&oroot, &oc) || cg_make_cert(&unrel, &uc) || cg_make_cert(&leaf, &lc) || (useInt && cg_make_cert(&inter, &ic)) || (useInt2 && cg_make_cert(&inter2, &i2c))) return -1;
    int n = 0; mint_dup(&out->chain[n++], &lc);
    if (label == L_ORDER_GOOD || label == L_ORDER_UNTRUSTED) { mint_dup(&out->chain[n++], &ic); mint_dup(&out->chain[n++], &i2c); }       /* correct would be leaf, second intermediate, intermediate */
    else { if (useInt2) mint_dup(&out->chain[n++], &i2c); if (useInt) mint_dup(&out->chain[n++], &ic); }
    if (label == L_DUP_GOOD) mint_dup(&out->chain[n++], &ic);
    if (underOther) mint_dup(&out->chain[n++], &oc);
    if (label == L_DUP_UNTRUSTED) mint_dup(&out->chain[n++], &oc);
    if (label == L_EXTRA_GOOD || label == L_EXTRA_UNTRUSTED) mint_dup(&out->chain[n++], &uc);
    if (label == L_UNRELATED_ANCHOR_APPENDED) mint_dup(&out->chain[n++], &oc);
    out->nchain = n;
    out->leafKey = leafK; out->proverKey = label == L_WRONG_KEY ? wrongK : leafK;
    mint_dup(&out->anchor, label == L_UNTRUSTED || label == L_ORDER_UNTRUSTED || label == L_EXTRA_UNTRUSTED || label == L_UNRELATED_ANCHOR_APPENDED ? &oc : &rc);
    out->expected = verifierIsServer ? NULL : (label == L_WRONG_NAME ? "other.c04.test" : host);
    cg_cert_free(&rc); cg_cert_free(&oc); cg_cert_free(&uc); cg_cert_free(&lc); if (useInt) cg_cert_free(&ic); if (useInt2) cg_cert_free(&i2c);
    return 0;
}
#endif
