/* framework self-test: exercises every record type of vf.h */
#include "vf.h"
#include "crypto/cryptoApi.h"
static void case_fn(void *arg) {
    long i = (long) arg;
    vf_stat("cases", 1);
    vf_distinct("case-%ld", i % 50);
    if (i == 7 && vf_flag("--boom")) { char *p = malloc(4); p[4 + (i & 1)] = 1; free(p); }
    if (i == 9 && vf_flag("--ub")) { int x = 0x7fffffff; volatile int y = x + (int) i; (void) y; }
    if (i == 11 && vf_flag("--hang")) for (;;) ;
    if (i == 13 && vf_flag("--viol")) vf_violation("smoke:bad", "13", "case %ld is bad", i);
}
int main(int argc, char **argv) {
    vf_init(argc, argv);
    psCryptoOpen(PSCRYPTO_CONFIG);
    for (long i = 0; i < 200; i++) { if (!vf_mine(i)) continue; char cs[32]; snprintf(cs, sizeof cs, "%ld", i); if (vf_case && atol(vf_case) != i) continue; vf_fork_case(case_fn, (void *) i, "smoke", cs, 3); }
    vf_sample("shard %d saw cases", vf_shard);
    vf_flush();
    return 0;
}
