import vflib
WRAPS = ("psGetEntropy", "gettimeofday", "time", "clock_gettime")
def run(ctx):
    st = [dict(variant="asan", name="c18", sources=["checks/c18_chunking.c", "harness/mx_wraps.c"], wraps=WRAPS, libs=["-lcrypto"],
               shards=vflib.NCPU, timeout=7200 if ctx.thorough else 1500)]
    rule = ("Each case = one endpoint (client or server) re-run alone, in a child forked from the same parent snapshot with pinned entropy and virtual clock, against the recorded "
            "peer byte stream of a scenario (full / resumed / ticket / client-auth / failing handshakes, TLS 1.3 with HelloRetryRequest and with accepted 0-RTT data, then 3 "
            "application payloads each way and closure) under one partition of the input into receive calls (fixed sizes 1..9,13,16,64,511,1000, record-aligned, 7 "
            "record-straddling cuts, record-shifted = every receive call ends k = 1..5 (thorough 1..9) bytes into the NEXT record, coalesced via GetReadbufOfSize, seeded random) or one partial-send pattern; bytes are never delivered earlier relative to the endpoint's own "
            "output than in the recording. Augmented scenarios: while recording, the harness plays a conforming non-MatrixSSL peer / middlebox and splices into the stream the "
            "records MatrixSSL never emits itself - TLS 1.3 compatibility change_cipher_spec records (1 or 2) at every record boundary between the first ClientHello / "
            "ServerHello / HelloRetryRequest and the sender's Finished (all at once, at the typical positions, and one position at a time, both directions), [CCS x n][alert] in "
            "place of the sender's protected flight (plaintext or sealed under its handshake traffic key; warning close_notify, fatal handshake_failure), and for TLS 1.1/1.2 an "
            "authentic HelloRequest (server) / renegotiation ClientHello (client) sealed with the sender's current write state before / between / after its application records, and "
            "for TLS 1.1/1.2 application data pipelined directly behind the Finished of the side that finishes first (MatrixSSL itself waits for the peer's Finished): 1-2 (thorough "
            "1-3) application records of 29 / 300 / 1 bytes sealed with the sender's write state as soon as its Finished is encoded - the client's False Start data behind "
            "[ClientKeyExchange][CCS][Finished] of full handshakes (ECDHE-RSA-GCM, RSA-CBC TLS 1.1, PSK-CBC, RSA-GCM with client auth) and the server's data behind "
            "[ServerHello][CCS][Finished] of resumed ones (session id, ticket); the receiver of those records is re-run (thorough: both roles). "
            "The recording and every alone re-run see the same augmented stream; on it the same partitions apply plus a cut at every offset -2..+8 around each spliced group and "
            "'everything up to k bytes behind the group in one call, then the next record in 1- or 3-byte pieces' (thorough, pipelined data: a cut at every byte offset inside the "
            "pipelined records, up to 420). The trace (events incl. the level/description of every alert "
            "handed to the application, delivered plaintext, emitted bytes, and the state the connection leaves behind) must equal the flight-at-a-time reference. State left "
            "behind, taken after the stream was consumed and the sessions were deleted: for client re-runs a digest of the sslSessionId_t (idLen, id, masterSecret, cipherId, ticket "
            "state/length/bytes/lifetime, every TLS 1.3 PSK with key, identity and parameters) and length + digest of the first flight a NEW client session created with that "
            "sslSessionId_t emits (entropy re-seeded to a constant first); for scenarios with full payloads (thorough: all) and both roles additionally a probe: the OTHER endpoint "
            "of the scenario is replayed flight-at-a-time in the same child, so that the server's session-cache entry / the client's sslSessionId_t exist as after the recorded "
            "connection, then a follow-up handshake new client(sid) vs new server is run and (established, resumed as seen by client, resumed as seen by server) recorded. The "
            "server (full TLS <= 1.2 handshakes) and the client (resumed handshakes, TLS 1.3) write application data in the same flight as their Finished, so [Finished][data] "
            "coalescing occurs in the streams. distinct_nontrivial = distinct (scenario, role, chunking, partial-send) executed.")
    return vflib.std_run(ctx, st, "exploration", rule,
        ["process-global state is equalised by forking every run from one parent snapshot",
         "state left behind is observed through the client's sslSessionId_t and through a follow-up handshake in the same child; other residue (e.g. the position of the "
         "session in the cache's LRU list) is not observed",
         "DTLS is out of scope of this property (datagram boundaries are semantic)",
         "pipelined application data: after MATRIXSSL_REQUEST_SEND / HANDSHAKE_COMPLETE the harness does not poll matrixSslReceivedData(ssl, 0) for records the library kept "
         "buffered behind the peer's Finished; they are delivered with the next receive call (more input always follows in these scenarios), and only the order of delivered "
         "plaintext, events and emitted bytes is compared, not the call that delivers them",
         "the application stops reading once the session failed (input behind a fatal error is C15's subject)",
         "which call reports HANDSHAKE_COMPLETE may depend on coalescing (APP_DATA implies it); while the start of a further record is buffered the report is deferred to the call "
         "that completes that record - only a completion that is never reported once the endpoint is idle with an empty input buffer is a violation",
         "the application of an endpoint that receives spliced HelloRequest / ClientHello records writes when the peer's data has been delivered, not on learning of the "
         "completion: otherwise the order of its own records and the library's no_renegotiation alerts would depend on which call reports the completion",
         "a spliced stream whose flight-at-a-time recording does not establish is still compared across partitions; it is inconclusive only if no partition disagrees"],
        min_nontrivial=300)
