/* ASN.1 / PEM structure-aware libFuzzer mutator for the C09 parser targets
 * (#included by c09_parsers.c).
 *
 * der_mutate(): parse the input leniently into a TLV tree (descending into
 * constructed types and into OCTET STRING / BIT STRING wrappers whose content
 * is itself well-formed TLV), pick one node and apply one structural edit:
 * mutate content, change tag, change the length *form* (non-minimal long
 * form, indefinite, lying lengths incl. values whose low 16 bits equal the
 * true length to probe psSize_t narrowing), delete / duplicate / transplant
 * subtrees, wrap in nested SEQUENCEs (depth probes), integer and string
 * special values, truncation.  Ancestor lengths are then re-encoded either
 * consistently (3/4) or left stale (1/4).  Two moves are always consistent:
 * "end the input right behind node i, itself shortened by 0..3 octets" (a
 * well-formed object that stops behind a too-short primitive value: a parser
 * that takes a fixed number of octets from a value without looking at its
 * length reads past the exact-size input block), and "repeat a child of a
 * constructed node 8..64 times" (long lists: RDNs of a Name, attributes of
 * an RDN, GeneralNames, revoked entries, extensions - probes fixed-size
 * per-object tables).
 *
 * pem_mutate(): for PEM armoured inputs decode one block's base64 body,
 * der_mutate() it and re-armour, so the DER parsers behind the PEM paths
 * see structured mutations too.
 *
 * Anything that does not parse, and 3/8 of all calls, falls back to
 * LLVMFuzzerMutate.  All randomness derives from libFuzzer's Seed argument.
 */
size_t LLVMFuzzerMutate(uint8_t *Data, size_t Size, size_t MaxSize);

typedef struct
{
    uint32_t s;
} mrng_t;
static uint32_t mr(mrng_t *r)
{
    uint32_t x = r->s;
    x ^= x << 13;
    x ^= x >> 17;
    x ^= x << 5;
    return r->s = x ? x : 0x9e3779b9u;
}
static uint32_t mb(mrng_t *r, uint32_t n)
{
    return n ? mr(r) % n : 0;
}

#define M_MAXN 3000
#define M_CAP  (65536 + 64)
typedef struct
{
    uint32_t off;     /* offset of the tag */
    uint8_t taglen;   /* tag octets */
    uint8_t lenlen;   /* length octets */
    uint8_t pre;      /* 1: BIT STRING wrapper, unused-bits octet counted as header */
    uint8_t indef;
    uint32_t clen;    /* content octets after `pre`, clamped to what is there */
    int32_t parent;
    uint16_t depth;
} mnode_t;
static mnode_t m_nodes[M_MAXN];
static int m_nn;
static uint8_t m_tmp[M_CAP * 2];
static uint8_t m_tmp2[M_CAP];

static size_t m_total(const mnode_t *n)
{
    return (size_t) n->taglen + n->lenlen + n->pre + n->clen + (n->indef ? 0 : 0);
}

/* returns 1 when [s,s+len) is exactly a sequence of TLVs */
static int m_looks_tlv(const uint8_t *b, size_t s, size_t len)
{
    size_t p = s, end = s + len;
    int cnt = 0;
    static const uint8_t ok_first[] = { 0x30, 0x31, 0x02, 0x06, 0x04, 0x03, 0x0a, 0x01, 0xa0, 0xa1, 0xa2, 0xa3, 0x0c, 0x16 };
    if (len < 2 || memchr(ok_first, b[s], sizeof ok_first) == NULL)
    {
        return 0;
    }
    while (p < end)
    {
        size_t l;
        if (end - p < 2 || (b[p] & 0x1f) == 0x1f)
        {
            return 0;
        }
        p++;
        if (b[p] < 0x80)
        {
            l = b[p++];
        }
        else
        {
            unsigned nb = b[p++] & 0x7f, i;
            if (nb == 0 || nb > 3 || end - p < nb)
            {
                return 0;
            }
            for (l = 0, i = 0; i < nb; i++)
            {
                l = (l << 8) | b[p++];
            }
        }
        if (l > end - p)
        {
            return 0;
        }
        p += l;
        if (++cnt > 4096)
        {
            return 0;
        }
    }
    return 1;
}

static void m_parse(const uint8_t *b, size_t s, size_t end, int parent, unsigned depth)
{
    size_t p = s;
    while (p < end && m_nn < M_MAXN)
    {
        mnode_t *n;
        size_t q = p + 1, l, cs, avail;
        unsigned ll = 1, indef = 0, pre = 0;
        int me;
        if (end - p < 2)
        {
            return;
        }
        if ((b[p] & 0x1f) == 0x1f)
        {
            while (q < end && (b[q] & 0x80) && q - p < 4)
            {
                q++;
            }
            q++;
            if (q >= end)
            {
                return;
            }
        }
        if (b[q] < 0x80)
        {
            l = b[q];
        }
        else if (b[q] == 0x80)
        {
            indef = 1;
            l = end - q - 1;
        }
        else
        {
            unsigned nb = b[q] & 0x7f, i;
            if (nb > 4 || end - q - 1 < nb)
            {
                return;
            }
            for (l = 0, i = 0; i < nb; i++)
            {
                l = (l << 8) | b[q + 1 + i];
            }
            ll = 1 + nb;
        }
        cs = q + ll;
        avail = end - cs;
        if (l > avail)
        {
            l = avail;
        }
        me = m_nn++;
        n = &m_nodes[me];
        n->off = (uint32_t) p;
        n->taglen = (uint8_t) (q - p);
        n->lenlen = (uint8_t) ll;
        n->indef = (uint8_t) indef;
        n->parent = parent;
        n->depth = (uint16_t) depth;
        if (depth < 48)
        {
            if (b[p] & 0x20)
            {
                n->pre = 0;
                n->clen = (uint32_t) l;
                m_parse(b, cs, cs + l, me, depth + 1);
            }
            else if (b[p] == 0x04 && m_looks_tlv(b, cs, l))
            {
                n->pre = 0;
                n->clen = (uint32_t) l;
                m_parse(b, cs, cs + l, me, depth + 1);
            }
            else if (b[p] == 0x03 && l >= 3 && b[cs] == 0 && m_looks_tlv(b, cs + 1, l - 1))
            {
                pre = 1;
                n->pre = 1;
                n->clen = (uint32_t) (l - 1);
                m_parse(b, cs + 1, cs + l, me, depth + 1);
            }
        }
        n = &m_nodes[me];
        if (!pre)
        {
            n->pre = 0;
            n->clen = (uint32_t) l;
        }
        p = cs + l;
    }
}

/* DER length octets; form 0 = minimal, 1..4 = long form with that many octets */
static size_t m_enc_len(uint8_t *o, size_t len, unsigned form)
{
    unsigned nb, i;
    if (form == 0)
    {
        if (len < 0x80)
        {
            o[0] = (uint8_t) len;
            return 1;
        }
        nb = len < 0x100 ? 1 : len < 0x10000 ? 2 : len < 0x1000000 ? 3 : 4;
    }
    else
    {
        nb = form;
    }
    o[0] = (uint8_t) (0x80 | nb);
    for (i = 0; i < nb; i++)
    {
        o[1 + i] = (uint8_t) (len >> (8 * (nb - 1 - i)));
    }
    return 1 + nb;
}

static int m_replace(uint8_t *b, size_t *size, size_t max, size_t a, size_t e, const uint8_t *src, size_t L)
{
    size_t nsz;
    if (a > e || e > *size)
    {
        return -1;
    }
    nsz = *size - (e - a) + L;
    if (nsz > max)
    {
        return -1;
    }
    memmove(b + a + L, b + e, *size - e);
    if (L)
    {
        memcpy(b + a, src, L);
    }
    *size = nsz;
    return 0;
}

/* re-encode the lengths of all ancestors of node i after its total size
   changed by delta (headers of ancestors lie before the edit, so their
   recorded offsets stay valid while we walk outwards) */
static void m_fix_ancestors(uint8_t *b, size_t *size, size_t max, int i, long delta)
{
    int a;
    for (a = m_nodes[i].parent; a >= 0 && delta != 0; a = m_nodes[a].parent)
    {
        mnode_t *n = &m_nodes[a];
        uint8_t hdr[8];
        size_t hl;
        long nl;
        if (n->indef)
        {
            continue;
        }
        nl = (long) n->pre + (long) n->clen + delta;
        if (nl < 0)
        {
            nl = 0;
        }
        hl = m_enc_len(hdr, (size_t) nl, 0);
        if (m_replace(b, size, max, n->off + n->taglen, n->off + n->taglen + n->lenlen, hdr, hl) < 0)
        {
            return;
        }
        delta += (long) hl - (long) n->lenlen;
    }
}

/* the input now ends at `*size`, somewhere inside (or at the end of) node i: re-encode the length of
   node i and of every ancestor so that each of them ends exactly there (innermost first: the headers
   of the outer nodes lie before the inner ones, so their recorded offsets stay valid) */
static void m_end_here(uint8_t *b, size_t *size, size_t max, int i)
{
    int a;
    for (a = i; a >= 0; a = m_nodes[a].parent)
    {
        mnode_t *x = &m_nodes[a];
        size_t xcs = (size_t) x->off + x->taglen + x->lenlen;
        uint8_t hdr[8];
        size_t hl, nl;
        if (x->indef || xcs > *size)
        {
            continue;
        }
        nl = *size - xcs;
        hl = m_enc_len(hdr, nl, 0);
        if (m_replace(b, size, max, x->off + x->taglen, xcs, hdr, hl) < 0)
        {
            break;
        }
    }
}

static const uint8_t m_tags[] = { 0x02, 0x03, 0x04, 0x05, 0x06, 0x0c, 0x13, 0x14, 0x16, 0x17, 0x18, 0x1e, 0x30,
                                  0x31, 0xa0, 0xa1, 0xa2, 0xa3, 0x80, 0x81, 0x82, 0x86, 0x87, 0x88, 0x01, 0x0a, 0x1c, 0x1a };
static const uint8_t m_strtags[] = { 0x0c, 0x13, 0x14, 0x16, 0x1e, 0x03, 0x1c, 0x1a };

static size_t der_mutate(uint8_t *b, size_t size, size_t max, mrng_t *r)
{
    int i, consistent;
    mnode_t *n;
    size_t tot, cs;
    long delta = 0;
    unsigned op;

    if (size < 2 || size > M_CAP || max > M_CAP)
    {
        return 0;
    }
    m_nn = 0;
    m_parse(b, 0, size, -1, 0);
    if (m_nn == 0)
    {
        return 0;
    }
    i = (int) mb(r, (uint32_t) m_nn);
    n = &m_nodes[i];
    tot = m_total(n);
    cs = (size_t) n->off + n->taglen + n->lenlen + n->pre;
    consistent = mb(r, 4) != 0;
    op = mb(r, 24);

    switch (op)
    {
    case 0:
    case 1:
    case 2:
    case 3:
    {   /* mutate the content octets, keep own header consistent */
        size_t cl = n->clen, cap, nl, hl;
        uint8_t hdr[8];
        if (cl > M_CAP - 64)
        {
            return 0;
        }
        memcpy(m_tmp2, b + cs, cl);
        cap = cl + 1 + mb(r, 64);
        if (cap > M_CAP)
        {
            cap = M_CAP;
        }
        nl = LLVMFuzzerMutate(m_tmp2, cl, cap);
        memcpy(m_tmp, b + n->off, n->taglen);
        hl = m_enc_len(hdr, nl + n->pre, 0);
        memcpy(m_tmp + n->taglen, hdr, hl);
        if (n->pre)
        {
            m_tmp[n->taglen + hl] = b[cs - 1];
        }
        memcpy(m_tmp + n->taglen + hl + n->pre, m_tmp2, nl);
        if (m_replace(b, &size, max, n->off, n->off + tot, m_tmp, n->taglen + hl + n->pre + nl) < 0)
        {
            return 0;
        }
        delta = (long) (n->taglen + hl + n->pre + nl) - (long) tot;
        break;
    }
    case 4:
    case 5:
        /* tag change */
        switch (mb(r, 3))
        {
        case 0:
            b[n->off] = m_tags[mb(r, sizeof m_tags)];
            break;
        case 1:
            b[n->off] ^= (uint8_t) (1u << mb(r, 8));
            break;
        default:
            b[n->off] = (uint8_t) mr(r);
            break;
        }
        return size;
    case 6:
    case 7:
    case 8:
    {   /* length form games */
        uint8_t hdr[8];
        size_t hl = 0, real = (size_t) n->pre + n->clen;
        unsigned v = mb(r, 12);
        if (v < 3)
        {   /* non-minimal long form, true value */
            hl = m_enc_len(hdr, real, 1 + mb(r, 4));
            if (real >= (1ull << (8 * (hl - 1))) && hl - 1 < 4)
            {
                hl = m_enc_len(hdr, real, 4);
            }
        }
        else if (v == 3)
        {   /* indefinite + end-of-contents */
            static const uint8_t eoc[2] = { 0, 0 };
            if (m_replace(b, &size, max, n->off + tot, n->off + tot, eoc, 2) < 0)
            {
                return 0;
            }
            delta += 2;
            hdr[0] = 0x80;
            hl = 1;
        }
        else
        {   /* lying lengths */
            static const uint32_t lies[] = { 0, 1, 0x7f, 0x80, 0xff, 0x100, 0x7fff, 0x8000, 0xffff, 0x10000, 0x10001,
                                             0xffffff, 0x1000000, 0x7fffffff, 0x80000000u, 0xffffffffu };
            uint32_t val;
            switch (v)
            {
            case 4:
                val = (uint32_t) real + 1 + mb(r, 4);
                break;
            case 5:
                val = real ? (uint32_t) real - 1 - mb(r, real < 4 ? (uint32_t) real : 4) : 1;
                break;
            case 6:
                val = (uint32_t) real + 0x10000u * (1 + mb(r, 3));       /* low 16 bits == true length */
                break;
            case 7:
                val = (uint32_t) real + 0x1000000u * (1 + mb(r, 100));
                break;
            case 8:
                val = (uint32_t) (size - cs) + mb(r, 3);                  /* runs to / past the end of input */
                break;
            default:
                val = lies[mb(r, sizeof lies / sizeof lies[0])];
                break;
            }
            hl = m_enc_len(hdr, val, mb(r, 3) == 0 ? 4 : 0);
            if (val > 0xffffff && hl < 5)
            {
                hl = m_enc_len(hdr, val, 4);
            }
        }
        if (m_replace(b, &size, max, n->off + n->taglen, n->off + n->taglen + n->lenlen, hdr, hl) < 0)
        {
            return 0;
        }
        delta += (long) hl - (long) n->lenlen;
        break;
    }
    case 9:
    case 10:
        /* delete subtree */
        if (m_replace(b, &size, max, n->off, n->off + tot, NULL, 0) < 0)
        {
            return 0;
        }
        delta = -(long) tot;
        break;
    case 11:
    case 12:
    {   /* duplicate subtree 1..3 times */
        unsigned k = 1 + mb(r, 3), j;
        if (tot > M_CAP)
        {
            return 0;
        }
        memcpy(m_tmp2, b + n->off, tot);
        for (j = 0; j < k; j++)
        {
            if (m_replace(b, &size, max, n->off + tot, n->off + tot, m_tmp2, tot) < 0)
            {
                break;
            }
            delta += (long) tot;
        }
        if (delta == 0)
        {
            return 0;
        }
        break;
    }
    case 13:
    case 14:
    {   /* transplant: replace this subtree by a copy of another one */
        mnode_t *o = &m_nodes[mb(r, (uint32_t) m_nn)];
        size_t ot = m_total(o);
        if (o == n || ot > M_CAP)
        {
            return 0;
        }
        memcpy(m_tmp2, b + o->off, ot);
        if (m_replace(b, &size, max, n->off, n->off + tot, m_tmp2, ot) < 0)
        {
            return 0;
        }
        delta = (long) ot - (long) tot;
        break;
    }
    case 15:
    {   /* wrap in k nested SEQUENCEs / SETs / [0]; now and then very deep */
        unsigned k = mb(r, 16) == 0 ? 40 + mb(r, 3000) : 1 + mb(r, 3), j;
        uint8_t *end = m_tmp + sizeof m_tmp, *w = end - tot;
        uint8_t wt = mb(r, 4) == 0 ? (uint8_t) 0xa0 : mb(r, 4) == 0 ? (uint8_t) 0x31 : (uint8_t) 0x30;
        if (tot > M_CAP)
        {
            return 0;
        }
        memcpy(w, b + n->off, tot);
        for (j = 0; j < k; j++)
        {
            uint8_t hdr[8];
            size_t hl = m_enc_len(hdr, (size_t) (end - w), 0);
            if ((size_t) (end - w) + hl + 1 > max || (size_t) (w - m_tmp) < hl + 1)
            {
                break;
            }
            w -= hl;
            memcpy(w, hdr, hl);
            *--w = wt;
        }
        if (m_replace(b, &size, max, n->off, n->off + tot, w, (size_t) (end - w)) < 0)
        {
            return 0;
        }
        delta = (long) (end - w) - (long) tot;
        break;
    }
    case 16:
    {   /* integer / primitive special values */
        static const uint8_t sp[][9] = {
            { 0 }, { 1, 0x00 }, { 1, 0x80 }, { 1, 0xff }, { 1, 0x7f }, { 2, 0x00, 0x80 }, { 2, 0xff, 0xff },
            { 4, 0x7f, 0xff, 0xff, 0xff }, { 4, 0x80, 0x00, 0x00, 0x00 }, { 4, 0xff, 0xff, 0xff, 0xff },
            { 5, 0x00, 0xff, 0xff, 0xff, 0xff }, { 5, 0x01, 0x00, 0x00, 0x00, 0x00 },
            { 8, 0x7f, 0xff, 0xff, 0xff, 0xff, 0xff, 0xff, 0xff }, { 8, 0x80, 0, 0, 0, 0, 0, 0, 0 },
        };
        const uint8_t *s = sp[mb(r, sizeof sp / sizeof sp[0])];
        uint8_t hdr[8];
        size_t hl = m_enc_len(hdr, s[0], 0);
        memcpy(m_tmp, b + n->off, n->taglen);
        memcpy(m_tmp + n->taglen, hdr, hl);
        memcpy(m_tmp + n->taglen + hl, s + 1, s[0]);
        if (m_replace(b, &size, max, n->off, n->off + tot, m_tmp, n->taglen + hl + s[0]) < 0)
        {
            return 0;
        }
        delta = (long) (n->taglen + hl + s[0]) - (long) tot;
        break;
    }
    case 17:
    {   /* string games: change string type, plant NULs, widen to BMP */
        unsigned v = mb(r, 4);
        if (v == 0)
        {
            b[n->off] = m_strtags[mb(r, sizeof m_strtags)];
            return size;
        }
        if (n->clen == 0)
        {
            return 0;
        }
        if (v == 1)
        {
            b[cs + mb(r, n->clen)] = 0;
            return size;
        }
        if (v == 2)
        {
            b[cs + n->clen - 1] = 0;
            return size;
        }
        {
            size_t cl = n->clen > 2000 ? 2000 : n->clen, j, hl;
            uint8_t hdr[8];
            for (j = 0; j < cl; j++)
            {
                m_tmp2[2 * j] = 0;
                m_tmp2[2 * j + 1] = b[cs + j];
            }
            m_tmp[0] = 0x1e;
            hl = m_enc_len(hdr, 2 * cl, 0);
            memcpy(m_tmp + 1, hdr, hl);
            memcpy(m_tmp + 1 + hl, m_tmp2, 2 * cl);
            if (m_replace(b, &size, max, n->off, n->off + tot, m_tmp, 1 + hl + 2 * cl) < 0)
            {
                return 0;
            }
            delta = (long) (1 + hl + 2 * cl) - (long) tot;
        }
        break;
    }
    case 18:
    {   /* truncate the whole input at / inside this node */
        size_t cut = n->off + mb(r, (uint32_t) tot + 1);
        if (cut == 0 || cut >= size)
        {
            return 0;
        }
        delta = (long) cut - (long) size;
        size = cut;
        if (!consistent)
        {
            return size;
        }
        /* shrink the ancestors so that they end exactly at the cut */
        m_end_here(b, &size, max, i);
        return size;
    }
    case 20:
    case 21:
    {   /* end the input right behind this node after shortening its value by k = 0..3 octets; every
           enclosing length is made consistent with the new size. Primitive nodes preferred (the end
           of a constructed node is the end of its last leaf) */
        unsigned t;
        size_t k, cut;
        for (t = 0; t < 4 && ((b[n->off] & 0x20) || n->clen == 0); t++)
        {
            i = (int) mb(r, (uint32_t) m_nn);
            n = &m_nodes[i];
        }
        tot = m_total(n);
        k = mb(r, 4);
        if (k > n->clen)
        {
            k = n->clen;
        }
        cut = (size_t) n->off + tot - k;
        if (cut < 2 || cut > size || (cut == size && k == 0) || cut < (size_t) n->off + n->taglen + n->lenlen)
        {
            return 0;
        }
        size = cut;
        m_end_here(b, &size, max, i);
        return size;
    }
    case 22:
    case 23:
    {   /* repeat this subtree 8..64 times behind itself; children of a constructed node that are
           small enough to fit are preferred */
        unsigned t, k, j;
        for (t = 0; t < 4 && (n->parent < 0 || m_total(n) > 256 || m_total(n) < 2); t++)
        {
            i = (int) mb(r, (uint32_t) m_nn);
            n = &m_nodes[i];
        }
        tot = m_total(n);
        if (n->parent < 0 || tot < 2 || size >= max)
        {
            return 0;
        }
        k = 8 + mb(r, 57);
        if ((size_t) k * tot > max - size)
        {
            k = (unsigned) ((max - size) / tot);
        }
        if (k == 0 || (size_t) k * tot > sizeof m_tmp)
        {
            return 0;
        }
        for (j = 0; j < k; j++)
        {
            memcpy(m_tmp + (size_t) j * tot, b + n->off, tot);
        }
        if (m_replace(b, &size, max, n->off + tot, n->off + tot, m_tmp, (size_t) k * tot) < 0)
        {
            return 0;
        }
        delta = (long) ((size_t) k * tot);
        consistent = 1;
        break;
    }
    default:
    {   /* append a copy of a random subtree at the end of this node's content (grow lists) */
        mnode_t *o = &m_nodes[mb(r, (uint32_t) m_nn)];
        size_t ot = m_total(o), hl;
        uint8_t hdr[8];
        if (ot > M_CAP || n->indef)
        {
            return 0;
        }
        memcpy(m_tmp2, b + o->off, ot);
        if (m_replace(b, &size, max, cs + n->clen, cs + n->clen, m_tmp2, ot) < 0)
        {
            return 0;
        }
        hl = m_enc_len(hdr, (size_t) n->pre + n->clen + ot, 0);
        if (m_replace(b, &size, max, n->off + n->taglen, n->off + n->taglen + n->lenlen, hdr, hl) < 0)
        {
            return 0;
        }
        delta = (long) ot + (long) hl - (long) n->lenlen;
        break;
    }
    }
    if (consistent)
    {
        m_fix_ancestors(b, &size, max, i, delta);
    }
    return size;
}

/* ------------------------------------------------------------------- PEM */

static const char m_b64[] = "ABCDEFGHIJKLMNOPQRSTUVWXYZabcdefghijklmnopqrstuvwxyz0123456789+/";

static size_t m_b64dec(const uint8_t *s, size_t n, uint8_t *o, size_t cap)
{
    uint32_t acc = 0;
    int bits = 0;
    size_t i, k = 0;
    for (i = 0; i < n; i++)
    {
        const char *p;
        if (s[i] == '=' || s[i] == 0)
        {
            break;
        }
        p = memchr(m_b64, s[i], 64);
        if (p == NULL)
        {
            continue;
        }
        acc = (acc << 6) | (uint32_t) (p - m_b64);
        bits += 6;
        if (bits >= 8)
        {
            bits -= 8;
            if (k >= cap)
            {
                return 0;
            }
            o[k++] = (uint8_t) (acc >> bits);
        }
    }
    return k;
}

static size_t m_b64enc(const uint8_t *s, size_t n, uint8_t *o, size_t cap)
{
    size_t i, k = 0, col = 0;
    for (i = 0; i < n; i += 3)
    {
        uint32_t v = (uint32_t) s[i] << 16;
        int rem = (int) (n - i);
        if (rem > 1)
        {
            v |= (uint32_t) s[i + 1] << 8;
        }
        if (rem > 2)
        {
            v |= s[i + 2];
        }
        if (k + 6 > cap)
        {
            return 0;
        }
        o[k++] = (uint8_t) m_b64[(v >> 18) & 63];
        o[k++] = (uint8_t) m_b64[(v >> 12) & 63];
        o[k++] = rem > 1 ? (uint8_t) m_b64[(v >> 6) & 63] : '=';
        o[k++] = rem > 2 ? (uint8_t) m_b64[v & 63] : '=';
        col += 4;
        if (col >= 64)
        {
            o[k++] = '\n';
            col = 0;
        }
    }
    if (col)
    {
        o[k++] = '\n';
    }
    return k;
}

static const uint8_t *m_find(const uint8_t *h, size_t hl, const char *needle)
{
    size_t nl = strlen(needle), i;
    if (hl < nl)
    {
        return NULL;
    }
    for (i = 0; i + nl <= hl; i++)
    {
        if (h[i] == (uint8_t) needle[0] && memcmp(h + i, needle, nl) == 0)
        {
            return h + i;
        }
    }
    return NULL;
}

static size_t pem_mutate(uint8_t *b, size_t size, size_t max, mrng_t *r)
{
    /* collect up to 32 blocks: body = after the BEGIN line up to "-----END" */
    size_t bs[32], be[32], pos = 0, dl, nl, el;
    int nb = 0, k;
    static uint8_t der[M_CAP], enc[M_CAP * 2];

    while (nb < 32 && pos < size)
    {
        const uint8_t *p = m_find(b + pos, size - pos, "-----BEGIN "), *q, *e;
        if (!p)
        {
            break;
        }
        q = m_find(p + 11, size - (size_t) (p + 11 - b), "-----");
        if (!q)
        {
            break;
        }
        q += 5;
        e = m_find(q, size - (size_t) (q - b), "-----END");
        if (!e)
        {
            break;
        }
        bs[nb] = (size_t) (q - b);
        be[nb] = (size_t) (e - b);
        nb++;
        pos = (size_t) (e - b) + 8;
    }
    if (nb == 0)
    {
        return 0;
    }
    k = (int) mb(r, (uint32_t) nb);
    /* skip RFC 1421 header lines (Proc-Type / DEK-Info): encrypted bodies are not DER */
    if (m_find(b + bs[k], be[k] - bs[k], "ENCRYPTED"))
    {
        return 0;
    }
    dl = m_b64dec(b + bs[k], be[k] - bs[k], der, sizeof der);
    if (dl < 2)
    {
        return 0;
    }
    nl = der_mutate(der, dl, 49000, r);
    if (nl == 0)
    {
        return 0;
    }
    enc[0] = '\n';
    el = m_b64enc(der, nl, enc + 1, sizeof enc - 1);
    if (el == 0)
    {
        return 0;
    }
    el++;
    if (m_replace(b, &size, max, bs[k], be[k], enc, el) < 0)
    {
        return 0;
    }
    return size;
}

size_t LLVMFuzzerCustomMutator(uint8_t *data, size_t size, size_t max, unsigned int seed)
{
    mrng_t r;
    unsigned c;
    size_t ns = 0;

    r.s = seed * 2654435761u + 0x1234567u;
    (void) mr(&r);
    c = mb(&r, 8);
    if (c < 5 && size >= 2)
    {
        if (size > 20 && m_find(data, size > 4096 ? 4096 : size, "-----BEGIN "))
        {
            ns = pem_mutate(data, size, max, &r);
        }
        else
        {
            ns = der_mutate(data, size, max > M_CAP ? M_CAP : max, &r);
            if (ns && mb(&r, 4) == 0)
            {
                size_t n2 = der_mutate(data, ns, max > M_CAP ? M_CAP : max, &r);
                if (n2)
                {
                    ns = n2;
                }
            }
        }
        if (ns && ns <= max)
        {
            return ns;
        }
    }
    return LLVMFuzzerMutate(data, size, max);
}
