/* C15, second stage - "no error path reports success", at field level, TLS 1.3.
 *
 * Part A (fld=...): malformed-but-well-framed hellos.  For every key-exchange group configuration (groups chosen with
 *   matrixSslSessOptsSetKeyExGroups: secp256r1 / secp384r1 / secp521r1 / x25519 / ffdhe2048, two shares, server using the second share, library
 *   default; two HelloRetryRequest pairs, where hello 1 = ClientHello1 / HelloRetryRequest and hello 2 = ClientHello2 / ServerHello)
 *   the genuine ClientHello and the genuine ServerHello are recorded; the child hands the target a copy with ONE field-level
 *   edit (record / handshake / extensions lengths stay consistent): key_share entries whose key_exchange is one byte short / long, empty,
 *   one byte, half, doubled, of another group's length, all-zero, all-ones; declared lengths that run past the extension; the extension
 *   cut short or emptied; every other extension cut short by one byte or emptied.  A by-construction table (must_fatal) says which of
 *   these the receiver cannot treat as anything but an error (a key share it has to USE whose length is not the group's, vectors below
 *   their minimum length, inner lengths that run past the extension, truncated supported_versions / supported_groups /
 *   signature_algorithms); such an edit that is answered with anything but an error is reported at the event
 *   (protocol-error-not-fatal).  The continuation is the genuine original, honest pumping, an application encode or a fresh hello: the
 *   stays-dead clauses of the first stage apply.
 * Part B (skip=...): exact accounting of the early-data skip budget (RFC 8446 4.2.10), the one tolerated exception of the property.
 *   A TLS 1.3 server with tls13SessionMaxEarlyData = L that rejects the early data announced by the ClientHello (external PSK the
 *   server does not know; or an early_data extension appended to a PSK-less hello; or none announced at all = no budget) is fed sequences of
 *   records it cannot deprotect (crafted ones of any length incl. lengths below tag+1, or the client's genuine early data).  Reference
 *   model: a record of length n counts max(0, n - 17) bytes; the server may skip it only while the running total stays <= L.  A skipped
 *   record that takes the total beyond L is reported (skip-budget-exceeded); the first refused record is a fatal error after which
 *   the stays-dead clauses apply (a further record, the client's genuine Finished flight, honest pumping with application data,
 *   an application encode).  Sequences within the budget must let the genuine handshake complete (liveness control, counted). */
#include "mx.h"

typedef struct { const char *name; int ngc; uint16_t gc[3]; int shares; int ngs; uint16_t gs[3]; uint16_t suite; int thoroughOnly; int hrr; } gcfg;
static const gcfg gcfgs[] = {
    { "default", 0, { 0 }, 0, 0, { 0 }, 0x1301, 0 },
    { "p256", 1, { 23 }, 1, 1, { 23 }, 0x1301, 0 },
    { "x25519", 1, { 29 }, 1, 1, { 29 }, 0x1301, 0 },
    { "p384", 1, { 24 }, 1, 1, { 24 }, 0x1302, 0 },
    { "p521", 1, { 25 }, 1, 1, { 25 }, 0x1303, 0 },
    { "ffdhe2048", 1, { 256 }, 1, 1, { 256 }, 0x1301, 0 },
    { "x25519+p256", 2, { 29, 23 }, 2, 2, { 29, 23 }, 0x1301, 0 },
    { "x25519+p256-srv-p256", 2, { 29, 23 }, 2, 1, { 23 }, 0x1301, 0 },
    { "p256+x25519-srv-x25519", 2, { 23, 29 }, 2, 1, { 29 }, 0x1303, 0 },
    /* HelloRetryRequest: the client's only share is for a group the server lacks.  hello 1 = ClientHello1 / HelloRetryRequest, hello 2 = ClientHello2 / ServerHello */
    { "hrr-x25519-to-p256", 2, { 29, 23 }, 1, 1, { 23 }, 0x1301, 0, 1 },
    { "hrr-p256-to-x25519", 2, { 23, 29 }, 1, 1, { 29 }, 0x1301, 0, 1 },
    { "hrr-p256-to-p384-aes256", 2, { 23, 24 }, 1, 1, { 24 }, 0x1302, 1, 1 },
    { "x25519-chacha", 1, { 29 }, 1, 1, { 29 }, 0x1303, 1 },
    { "x25519-aes256", 1, { 29 }, 1, 1, { 29 }, 0x1302, 1 },
    { "p256-chacha", 1, { 23 }, 1, 1, { 23 }, 0x1303, 1 },
    { "ffdhe3072", 1, { 257 }, 1, 1, { 257 }, 0x1302, 1 },
    { "p384+p521+x25519-srv-x25519", 3, { 24, 25, 29 }, 3, 1, { 29 }, 0x1301, 1 },
};
#define NGCFG ((int) (sizeof gcfgs / sizeof gcfgs[0]))

enum { K_ORIGINAL = 0, K_PUMP, K_ENCODE, K_HELLO, K_NEXT, K_N };
static const char *kname[] = { "original-of-malformed", "honest-pump", "app-encode", "fresh-clienthello", "next-record" };

static struct { char desc[300]; const char *ev; int kont; int afterEvent; } M;
static void report(const char *clause, mx_ep *e, const char *fmt, ...)
{
    char key[200], msg[700]; va_list ap; va_start(ap, fmt); vsnprintf(msg, sizeof msg, fmt, ap); va_end(ap);
    snprintf(key, sizeof key, "c15:%s:tls1.3:%s", clause, M.ev);
    vf_violation(key, M.desc, "%s | role=%s continuation=%s hsState=%d flags=0x%x err=%d lastrc=%d", msg, e->role ? "server" : "client", kname[M.kont], e->ssl->hsState, e->ssl->flags, e->ssl->err, e->lastrc);
}
static void on_app(mx_ep *e, const unsigned char *pt, uint32 len)
{
    if (M.afterEvent && e->user) report("appdata-after-error", e, "APP_DATA len=%u delivered after the error event; first=%.16s", len, len ? (const char *) pt : "");
}

/* ---- endpoints with explicit groups / early-data limit / client PSK ---- */
static sslKeys_t *psk_ckeys;     /* client: CA list + an external TLS 1.3 PSK (early data allowed) that no server key set knows */
static int f_open(mx_conn *k, const gcfg *g, int limit, int cliPsk, sslSessionId_t *sid)
{
    mx_cfg c; memset(&c, 0, sizeof c); c.ver = MX_TLS13; c.suite = g->suite; c.earlyData = limit;
    memset(k, 0, sizeof *k); k->cfg = c; k->dtls = 0; psCipher16_t cs[1] = { c.suite };
    for (int role = MX_SERVER; role >= MX_CLIENT; role--) {
        sslSessOpts_t o; mx_opts(&o, &c, role); mx_ep *e = role == MX_SERVER ? &k->s : &k->c; int rc;
        if (role == MX_SERVER && g->ngs && matrixSslSessOptsSetKeyExGroups(&o, (uint16_t *) g->gs, g->ngs, 1) < 0) return -3;
        if (role == MX_CLIENT && g->ngc && matrixSslSessOptsSetKeyExGroups(&o, (uint16_t *) g->gc, g->ngc, g->shares) < 0) return -3;
        memset(e, 0, sizeof *e); e->role = role; e->ver = c.ver; e->id = role == MX_SERVER ? 1 : 0; e->name = role == MX_SERVER ? "S" : "C"; mx_actor = e->id; e->sid = role == MX_CLIENT ? sid : NULL; MX_ENTER();
        rc = role == MX_SERVER ? matrixSslNewServerSession(&e->ssl, mx_keys.srv_rsa, NULL, &o)
                               : matrixSslNewClientSession(&e->ssl, cliPsk ? psk_ckeys : mx_keys.cli, sid, cs, 1, mx_cert_cb_accept, NULL, NULL, NULL, &o);
        MX_LEAVE(); e->wantTake = 1; if (rc < 0) return -1;
    }
    return 0;
}

/* ---- hello surgery ---- */
typedef struct { int isCH, extsLenPos, total, nx; struct { int type, off, len; } x[40]; } hello_t;
static int hello_parse(const unsigned char *rec, int n, hello_t *h)
{
    memset(h, 0, sizeof *h);
    if (n < 50 || rec[0] != 22 || (rec[5] != 1 && rec[5] != 2)) return -1;
    int recLen = (rec[3] << 8) | rec[4], hsLen = (rec[6] << 16) | (rec[7] << 8) | rec[8];
    if (recLen + 5 > n || hsLen + 4 != recLen) return -1;
    h->total = recLen + 5; h->isCH = rec[5] == 1;
    int p = 9 + 2 + 32; p += 1 + rec[p];
    if (h->isCH) { p += 2 + ((rec[p] << 8) | rec[p + 1]); p += 1 + rec[p]; } else p += 3;
    if (p + 2 > h->total) return -1;
    h->extsLenPos = p; if (p + 2 + ((rec[p] << 8) | rec[p + 1]) != h->total) return -1;
    p += 2;
    while (p + 4 <= h->total && h->nx < 40) { int l = (rec[p + 2] << 8) | rec[p + 3]; if (p + 4 + l > h->total) return -1; h->x[h->nx].type = (rec[p] << 8) | rec[p + 1]; h->x[h->nx].off = p; h->x[h->nx].len = l; h->nx++; p += 4 + l; }
    return p == h->total ? 0 : -1;
}
static void add16(unsigned char *p, int d) { int v = ((p[0] << 8) | p[1]) + d; p[0] = v >> 8; p[1] = v; }
static void add24(unsigned char *p, int d) { int v = ((p[0] << 16) | (p[1] << 8) | p[2]) + d; p[0] = v >> 16; p[1] = v >> 8; p[2] = v; }
/* replace the data of extension i (i == nx: append a new extension of type `type`); all enclosing lengths follow */
static int hello_edit(const unsigned char *rec, const hello_t *h, int i, int type, const unsigned char *nd, int nl, unsigned char *out)
{
    int off = i < h->nx ? h->x[i].off : h->total, ol = i < h->nx ? h->x[i].len : -4, tail = h->total - (off + 4 + ol);
    memcpy(out, rec, off); out[off] = type >> 8; out[off + 1] = type; out[off + 2] = nl >> 8; out[off + 3] = nl;
    if (nl) memcpy(out + off + 4, nd, nl);
    memcpy(out + off + 4 + nl, rec + off + 4 + ol, tail);
    int d = nl - ol; add16(out + h->extsLenPos, d); add24(out + 6, d); add16(out + 3, d);
    return h->total + d;
}
static int hello_find(const hello_t *h, int type) { for (int i = 0; i < h->nx; i++) if (h->x[i].type == type) return i; return -1; }

/* ---- part A: mutation catalogue ---- */
enum { MU_MINUS1 = 0, MU_PLUS1, MU_EMPTY, MU_ONE, MU_HALF, MU_DOUBLE, MU_OTHERLEN, MU_ZERO, MU_ONES, MU_DECL_PLUS1, MU_DECL_MINUS1, MU_VEC_PLUS1, MU_VEC_MINUS1, MU_KS_N,
       MU_EXT_TRUNC1 = 20, MU_EXT_TRUNCHALF, MU_EXT_EMPTY };
static const char *muname(int m)
{
    static const char *n[] = { "share-one-byte-short", "share-one-byte-long", "share-empty", "share-one-byte", "share-half", "share-doubled", "share-length-of-other-group", "share-all-zero", "share-all-ones",
                               "share-declared-length-plus1", "share-declared-length-minus1", "client-shares-length-plus1", "client-shares-length-minus1" };
    if (m < MU_KS_N) return n[m];
    return m == MU_EXT_TRUNC1 ? "extension-cut-by-1" : m == MU_EXT_TRUNCHALF ? "extension-cut-in-half" : "extension-emptied";
}
typedef struct { int group, voff, vlen; } ksent;
/* entries of a key_share extension body (CH: behind the 2-byte vector length) */
static int ks_entries(const unsigned char *d, int n, int isCH, ksent *e, int cap)
{
    int p = isCH ? 2 : 0, k = 0;
    while (p + 4 <= n && k < cap) { e[k].group = (d[p] << 8) | d[p + 1]; e[k].vlen = (d[p + 2] << 8) | d[p + 3]; e[k].voff = p + 4; if (e[k].voff + e[k].vlen > n) return -1; p = e[k].voff + e[k].vlen; k++; }
    return p == n ? k : -1;
}
/* the key_share body with entry j edited by mutation m; returns the new length or -1 when not applicable */
static int ks_mutate(const unsigned char *d, int n, int isCH, const ksent *e, int ne, int j, int m, unsigned char *out)
{
    int o = isCH ? 2 : 0, vecDelta = 0;
    for (int i = 0; i < ne; i++) {
        const unsigned char *v = d + e[i].voff; int vl = e[i].vlen, decl;
        unsigned char nv[1400]; int nl = vl;
        memcpy(nv, v, vl); decl = vl;
        if (i == j) switch (m) {
        case MU_MINUS1: nl = vl - 1; decl = nl; break;
        case MU_PLUS1: nv[vl] = 0x01; nl = vl + 1; decl = nl; break;
        case MU_EMPTY: nl = 0; decl = 0; break;
        case MU_ONE: nl = 1; decl = 1; break;
        case MU_HALF: nl = vl / 2; decl = nl; break;
        case MU_DOUBLE: memcpy(nv + vl, v, vl); nl = 2 * vl; decl = nl; break;
        case MU_OTHERLEN: if (vl == 32) { memmove(nv + 1, nv, 32); nv[0] = 4; memcpy(nv + 33, v, 32); nl = 65; } else nl = 32; decl = nl; break;
        case MU_ZERO: memset(nv, 0, vl); break;
        case MU_ONES: memset(nv, 0xff, vl); break;
        case MU_DECL_PLUS1: decl = vl + 1; break;
        case MU_DECL_MINUS1: decl = vl - 1; break;
        case MU_VEC_PLUS1: if (!isCH) return -1; vecDelta = 1; break;
        case MU_VEC_MINUS1: if (!isCH) return -1; vecDelta = -1; break;
        default: return -1;
        }
        out[o++] = e[i].group >> 8; out[o++] = e[i].group; out[o++] = decl >> 8; out[o++] = decl; memcpy(out + o, nv, nl); o += nl;
    }
    if (isCH) { int vl = o - 2 + vecDelta; out[0] = vl >> 8; out[1] = vl; }
    (void) n;
    return o;
}
/* fixed key_exchange sizes (RFC 8446 4.2.8.2).  The finite-field values are left-padded integers (4.2.8.1): a receiver that reads a shorter
   string as the same integer has not met an error, so only their empty / out-of-range values are labelled */
static int group_len(int g) { switch (g) { case 23: return 65; case 24: return 97; case 25: return 133; case 29: return 32; } return -1; }

/* Reference table: 1 = the receiver cannot treat this edit as anything but an error.
 *   used = the edited entry is the share the receiver has to use (ServerHello: the only one; ClientHello: the entry of the group the
 *   server selected in the genuine run), last = it is the last entry of the extension. */
static int must_fatal(int isCH, int exttype, int m, int group, int used, int last)
{
    if (exttype == 51) switch (m) {
        case MU_MINUS1: case MU_PLUS1: case MU_ONE: case MU_HALF: case MU_DOUBLE: case MU_OTHERLEN: return used && group_len(group) > 0;   /* RFC 8446 4.2.8.1 / 4.2.8.2: fixed-size values */
        case MU_EMPTY: return 1;                                            /* key_exchange<1..2^16-1> */
        case MU_ZERO: return used;                                          /* not a point / Y <= 1 / all-zero X25519 output (RFC 8446 7.4.2) */
        case MU_ONES: return used && group != 29;                           /* not an uncompressed point / Y >= p */
        case MU_DECL_PLUS1: return last || (used && group_len(group) > 0);  /* the value runs past the extension / the used value has the wrong size */
        case MU_DECL_MINUS1: return used && group_len(group) > 0;           /* the used value has the wrong size (and a stray byte follows) */
        case MU_VEC_PLUS1: return 1;                                        /* client_shares runs past the extension */
        case MU_VEC_MINUS1: return 0;
        case MU_EXT_TRUNC1: case MU_EXT_TRUNCHALF: case MU_EXT_EMPTY: return 1;   /* an inner length runs past the extension / mandatory fields missing */
    }
    /* extensions a TLS 1.3 endpoint has to parse to go on: cut short, their vector runs past the extension (or the fixed-size body is incomplete) */
    if (exttype == 43) return 1;
    if (isCH && (exttype == 10 || exttype == 13)) return 1;
    return 0;
}

typedef struct { mx_conn *k; int target; const unsigned char *bad; int nbad; const unsigned char *orig; int norig; const unsigned char *hello; int nhello; int must; int kont; } argA;
static int is_alert_out(const unsigned char *ob, int n) { return n > 0 && (ob[0] == 21 || (ob[0] == 23 && n <= 5 + 2 + 1 + 16 + 64)); }
/* the stays-dead clauses shared by both parts; `orig` = the peer's genuine next bytes */
static void continuation(mx_conn *k, mx_ep *T, mx_ep *P, int kont, const unsigned char *orig, int norig, const unsigned char *hello, int nhello)
{
    int rc = -9999, fed = 0;
    switch (kont) {
    case K_ORIGINAL: case K_NEXT: if (norig > 0) { rc = mx_feed(T, orig, norig); fed = 1; } break;
    case K_HELLO: if (nhello > 0) { rc = mx_feed(T, hello, nhello); fed = 1; } break;
    case K_ENCODE: { unsigned char p[64]; mx_payload(p, 48, 0x0c15, T->role, 9); int erc = mx_send(T, p, 48); vf_stat("encode_attempts_after_error", 1);
        if (erc >= 0) report("encode-after-error", T, "matrixSslEncodeToOutdata returned %d on a dead session", erc); break; }
    case K_PUMP:
        if (norig > 0 && !T->dead) { rc = mx_feed(T, orig, norig); fed = 1; }
        mx_pump(&k->c, &k->s);
        if (!P->dead && matrixSslHandshakeIsComplete(P->ssl)) { unsigned char p[128]; mx_payload(p, 100, 0x0c15, P->role, 11); mx_send(P, p, 100); mx_pump(&k->c, &k->s); }
        if (matrixSslHandshakeIsComplete(T->ssl) && !(T->ssl->flags & (SSL_FLAGS_ERROR | SSL_FLAGS_CLOSED)))
            report("alive-after-error", T, "handshake complete and session unflagged after the error event and honest pumping (peer complete=%d)", matrixSslHandshakeIsComplete(P->ssl));
        if (!T->dead && matrixSslHandshakeIsComplete(T->ssl)) { unsigned char p[64]; mx_payload(p, 48, 0x0c15, T->role, 12); int erc = mx_send(T, p, 48); if (erc >= 0) report("encode-after-error", T, "matrixSslEncodeToOutdata returned %d after the error event", erc); }
        break;
    }
    if (fed) {
        vf_stat("receive_calls_after_error", 1);
        if (rc == MATRIXSSL_SUCCESS || rc == MATRIXSSL_REQUEST_RECV || rc == MATRIXSSL_HANDSHAKE_COMPLETE || rc == MATRIXSSL_REQUEST_SEND)
            report("success-after-error", T, "receive path returned %d for input presented after the error event", rc);
    }
    if (kont != K_PUMP) for (int i = 0; i < 3; i++) { unsigned char *o2; int m = mx_take(T, &o2); if (m > 0) { report("output-after-error", T, "dead session emitted %d further bytes (record type %d)", m, o2[0]); free(o2); break; } free(o2); }
}
static void childA(void *a_)
{
    argA *a = a_; mx_conn *k = a->k; mx_ep *T = a->target == MX_SERVER ? &k->s : &k->c, *P = a->target == MX_SERVER ? &k->c : &k->s;
    vf_stat("cases", 1); vf_stat("field_cases", 1);
    k->c.on_app = on_app; k->s.on_app = on_app; T->user = T;
    int rcEvent = mx_feed(T, a->bad, a->nbad);
    M.afterEvent = 1;
    unsigned char *ob; int alertBytes = mx_take(T, &ob);
    int recognised = rcEvent < 0 || T->dead || (alertBytes > 0 && (T->ssl->err != SSL_ALERT_NONE || T->closeReq));
    if (recognised && alertBytes > 0 && !is_alert_out(ob, alertBytes)) report("non-alert-output-at-error", T, "event produced %d output bytes starting with record type %d", alertBytes, ob[0]);
    int ot = alertBytes > 0 ? ob[0] : -1; free(ob);
    if (!recognised) {
        vf_statf(1, "field_%s_%s", M.ev + 10, a->must ? "MUST-FAIL-BUT-ACCEPTED" : "accepted-unlabelled");
        if (!a->must) { vf_stat("event_not_recognised_as_error", 1); return; }
        report("protocol-error-not-fatal", T, "a hello with a field that cannot be valid was not treated as a fatal error: rc=%d, %d output bytes (record type %d)", rcEvent, alertBytes, ot);
    } else { vf_stat("events_recognised", 1); vf_statf(1, "field_%s_%s", M.ev + 10, a->must ? "fatal" : "fatal-unlabelled"); }
    vf_distinct("%s", M.desc);
    continuation(k, T, P, a->kont, a->orig, a->norig, a->hello, a->nhello);
}

static long g_idx; static int g_force_mine;
static unsigned char *fresh_ch; static int fresh_ch_len;
static void run_case(void (*fn)(void *), void *arg, const char *ev, int kont, const char *fmt, ...)
{
    va_list ap; va_start(ap, fmt); vsnprintf(M.desc, sizeof M.desc, fmt, ap); va_end(ap);
    long idx = g_idx++;
    if (vf_case) { if (strcmp(vf_case, M.desc)) return; } else if (!g_force_mine && !vf_mine(idx)) return;
    M.ev = ev; M.kont = kont; M.afterEvent = 0;
    if (idx % 97 == 0) vf_sample("%s", M.desc);
    vf_fork_case(fn, arg, "c15", M.desc, 60);
}

static void part_a(void)
{
    for (int gi = 0; gi < NGCFG; gi++) {
        const gcfg *g = &gcfgs[gi]; if (g->thoroughOnly && !vf_thorough) continue;
        for (int phase = 0; phase <= g->hrr; phase++) for (int target = 0; target < 2; target++) {
            mx_conn k; sslSessionId_t *sid = NULL; matrixSslNewSessionId(&sid, NULL); mx_entropy_seed(vf_seed * 1000 + gi * 4 + phase * 2 + target);
            if (f_open(&k, g, 0, 0, sid) != 0) { vf_incon("fields: open failed for %s", g->name); continue; }
            unsigned char *chbuf, *ch, *fl; int nch = mx_take(&k.c, &chbuf), nfl = 0; ch = chbuf;
            hello_t hc, hsv, *h; int selected = -1;
            if (phase == 1) {   /* ClientHello1 -> HelloRetryRequest -> ClientHello2 (behind the client's compatibility CCS, which the server gets as it is) */
                unsigned char *hf; mx_feed(&k.s, ch, nch); int nh = mx_take(&k.s, &hf); if (nh > 0) mx_feed(&k.c, hf, nh); free(hf); free(chbuf);
                nch = mx_take(&k.c, &chbuf); ch = chbuf; mx_rec r;
                while (nch > 0 && mx_rec_at(ch, nch, 0, 0, &r) && r.type == 20) { mx_feed(&k.s, ch, r.hdr + r.len); ch += r.hdr + r.len; nch -= r.hdr + r.len; }
            }
            if (hello_parse(ch, nch, &hc) < 0 || hc.total != nch) { vf_incon("fields: ClientHello of %s (hello %d) not understood", g->name, phase + 1); continue; }
            {   /* the genuine run tells which group the server selects */
                mx_conn r; sslSessionId_t *sid2 = NULL; matrixSslNewSessionId(&sid2, NULL);
                if (f_open(&r, g, 0, 0, sid2) == 0) { unsigned char *c2, *f2; int n2 = mx_take(&r.c, &c2); mx_feed(&r.s, c2, n2); int m2 = mx_take(&r.s, &f2); hello_t t; int i;
                    if (hello_parse(f2, m2, &t) == 0 && (i = hello_find(&t, 51)) >= 0 && t.x[i].len >= 2) selected = (f2[t.x[i].off + 4] << 8) | f2[t.x[i].off + 5];
                    if (m2 > 0) mx_feed(&r.c, f2, m2); free(c2); free(f2); mx_pump(&r.c, &r.s); if (!mx_both_done(&r.c, &r.s)) vf_incon("fields: control handshake of %s did not complete", g->name); else if (vf_shard == 0) vf_stat("field_control_handshakes", 1);
                    mx_conn_close(&r); }
                matrixSslDeleteSessionId(sid2);
            }
            if (selected < 0) { vf_incon("fields: no selected group for %s", g->name); continue; }
            const unsigned char *src; int nsrc; const unsigned char *orig; int norig;
            if (target == MX_SERVER) { h = &hc; src = ch; nsrc = nch; orig = ch; norig = nch; }
            else {
                mx_feed(&k.s, ch, nch); nfl = mx_take(&k.s, &fl);
                if (hello_parse(fl, nfl, &hsv) < 0) { vf_incon("fields: ServerHello of %s not understood", g->name); continue; }
                h = &hsv; src = fl; nsrc = hsv.total; orig = fl; norig = nfl;
            }
            (void) nsrc;
            const char *ev_ks = target == MX_SERVER ? "malformed-clienthello-key-share" : "malformed-serverhello-key-share";
            const char *ev_ex = target == MX_SERVER ? "malformed-clienthello-extension" : "malformed-serverhello-extension";
            static unsigned char bad[8192], body[4096];
            for (int xi = 0; xi < h->nx; xi++) {
                int type = h->x[xi].type, xl = h->x[xi].len; const unsigned char *xd = src + h->x[xi].off + 4;
                if (type == 51) {
                    ksent e[8]; int ne = (!h->isCH && xl == 2) ? 0 : ks_entries(xd, xl, h->isCH, e, 8);     /* HelloRetryRequest: selected_group alone */
                    if (ne < 0 || (ne == 0 && xl != 2)) { vf_incon("fields: key_share of %s not understood", g->name); continue; }
                    for (int j = 0; j < ne; j++) for (int m = 0; m < MU_KS_N; m++) {
                        int nl = ks_mutate(xd, xl, h->isCH, e, ne, j, m, body); if (nl < 0) continue;
                        if ((m == MU_VEC_PLUS1 || m == MU_VEC_MINUS1) && j > 0) continue;
                        int used = !h->isCH || e[j].group == selected, must = must_fatal(h->isCH, 51, m, e[j].group, used, j == ne - 1);
                        int nbad = hello_edit(src, h, xi, 51, body, nl, bad);
                        for (int c = 0; c < K_NEXT; c++) {
                            if (c == K_HELLO && target != MX_SERVER) continue;
                            if (!vf_thorough && (c == K_ENCODE || c == K_HELLO) && ((m + j + c) % 2)) continue;
                            argA a = { &k, target, bad, nbad, orig, norig, fresh_ch, fresh_ch_len, must, c };
                            run_case(childA, &a, ev_ks, c, "fld=%s/%s%s ext=51 entry=%d group=%d edit=%s cont=%s", g->name, target ? "server" : "client", phase ? "/hello2" : "", j, e[j].group, muname(m), kname[c]);
                        }
                    }
                }
                for (int m = MU_EXT_TRUNC1; m <= MU_EXT_EMPTY; m++) {
                    int nl = m == MU_EXT_TRUNC1 ? xl - 1 : m == MU_EXT_TRUNCHALF ? xl / 2 : 0;
                    if (xl == 0 || (m == MU_EXT_TRUNCHALF && (nl == xl - 1 || nl == 0))) continue;
                    if (type == 41) continue;      /* pre_shared_key: binders cover the hello, any edit is an authentication failure (C14's ground) */
                    int must = must_fatal(h->isCH, type, m, 0, 0, 0);
                    int nbad = hello_edit(src, h, xi, type, xd, nl, bad);
                    for (int c = 0; c < K_ENCODE; c++) {
                        if (!vf_thorough && type != 51 && c == K_PUMP && m != MU_EXT_TRUNC1) continue;
                        argA a = { &k, target, bad, nbad, orig, norig, fresh_ch, fresh_ch_len, must, c };
                        run_case(childA, &a, type == 51 ? ev_ks : ev_ex, c, "fld=%s/%s%s ext=%d edit=%s cont=%s", g->name, target ? "server" : "client", phase ? "/hello2" : "", type, muname(m), kname[c]);
                    }
                }
            }
            free(chbuf); if (nfl) free(fl);
            mx_conn_close(&k); matrixSslDeleteSessionId(sid);
        }
    }
}

/* ---- part B: early-data skip budget ---- */
enum { FL_CRAFTED = 0, FL_GENUINE, FL_APPENDED, FL_NOEXT, FL_N };
static const char *flname[] = { "unknown-psk-crafted-records", "unknown-psk-genuine-early-data", "appended-early-data-extension", "no-early-data-extension" };
#define TAGLEN 16
typedef struct { mx_conn *k; int fl, L, n; int len[48]; const unsigned char *early; int nearly; const unsigned char *flight; int nflight; int kont; int seqid; } argB;
static int counted(int reclen) { return reclen > TAGLEN + 1 ? reclen - TAGLEN - 1 : 0; }
static void childB(void *a_)
{
    argB *a = a_; mx_conn *k = a->k; mx_ep *S = &k->s, *C = &k->c;
    vf_stat("cases", 1); vf_stat("skip_cases", 1);
    k->c.on_app = on_app; k->s.on_app = on_app; S->user = S;
    long cum = 0; int died = -1, exceeded = 0, eoff = 0; int budget = a->fl == FL_NOEXT ? 0 : a->L;
    static unsigned char rec[5 + 17000];
    int nrec = a->fl == FL_GENUINE ? 1000 : a->n;     /* genuine early data: every record the client put on the wire (it fragments long writes) */
    for (int i = 0; i < nrec; i++) {
        const unsigned char *d; int dl, rl;
        if (a->fl == FL_GENUINE) {
            mx_rec r; for (;;) { if (!mx_rec_at(a->early, a->nearly, eoff, 0, &r)) { r.len = -1; break; } if (r.type == 23) break; d = a->early + eoff; mx_feed(S, d, r.hdr + r.len); eoff += r.hdr + r.len; }   /* the compatibility CCS, if any, is delivered as it is */
            if (r.len < 0) break;
            d = a->early + eoff; dl = r.hdr + r.len; rl = r.len; eoff += dl;
        } else {
            rl = a->len[i]; rec[0] = 23; rec[1] = 3; rec[2] = 3; rec[3] = rl >> 8; rec[4] = rl;
            vf_rng g; vf_rng_init(&g, vf_seed, a->seqid * 64 + i); vf_fill(&g, rec + 5, rl); d = rec; dl = rl + 5;
        }
        int rc = mx_feed(S, d, dl);
        unsigned char *ob; int out = mx_take(S, &ob); free(ob);
        int refused = rc < 0 || S->dead || (out > 0 && (S->ssl->err != SSL_ALERT_NONE || S->closeReq));
        if (refused) {
            died = i;
            if (cum + counted(rl) <= budget && rl > TAGLEN && a->fl != FL_NOEXT) vf_statf(1, "skip_refused_within_budget_%s", flname[a->fl]); else vf_stat("skip_refused_beyond_budget", 1);
            break;
        }
        M.afterEvent = 0;
        if (cum + counted(rl) > budget && !exceeded) {
            exceeded = 1;
            report("skip-budget-exceeded", S, "record %d of the sequence (length %d, counts %d) was skipped although the total then is %ld > limit %d (early data %s); rc=%d", i, rl, counted(rl), cum + counted(rl), budget, a->fl == FL_NOEXT ? "never announced" : "announced and rejected", rc);
        }
        cum += counted(rl);
        vf_stat("skip_records_tolerated", 1);
    }
    vf_distinct("%s", M.desc);
    M.afterEvent = 1;
    if (died < 0 && !exceeded) {
        /* everything was within the budget: the genuine handshake goes on (liveness control; the appended extension breaks the transcript, nothing to complete there) */
        M.afterEvent = 0;
        if (a->fl == FL_APPENDED) { vf_stat("skip_within_budget_not_completable", 1); return; }
        if (a->kont != K_PUMP) { vf_stat("skip_within_budget_nothing_to_continue", 1); return; }
        if (a->fl == FL_GENUINE && eoff < a->nearly) mx_feed(S, a->early + eoff, a->nearly - eoff);
        if (!C->dead) mx_feed(C, a->flight, a->nflight);
        mx_pump(C, S);
        vf_statf(1, "skip_within_budget_%s", mx_both_done(C, S) ? "handshake_completed" : "HANDSHAKE_NOT_COMPLETED");
        if (!mx_both_done(C, S)) vf_incon("skip: control failed - every record was within the budget, yet the genuine handshake did not complete (client dead=%d lastrc=%d err=%d, server dead=%d lastrc=%d err=%d): %s", C->dead, C->lastrc, C->ssl->err, S->dead, S->lastrc, S->ssl->err, M.desc);
        return;
    }
    vf_stat("events_recognised", 1);
    /* dead (or beyond its budget): the stays-dead clauses */
    unsigned char next[5 + 17 + 8]; int nnext = 5 + 17; next[0] = 23; next[1] = 3; next[2] = 3; next[3] = 0; next[4] = 17; memset(next + 5, 0x5a, 17);
    unsigned char *cf = NULL; int ncf = 0;
    if (a->kont == K_ORIGINAL || a->kont == K_PUMP) { if (!C->dead) mx_feed(C, a->flight, a->nflight); ncf = mx_take(C, &cf); }
    if (a->kont == K_NEXT) continuation(k, S, C, K_NEXT, next, nnext, NULL, 0);
    else continuation(k, S, C, a->kont, cf, ncf, NULL, 0);
    free(cf);
}

static int mkseq(int q, int L, int genuine, int *len, uint64_t salt)
{
    int n = 0;
#define P(p) (len[n++] = (p) + TAGLEN + 1)
#define RUNT(l) (len[n++] = (l))
    const int MAXP = 16384;
    switch (q) {
    case 0: if (L > MAXP) return 0; P(L); P(1); P(1); break;                                       /* total == L accepted, L + 1 refused */
    case 1: if (L + 1 > MAXP + 200) return 0; P(L + 1); P(0); break;                                /* refused at once */
    case 2: if (L < 2) return 0; P(L - 1); P(1); P(1); break;
    case 3: if (genuine) return 0; P(0); P(0); P(L > MAXP ? MAXP : L); P(0); P(1); break;         /* empty payloads are free */
    case 4: { int t = L / 3 + 1; for (int i = 0; i < 5; i++) P(t); break; }
    case 5: if (genuine) return 0; P(L > MAXP ? MAXP : L); RUNT(1); RUNT(16); RUNT(8); P(16); P(17); P(L > 64 ? 64 : L); break;   /* records too short to carry a tag count nothing and refund nothing */
    case 6: { vf_rng g; vf_rng_init(&g, vf_seed, salt); for (int i = 0; i < 8; i++) P((int) vf_below(&g, L / 2 + 3)); break; }
    case 7: if (genuine) return 0; for (int i = 0; i < 20; i++) RUNT(1 + i % 16); P(L > MAXP ? MAXP : L); P(1); break;
    case 8: if (L + 100 > MAXP) return 0; P(L + 100); P(1); break;
    case 9: if (genuine || L >= MAXP) return 0; P(MAXP); P(1); break;
    case 10: if (genuine) return 0; { int t = L > MAXP ? MAXP : L; P(t); for (int i = 0; i < 30; i++) RUNT(1); P(t); P(1); break; }   /* thirty one-byte records between two full-budget records */
    case 11: if (L < 2) return 0; P(L / 2); P(L - L / 2); break;                                   /* total == L exactly, nothing beyond: the handshake goes on */
    case 12: if (L < 1) return 0; P(1); P(0); break;
    case 13: if (genuine) return 0; P(0); RUNT(17); break;                                         /* nothing counted at all (any limit) */
    default: return 0;
    }
#undef P
#undef RUNT
    return n;
}
#define NSEQ 14

static void part_b(void)
{
    static const int Lq[] = { 0, 1, 40, 100, 1000, 16383, 16384 }, Lt[] = { 0, 1, 2, 15, 16, 17, 18, 40, 100, 255, 256, 1000, 4096, 8192, 16000, 16383, 16384 };
    const int *Ls = vf_thorough ? Lt : Lq; int nL = vf_thorough ? (int) (sizeof Lt / sizeof(int)) : (int) (sizeof Lq / sizeof(int));
    static const int suites_q[] = { 0x1301 }, suites_t[] = { 0x1301, 0x1302, 0x1303 };
    const int *su = vf_thorough ? suites_t : suites_q; int nsu = vf_thorough ? 3 : 1;
    int seqid = 0;
    for (int si = 0; si < nsu; si++) for (int li = 0; li < nL; li++) for (int fl = 0; fl < FL_N; fl++) for (int q = 0; q < NSEQ; q++) {
        int L = Ls[li]; argB a; memset(&a, 0, sizeof a); a.fl = fl; a.L = L; a.seqid = ++seqid;
        a.n = mkseq(q, L, fl == FL_GENUINE, a.len, (uint64_t) seqid); if (a.n <= 0) continue;
        if (fl == FL_NOEXT && !(q == 0 || q == 1 || q == 5)) continue;
        if ((fl == FL_CRAFTED || fl == FL_GENUINE) && su[si] == 0x1302) continue;   /* the external PSK is a SHA-256 one */
        if (!vf_thorough && (fl == FL_APPENDED || fl == FL_GENUINE) && (q == 4 || q == 8 || q == 9)) continue;
        /* are any of this group's cases mine?  (the pair is only built when one is) */
        int konts[4] = { K_NEXT, K_ORIGINAL, K_PUMP, K_ENCODE }, nk = 4;
        if (!vf_case && !vf_mine(seqid)) { g_idx += nk; continue; }
        g_force_mine = 1;
        gcfg g = gcfgs[0]; g.suite = su[si];
        mx_conn k; mx_entropy_seed(vf_seed * 7919 + seqid);
        if (f_open(&k, &g, L, fl == FL_CRAFTED || fl == FL_GENUINE, NULL) != 0) { vf_incon("skip: open failed"); g_idx += nk; continue; }
        if (fl == FL_GENUINE) {
            if (matrixSslGetMaxEarlyData(k.c.ssl) <= 0) { vf_incon("skip: client is not early-data capable"); mx_conn_close(&k); g_idx += nk; continue; }
            static unsigned char p[17000]; int sent = 0;
            for (int i = 0; i < a.n; i++) { int pl = a.len[i] - TAGLEN - 1; if (pl <= 0) { a.n = i; break; } mx_payload(p, pl, 0x0e15, 0, i); if (mx_send(&k.c, p, pl) <= 0) { a.n = i; break; } sent++; }
            if (!sent) { mx_conn_close(&k); g_idx += nk; continue; }
        }
        unsigned char *co, *fl_ = NULL; int nco = mx_take(&k.c, &co), nfl;
        hello_t h; static unsigned char ch2[4096]; const unsigned char *ch = co; int nch;
        if (hello_parse(co, nco, &h) < 0) { vf_incon("skip: ClientHello not understood"); g_idx += nk; continue; }
        nch = h.total;
        int has42 = hello_find(&h, 42) >= 0;
        if ((fl == FL_CRAFTED || fl == FL_GENUINE) && !has42) { vf_incon("skip: PSK client did not announce early data"); g_idx += nk; continue; }
        if ((fl == FL_APPENDED || fl == FL_NOEXT) && has42) { vf_incon("skip: PSK-less client announced early data"); g_idx += nk; continue; }
        if (fl == FL_APPENDED) { nch = hello_edit(co, &h, h.nx, 42, NULL, 0, ch2); ch = ch2; }
        int rc = mx_feed(&k.s, ch, nch); nfl = mx_take(&k.s, &fl_);
        if (rc < 0 || nfl < 100 || k.s.dead) { vf_incon("skip: server did not answer the ClientHello (flavour %s rc %d)", flname[fl], rc); g_idx += nk; continue; }
        a.k = &k; a.early = co + h.total; a.nearly = nco - h.total; a.flight = fl_; a.nflight = nfl;
        char seq[200]; int o = 0; for (int i = 0; i < a.n && o < 180; i++) o += snprintf(seq + o, sizeof seq - o, "%s%d", i ? "," : "", a.len[i]);
        for (int c = 0; c < nk; c++) {
            a.kont = konts[c];
            run_case(childB, &a, "early-data-skip-budget", a.kont, "skip=%s suite=%04x limit=%d seq=%d lens=%s cont=%s", flname[fl], su[si], L, q, seq, kname[a.kont]);
        }
        free(co); free(fl_); mx_conn_close(&k);
    }
}

int main(int argc, char **argv)
{
    vf_init(argc, argv); mx_global_init(); mx_keys_load();
    {   /* the client of part B: an external PSK with early data allowed, unknown to every server key set */
        static const unsigned char key[32] = { 0xc1, 0x5f, 1, 2, 3, 4, 5, 6, 7, 8, 9 }, id[] = "c15-unknown-psk";
        psTls13SessionParams_t par; memset(&par, 0, sizeof par); par.majVer = 3; par.minVer = 4; par.cipherId = 0x1301; par.maxEarlyData = 16384;
        psk_ckeys = mx_mkkeys(NULL, NULL, mx_ca_both);
        if (matrixSslLoadTls13Psk(psk_ckeys, key, 32, id, sizeof id - 1, &par) < 0) { fprintf(stderr, "HARNESS: LoadTls13Psk failed\n"); return 2; }
    }
    { mx_cfg c = { .ver = MX_TLS13, .suite = 0x1301 }; mx_ep e; sslSessionId_t *sid; matrixSslNewSessionId(&sid, NULL);
      if (mx_new_client(&e, &c, sid) == 0) { fresh_ch_len = mx_take(&e, &fresh_ch); mx_ep_free(&e); } matrixSslDeleteSessionId(sid); }
    int only = vf_case ? (strncmp(vf_case, "fld=", 4) ? (strncmp(vf_case, "skip=", 5) ? -1 : 1) : 0) : 2;
    if (only == 0 || only == 2) part_a();
    if (only == 1 || only == 2) part_b();
    matrixSslDeleteKeys(psk_ckeys); mx_keys_free(); matrixSslClose();
    vf_flush();
    return 0;
}
