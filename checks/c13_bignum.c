/* C13 - big-integer arithmetic is mathematically exact.
 *
 * Differential harness: every pstm_* operation used by RSA/DH/ECC is executed
 * on generated operands and compared with GMP (mpz_*).  Verdict per library
 * call: the result equals the exact mathematical value (sign included) or the
 * call returned a negative error code.  After every successful call the
 * result objects must satisfy: used <= alloc, top digit non-zero, zero is
 * PSTM_ZPOS.  Inputs that are not aliased by an output must be unchanged.
 *
 * A case is (op, j).  Its *structure* (operand digit counts, value kinds,
 * signs, alias mode, stale-output mode, zero-digit patterns) is a pure
 * function of (op, j); the seed only selects the random digit values.  So
 * every seed runs the same grid of classes.
 *
 * Replay: --case "op=<name>,j=<n>,seed=<s>[,v=<variant>]".
 */
#include "vf.h"
#include "crypto/cryptoApi.h"
#include "crypto/math/pstm.h"
#include <gmp.h>
#include <sys/mman.h>

#if DIGIT_BIT != 64
# error "harness written for 64-bit pstm digits"
#endif

#define MAXN 64            /* largest operand digit count generated */
#define MAXDIG 200         /* room for products / shifted values */

/* ------------------------------------------------------------------ kinds */
enum { K_ZERO, K_ONE, K_POW2, K_POW2M1, K_POW2P1, K_ALLONES, K_DENSE, K_TOPBIT,
       K_SPARSE0, K_SPARSE1, K_TOPLOW, K_LOWZERO, K_NKINDS,
       K_EQUAL = K_NKINDS, K_TOPDIFF, K_LOWDIFF, K_SAMEOBJ, K_SPECIAL };
static const char *kname[] = { "zero", "one", "2^k", "2^k-1", "2^k+1", "allones", "dense", "topbit",
                               "sparse0", "sparse1", "toplow", "lowzero", "equal", "topdiff", "lowdiff", "sameobj", "special" };
enum { AL_NONE, AL_CA, AL_CB, AL_AB, AL_ALL };
static const char *alname[] = { "none", "out=a", "out=b", "a=b", "a=b=out" };
enum { ST_FRESH, ST_POS, ST_NEG, ST_TIGHT };
static const char *stname[] = { "fresh", "stale+", "stale-", "tight" };

typedef struct { uint64_t d[MAXDIG]; int used, sign, kind; } val_t;

typedef struct T {
    const char *op;        /* op name as in the replay spec */
    const char *fn;        /* library function name used in the violation key */
    int opid; long j;
    vf_rng rs;             /* structure stream: function of (op, j) only */
    vf_rng rv;             /* value stream: function of (seed, op, j) */
    int la, lb, lc, ka, kb, kc, sa, sb, alias, stale, special;
    char extra[160];       /* op-specific parameters for messages */
    val_t va, vb, vc;
    pstm_int oa, ob, oc, od;
    int has_a, has_b, has_c, has_d;
    pstm_int *pa, *pb, *pc;
    int rc;
    int nbad;
    pstm_int *dirty;       /* result object left with non-zero digits above `used` */
    int sigx;              /* op-specific part of the crash-class signature */
} T;

static const char *g_variant = "asan";
static int g_single;       /* replaying one case: verbose */
static FILE *g_verbose;
static mpz_t ZA, ZB, ZC, ZE, ZE2, ZT, ZT2, ZG;

/* State shared (MAP_SHARED) between the shard parent and its forked batch children, so that
 * counters and distinct-case hashes survive a child that is killed by a sanitizer report. */
#define NSTAT 200
typedef struct { volatile long cur; char spec[160]; volatile unsigned long dn, nnew; int nstat; struct { char k[64]; long v; } st[NSTAT];
                 volatile int cursig; unsigned char crashcnt[64][256]; } shared_t;
static shared_t *SH;
static uint64_t *DSET, *NEWH;            /* all hashes seen in this shard; hashes not yet handed to vf.h */
#define DCAP (1UL << 21)
#define NEWCAP (1UL << 20)

static void stat_add(const char *k, long v)
{
    int i;
    for (i = 0; i < SH->nstat; i++) if (!strcmp(SH->st[i].k, k)) { SH->st[i].v += v; return; }
    if (SH->nstat < NSTAT) { snprintf(SH->st[SH->nstat].k, 64, "%s", k); SH->st[SH->nstat].v = v; SH->nstat++; }
}
static void stat_addf(long v, const char *fmt, ...) { char k[64]; va_list ap; va_start(ap, fmt); vsnprintf(k, sizeof k, fmt, ap); va_end(ap); stat_add(k, v); }

static void distinct(const char *fmt, ...)
{
    char k[256]; va_list ap; va_start(ap, fmt); int n = vsnprintf(k, sizeof k, fmt, ap); va_end(ap);
    if (n > 255) n = 255;
    uint64_t h = vf_hash(k, n); if (!h) h = 1;
    size_t i = h & (DCAP - 1);
    while (DSET[i]) { if (DSET[i] == h) return; i = (i + 1) & (DCAP - 1); }
    if (SH->dn < DCAP / 2 && SH->nnew < NEWCAP) { DSET[i] = h; SH->dn++; NEWH[SH->nnew++] = h; }
}
/* parent, after every batch: hand the accumulated counters and new hashes to the vf.h protocol
 * (records are additive, so a shard that is killed later keeps what it had reported) */
static void publish(void)
{
    int i; unsigned long j;
    for (i = 0; i < SH->nstat; i++) if (SH->st[i].v) { vf_stat(SH->st[i].k, SH->st[i].v); SH->st[i].v = 0; }
    for (j = 0; j < SH->nnew; j++) vf_distinct_h(NEWH[j]);
    SH->nnew = 0;
    vf_flush();
}

static int szclass(int n)
{
    if (n <= 0) return 0;
    if (n == 1) return 1;
    if (n < 16) return 2;
    if (n == 16) return 3;
    if (n < 32) return 4;
    if (n == 32) return 5;
    if (n < 64) return 6;
    return 7;
}

/* ---------------------------------------------------------- value helpers */
static uint64_t snext(T *t) { return vf_next(&t->rs); }
static uint64_t vnext(T *t) { return vf_next(&t->rv); }
static uint64_t mix64(uint64_t z) { z += 0x9e3779b97f4a7c15ULL; z = (z ^ (z >> 30)) * 0xbf58476d1ce4e5b9ULL; z = (z ^ (z >> 27)) * 0x94d049bb133111ebULL; return z ^ (z >> 31); }

static void vclamp(val_t *v) { while (v->used > 0 && v->d[v->used - 1] == 0) v->used--; if (v->used == 0) v->sign = PSTM_ZPOS; }

static int pick_kind(T *t)
{
    static const unsigned char w[K_NKINDS] = { 4, 4, 8, 8, 6, 8, 22, 8, 10, 8, 8, 6 };
    int r = snext(t) % 100, k;
    for (k = 0; k < K_NKINDS; k++) { if (r < w[k]) return k; r -= w[k]; }
    return K_DENSE;
}

/* n digits, kind; zero-digit pattern from the structure stream, digit values from the value stream */
static void gen_val(T *t, val_t *v, int n, int kind, int sign)
{
    uint64_t mask = snext(t);
    uint64_t nz;
    int i;
    memset(v, 0, sizeof *v);
    v->kind = kind; v->used = n; v->sign = sign;
    if (n < 1) { v->used = 0; v->sign = 0; return; }
    switch (kind) {
    case K_ZERO: v->used = 0; break;
    case K_ONE: v->d[0] = 1; v->used = 1; break;
    case K_POW2: v->d[n - 1] = 1ULL << (vnext(t) & 63); break;
    case K_POW2M1: { int tb = 1 + (int) (vnext(t) & 63); for (i = 0; i < n - 1; i++) v->d[i] = ~0ULL; v->d[n - 1] = tb == 64 ? ~0ULL : ((1ULL << tb) - 1); break; }
    case K_POW2P1: { int b = (int) (vnext(t) & 63); if (n == 1 && b == 0) v->d[0] = 2; else { v->d[n - 1] = 1ULL << b; v->d[0] |= 1; } break; }
    case K_ALLONES: for (i = 0; i < n; i++) v->d[i] = ~0ULL; break;
    case K_DENSE: for (i = 0; i < n; i++) v->d[i] = vnext(t); if (!v->d[n - 1]) v->d[n - 1] = 1; break;
    case K_TOPBIT: for (i = 0; i < n; i++) v->d[i] = vnext(t); v->d[n - 1] |= 1ULL << 63; break;
    case K_SPARSE0: for (i = 0; i < n; i++) { uint64_t x = vnext(t); v->d[i] = ((mix64(mask + i) & 3) == 0) ? x : 0; } nz = vnext(t); v->d[n - 1] = nz ? nz : 1; break;
    case K_SPARSE1: for (i = 0; i < n; i++) { uint64_t x = vnext(t); v->d[i] = ((mix64(mask + i) & 3) == 0) ? x : ~0ULL; } if (!v->d[n - 1]) v->d[n - 1] = 1; break;
    case K_TOPLOW: nz = vnext(t); v->d[0] = nz ? nz : 1; if (n > 1) v->d[n - 1] = 1 + (vnext(t) % 3); break;
    case K_LOWZERO: { int z = n / 2; if (n > 1 && z < 1) z = 1; for (i = z; i < n; i++) v->d[i] = vnext(t); if (!v->d[n - 1]) v->d[n - 1] = 1; break; }
    default: for (i = 0; i < n; i++) v->d[i] = vnext(t); if (!v->d[n - 1]) v->d[n - 1] = 1; break;
    }
    vclamp(v);
}

/* b derived from a: equal, top digit differs, bottom digit differs */
static void derive_val(T *t, val_t *b, const val_t *a, int rel, int sign)
{
    *b = *a; b->kind = rel; b->sign = sign;
    if (a->used == 0) { if (rel != K_EQUAL) { b->d[0] = 1 + (vnext(t) & 1); b->used = 1; } vclamp(b); return; }
    if (rel == K_TOPDIFF) {
        uint64_t *p = &b->d[a->used - 1];
        if (*p == ~0ULL || ((snext(t) & 1) && *p > 1)) (*p)--; else (*p)++;
    } else if (rel == K_LOWDIFF) {
        b->d[0] ^= 1ULL << (vnext(t) & 63);
    }
    vclamp(b);
}

static void val_to_mpz(mpz_t z, const val_t *v) { mpz_import(z, v->used, -1, 8, 0, 0, v->d); if (v->sign == PSTM_NEG) mpz_neg(z, z); }
static void mpz_to_val(val_t *v, const mpz_t z, int kind)
{
    size_t cnt = 0; memset(v, 0, sizeof *v); v->kind = kind;
    if (mpz_sizeinbase(z, 2) > 64 * (MAXDIG - 1)) { vf_incon("harness: value too large"); vf_flush(); _exit(3); }
    mpz_export(v->d, &cnt, -1, 8, 0, 0, z); v->used = (int) cnt; v->sign = mpz_sgn(z) < 0 ? PSTM_NEG : PSTM_ZPOS; vclamp(v);
}
static void obj_to_mpz(mpz_t z, const pstm_int *o) { mpz_import(z, o->used, -1, 8, 0, 0, o->dp); if (o->sign == PSTM_NEG) mpz_neg(z, z); }

static void harness_fail(const char *what) { vf_incon("harness: %s", what); vf_flush(); _exit(3); }

/* build a library object holding v with `extra` spare digits (all spare digits zero) */
static void mkobj(pstm_int *o, const val_t *v, int extra)
{
    int alloc = v->used + extra; if (alloc < 1) alloc = 1;
    if (alloc > PSTM_MAX_SIZE && v->used <= PSTM_MAX_SIZE) alloc = PSTM_MAX_SIZE;
    if (pstm_init_size(NULL, o, alloc) != PSTM_OKAY) harness_fail("pstm_init_size");
    memcpy(o->dp, v->d, 8 * (size_t) v->used);
    o->used = v->used; o->sign = v->used ? v->sign : PSTM_ZPOS;
}
static int pick_extra(T *t) { static const int e[8] = { 0, 0, 0, 1, 1, 2, 3, 70 }; return e[snext(t) & 7]; }

/* output object pre-loaded with a stale value */
static void mkstale(T *t, pstm_int *o, int mode, int hint)
{
    val_t *v = calloc(1, sizeof *v);
    int n, i, extra = 0;
    switch (mode) {
    case ST_FRESH: v->used = 0; extra = 1 + (int) (snext(t) % 3); break;
    case ST_TIGHT: v->used = 1; v->d[0] = vnext(t) | 1; v->sign = (int) (snext(t) & 1); break;
    default:
        n = 1 + (int) (snext(t) % (unsigned) (2 * hint + 3)); if (n > 150) n = 150;
        for (i = 0; i < n; i++) v->d[i] = vnext(t) | 1;
        v->used = n; v->sign = mode == ST_NEG ? PSTM_NEG : PSTM_ZPOS; extra = (int) (snext(t) % 3);
    }
    mkobj(o, v, extra);
    free(v);
}

/* ---------------------------------------------------------- violations */
static struct { char key[96]; int n; } g_vk[64]; static int g_nvk;

static char *hexz(const mpz_t z, size_t lim)
{
    char *s = mpz_get_str(NULL, 16, z);
    size_t n = strlen(s);
    if (n > lim && !g_single) { size_t keep = lim / 2 - 8; char *o = malloc(lim + 64); snprintf(o, lim + 64, "%.*s..(%zu hex digits)..%s", (int) keep, s, n, s + n - keep); free(s); return o; }
    return s;
}

static void report(T *t, const char *cls, const char *what, const mpz_t got, const mpz_t exp)
{
    char key[96], spec[160];
    int i;
    snprintf(key, sizeof key, "c13:%s:%s", t->fn, cls);
    t->nbad++;
    stat_add("violations_total", 1);
    for (i = 0; i < g_nvk; i++) if (!strcmp(g_vk[i].key, key)) break;
    if (i == g_nvk && g_nvk < 64) { snprintf(g_vk[g_nvk].key, 96, "%s", key); g_vk[g_nvk].n = 0; g_nvk++; }
    if (i < 64 && g_vk[i].n++ >= 3 && !g_single) return;
    snprintf(spec, sizeof spec, "op=%s,j=%ld,seed=%llu,v=%s", t->op, t->j, (unsigned long long) vf_seed, g_variant);
    char *ha = hexz(ZA, 520), *hb = hexz(ZB, 520), *hc = hexz(ZC, 400), *hg = got ? hexz(got, 640) : strdup("-"), *he = exp ? hexz(exp, 640) : strdup("-");
    vf_violation(key, spec,
                 "%s %s: %s | digits a=%d b=%d c=%d kinds=%s,%s,%s alias=%s stale=%s %s rc=%d | a=%s%s b=%s%s c=%s got=%s exp=%s",
                 t->fn, what, cls, t->va.used, t->vb.used, t->vc.used, kname[t->ka], kname[t->kb], kname[t->kc], alname[t->alias], stname[t->stale],
                 t->extra, t->rc, mpz_sgn(ZA) < 0 ? "" : "+", ha, mpz_sgn(ZB) < 0 ? "" : "+", hb, hc, hg, he);
    free(ha); free(hb); free(hc); free(hg); free(he);
}

/* structural invariants of a result object; returns 0 when fine, 2 when the digits cannot be read */
static int check_inv(T *t, const char *what, const pstm_int *o, const mpz_t exp)
{
    int bad = 0, i;
    if (o->dp == NULL || o->used > o->alloc) { report(t, "invariant-used-gt-alloc", what, NULL, exp); return 2; }
    if (o->used > 0 && o->dp[o->used - 1] == 0) { obj_to_mpz(ZG, o); report(t, "invariant-unclamped", what, ZG, exp); bad = 1; }
    if (o->used == 0 && o->sign != PSTM_ZPOS) { obj_to_mpz(ZG, o); report(t, "invariant-negative-zero", what, ZG, exp); bad = 1; }
    for (i = o->used; i < o->alloc; i++) if (o->dp[i]) { t->dirty = (pstm_int *) o; stat_addf(1, "soft_dirty_high_%s", t->fn); break; }
    return bad;
}
/* A result whose digits above `used` are not zero has the right value only until the next
 * operation: pstm code (s_pstm_add with c == a, pstm_cmp_d, ...) relies on those digits being
 * zero.  Made concrete here: result = result + k through the public API must still be exact. */
static void followup_dirty(T *t)
{
    pstm_int *o = t->dirty, k;
    if (!o || o->alloc < 1 || o->alloc >= PSTM_MAX_SIZE) return;
    t->dirty = NULL;
    obj_to_mpz(ZT, o);
    if (pstm_init_size(NULL, &k, o->alloc) != PSTM_OKAY) return;
    k.dp[o->alloc - 1] = 1; k.used = o->alloc; k.sign = o->used ? o->sign : PSTM_ZPOS;   /* same sign: pure magnitude addition */
    obj_to_mpz(ZT2, &k);
    mpz_add(ZT, ZT, ZT2);
    if (pstm_add(o, &k, o) == PSTM_OKAY && o->used <= o->alloc) {
        obj_to_mpz(ZG, o);
        if (mpz_cmp(ZG, ZT) != 0) report(t, "stale-high-digits", "pstm_add(result, 2^(64*(alloc-1)), result) after the call", ZG, ZT);
    }
    pstm_clear(&k);
}
/* invariants + value of one result object. returns 0 when fine */
static int check_obj(T *t, const char *what, const pstm_int *o, const mpz_t exp, int magnitude_only)
{
    int bad = check_inv(t, what, o, exp);
    if (bad == 2) return 1;
    obj_to_mpz(ZG, o);
    if (mpz_cmpabs(ZG, exp) != 0) { report(t, "wrong-value", what, ZG, exp); return 1; }
    if (!magnitude_only && mpz_sgn(ZG) != mpz_sgn(exp)) { report(t, "wrong-sign", what, ZG, exp); return 1; }
    return bad;
}
static void check_input(T *t, const char *what, const pstm_int *o, const mpz_t orig)
{
    if (o->dp == NULL || o->used > o->alloc) { report(t, "input-modified", what, NULL, orig); return; }
    obj_to_mpz(ZG, o);
    if (mpz_cmp(ZG, orig) != 0) report(t, "input-modified", what, ZG, orig);
}
static void check_int(T *t, const char *what, long got, long exp)
{
    if (got != exp) { mpz_set_si(ZG, got); mpz_set_si(ZT2, exp); report(t, "wrong-result", what, ZG, ZT2); }
}
/* Crash containment.  A sanitizer report kills the batch child; the parent resumes behind the
 * case.  A defect that aborts on every call of one sub-class (function x alias x stale x mode)
 * would cost one fork + symbolised report per case, so after MAXCRASH aborts of the same
 * sub-class in this shard its remaining cases are skipped (and counted); every other
 * sub-class of the function is still executed. */
#define MAXCRASH 4
static int guard(T *t)
{
    int sig = t->sigx ? (0x80 | (t->sigx & 0x7f)) : ((t->alias & 7) | ((t->stale & 3) << 3));
    SH->cursig = sig;
    if (SH->crashcnt[t->opid][sig] >= MAXCRASH && !g_single) { stat_addf(1, "skipped_known_crash_%s", t->fn); t->rc = -9999; return 0; }
    return 1;
}
#define CALL(t, expr) (guard(t) ? called((t), (expr)) : 0)
/* call accounting: one evaluated library call */
static int called(T *t, int rc)
{
    t->rc = rc;
    stat_add("cases", 1);
    stat_addf(1, "op_%s", t->fn);
    if (rc < 0) { stat_addf(1, "err_%s", t->fn); return 0; }
    return 1;
}

/* ------------------------------------------------------------- set-up */
static const int special_n[] = { 1, 2, 3, 4, 8, 15, 16, 16, 16, 17, 24, 31, 32, 32, 32, 33, 48, 63, 64, 64 };

/* operand digit counts: four of five cases sweep the full 64x64 grid, the fifth is an
 * equal-size case (unrolled 16/32 paths and their neighbours) usually with related operands */
static void sizes2(T *t)
{
    long j = t->j;
    if (j % 5 == 4) {
        long s = j / 5;
        t->special = 1;
        t->la = t->lb = (s % 3 == 2) ? 1 + (int) (snext(t) % MAXN) : special_n[(s / 3) % 20];
    } else {
        long g = (j / 5) * 4 + j % 5;
        t->special = 0;
        t->la = 1 + (int) (g % MAXN); t->lb = 1 + (int) ((g / MAXN) % MAXN);
    }
}
static void sizes1(T *t)
{
    long j = t->j;
    if (j % 4 == 3) { t->special = 1; t->la = special_n[(j / 4) % 20]; }
    else { long g = (j / 4) * 3 + j % 4; t->special = 0; t->la = 1 + (int) (g % MAXN); }
    t->lb = 0;
}

/* generate a and b (values only) */
static void gen_ab(T *t, int signed_a, int signed_b)
{
    t->sa = signed_a ? (int) (snext(t) & 1) : 0;
    t->sb = signed_b ? (int) (snext(t) & 1) : 0;
    t->ka = pick_kind(t);
    gen_val(t, &t->va, t->la, t->ka, t->sa);
    if (t->special && (snext(t) & 3)) {
        static const int rels[3] = { K_EQUAL, K_TOPDIFF, K_LOWDIFF };
        t->kb = rels[snext(t) % 3];
        derive_val(t, &t->vb, &t->va, t->kb, t->sb);
    } else {
        t->kb = pick_kind(t);
        gen_val(t, &t->vb, t->lb, t->kb, t->sb);
    }
}

/* create objects for a binary op with output c, honouring the alias mode */
static void build_abc(T *t, int nalias, int stale_hint)
{
    t->alias = nalias > 1 ? (int) (snext(t) % (unsigned) (nalias + 2)) : 0;
    if (t->alias >= nalias) t->alias = AL_NONE;          /* none is the most frequent */
    t->stale = (int) (snext(t) & 3);
    if (t->alias == AL_AB || t->alias == AL_ALL) { t->vb = t->va; t->kb = K_SAMEOBJ; t->sb = t->sa; }
    mkobj(&t->oa, &t->va, pick_extra(t)); t->has_a = 1; t->pa = &t->oa;
    if (t->alias == AL_AB || t->alias == AL_ALL) t->pb = t->pa;
    else { mkobj(&t->ob, &t->vb, pick_extra(t)); t->has_b = 1; t->pb = &t->ob; }
    if (t->alias == AL_CA || t->alias == AL_ALL) t->pc = t->pa;
    else if (t->alias == AL_CB) t->pc = t->pb;
    else { mkstale(t, &t->oc, t->stale, stale_hint); t->has_c = 1; t->pc = &t->oc; }
    val_to_mpz(ZA, &t->va); val_to_mpz(ZB, &t->vb);
}
static void build_ac(T *t, int can_alias, int stale_hint)
{
    t->alias = can_alias && (snext(t) % 3 == 0) ? AL_CA : AL_NONE;
    t->stale = (int) (snext(t) & 3);
    mkobj(&t->oa, &t->va, pick_extra(t)); t->has_a = 1; t->pa = &t->oa;
    if (t->alias == AL_CA) t->pc = t->pa; else { mkstale(t, &t->oc, t->stale, stale_hint); t->has_c = 1; t->pc = &t->oc; }
    val_to_mpz(ZA, &t->va);
}
static void note(T *t)
{
    distinct("%s|%d,%d,%d|%d,%d,%d|%d|%d%d|%d", t->fn, szclass(t->va.used), szclass(t->vb.used), szclass(t->vc.used), t->ka, t->kb, t->kc, t->alias, t->va.sign, t->vb.sign, t->stale != ST_FRESH);
}
static void inputs_unchanged(T *t)
{
    if (t->pa && t->pa != t->pc) check_input(t, "input a", t->pa, ZA);
    if (t->pb && t->pb != t->pc && t->pb != t->pa) check_input(t, "input b", t->pb, ZB);
}
static void sample(T *t, const mpz_t got)
{
    if (t->j % 997 != 3 || vf_nsamples >= 1) return;
    char *ha = hexz(ZA, 48), *hb = hexz(ZB, 48), *hg = hexz(got, 48);
    vf_sample("%s j=%ld digits=%d,%d kinds=%s,%s alias=%s stale=%s %s rc=%d a=%s b=%s result=%s (== GMP)", t->fn, t->j, t->va.used, t->vb.used,
              kname[t->ka], kname[t->kb], alname[t->alias], stname[t->stale], t->extra, t->rc, ha, hb, hg);
    free(ha); free(hb); free(hg);
}
static void finish_c(T *t, const mpz_t exp, int magnitude_only)
{
    if (t->rc >= 0) { if (!check_obj(t, "result", t->pc, exp, magnitude_only)) sample(t, exp); inputs_unchanged(t); }
    note(t);
}
static void cleanup(T *t)
{
    if (t->has_a) pstm_clear(&t->oa);
    if (t->has_b) pstm_clear(&t->ob);
    if (t->has_c) pstm_clear(&t->oc);
    if (t->has_d) pstm_clear(&t->od);
}

/* scratch "paD" buffers as the exptmod/ecc callers pass them: 0 none, 1 adequate, 2 too small */
static pstm_digit *mkpad(T *t, int need_digits, psSize_t *len, int *mode)
{
    *mode = (int) (snext(t) % 3);
    if (*mode == 0) { *len = 0; return NULL; }
    int n = *mode == 1 ? need_digits + (int) (snext(t) % 3) : (need_digits > 1 ? need_digits - 1 : 1);
    if (*mode == 2 && need_digits <= 1) *mode = 1;
    pstm_digit *p = malloc(8 * (size_t) n);
    memset(p, 0xa5, 8 * (size_t) n);
    *len = (psSize_t) (8 * n);
    return p;
}

/* ------------------------------------------------------------------ ops */
static void op_add(T *t)
{
    t->fn = "pstm_add"; sizes2(t); gen_ab(t, 1, 1); build_abc(t, 5, t->la > t->lb ? t->la : t->lb);
    mpz_add(ZE, ZA, ZB);
    CALL(t, pstm_add(t->pa, t->pb, t->pc));
    finish_c(t, ZE, 0);
}
static void op_sub(T *t)
{
    t->fn = "pstm_sub"; sizes2(t); gen_ab(t, 1, 1); build_abc(t, 5, t->la > t->lb ? t->la : t->lb);
    mpz_sub(ZE, ZA, ZB);
    CALL(t, pstm_sub(t->pa, t->pb, t->pc));
    finish_c(t, ZE, 0);
}
/* contract: unsigned magnitudes, |a| >= |b|; the sign of c is the caller's business */
static void op_sub_s(T *t)
{
    t->fn = "pstm_sub_s"; sizes2(t); gen_ab(t, 0, 0);
    val_to_mpz(ZA, &t->va); val_to_mpz(ZB, &t->vb);
    if (mpz_cmp(ZA, ZB) < 0) { val_t tmp = t->va; int k = t->ka; t->va = t->vb; t->vb = tmp; t->ka = t->kb; t->kb = k; }
    build_abc(t, 5, t->la > t->lb ? t->la : t->lb);
    if (t->has_c) t->oc.sign = PSTM_ZPOS;
    mpz_sub(ZE, ZA, ZB);
    CALL(t, pstm_sub_s(t->pa, t->pb, t->pc));
    finish_c(t, ZE, 1);
}
static void op_mul_comba(T *t)
{
    psSize_t plen; int pmode;
    t->fn = "pstm_mul_comba"; sizes2(t); gen_ab(t, 1, 1); build_abc(t, 5, t->la + t->lb);
    pstm_digit *pad = mkpad(t, t->pa->used + t->pb->used, &plen, &pmode);
    snprintf(t->extra, sizeof t->extra, "paD=%s", pmode == 0 ? "NULL" : pmode == 1 ? "adequate" : "short");
    mpz_mul(ZE, ZA, ZB);
    CALL(t, pstm_mul_comba(NULL, t->pa, t->pb, t->pc, pad, plen));
    finish_c(t, ZE, 0);
    free(pad);
}
static void op_sqr_comba(T *t)
{
    psSize_t plen; int pmode;
    t->fn = "pstm_sqr_comba"; sizes1(t); t->sa = (int) (snext(t) & 1); t->ka = pick_kind(t); t->kb = K_ZERO;
    gen_val(t, &t->va, t->la, t->ka, t->sa); build_ac(t, 1, 2 * t->la);
    pstm_digit *pad = mkpad(t, 2 * t->pa->used, &plen, &pmode);
    snprintf(t->extra, sizeof t->extra, "paD=%s", pmode == 0 ? "NULL" : pmode == 1 ? "adequate" : "short");
    mpz_mul(ZE, ZA, ZA);
    CALL(t, pstm_sqr_comba(NULL, t->pa, t->pc, pad, plen));
    finish_c(t, ZE, 0);
    free(pad);
}
static pstm_digit pick_digit(T *t)
{
    uint64_t r = vnext(t);
    switch (snext(t) % 8) {
    case 0: return 0;
    case 1: return 1;
    case 2: return ~0ULL;
    case 3: return 1ULL << 63;
    case 4: return r & 0xff;
    default: return r;
    }
}
static void op_digit(T *t, int which)
{
    static const char *fns[] = { "pstm_mul_d", "pstm_add_d", "pstm_sub_d" };
    t->fn = fns[which]; sizes1(t); t->sa = (int) (snext(t) & 1); t->ka = pick_kind(t);
    gen_val(t, &t->va, t->la, t->ka, t->sa); build_ac(t, 1, t->la + 1);
    pstm_digit d = pick_digit(t);
    snprintf(t->extra, sizeof t->extra, "digit=0x%llx", (unsigned long long) d);
    mpz_set_ui(ZB, d);
    if (which == 0) { mpz_mul(ZE, ZA, ZB); CALL(t, pstm_mul_d(t->pa, d, t->pc)); }
    else if (which == 1) { mpz_add(ZE, ZA, ZB); CALL(t, pstm_add_d(NULL, t->pa, d, t->pc)); }
    else { mpz_sub(ZE, ZA, ZB); CALL(t, pstm_sub_d(NULL, t->pa, d, t->pc)); }
    t->vb.used = d ? 1 : 0; t->kb = d == 0 ? K_ZERO : d == 1 ? K_ONE : d == ~0ULL ? K_ALLONES : K_DENSE;
    finish_c(t, ZE, 0);
}
static void op_mul_d(T *t) { op_digit(t, 0); }
static void op_add_d(T *t) { op_digit(t, 1); }
static void op_sub_d(T *t) { op_digit(t, 2); }

/* truncating division, both signs; quotient and/or remainder; outputs may alias inputs */
static void op_div(T *t)
{
    pstm_int *q = NULL, *r = NULL;
    int want, al;
    t->fn = "pstm_div"; sizes2(t); gen_ab(t, 1, 1);
    want = 1 + (int) (snext(t) % 3);               /* 1 q only, 2 r only, 3 both */
    al = (int) (snext(t) % 8);                     /* 0..3 none, 4 q=a, 5 r=a, 6 q=b, 7 r=b */
    t->stale = (int) (snext(t) & 3);
    mkobj(&t->oa, &t->va, pick_extra(t)); t->has_a = 1; t->pa = &t->oa;
    mkobj(&t->ob, &t->vb, pick_extra(t)); t->has_b = 1; t->pb = &t->ob;
    val_to_mpz(ZA, &t->va); val_to_mpz(ZB, &t->vb);
    if (want & 1) { if (al == 4) q = t->pa; else if (al == 6) q = t->pb; else { mkstale(t, &t->oc, t->stale, t->la); t->has_c = 1; q = &t->oc; } }
    if (want & 2) { if (al == 5) r = t->pa; else if (al == 7) r = t->pb; else { mkstale(t, &t->od, (t->stale + 1) & 3, t->lb); t->has_d = 1; r = &t->od; } }
    t->alias = (q == t->pa || r == t->pa) ? AL_CA : (q == t->pb || r == t->pb) ? AL_CB : AL_NONE;
    snprintf(t->extra, sizeof t->extra, "want=%s%s q=%s r=%s", want & 1 ? "q" : "", want & 2 ? "r" : "",
             q == t->pa ? "a" : q == t->pb ? "b" : q ? "own" : "NULL", r == t->pa ? "a" : r == t->pb ? "b" : r ? "own" : "NULL");
    if (mpz_sgn(ZB) != 0) mpz_tdiv_qr(ZE, ZE2, ZA, ZB);
    if (CALL(t, pstm_div(NULL, t->pa, t->pb, q, r))) {
        if (mpz_sgn(ZB) == 0) report(t, "success-on-zero-divisor", "rc", NULL, NULL);
        else {
            int bad = 0;
            if (q) bad |= check_obj(t, "quotient", q, ZE, 0);
            if (r) bad |= check_obj(t, "remainder", r, ZE2, 0);
            if (q != t->pa && r != t->pa) check_input(t, "input a", t->pa, ZA);
            if (q != t->pb && r != t->pb) check_input(t, "input b", t->pb, ZB);
            if (!bad) sample(t, q ? ZE : ZE2);
        }
    }
    distinct("pstm_div|%d,%d|%d,%d|%d|%d%d|%d|%d", szclass(t->va.used), szclass(t->vb.used), t->ka, t->kb, al < 4 ? 0 : al, t->va.sign, t->vb.sign, want, t->stale != ST_FRESH);
}
static int pick_shift(T *t, int n)
{
    int r = (int) (vnext(t) & 0x7fff);
    switch (snext(t) % 12) {
    case 0: return 0;
    case 1: return 1;
    case 2: return 63;
    case 3: return 64;
    case 4: return 65;
    case 5: return 64 * (1 + r % (n > 0 ? n : 1));
    case 6: return 64 * n + r % 70;
    case 7: return -(1 + r % 9);
    case 8: return 64 * n - 1 > 0 ? 64 * n - 1 : 1;
    default: return r % (64 * n + 2);
    }
}
static void op_div_2d(T *t)
{
    int b, mode;
    pstm_int *q, *r = NULL;
    t->fn = "pstm_div_2d"; sizes1(t); t->sa = (int) (snext(t) & 1); t->ka = pick_kind(t);
    gen_val(t, &t->va, t->la, t->ka, t->sa);
    b = pick_shift(t, t->la);
    /* 0 q own, no remainder; 1 q=a, no remainder (library's own usage); 2 q own, r own; 3 q own, r=a */
    mode = (int) (snext(t) & 3);
    t->stale = (int) (snext(t) & 3);
    mkobj(&t->oa, &t->va, pick_extra(t)); t->has_a = 1; t->pa = &t->oa; val_to_mpz(ZA, &t->va);
    if (mode == 1) q = t->pa; else { mkstale(t, &t->oc, t->stale, t->la); t->has_c = 1; q = &t->oc; }
    if (mode == 2) { mkstale(t, &t->od, (t->stale + 1) & 3, t->la); t->has_d = 1; r = &t->od; } else if (mode == 3) r = t->pa;
    t->alias = mode == 1 || mode == 3 ? AL_CA : AL_NONE;
    snprintf(t->extra, sizeof t->extra, "shift=%d q=%s r=%s", b, mode == 1 ? "a" : "own", mode == 2 ? "own" : mode == 3 ? "a" : "NULL");
    t->sigx = 1 + (b <= 0 ? 0 : b < 64 ? 1 : b == 64 ? 2 : (b % 64 == 0) ? 3 : b >= 64 * t->va.used ? 5 : 4) + 6 * mode;   /* crash class: shift class x output mode */
    if (b > 0) { mpz_tdiv_q_2exp(ZE, ZA, b); mpz_tdiv_r_2exp(ZE2, ZA, b); } else { mpz_set(ZE, ZA); mpz_set_ui(ZE2, 0); }
    if (CALL(t, pstm_div_2d(NULL, t->pa, (int16_t) b, q, r))) {
        int bad = check_obj(t, "quotient", q, ZE, 0);
        if (r) bad |= check_obj(t, "remainder", r, ZE2, 0);
        if (q != t->pa && r != t->pa) check_input(t, "input a", t->pa, ZA);
        if (!bad) sample(t, ZE);
    }
    distinct("pstm_div_2d|%d|%d|%d|%d|%d|%d", szclass(t->va.used), t->ka, mode, t->va.sign, b <= 0 ? 0 : b < 64 ? 1 : b == 64 ? 2 : (b % 64 == 0) ? 3 : b >= 64 * t->va.used ? 5 : 4, t->stale != ST_FRESH);
}
static void op_unary(T *t, int which)
{
    static const char *fns[] = { "pstm_div_2", "pstm_mul_2", "pstm_copy", "pstm_abs" };
    t->fn = fns[which]; sizes1(t); t->sa = (int) (snext(t) & 1); t->ka = pick_kind(t);
    gen_val(t, &t->va, t->la, t->ka, t->sa); build_ac(t, 1, t->la + 1);
    switch (which) {
    case 0: mpz_tdiv_q_2exp(ZE, ZA, 1); CALL(t, pstm_div_2(t->pa, t->pc)); break;
    case 1: mpz_mul_2exp(ZE, ZA, 1); CALL(t, pstm_mul_2(t->pa, t->pc)); break;
    case 2: mpz_set(ZE, ZA); CALL(t, pstm_copy(t->pa, t->pc)); break;
    default: mpz_abs(ZE, ZA); CALL(t, pstm_abs(t->pa, t->pc)); break;
    }
    finish_c(t, ZE, 0);
}
static void op_div_2(T *t) { op_unary(t, 0); }
static void op_mul_2(T *t) { op_unary(t, 1); }
static void op_copy(T *t) { op_unary(t, 2); }
static void op_abs(T *t) { op_unary(t, 3); }

/* NIST prime-field and group-order moduli as used by the ECC code (little-endian digits) */
static const uint64_t P256[] = { 0xffffffffffffffffULL, 0x00000000ffffffffULL, 0, 0xffffffff00000001ULL };
static const uint64_t N256[] = { 0xf3b9cac2fc632551ULL, 0xbce6faada7179e84ULL, 0xffffffffffffffffULL, 0xffffffff00000000ULL };
static const uint64_t P384[] = { 0x00000000ffffffffULL, 0xffffffff00000000ULL, 0xfffffffffffffffeULL, ~0ULL, ~0ULL, ~0ULL };
static const uint64_t P521[] = { ~0ULL, ~0ULL, ~0ULL, ~0ULL, ~0ULL, ~0ULL, ~0ULL, ~0ULL, 0x1ff };
static const uint64_t P224[] = { 1, 0xffffffff00000000ULL, ~0ULL, 0xffffffffULL };
static const uint64_t P192[] = { ~0ULL, 0xfffffffffffffffeULL, ~0ULL };

/* a positive modulus of n digits.  parity: 0 any, 1 odd, 2 even; min2: value must be > 1 */
static void gen_modulus(T *t, val_t *m, int n, int parity, int *kind)
{
    unsigned r = (unsigned) (snext(t) % 16);
    if (r == 0 && parity != 2) {
        static const struct { const uint64_t *p; int n; } sp[] = { { P256, 4 }, { N256, 4 }, { P384, 6 }, { P521, 9 }, { P224, 4 }, { P192, 3 } };
        unsigned k = (unsigned) (snext(t) % 6);
        memset(m, 0, sizeof *m); memcpy(m->d, sp[k].p, 8 * (size_t) sp[k].n); m->used = sp[k].n; m->kind = *kind = K_SPECIAL;
        return;
    }
    do { *kind = pick_kind(t); } while (*kind == K_ZERO || (*kind == K_ONE && n > 1));
    gen_val(t, m, n, *kind, 0);
    if (parity == 1) m->d[0] |= 1;
    else if (parity == 2) { m->d[0] &= ~1ULL; if (m->used == 1 && m->d[0] == 0) m->d[0] = 2; }
    vclamp(m);
    if (m->used == 0) { m->d[0] = parity == 2 ? 2 : 3; m->used = 1; }
}

static void op_mod(T *t)
{
    t->fn = "pstm_mod"; sizes2(t);
    t->sa = (int) (snext(t) & 1); t->sb = 0; t->ka = pick_kind(t);
    gen_val(t, &t->va, t->la, t->ka, t->sa);
    gen_modulus(t, &t->vb, t->lb, 0, &t->kb);
    if (t->special && (snext(t) & 1)) { derive_val(t, &t->va, &t->vb, K_EQUAL + (int) (snext(t) % 3), t->sa); t->ka = t->va.kind; if (t->va.used == 0) t->va.sign = 0; }
    build_abc(t, 3, t->lb);                        /* none, c=a, c=b */
    mpz_mod(ZE, ZA, ZB);
    CALL(t, pstm_mod(NULL, t->pa, t->pb, t->pc));
    finish_c(t, ZE, 0);
}
static void op_mulmod(T *t)
{
    pstm_int om; int al;
    t->fn = "pstm_mulmod"; sizes2(t); gen_ab(t, 1, 1);
    t->lc = 1 + (int) (snext(t) % MAXN); if (snext(t) & 1) t->lc = t->la > t->lb ? t->la : t->lb;
    gen_modulus(t, &t->vc, t->lc, 0, &t->kc);
    al = (int) (snext(t) % 7);                     /* 0..2 none, 3 d=a, 4 d=b, 5 a=b, 6 d=modulus */
    t->stale = (int) (snext(t) & 3);
    if (al == 5) { t->vb = t->va; t->kb = K_SAMEOBJ; }
    mkobj(&t->oa, &t->va, pick_extra(t)); t->has_a = 1; t->pa = &t->oa;
    if (al == 5) t->pb = t->pa; else { mkobj(&t->ob, &t->vb, pick_extra(t)); t->has_b = 1; t->pb = &t->ob; }
    mkobj(&om, &t->vc, pick_extra(t));
    if (al == 3) t->pc = t->pa; else if (al == 4) t->pc = t->pb; else if (al == 6) t->pc = &om; else { mkstale(t, &t->oc, t->stale, t->lc); t->has_c = 1; t->pc = &t->oc; }
    t->alias = al == 3 ? AL_CA : al == 4 ? AL_CB : al == 5 ? AL_AB : AL_NONE;
    snprintf(t->extra, sizeof t->extra, "out=%s", al == 3 ? "a" : al == 4 ? "b" : al == 6 ? "modulus" : "own");
    val_to_mpz(ZA, &t->va); val_to_mpz(ZB, &t->vb); val_to_mpz(ZC, &t->vc);
    mpz_mul(ZE, ZA, ZB); mpz_mod(ZE, ZE, ZC);
    if (CALL(t, pstm_mulmod(NULL, t->pa, t->pb, &om, t->pc))) {
        if (!check_obj(t, "result", t->pc, ZE, 0)) sample(t, ZE);
        inputs_unchanged(t);
        if (t->pc != &om) check_input(t, "modulus", &om, ZC);
    }
    distinct("pstm_mulmod|%d,%d,%d|%d,%d,%d|%d|%d%d|%d", szclass(t->va.used), szclass(t->vb.used), szclass(t->vc.used), t->ka, t->kb, t->kc, al < 3 ? 0 : al, t->va.sign, t->vb.sign, t->stale != ST_FRESH);
    pstm_clear(&om);
}

/* y = g^x mod p.  Documented contract (pstm.c): x positive and < p; p positive, odd and of
 * 512/1024/1536/2048/3072/4096 bits.  g: any non-negative value (the code reduces larger g). */
static void op_exptmod(T *t)
{
    static const int psz[] = { 8, 8, 8, 8, 8, 8, 8, 16, 16, 16, 16, 16, 16, 24, 24, 32, 32, 32, 48, 64 };
    pstm_int op; int n, xk, gk, even = 0;
    val_t *vp = &t->vc;
    t->fn = "pstm_exptmod";
    n = psz[t->j % 20];
    /* modulus: exact bit length 64n, odd (one case in 40 is even: must be refused, not mis-computed) */
    static const int pk[] = { K_TOPBIT, K_TOPBIT, K_ALLONES, K_POW2P1, K_SPARSE0, K_SPARSE1 };
    t->kc = pk[snext(t) % 6];
    gen_val(t, vp, n, t->kc, 0);
    if (t->kc == K_POW2P1) { memset(vp->d, 0, sizeof vp->d); vp->used = n; }
    vp->d[n - 1] |= 1ULL << 63; vp->d[0] |= 1;
    if (snext(t) % 40 == 0) { vp->d[0] &= ~1ULL; even = 1; }
    val_to_mpz(ZC, vp);
    /* exponent, 1 <= x < p */
    xk = (int) (snext(t) % 11);
    switch (xk) {
    case 0: mpz_set_ui(ZB, 1); break;
    case 1: mpz_set_ui(ZB, 2); break;
    case 2: mpz_set_ui(ZB, 3); break;
    case 3: mpz_set_ui(ZB, 65537); break;
    case 4: mpz_set_ui(ZB, 1); mpz_mul_2exp(ZB, ZB, vnext(t) % (64 * n - 1)); break;                   /* 2^k */
    case 5: mpz_set_ui(ZB, 1); mpz_mul_2exp(ZB, ZB, 1 + vnext(t) % (64 * n - 1)); mpz_sub_ui(ZB, ZB, 1); break; /* all ones */
    case 6: mpz_sub_ui(ZB, ZC, 1); break;                                                                  /* p-1 */
    case 9: mpz_set_ui(ZB, 0); break;     /* outside the documented contract ("x must be positive"): observed, not judged */
    case 7: { int xd = 1 + (int) (snext(t) % 4); val_t *x = &t->vb; gen_val(t, x, xd, K_DENSE, 0); val_to_mpz(ZB, x); break; } /* short (DH-like) */
    default: { val_t *x = &t->vb; gen_val(t, x, n, K_DENSE, 0); val_to_mpz(ZB, x); mpz_mod(ZB, ZB, ZC); if (mpz_sgn(ZB) == 0) mpz_set_ui(ZB, 5); break; }
    }
    mpz_to_val(&t->vb, ZB, K_DENSE); t->kb = K_DENSE;
    /* base */
    gk = (int) (snext(t) % 10);
    switch (gk) {
    case 0: mpz_set_ui(ZA, 0); break;
    case 1: mpz_set_ui(ZA, 1); break;
    case 2: mpz_set_ui(ZA, 2); break;
    case 3: mpz_sub_ui(ZA, ZC, 1); break;
    case 4: { val_t *g = &t->va; gen_val(t, g, n + 1 + (int) (snext(t) % 3), K_DENSE, 0); val_to_mpz(ZA, g); break; }   /* more digits than p */
    case 5: { val_t *g = &t->va; gen_val(t, g, 1 + (int) (snext(t) % (unsigned) n), pick_kind(t), 0); val_to_mpz(ZA, g); break; } /* shorter */
    case 6: mpz_set(ZA, ZC); break;                                                                       /* g == p (psRsaCrypt admits input == N) */
    case 7: { val_t *g = &t->va; gen_val(t, g, n, K_DENSE, 0); val_to_mpz(ZA, g); mpz_set_ui(ZT, 1); mpz_mul_2exp(ZT, ZT, 64UL * n); mpz_sub(ZT, ZT, ZC);
              mpz_mod(ZA, ZA, ZT); mpz_add(ZA, ZA, ZC); break; }                                           /* p <= g < 2^bits: same digit count, not reduced */
    default: { val_t *g = &t->va; gen_val(t, g, n, K_DENSE, 0); val_to_mpz(ZA, g); mpz_mod(ZA, ZA, ZC); break; }
    }
    mpz_to_val(&t->va, ZA, K_DENSE); t->ka = K_DENSE;
    t->alias = (snext(t) % 3 == 0) ? AL_CA : AL_NONE;
    t->stale = (int) (snext(t) & 3);
    /* the stale output may be shorter or longer than p; callers allocate 2*|p|+1 */
    mkobj(&t->oa, &t->va, (t->alias == AL_CA && (snext(t) & 1) && t->va.used < 2 * n + 1) ? 2 * n + 1 - t->va.used : pick_extra(t)); t->has_a = 1; t->pa = &t->oa;
    mkobj(&t->ob, &t->vb, pick_extra(t)); t->has_b = 1; t->pb = &t->ob;
    mkobj(&op, vp, pick_extra(t));
    if (t->alias == AL_CA) t->pc = t->pa; else { mkstale(t, &t->oc, t->stale, n); t->has_c = 1; t->pc = &t->oc; }
    {
        static const char *xn[] = { "1", "2", "3", "65537", "2^k", "2^k-1", "p-1", "short", "random<p", "0", "random<p" };
        static const char *gn[] = { "0", "1", "2", "p-1", "longer-than-p", "shorter", "g==p", "p<=g<2^bits", "random<p", "random<p" };
        snprintf(t->extra, sizeof t->extra, "pbits=%d x=%s g=%s%s", 64 * n, xn[xk], gn[gk], even ? " even-modulus" : "");
    }
    if (!even) mpz_powm(ZE, ZA, ZB, ZC);
    if (CALL(t, pstm_exptmod(NULL, t->pa, t->pb, &op, t->pc))) {
        if (even) { mpz_powm(ZE, ZA, ZB, ZC); }
        if (xk == 9) {
            if (t->pc->used <= t->pc->alloc) { obj_to_mpz(ZG, t->pc); if (mpz_cmp(ZG, ZE)) stat_add("soft_exptmod_zero_exponent_not_one", 1); }
        }
        else if (!check_obj(t, "result", t->pc, ZE, 0)) sample(t, ZE);
        inputs_unchanged(t);
        check_input(t, "modulus", &op, ZC);
    }
    distinct("pstm_exptmod|%d|%d|%d|%d|%d|%d|%d", n, t->kc, xk, gk, t->alias, t->stale, even);
    pstm_clear(&op);
}

/* c = 1/a mod b, b > 1.  Canonical result demanded for 0 < a < b (how ecc uses it);
 * for a >= b or a < 0 only the defining congruence a*c == 1 (mod b) is demanded. */
static void op_invmod(T *t)
{
    int regime, have_inv;
    t->fn = "pstm_invmod"; sizes2(t);
    if (t->la > t->lb && (snext(t) & 3)) { int x = t->la; t->la = t->lb; t->lb = x; }
    gen_modulus(t, &t->vb, t->lb, (snext(t) % 4 == 0) ? 2 : 1, &t->kb);
    if (t->vb.used == 1 && t->vb.d[0] == 1) t->vb.d[0] = 3;
    t->ka = pick_kind(t);
    regime = (int) (snext(t) % 8);                  /* 0..5 reduced, 6 unreduced, 7 negative */
    gen_val(t, &t->va, t->la, t->ka, regime == 7);
    val_to_mpz(ZA, &t->va); val_to_mpz(ZB, &t->vb);
    if (regime == 5) { mpz_set_ui(ZA, 1); mpz_mul_2exp(ZA, ZA, 64UL * t->vb.used); mpz_mod(ZA, ZA, ZB); t->ka = K_SPECIAL; mpz_to_val(&t->va, ZA, t->ka); }  /* R mod b */
    else if (regime < 6 && mpz_cmpabs(ZA, ZB) >= 0) { mpz_mod(ZA, ZA, ZB); mpz_to_val(&t->va, ZA, t->ka); }
    t->alias = (snext(t) % 3 == 0) ? AL_CA : AL_NONE;
    t->stale = (int) (snext(t) & 3);
    mkobj(&t->oa, &t->va, pick_extra(t)); t->has_a = 1; t->pa = &t->oa;
    mkobj(&t->ob, &t->vb, pick_extra(t)); t->has_b = 1; t->pb = &t->ob;
    if (t->alias == AL_CA) t->pc = t->pa; else { mkstale(t, &t->oc, t->stale, t->lb); t->has_c = 1; t->pc = &t->oc; }
    val_to_mpz(ZA, &t->va);
    have_inv = mpz_invert(ZE, ZA, ZB);
    int strict = mpz_sgn(ZA) > 0 && mpz_cmp(ZA, ZB) < 0;
    snprintf(t->extra, sizeof t->extra, "%s modulus, a %s, inverse %s", (t->vb.d[0] & 1) ? "odd" : "even", strict ? "reduced" : mpz_sgn(ZA) < 0 ? "negative" : "unreduced", have_inv ? "exists" : "does not exist");
    if (CALL(t, pstm_invmod(NULL, t->pa, t->pb, t->pc))) {
        if (!have_inv) { if (t->pc->used <= t->pc->alloc) obj_to_mpz(ZG, t->pc); report(t, "success-without-inverse", "result", ZG, NULL); }
        else if (strict) {
            if (check_inv(t, "result", t->pc, ZE) != 2) {
                obj_to_mpz(ZG, t->pc);
                if (mpz_cmp(ZG, ZE) == 0) sample(t, ZE);
                else {
                    /* congruent but outside 0..b-1, or not an inverse at all */
                    mpz_mul(ZT, ZG, ZA); mpz_sub_ui(ZT, ZT, 1); mpz_mod(ZT, ZT, ZB); mpz_set(ZT2, ZG);
                    report(t, mpz_sgn(ZT) == 0 ? "unreduced-result" : "wrong-value", "result", ZT2, ZE);
                }
            }
        }
        else if (check_inv(t, "result", t->pc, ZE) != 2) {
            /* outside the reduced range only a*c == 1 (mod b) is demanded */
            obj_to_mpz(ZG, t->pc);
            mpz_mul(ZT, ZG, ZA); mpz_sub_ui(ZT, ZT, 1); mpz_mod(ZT, ZT, ZB);
            if (mpz_sgn(ZT) != 0) { mpz_set(ZT2, ZG); report(t, "wrong-value", "result (not an inverse)", ZT2, ZE); }
            else { if (mpz_cmp(ZG, ZE) != 0) stat_add("soft_invmod_noncanonical", 1); sample(t, ZE); }
        }
        inputs_unchanged(t);
    }
    distinct("pstm_invmod|%d,%d|%d,%d|%d|%d|%d|%d|%d", szclass(t->va.used), szclass(t->vb.used), t->ka, t->kb, t->alias, regime < 6 ? 0 : regime, (int) (t->vb.d[0] & 1), have_inv, t->stale != ST_FRESH);
}

static void op_shd(T *t, int left)
{
    int b;
    t->fn = left ? "pstm_lshd" : "pstm_rshd"; sizes1(t); t->sa = (int) (snext(t) & 1); t->ka = pick_kind(t);
    gen_val(t, &t->va, t->la, t->ka, t->sa);
    switch (snext(t) % 6) {
    case 0: b = 0; break;
    case 1: b = 1; break;
    case 2: b = t->la; break;
    case 3: b = t->la > 1 ? t->la - 1 : 1; break;
    case 4: b = left ? PSTM_MAX_SIZE - t->la + (int) (snext(t) % 3) - 1 : t->la + 1 + (int) (snext(t) % 3); break;
    default: b = (int) (snext(t) % (left ? 100 : t->la + 2)); break;
    }
    mkobj(&t->oa, &t->va, pick_extra(t)); t->has_a = 1; t->pa = t->pc = &t->oa; t->alias = AL_CA;
    val_to_mpz(ZA, &t->va);
    snprintf(t->extra, sizeof t->extra, "digits=%d", b);
    if (left) { mpz_mul_2exp(ZE, ZA, 64UL * b); CALL(t, pstm_lshd(t->pa, (uint16_t) b)); }
    else { mpz_tdiv_q_2exp(ZE, ZA, 64UL * b); if (guard(t)) { pstm_rshd(t->pa, (uint16_t) b); called(t, 0); } }
    if (t->rc >= 0) { if (!check_obj(t, "result", t->pa, ZE, 0)) sample(t, ZE); }
    distinct("%s|%d|%d|%d|%d", t->fn, szclass(t->va.used), t->ka, t->va.sign, b == 0 ? 0 : b < t->la ? 1 : b == t->la ? 2 : 3);
}
static void op_lshd(T *t) { op_shd(t, 1); }
static void op_rshd(T *t) { op_shd(t, 0); }

static void op_2expt(T *t)
{
    int b; unsigned r = (unsigned) (vnext(t) & 0xffff);
    t->fn = "pstm_2expt";
    switch (snext(t) % 10) {
    case 0: b = (int) (t->j % 130); break;
    case 1: b = 64 * (1 + (int) (r % 100)); break;
    case 2: b = 64 * (1 + (int) (r % 100)) - 1; break;
    case 3: b = 64 * PSTM_MAX_SIZE - 1 - (int) (r % 3); break;
    case 4: b = 64 * PSTM_MAX_SIZE + (int) (r % 3); break;      /* beyond the supported size: must fail */
    default: b = (int) (r % (64 * MAXN + 100)); break;
    }
    t->stale = (int) (snext(t) & 3);
    mkstale(t, &t->oc, t->stale, 1 + (int) (snext(t) % 70)); t->has_c = 1; t->pc = &t->oc;
    snprintf(t->extra, sizeof t->extra, "bit=%d", b);
    mpz_set_ui(ZE, 1); mpz_mul_2exp(ZE, ZE, (unsigned long) b);
    mpz_set_ui(ZA, (unsigned long) b);
    CALL(t, pstm_2expt(t->pc, (int16_t) b));
    if (t->rc >= 0) { if (!check_obj(t, "result", t->pc, ZE, 0)) sample(t, ZE); }
    distinct("pstm_2expt|%d|%d|%d", b / 64 < 70 ? b / 64 : 70 + b / 640, b % 64 == 0 ? 0 : b % 64 == 63 ? 2 : 1, t->stale);
}

static int sgn(int x) { return x < 0 ? -1 : x > 0 ? 1 : 0; }
static void op_cmp(T *t)
{
    int which = (int) (t->j % 3), same;
    static const char *fns[] = { "pstm_cmp", "pstm_cmp_mag", "pstm_cmp_d" };
    t->fn = fns[which];
    if (which == 2) {
        pstm_digit d;
        sizes1(t); if (snext(t) & 1) t->la = 1;
        t->sa = (int) (snext(t) & 1); t->ka = pick_kind(t);
        gen_val(t, &t->va, t->la, t->ka, t->sa);
        d = pick_digit(t); if (t->va.used == 1 && (snext(t) & 1)) d = t->va.d[0] + (pstm_digit) (snext(t) % 3) - 1;
        mkobj(&t->oa, &t->va, pick_extra(t)); t->has_a = 1; t->pa = &t->oa; val_to_mpz(ZA, &t->va); mpz_set_ui(ZB, d);
        snprintf(t->extra, sizeof t->extra, "digit=0x%llx", (unsigned long long) d);
        int got = pstm_cmp_d(t->pa, d);
        called(t, 0);
        check_int(t, "comparison", got, sgn(mpz_cmp(ZA, ZB)));
        check_input(t, "input a", t->pa, ZA);
        distinct("pstm_cmp_d|%d|%d|%d|%d", szclass(t->va.used), t->ka, t->va.sign, sgn(mpz_cmp(ZA, ZB)));
        return;
    }
    sizes2(t); gen_ab(t, 1, 1);
    same = (snext(t) % 16 == 0);
    if (same) { t->vb = t->va; t->kb = K_SAMEOBJ; }
    mkobj(&t->oa, &t->va, pick_extra(t)); t->has_a = 1; t->pa = &t->oa;
    if (same) t->pb = t->pa; else { mkobj(&t->ob, &t->vb, pick_extra(t)); t->has_b = 1; t->pb = &t->ob; }
    val_to_mpz(ZA, &t->va); val_to_mpz(ZB, &t->vb);
    int got = which == 0 ? pstm_cmp(t->pa, t->pb) : pstm_cmp_mag(t->pa, t->pb);
    int exp = which == 0 ? sgn(mpz_cmp(ZA, ZB)) : sgn(mpz_cmpabs(ZA, ZB));
    called(t, 0);
    check_int(t, "comparison", got, exp);
    check_input(t, "input a", t->pa, ZA); if (!same) check_input(t, "input b", t->pb, ZB);
    distinct("%s|%d,%d|%d,%d|%d%d|%d", t->fn, szclass(t->va.used), szclass(t->vb.used), t->ka, t->kb, t->va.sign, t->vb.sign, exp);
}

static void op_count_bits(T *t)
{
    t->fn = "pstm_count_bits"; sizes1(t); t->sa = (int) (snext(t) & 1); t->ka = pick_kind(t);
    gen_val(t, &t->va, t->la, t->ka, t->sa);
    mkobj(&t->oa, &t->va, pick_extra(t)); t->has_a = 1; t->pa = &t->oa; val_to_mpz(ZA, &t->va);
    long bits = mpz_sgn(ZA) ? (long) mpz_sizeinbase(ZA, 2) : 0;
    long got = pstm_count_bits(t->pa);
    called(t, 0); check_int(t, "bit count", got, bits);
    t->fn = "pstm_unsigned_bin_size";
    got = pstm_unsigned_bin_size(t->pa);
    called(t, 0); check_int(t, "byte count", got, (bits + 7) / 8);
    distinct("pstm_count_bits|%d|%d|%d", t->va.used, t->ka, (int) (bits % 8));
}

static void op_read_unsigned_bin(T *t)
{
    int len, lead, i, prep;
    unsigned char *buf;
    t->fn = "pstm_read_unsigned_bin"; sizes1(t); t->ka = pick_kind(t);
    gen_val(t, &t->va, t->la, t->ka, 0); val_to_mpz(ZA, &t->va);
    size_t cnt = 0; unsigned char tmp[8 * MAXDIG];
    mpz_export(tmp, &cnt, 1, 1, 0, 0, ZA);
    lead = (int) (snext(t) % 4 == 0 ? snext(t) % 9 : 0);
    len = (int) cnt + lead;
    buf = malloc(len ? len : 1);
    for (i = 0; i < lead; i++) buf[i] = 0;
    memcpy(buf + lead, tmp, cnt);
    prep = (int) (snext(t) % 3);    /* 0: as documented (init_for_read_unsigned_bin), 1/2: reused object, grow logic */
    t->stale = prep == 0 ? ST_FRESH : (int) (1 + snext(t) % 3);
    if (prep == 0) { if (pstm_init_for_read_unsigned_bin(NULL, &t->oc, (psSize_t) len) != PSTM_OKAY) harness_fail("init_for_read"); }
    else mkstale(t, &t->oc, t->stale, t->la);
    t->has_c = 1; t->pc = &t->oc;
    snprintf(t->extra, sizeof t->extra, "len=%d leading-zero-bytes=%d object=%s", len, lead, prep ? "reused" : "init_for_read_unsigned_bin");
    CALL(t, pstm_read_unsigned_bin(t->pc, buf, (psSize_t) len));
    if (t->rc >= 0) { if (!check_obj(t, "result", t->pc, ZA, 0)) sample(t, ZA); }
    distinct("pstm_read_unsigned_bin|%d|%d|%d|%d|%d", t->va.used, t->ka, (int) (cnt % 8), lead != 0, t->stale);
    free(buf);
}
static void op_to_unsigned_bin(T *t)
{
    int which = (int) (t->j & 1);
    t->fn = which ? "pstm_to_unsigned_bin_nr" : "pstm_to_unsigned_bin"; sizes1(t); t->sa = (int) (snext(t) & 1); t->ka = pick_kind(t);
    gen_val(t, &t->va, t->la, t->ka, t->sa);
    mkobj(&t->oa, &t->va, pick_extra(t)); t->has_a = 1; t->pa = &t->oa; val_to_mpz(ZA, &t->va);
    size_t cnt = 0; unsigned char exp[8 * MAXDIG];
    mpz_export(exp, &cnt, which ? -1 : 1, 1, 0, 0, ZA);
    unsigned char *out = malloc(cnt ? cnt : 1);      /* exact size: an over-long write is caught by ASan */
    memset(out, 0x5a, cnt ? cnt : 1);
    CALL(t, which ? pstm_to_unsigned_bin_nr(NULL, t->pa, out) : pstm_to_unsigned_bin(NULL, t->pa, out));
    if (t->rc >= 0) {
        if (memcmp(out, exp, cnt)) { mpz_import(ZG, cnt, which ? -1 : 1, 1, 0, 0, out); mpz_abs(ZT2, ZA); report(t, "wrong-value", "exported bytes", ZG, ZT2); }
        else sample(t, ZA);
        check_input(t, "input a", t->pa, ZA);
    }
    distinct("%s|%d|%d|%d|%d", t->fn, t->va.used, t->ka, (int) (cnt % 8), t->va.sign);
    free(out);
}
static void op_read_asn(T *t)
{
    unsigned char *der, *p; const unsigned char *pp;
    size_t cnt = 0, vlen, hl, total, trail; unsigned char tmp[8 * MAXDIG + 1];
    pstm_int a;
    t->fn = "pstm_read_asn"; sizes1(t); t->ka = pick_kind(t);
    gen_val(t, &t->va, t->la, t->ka, 0); val_to_mpz(ZA, &t->va);
    mpz_export(tmp + 1, &cnt, 1, 1, 0, 0, ZA); tmp[0] = 0;
    /* DER INTEGER, non-negative: leading 0x00 when the top bit is set; zero is 02 01 00 */
    const unsigned char *v; if (cnt == 0) { v = tmp; vlen = 1; } else if (tmp[1] & 0x80) { v = tmp; vlen = cnt + 1; } else { v = tmp + 1; vlen = cnt; }
    hl = vlen < 128 ? 2 : vlen < 256 ? 3 : 4;
    trail = snext(t) % 3 == 0 ? 1 + snext(t) % 5 : 0;
    total = hl + vlen + trail;
    der = malloc(total); p = der;
    *p++ = 0x02;
    if (vlen < 128) *p++ = (unsigned char) vlen; else if (vlen < 256) { *p++ = 0x81; *p++ = (unsigned char) vlen; } else { *p++ = 0x82; *p++ = (unsigned char) (vlen >> 8); *p++ = (unsigned char) vlen; }
    memcpy(p, v, vlen); p += vlen; memset(p, 0x30, trail);
    pp = der; memset(&a, 0, sizeof a);
    snprintf(t->extra, sizeof t->extra, "value-bytes=%zu trailing=%zu", vlen, trail);
    if (CALL(t, pstm_read_asn(NULL, &pp, (psSize_t) total, &a))) {
        if (!check_obj(t, "result", &a, ZA, 0)) sample(t, ZA);
        check_int(t, "bytes consumed", (long) (pp - der), (long) (hl + vlen));
        pstm_clear(&a);
    }
    distinct("pstm_read_asn|%d|%d|%d|%d", t->va.used, t->ka, (int) hl, trail != 0);
    free(der);
}
#if defined(USE_ECC) || defined(USE_CERT_GEN)
static void op_read_radix(T *t)
{
    static const int radices[] = { 16, 16, 10, 2, 8, 36, 62 };
    int radix = radices[t->j % 7];
    t->fn = "pstm_read_radix"; sizes1(t); if (t->la > 24) t->la = 1 + t->la % 24;
    t->sa = (int) (snext(t) & 1); t->ka = pick_kind(t);
    gen_val(t, &t->va, t->la, t->ka, t->sa); val_to_mpz(ZA, &t->va);
    char *s = mpz_get_str(NULL, radix <= 36 ? -radix : radix, ZA);
    if (radix == 16 && (snext(t) & 1)) { char *q; for (q = s; *q; q++) if (*q >= 'A' && *q <= 'F') *q += 32; }
    t->stale = (int) (snext(t) & 3);
    mkstale(t, &t->oc, t->stale, t->la); t->has_c = 1; t->pc = &t->oc;
    snprintf(t->extra, sizeof t->extra, "radix=%d chars=%zu", radix, strlen(s));
    CALL(t, pstm_read_radix(NULL, t->pc, s, (psSize_t) strlen(s), (uint8_t) radix));
    if (t->rc >= 0) { if (!check_obj(t, "result", t->pc, ZA, 0)) sample(t, ZA); }
    distinct("pstm_read_radix|%d|%d|%d|%d|%d", szclass(t->va.used), t->ka, radix, t->va.sign, t->stale);
    free(s);
}
#endif
static void op_init_copy(T *t)
{
    pstm_int a; int sq = (int) (t->j & 1);
    t->fn = "pstm_init_copy"; sizes1(t); t->sa = (int) (snext(t) & 1); t->ka = pick_kind(t);
    gen_val(t, &t->va, t->la, t->ka, t->sa);
    mkobj(&t->oa, &t->va, pick_extra(t)); t->has_a = 1; t->pa = &t->oa; val_to_mpz(ZA, &t->va);
    memset(&a, 0, sizeof a);
    snprintf(t->extra, sizeof t->extra, "toSqr=%d", sq);
    if (CALL(t, pstm_init_copy(NULL, &a, t->pa, (uint8_t) sq))) {
        if (!check_obj(t, "result", &a, ZA, 0)) sample(t, ZA);
        check_input(t, "input", t->pa, ZA);
        pstm_clear(&a);
    }
    distinct("pstm_init_copy|%d|%d|%d|%d", szclass(t->va.used), t->ka, t->va.sign, sq);
}
static void op_set(T *t)
{
    pstm_digit d = pick_digit(t);
    t->fn = "pstm_set"; t->stale = (int) (snext(t) & 3);
    mkstale(t, &t->oc, t->stale, 1 + (int) (snext(t) % 40)); t->has_c = 1; t->pc = &t->oc;
    snprintf(t->extra, sizeof t->extra, "digit=0x%llx", (unsigned long long) d);
    mpz_set_ui(ZE, d); mpz_set(ZA, ZE);
    if (!guard(t)) return;
    pstm_set(t->pc, d); called(t, 0);
    if (!check_obj(t, "result", t->pc, ZE, 0)) sample(t, ZE);
    distinct("pstm_set|%d|%d", t->stale, d == 0 ? 0 : d == 1 ? 1 : 2);
}

/* Montgomery primitives.  Contract taken from the callers (pstm_exptmod, ecc_math.c):
 * modulus odd and > 1; reduce input 0 <= a < m*R with room for 2*|m|+1 digits. */
static void op_mont_setup(T *t)
{
    pstm_digit rho = 0; int even;
    t->fn = "pstm_montgomery_setup"; sizes1(t);
    even = (snext(t) % 8 == 0);
    gen_modulus(t, &t->va, t->la, even ? 2 : 1, &t->ka);
    mkobj(&t->oa, &t->va, pick_extra(t)); t->has_a = 1; t->pa = &t->oa; val_to_mpz(ZA, &t->va);
    if (CALL(t, pstm_montgomery_setup(t->pa, &rho))) {
        mpz_set_ui(ZG, rho);
        if (even) report(t, "success-on-even-modulus", "rho", ZG, NULL);
        else {
            pstm_digit chk = rho * t->va.d[0] + 1;     /* rho == -1/m mod 2^64 */
            if (chk != 0) { mpz_set_ui(ZT, t->va.d[0]); mpz_set_ui(ZT2, 1); mpz_mul_2exp(ZT2, ZT2, 64); mpz_invert(ZT, ZT, ZT2); mpz_sub(ZT, ZT2, ZT); report(t, "wrong-value", "rho", ZG, ZT); }
            else sample(t, ZG);
        }
        check_input(t, "modulus", t->pa, ZA);
    }
    distinct("pstm_montgomery_setup|%d|%d|%d", szclass(t->va.used), t->ka, even);
}
static void op_mont_norm(T *t)
{
    t->fn = "pstm_montgomery_calc_normalization"; sizes1(t);
    gen_modulus(t, &t->vb, t->la, 1, &t->kb);
    if (t->vb.used == 1 && t->vb.d[0] == 1) t->vb.d[0] = 3;
    t->stale = (int) (snext(t) & 3);
    mkobj(&t->ob, &t->vb, pick_extra(t)); t->has_b = 1; t->pb = &t->ob; val_to_mpz(ZB, &t->vb);
    mkstale(t, &t->oc, t->stale, t->la); t->has_c = 1; t->pc = &t->oc;
    mpz_set_ui(ZA, 0);
    mpz_set_ui(ZE, 1); mpz_mul_2exp(ZE, ZE, 64UL * t->vb.used); mpz_mod(ZE, ZE, ZB);
    CALL(t, pstm_montgomery_calc_normalization(t->pc, t->pb));
    if (t->rc >= 0) { if (!check_obj(t, "result", t->pc, ZE, 0)) sample(t, ZE); check_input(t, "modulus", t->pb, ZB); }
    distinct("pstm_montgomery_calc_normalization|%d|%d|%d", t->vb.used, t->kb, t->stale);
}
static void op_mont_reduce(T *t)
{
    psSize_t plen; int pmode, n, ak;
    t->fn = "pstm_montgomery_reduce"; sizes1(t);
    gen_modulus(t, &t->vb, t->la, 1, &t->kb);
    n = t->vb.used; val_to_mpz(ZB, &t->vb);
    mpz_set_ui(ZT, 1); mpz_mul_2exp(ZT, ZT, 64UL * n);       /* R */
    mpz_mul(ZT2, ZT, ZB);                                    /* m*R */
    ak = (int) (snext(t) % 8);
    switch (ak) {
    case 0: mpz_set_ui(ZA, 0); break;
    case 1: mpz_sub_ui(ZA, ZT2, 1); break;                                           /* largest admissible */
    case 2: mpz_sub_ui(ZA, ZB, 1); mpz_mul(ZA, ZA, ZA); break;                       /* (m-1)^2 */
    case 3: mpz_set(ZA, ZB); break;
    case 4: case 5: { val_t *x = &t->va; gen_val(t, x, n, pick_kind(t), 0); val_to_mpz(ZA, x); mpz_mod(ZA, ZA, ZB); gen_val(t, x, n, pick_kind(t), 0); val_to_mpz(ZE2, x); mpz_mod(ZE2, ZE2, ZB); mpz_mul(ZA, ZA, ZE2); break; } /* product of residues */
    default: { val_t *x = &t->va; gen_val(t, x, 2 * n, pick_kind(t), 0); val_to_mpz(ZA, x); mpz_mod(ZA, ZA, ZT2); break; }
    }
    mpz_to_val(&t->va, ZA, K_DENSE); t->ka = K_DENSE;
    mkobj(&t->oa, &t->va, 2 * n + 1 - t->va.used + (int) (snext(t) % 3)); t->has_a = 1; t->pa = t->pc = &t->oa; t->alias = AL_CA;
    mkobj(&t->ob, &t->vb, pick_extra(t)); t->has_b = 1; t->pb = &t->ob;
    pstm_digit *pad = mkpad(t, 2 * n + 1, &plen, &pmode);
    /* mp = -1/m mod 2^64, computed independently of the library */
    mpz_set_ui(ZE, 1); mpz_mul_2exp(ZE, ZE, 64); mpz_set_ui(ZE2, t->vb.d[0]); mpz_invert(ZE2, ZE2, ZE); mpz_sub(ZE2, ZE, ZE2); mpz_mod(ZE2, ZE2, ZE);
    pstm_digit mp = mpz_get_ui(ZE2);
    snprintf(t->extra, sizeof t->extra, "akind=%d paD=%s", ak, pmode == 0 ? "NULL" : pmode == 1 ? "adequate" : "short");
    mpz_invert(ZE, ZT, ZB); mpz_mul(ZE, ZE, ZA); mpz_mod(ZE, ZE, ZB);    /* a * R^-1 mod m */
    if (mpz_cmp_ui(ZB, 1) == 0) mpz_set_ui(ZE, 0);
    CALL(t, pstm_montgomery_reduce(NULL, t->pa, t->pb, mp, pad, plen));
    if (t->rc >= 0) { if (!check_obj(t, "result", t->pa, ZE, 0)) sample(t, ZE); check_input(t, "modulus", t->pb, ZB); }
    distinct("pstm_montgomery_reduce|%d|%d|%d|%d", n, t->kb, ak, pmode);
    free(pad);
}

/* --------------------------------------------------------------- op table */
typedef struct { const char *name; void (*fn)(T *); long nq; int cost; int bsz; } opdef;
/* cost: 0 cheap (scaled by mult), 1 medium (mult/2), 2 heavy (mult/5), 3 very heavy (mult/10) */
static const opdef OPS[] = {
    { "add", op_add, 24576, 0, 2048 },
    { "sub", op_sub, 24576, 0, 2048 },
    { "sub_s", op_sub_s, 8192, 0, 2048 },
    { "mul_comba", op_mul_comba, 32768, 0, 2048 },
    { "sqr_comba", op_sqr_comba, 16384, 0, 2048 },
    { "mul_d", op_mul_d, 8192, 0, 2048 },
    { "add_d", op_add_d, 8192, 0, 2048 },
    { "sub_d", op_sub_d, 8192, 0, 2048 },
    { "div", op_div, 8192, 2, 256 },
    { "div_2d", op_div_2d, 12288, 0, 512 },
    { "div_2", op_div_2, 6144, 0, 2048 },
    { "mul_2", op_mul_2, 6144, 0, 2048 },
    { "mod", op_mod, 6144, 2, 256 },
    { "mulmod", op_mulmod, 4096, 2, 128 },
    { "exptmod", op_exptmod, 320, 3, 20 },
    { "invmod", op_invmod, 6144, 2, 256 },
    { "lshd", op_lshd, 6144, 0, 2048 },
    { "rshd", op_rshd, 6144, 0, 2048 },
    { "2expt", op_2expt, 4096, 0, 2048 },
    { "cmp", op_cmp, 24576, 0, 4096 },
    { "count_bits", op_count_bits, 4096, 0, 2048 },
    { "read_unsigned_bin", op_read_unsigned_bin, 6144, 1, 1024 },
    { "to_unsigned_bin", op_to_unsigned_bin, 4096, 1, 512 },
    { "read_asn", op_read_asn, 4096, 1, 1024 },
#if defined(USE_ECC) || defined(USE_CERT_GEN)
    { "read_radix", op_read_radix, 2048, 1, 512 },
#endif
    { "copy", op_copy, 4096, 0, 2048 },
    { "abs", op_abs, 4096, 0, 2048 },
    { "init_copy", op_init_copy, 4096, 0, 2048 },
    { "set", op_set, 2048, 0, 2048 },
    { "montgomery_setup", op_mont_setup, 4096, 0, 2048 },
    { "montgomery_calc_normalization", op_mont_norm, 4096, 1, 512 },
    { "montgomery_reduce", op_mont_reduce, 12288, 0, 1024 },
};
#define NOPS ((int) (sizeof OPS / sizeof OPS[0]))

static void run_case(int opid, long j)
{
    T *t = calloc(1, sizeof *t);
    t->op = OPS[opid].name; t->fn = OPS[opid].name; t->opid = opid; t->j = j;
    vf_rng_init(&t->rs, 0xC13C13ULL + (uint64_t) opid, (uint64_t) j);
    vf_rng_init(&t->rv, vf_seed, ((uint64_t) (opid + 1) << 44) ^ (uint64_t) j);
    mpz_set_ui(ZA, 0); mpz_set_ui(ZB, 0); mpz_set_ui(ZC, 0);
    OPS[opid].fn(t);
    if (t->dirty && (t->dirty == &t->oa || t->dirty == &t->ob || t->dirty == &t->oc || t->dirty == &t->od)) followup_dirty(t);
    if (g_single) {
        gmp_fprintf(g_verbose ? g_verbose : stderr, "case op=%s j=%ld seed=%llu variant=%s fn=%s rc=%d %s\n  digits a=%d b=%d c=%d kinds=%s,%s,%s alias=%s stale=%s\n  a=%Zx\n  b=%Zx\n  c=%Zx\n  expected=%Zx\n  violations in this case: %d\n",
                    t->op, j, (unsigned long long) vf_seed, g_variant, t->fn, t->rc, t->extra, t->va.used, t->vb.used, t->vc.used,
                    kname[t->ka], kname[t->kb], kname[t->kc], alname[t->alias], stname[t->stale], ZA, ZB, ZC, ZE, t->nbad);
        if (g_verbose) fflush(g_verbose);
    }
    cleanup(t);
    free(t);
}

typedef struct { int op; long j0, j1; } batch_t;
static void run_batch(void *arg)
{
    batch_t *b = arg; long j;
    for (j = b->j0; j < b->j1; j++) {
        SH->cur = j;
        snprintf(SH->spec, sizeof SH->spec, "op=%s,j=%ld,seed=%llu,v=%s", OPS[b->op].name, j, (unsigned long long) vf_seed, g_variant);
        run_case(b->op, j);
    }
}

static long scaled(const opdef *o, long mult)
{
    static const int div[] = { 1, 2, 5, 10 };
    long m = mult / div[o->cost]; if (m < 1) m = 1;
    return o->nq * m;
}

int main(int argc, char **argv)
{
    int i, crashes[64] = { 0 }, hangs[64] = { 0 }, batch_timeout;
    long mult, bi = 0, crash_budget;
    vf_init(argc, argv);
    g_variant = vf_arg("--variant", "asan");
    mult = vf_argl("--mult", 1);
    crash_budget = vf_argl("--crash-budget", 400);            /* aborts per op and shard; bounds the fork-resume work */
    batch_timeout = (int) vf_argl("--batch-timeout", mult > 1 ? 300 : 90);   /* watchdog only; a batch takes a few seconds */
    if (psCryptoOpen(PSCRYPTO_CONFIG) < 0) { vf_incon("psCryptoOpen failed"); vf_flush(); return 2; }
    mpz_inits(ZA, ZB, ZC, ZE, ZE2, ZT, ZT2, ZG, NULL);
    SH = mmap(NULL, sizeof *SH, PROT_READ | PROT_WRITE, MAP_SHARED | MAP_ANONYMOUS, -1, 0);
    DSET = mmap(NULL, DCAP * 8, PROT_READ | PROT_WRITE, MAP_SHARED | MAP_ANONYMOUS | MAP_NORESERVE, -1, 0);
    NEWH = mmap(NULL, NEWCAP * 8, PROT_READ | PROT_WRITE, MAP_SHARED | MAP_ANONYMOUS | MAP_NORESERVE, -1, 0);
    if (SH == MAP_FAILED || DSET == MAP_FAILED || NEWH == MAP_FAILED) { vf_incon("mmap failed"); vf_flush(); return 2; }

    if (vf_case) {      /* replay exactly one case */
        char opn[64] = "", var[32] = ""; long j = -1; unsigned long long sd = vf_seed; const char *p;
        if ((p = strstr(vf_case, "op="))) sscanf(p, "op=%63[^,]", opn);
        if ((p = strstr(vf_case, "j="))) sscanf(p, "j=%ld", &j);
        if ((p = strstr(vf_case, "seed="))) sscanf(p, "seed=%llu", &sd);
        if ((p = strstr(vf_case, "v="))) sscanf(p, "v=%31[^,]", var);
        if (var[0] && strcmp(var, g_variant)) { vf_flush(); return 0; }     /* recorded on the other build */
        for (i = 0; i < NOPS; i++) if (!strcmp(OPS[i].name, opn)) break;
        if (i == NOPS || j < 0) { vf_incon("unparsable replay spec '%s'", vf_case); vf_flush(); return 2; }
        vf_seed = sd; g_single = 1;
        batch_t b = { i, j, j + 1 };
        snprintf(SH->spec, sizeof SH->spec, "%s", vf_case);
        /* vf_fork_case leaves the child's stderr alone when vf_case is set, which would lose the
         * sanitizer report (and with it the finding's key) on a replayed abort: let it capture
         * stderr as in a normal run and print the verbose case description to the real stderr. */
        g_verbose = fdopen(dup(2), "w");
        { const char *saved = vf_case; vf_case = NULL; vf_fork_case(run_batch, &b, OPS[i].name, SH->spec, 600); vf_case = saved; }
        publish();
        vf_flush();
        return 0;
    }

    for (i = 0; i < NOPS; i++) {
        long n = scaled(&OPS[i], mult), bsz = OPS[i].bsz, j0;
        if (mult >= 8 && OPS[i].cost == 0) bsz *= 8; else if (mult >= 8) bsz *= 2;
        for (j0 = 0; j0 < n; j0 += bsz, bi++) {
            long from = j0, to = j0 + bsz < n ? j0 + bsz : n;
            if (!vf_mine(bi)) continue;
            if (hangs[i] >= 1) { stat_addf(to - from, "skipped_after_crashes_%s", OPS[i].name); continue; }
            while (from < to) {
                batch_t b = { i, from, to };
                SH->cur = from - 1; SH->spec[0] = 0;
                int rc = vf_fork_case(run_batch, &b, OPS[i].name, SH->spec, batch_timeout);
                if (rc == 0) break;
                /* the child died in case SH->cur: recorded with its exact spec; go on behind it */
                stat_addf(1, rc == 2 ? "hung_%s" : "aborted_%s", OPS[i].name);
                if (rc == 2) { SH->crashcnt[i][SH->cursig & 255] = 255; hangs[i]++; }       /* a hang costs a whole timeout: skip its class at once */
                else if (SH->crashcnt[i][SH->cursig & 255] < 255) SH->crashcnt[i][SH->cursig & 255]++;
                from = SH->cur + 1;
                if (++crashes[i] >= crash_budget || hangs[i] >= 1) { stat_addf(to - from, "skipped_after_crashes_%s", OPS[i].name); break; }
            }
            publish();
            if (hangs[i] >= 1) { stat_addf(1, "op_abandoned_after_hangs_%s", OPS[i].name); }
        }
    }
    publish();
    vf_flush();
    return 0;
}
