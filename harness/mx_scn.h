/* mx_scn.h - the scenario grid shared by the cut-point checks (C01, C15, ...):
 * role x version x key exchange x {client auth, resumption by id / ticket / TLS 1.3 PSK}.
 * mx_scn_walk() steps the honest handshake one record at a time and calls `cb` at every cut
 * point = after each record delivered to the endpoint under attack (cut 0 = before any). */
#ifndef MX_SCN_H
#define MX_SCN_H
#include "mx.h"
typedef struct { const char *name; mx_cfg cfg; int resumed; int earlyPriming, earlyResumed, clientEarly; int earlySkew; } mx_scn;
static mx_scn mx_scns[260]; static int mx_nscn;
static void mx_scn_add(const char *name, int ver, uint16_t suite, int ca, int resumed, int ticket)
{
    mx_scn *s = &mx_scns[mx_nscn++]; memset(s, 0, sizeof *s); s->name = name; s->cfg.ver = ver; s->cfg.suite = suite; s->cfg.clientAuth = ca; s->resumed = resumed; s->cfg.useTicket = ticket;
}
static void mx_scn_build(int thorough)
{
    mx_nscn = 0;
    mx_scn_add("rsa", MX_TLS11, 0x002f, 0, 0, 0);
    mx_scn_add("ecdhe-rsa-gcm", MX_TLS12, 0xc02f, 0, 0, 0);
    mx_scn_add("psk-cbc", MX_TLS12, 0x00ae, 0, 0, 0);
    mx_scn_add("ecdhe-ecdsa-cbc-ca", MX_TLS12, 0xc023, 1, 0, 0);
    mx_scn_add("rsa-gcm-resumed", MX_TLS12, 0x009c, 0, 1, 0);
    mx_scn_add("rsa-cbc-ticket", MX_TLS12, 0x003c, 0, 1, 1);
    mx_scn_add("aes128gcm", MX_TLS13, 0x1301, 0, 0, 0);
    mx_scn_add("chacha-ca", MX_TLS13, 0x1303, 1, 0, 0);
    mx_scn_add("aes256gcm-resumed", MX_TLS13, 0x1302, 0, 1, 0);
    mx_scn_add("rsa", MX_DTLS10, 0x002f, 0, 0, 0);
    mx_scn_add("ecdhe-rsa-gcm", MX_DTLS12, 0xc02f, 0, 0, 0);
    mx_scn_add("psk-cbc-resumed", MX_DTLS12, 0x00ae, 0, 1, 0);
    /* TLS 1.3 0-RTT: ticket issued with max_early_data, resumed client sends early data; server accepts / has it disabled */
    mx_scn_add("aes128gcm-resumed-early", MX_TLS13, 0x1301, 0, 1, 0); mx_scns[mx_nscn - 1].earlyPriming = 16384; mx_scns[mx_nscn - 1].earlyResumed = 16384; mx_scns[mx_nscn - 1].clientEarly = 100;
    mx_scn_add("aes128gcm-resumed-early-srvoff", MX_TLS13, 0x1301, 0, 1, 0); mx_scns[mx_nscn - 1].earlyPriming = 16384; mx_scns[mx_nscn - 1].earlyResumed = 0; mx_scns[mx_nscn - 1].clientEarly = 100;
    /* ... and a server with 0-RTT enabled that REJECTS the offered early data (ticket age outside the window: the clock jumps between the
       client's hello and its arrival), i.e. it skips undecryptable records up to its limit while the handshake goes on */
    mx_scn_add("aes128gcm-resumed-early-rejected", MX_TLS13, 0x1301, 0, 1, 0); mx_scns[mx_nscn - 1].earlyPriming = 16384; mx_scns[mx_nscn - 1].earlyResumed = 16384; mx_scns[mx_nscn - 1].clientEarly = 100; mx_scns[mx_nscn - 1].earlySkew = 60;
    if (thorough) {
        for (int v = 0; v < MX_NVER; v++) for (int i = 0; i < MX_NSUITES; i++) {
            if (!mx_suite_ok_for(&mx_suites[i], v)) continue;
            mx_scn_add(mx_suites[i].name, v, mx_suites[i].id, 0, 0, 0);
            if (mx_suites[i].auth != MX_AUTH_PSK && (i % 3) == 0) mx_scn_add(mx_suites[i].name, v, mx_suites[i].id, 1, 0, 0);
            if ((i % 4) == 1) mx_scn_add(mx_suites[i].name, v, mx_suites[i].id, 0, 1, v != MX_TLS13 && (i & 1));
        }
    }
}
static void mx_scn_desc(char *out, size_t cap, const mx_scn *s, int target)
{
    snprintf(out, cap, "%s/%s/ca%d/res%d%s/%s", mx_vername[s->cfg.ver], s->name, s->cfg.clientAuth, s->resumed, s->cfg.useTicket ? "t" : "", target ? "server" : "client");
}

typedef struct mx_walk mx_walk;
typedef void (*mx_walk_cb)(mx_walk *w, mx_conn *k, int cut);
struct mx_walk {
    const mx_scn *scn; int target; int ncuts; void *user; mx_walk_cb cb;
    unsigned char *foreign[2]; int foreignlen[2];   /* application records of another connection of the same scenario */
    int really_resumed;
    unsigned char sent[2][1024]; int sentlen[2];    /* honest application bytes already submitted in the parent, per direction */
};
static void mx_walk_cut(void *ctx, mx_conn *k, int dir)
{
    mx_walk *w = ctx;
    if (dir >= 0 && ((dir == 0) != (w->target == MX_SERVER))) return;
    w->cb(w, k, w->ncuts++);
}
/* post: number of extra post-handshake rounds in which each side sends one honest record (more cut points in connected state) */
static int mx_scn_walk(mx_walk *w, const mx_scn *s, int target, mx_walk_cb cb, void *user, int post)
{
    sslSessionId_t *sid = NULL; mx_conn k;
    memset(w, 0, sizeof *w); w->scn = s; w->target = target; w->cb = cb; w->user = user;
    matrixSslNewSessionId(&sid, NULL);
    {
        sslSessionId_t *sid2 = NULL; mx_conn f; matrixSslNewSessionId(&sid2, NULL);
        if (mx_conn_open(&f, &s->cfg, sid2) == 0) {
            mx_conn_run(&f, NULL, NULL, 300);
            if (mx_conn_established(&f)) {
                unsigned char p[64]; int w0 = f.wirelen[0], w1 = f.wirelen[1];
                mx_payload(p, 48, 0x0f0f, 0, 1); mx_send(&f.c, p, 48); mx_payload(p, 48, 0x0f0f, 1, 1); mx_send(&f.s, p, 48); mx_conn_run(&f, NULL, NULL, 50);
                for (int d = 0; d < 2; d++) { int b = d ? w1 : w0; w->foreignlen[d] = f.wirelen[d] - b; w->foreign[d] = malloc(w->foreignlen[d] + 1); memcpy(w->foreign[d], f.wire[d] + b, w->foreignlen[d]); }
            }
            mx_conn_close(&f);
        }
        matrixSslDeleteSessionId(sid2);
    }
    if (s->resumed) {
        mx_cfg pc = s->cfg; pc.earlyData = s->earlyPriming;
        if (mx_conn_open(&k, &pc, sid) != 0) { vf_incon("priming open failed %s", s->name); return -1; }
        mx_conn_run(&k, NULL, NULL, 300);
        if (!mx_conn_established(&k)) vf_incon("priming handshake failed for %s/%s", mx_vername[s->cfg.ver], s->name);
        mx_conn_close(&k);
    }
    mx_cfg rc_ = s->cfg; if (s->resumed) rc_.earlyData = s->earlyResumed;
    if (mx_conn_open(&k, &rc_, sid) != 0) { vf_incon("open failed %s", s->name); return -1; }
    if (s->earlySkew) mx_now += s->earlySkew;      /* the ClientHello (with its obfuscated ticket age) is already encoded */
    if (s->clientEarly > 0) {
        if (matrixSslGetMaxEarlyData(k.c.ssl) <= 0) vf_incon("client of %s is not early-data capable", s->name);
        else { unsigned char p[1024]; mx_payload(p, s->clientEarly, 0x0e0e, 0, 77);
            /* early data a server with 0-RTT disabled must drop is not part of the stream it may ever deliver */
            if (mx_send(&k.c, p, s->clientEarly) > 0 && s->earlyResumed > 0 && !s->earlySkew) { memcpy(w->sent[0], p, s->clientEarly); w->sentlen[0] = s->clientEarly; } }
    }
    mx_walk_cut(w, &k, -1);
    mx_conn_run(&k, mx_walk_cut, w, 300);
    w->really_resumed = mx_conn_established(&k) && matrixSslIsResumedSession(k.s.ssl);
    for (int r = 0; r < post && mx_conn_established(&k); r++) {
        unsigned char p[200]; mx_payload(p, 120, 0x0e0e, 0, r); if (mx_send(&k.c, p, 120) > 0) { memcpy(w->sent[0] + w->sentlen[0], p, 120); w->sentlen[0] += 120; }
        mx_payload(p, 90, 0x0e0e, 1, r); if (mx_send(&k.s, p, 90) > 0) { memcpy(w->sent[1] + w->sentlen[1], p, 90); w->sentlen[1] += 90; }
        mx_conn_run(&k, mx_walk_cut, w, 50);
    }
    mx_conn_close(&k);
    matrixSslDeleteSessionId(sid);
    for (int d = 0; d < 2; d++) { free(w->foreign[d]); w->foreign[d] = NULL; }
    return w->ncuts;
}
#endif
