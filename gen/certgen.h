/* certgen.h - header-only X.509 certificate / CRL generator for the /verif checks.
 *
 * Why: the checks need certificates in which EVERY field is under the test's control, including
 * deliberately wrong or malformed ones, together with ground truth about what is wrong.  The DER
 * is therefore written by a minimal TLV writer of our own (nothing from MatrixSSL, nothing from
 * OpenSSL's X509 builder); libcrypto is used only to generate keys, to SIGN the TBS bytes
 * (EVP_DigestSign) and - separately - as a cross-check verifier (cg_ossl_verify).
 * Link with -lcrypto; include with -I/verif/gen.  No symbol clashes with the MatrixSSL static libs.
 *
 * ---------------------------------------------------------------------------------------------
 * API summary (all functions are static; include this header in exactly the C file that uses it)
 *
 *  DER writer      cg_buf {p,n}; cg_put/cg_put1; cg_tlv(b,tag,v,n); cg_tlv_ex(...,lenform) where
 *                  lenform 0 = minimal DER, 1..4 = forced long form of that many bytes, -1 =
 *                  indefinite (0x80) - for malformed-on-purpose encodings; cg_wrap(b,tag,&inner)
 *                  (append TLV around `inner` and free it); cg_int, cg_int_bytes, cg_bool, cg_oid,
 *                  cg_time (UTCTime or GeneralizedTime from epoch seconds), cg_bitstring.
 *
 *  Key pool        cg_key *cg_key_get(type, idx)   type = CG_K_RSA2048 | CG_K_P256 | CG_K_ED25519 |
 *                  CG_K_P384 | CG_K_RSA1024 | CG_K_RSA512.  Generated lazily ONCE per process and
 *                  cached (call it before fork()ing so children share the keys; RSA keygen is
 *                  slow - 4..6 RSA-2048 keys are plenty).  cg_key has ->pk (EVP_PKEY*), ->spki /
 *                  ->spkilen (DER SubjectPublicKeyInfo), ->skid[20] (SHA-1 of the SPKI).
 *                  Private key export for matrixSslLoadKeysMem() and friends:
 *                     int   cg_key_priv_der(key, pkcs8, &buf)   traditional (PKCS#1 RSAPrivateKey /
 *                                                               SEC1 ECPrivateKey) or PKCS#8 DER;
 *                                                               Ed25519 is always PKCS#8. malloc'd.
 *                     char *cg_key_priv_pem(key, pkcs8)         same, PEM text, malloc'd.
 *
 *  Names           cg_dn: up to 6 RDNs {attr (last arc under 2.5.4: CG_AT_CN 3, CG_AT_C 6, CG_AT_O 10,
 *                  CG_AT_OU 11), ASN.1 string tag, bytes, len} or a raw pre-encoded Name.
 *                  cg_dn_set(&dn, org, cn) (UTF8String), cg_dn_add(&dn, attr, tag, bytes, len) -
 *                  bytes may contain NULs / any octet; tag may be any (e.g. 0x03 BIT STRING).
 *
 *  Certificates    cg_spec describes one certificate completely (see the struct); helpers fill in
 *                  sensible defaults which the caller then overrides field by field:
 *                     cg_spec_ca  (&s, org, cn, key, issuer_spec|NULL(self-signed), issuer_key, now, pathlen|-1)
 *                     cg_spec_leaf(&s, org, cn, key, issuer_spec, issuer_key, now)
 *                  Defaults: v3, random positive 8-byte serial, signature algorithm chosen from the
 *                  SIGNER's key type (sha256WithRSA / ecdsa-with-SHA256 / ecdsa-with-SHA384 / Ed25519),
 *                  validity [now-30d, now+365d] as UTCTime, CA: basicConstraints critical cA=TRUE
 *                  (+pathLen), keyUsage critical keyCertSign|cRLSign; leaf: basicConstraints cA=FALSE,
 *                  keyUsage digitalSignature|keyEncipherment (keyAgreement for EC), extKeyUsage
 *                  serverAuth+clientAuth, SAN dNSName=cn; SKI = key->skid, AKI = issuer_key->skid.
 *                  `now` is whatever clock the consumer uses (the checks link harness/mx_wraps.c and
 *                  pass mx_now - the virtual clock MatrixSSL sees through --wrap=time,gettimeofday).
 *                     int cg_make_cert(&spec, &cert)    -> cg_cert {der,len, tbs_off,tbs_len, sig_off,sig_len}
 *                  sig_off/sig_len locate the signature bytes (BIT STRING content after the unused-bits
 *                  octet) so a test can copy them into another certificate (spec.sigmode=CG_SM_OVERRIDE).
 *                  Signature control: spec.signer (EVP key that signs), spec.sigalg (declared in TBS),
 *                  spec.outer_sigalg (declared outside, 0 = same), spec.sign_alg (algorithm really used,
 *                  0 = sigalg), spec.sigmode = CG_SM_GOOD | CG_SM_FLIP (flip bit spec.flip_bit of the
 *                  signature VALUE - for DER-wrapped ECDSA signatures only inside r / s) | CG_SM_OVERRIDE (use
 *                  spec.sig_override bytes) | CG_SM_EMPTY | CG_SM_ENVELOPE (ECDSA: damage only the outer SEQUENCE
 *                  length, (r,s) untouched).
 *                  Extensions: bc/bc_ca/bc_pathlen/bc_crit, ku/ku_bits/ku_crit, eku/eku_mask/eku_crit,
 *                  san[]/nsan/san_crit (kind = GeneralName tag number: CG_GN_EMAIL 1, CG_GN_DNS 2,
 *                  CG_GN_URI 6, CG_GN_IP 7; value = arbitrary bytes of arbitrary length),
 *                  ian[]/nian/ian_crit/ian_first (issuerAltName, same GeneralName encoding; cg_ian_add; default none),
 *                  ski/aki (arbitrary bytes), unk (1 = unknown non-critical, 2 = unknown CRITICAL
 *                  extension 1.3.6.1.4.1.99999.1), crldp (URI), rawext (pre-encoded Extension(s)).
 *                     char *cg_pem("CERTIFICATE", der, len)   PEM armour (malloc'd)
 *
 *  CRLs            cg_crl_spec {issuer dn, this_update, next_update, serial list, signer, sigalg, aki,
 *                  crl_number}; cg_crl_for(&c, issuer_spec, issuer_key, now); cg_crl_revoke(&c, cert_spec);
 *                  cg_make_crl(&c, &der, &len).
 *
 *  Cross-check     cg_ossl_verify(leaf, untrusted[], n, anchors[], n, now, &err) runs OpenSSL's
 *                  X509_verify_cert at the same virtual time (partial chains allowed so that an
 *                  intermediate may act as trust anchor); returns 1 = OpenSSL accepts.
 *
 *  For C04 (handshake level): mint root = cg_spec_ca(...self...), intermediates, leaf; cg_make_cert each;
 *  server credentials = concatenated PEM (leaf first) from cg_pem() + cg_key_priv_pem(leaf_key, 0);
 *  client trust = cg_pem(root).  All specs keep the ground truth (who really signed what).
 * --------------------------------------------------------------------------------------------- */
#ifndef CERTGEN_H
#define CERTGEN_H
#include <stdio.h>
#include <stdlib.h>
#include <string.h>
#include <stdint.h>
#include <time.h>
#include <openssl/evp.h>
#include <openssl/rsa.h>
#include <openssl/ec.h>
#include <openssl/x509.h>
#include <openssl/x509_vfy.h>
#include <openssl/pem.h>
#include <openssl/err.h>
#include <openssl/sha.h>
#include <openssl/rand.h>

/* ------------------------------------------------------------------ DER writer --- */
typedef struct { unsigned char *p; size_t n, cap; } cg_buf;
static void cg_put(cg_buf *b, const void *d, size_t n)
{
    if (b->n + n + 1 > b->cap) { b->cap = (b->n + n + 64) * 2; b->p = (unsigned char *) realloc(b->p, b->cap); }
    if (n) memcpy(b->p + b->n, d, n);
    b->n += n;
}
static void cg_put1(cg_buf *b, int c) { unsigned char x = (unsigned char) c; cg_put(b, &x, 1); }
static void cg_buf_free(cg_buf *b) { free(b->p); b->p = NULL; b->n = b->cap = 0; }
static void cg_len(cg_buf *b, size_t len, int form)
{
    if (form < 0) { cg_put1(b, 0x80); return; }
    if (form == 0) {
        if (len < 0x80) { cg_put1(b, (int) len); return; }
        form = len < 0x100 ? 1 : len < 0x10000 ? 2 : len < 0x1000000 ? 3 : 4;
    }
    cg_put1(b, 0x80 | form);
    for (int i = form - 1; i >= 0; i--) cg_put1(b, (int) ((len >> (8 * i)) & 0xff));
}
static void cg_tlv_ex(cg_buf *b, int tag, const void *v, size_t n, int lenform) { cg_put1(b, tag); cg_len(b, n, lenform); cg_put(b, v, n); }
static void cg_tlv(cg_buf *b, int tag, const void *v, size_t n) { cg_tlv_ex(b, tag, v, n, 0); }
static void cg_wrap(cg_buf *b, int tag, cg_buf *inner) { cg_tlv(b, tag, inner->p, inner->n); cg_buf_free(inner); }
static void cg_int_bytes(cg_buf *b, const unsigned char *m, int n)
{
    cg_buf t = { 0 };
    while (n > 1 && m[0] == 0 && !(m[1] & 0x80)) { m++; n--; }
    if (n == 0) cg_put1(&t, 0); else { if (m[0] & 0x80) cg_put1(&t, 0); cg_put(&t, m, n); }
    cg_wrap(b, 0x02, &t);
}
static void cg_int(cg_buf *b, long v)
{
    unsigned char m[8]; int n = 0; unsigned long u = (unsigned long) v;
    for (int i = 7; i >= 0; i--) m[n++] = (unsigned char) (u >> (8 * i));
    int s = 0; while (s < 7 && m[s] == 0 && !(m[s + 1] & 0x80)) s++;
    cg_tlv(b, 0x02, m + s, 8 - s);
}
static void cg_bool(cg_buf *b, int v) { unsigned char x = v ? 0xff : 0; cg_tlv(b, 0x01, &x, 1); }
static void cg_oid(cg_buf *b, const void *enc, int n) { cg_tlv(b, 0x06, enc, n); }
static void cg_null(cg_buf *b) { cg_put1(b, 0x05); cg_put1(b, 0x00); }
static void cg_bitstring(cg_buf *b, const void *v, size_t n, int unused)
{
    cg_buf t = { 0 }; cg_put1(&t, unused); cg_put(&t, v, n); cg_wrap(b, 0x03, &t);
}
static void cg_time(cg_buf *b, long epoch, int generalized)
{
    time_t t = (time_t) epoch; struct tm tm; char s[32];
    gmtime_r(&t, &tm);
    if (generalized) { strftime(s, sizeof s, "%Y%m%d%H%M%SZ", &tm); cg_tlv(b, 0x18, s, strlen(s)); }
    else { strftime(s, sizeof s, "%y%m%d%H%M%SZ", &tm); cg_tlv(b, 0x17, s, strlen(s)); }
}

/* ---------------------------------------------------------------------- keys --- */
enum { CG_K_RSA2048 = 0, CG_K_P256, CG_K_ED25519, CG_K_P384, CG_K_RSA1024, CG_K_RSA512, CG_K_NTYPES };
static const char *cg_ktname[] = { "RSA2048", "P256", "Ed25519", "P384", "RSA1024", "RSA512" };
typedef struct { int type, idx; EVP_PKEY *pk; unsigned char *spki; int spkilen; unsigned char skid[20]; } cg_key;
#define CG_POOL_MAX 12
static cg_key *cg_pool[CG_K_NTYPES][CG_POOL_MAX];
static int cg_is_rsa(int t) { return t == CG_K_RSA2048 || t == CG_K_RSA1024 || t == CG_K_RSA512; }
static int cg_is_ec(int t) { return t == CG_K_P256 || t == CG_K_P384; }

static cg_key *cg_key_new(int type)
{
    EVP_PKEY *pk = NULL;
    switch (type) {
    case CG_K_RSA2048: pk = EVP_RSA_gen(2048); break;
    case CG_K_RSA1024: pk = EVP_RSA_gen(1024); break;
    case CG_K_RSA512:  pk = EVP_RSA_gen(512); break;
    case CG_K_P256:    pk = EVP_EC_gen("P-256"); break;
    case CG_K_P384:    pk = EVP_EC_gen("P-384"); break;
    case CG_K_ED25519: pk = EVP_PKEY_Q_keygen(NULL, NULL, "ED25519"); break;
    }
    if (!pk) { fprintf(stderr, "certgen: key generation failed for type %d\n", type); ERR_print_errors_fp(stderr); exit(2); }
    cg_key *k = (cg_key *) calloc(1, sizeof *k);
    k->type = type; k->pk = pk;
    k->spkilen = i2d_PUBKEY(pk, &k->spki);
    if (k->spkilen <= 0) { fprintf(stderr, "certgen: i2d_PUBKEY failed\n"); exit(2); }
    SHA1(k->spki, k->spkilen, k->skid);
    return k;
}
static cg_key *cg_key_get(int type, int idx)
{
    if (type < 0 || type >= CG_K_NTYPES || idx < 0 || idx >= CG_POOL_MAX) { fprintf(stderr, "certgen: bad pool slot %d/%d\n", type, idx); exit(2); }
    if (!cg_pool[type][idx]) { cg_pool[type][idx] = cg_key_new(type); cg_pool[type][idx]->idx = idx; }
    return cg_pool[type][idx];
}
/* private key export; pkcs8 != 0 -> PrivateKeyInfo, else traditional (RSAPrivateKey / ECPrivateKey). Ed25519 always PKCS#8. */
static int cg_key_priv_der(const cg_key *k, int pkcs8, unsigned char **out)
{
    *out = NULL;
    if (pkcs8 || k->type == CG_K_ED25519) {
        PKCS8_PRIV_KEY_INFO *p8 = EVP_PKEY2PKCS8(k->pk); if (!p8) return -1;
        int n = i2d_PKCS8_PRIV_KEY_INFO(p8, out); PKCS8_PRIV_KEY_INFO_free(p8); return n;
    }
    return i2d_PrivateKey(k->pk, out);
}
static char *cg_bio_take(BIO *bio) { char *d; long n = BIO_get_mem_data(bio, &d); char *r = (char *) malloc(n + 1); memcpy(r, d, n); r[n] = 0; BIO_free(bio); return r; }
static char *cg_key_priv_pem(const cg_key *k, int pkcs8)
{
    BIO *bio = BIO_new(BIO_s_mem());
    if (pkcs8 || k->type == CG_K_ED25519) PEM_write_bio_PKCS8PrivateKey(bio, k->pk, NULL, NULL, 0, NULL, NULL);
    else PEM_write_bio_PrivateKey_traditional(bio, k->pk, NULL, NULL, 0, NULL, NULL);
    return cg_bio_take(bio);
}
static char *cg_pem(const char *label, const unsigned char *der, int len)
{
    BIO *bio = BIO_new(BIO_s_mem());
    PEM_write_bio(bio, label, "", der, len);
    return cg_bio_take(bio);
}

/* ------------------------------------------------------ signature algorithms --- */
enum { CG_SIG_AUTO = 0, CG_RSA_SHA256, CG_RSA_SHA384, CG_RSA_SHA512, CG_RSA_SHA1, CG_RSA_MD5, CG_RSA_PSS_SHA256, CG_RSA_PSS_SHA384,
       CG_ECDSA_SHA256, CG_ECDSA_SHA384, CG_ECDSA_SHA512, CG_ECDSA_SHA1, CG_ED25519_SIG, CG_SIG_N };
static const char *cg_signame[] = { "auto", "sha256WithRSA", "sha384WithRSA", "sha512WithRSA", "sha1WithRSA", "md5WithRSA", "rsassaPss-sha256", "rsassaPss-sha384",
                                    "ecdsa-sha256", "ecdsa-sha384", "ecdsa-sha512", "ecdsa-sha1", "ed25519" };
static int cg_sig_default(const cg_key *k)
{
    switch (k->type) { case CG_K_P256: return CG_ECDSA_SHA256; case CG_K_P384: return CG_ECDSA_SHA384; case CG_K_ED25519: return CG_ED25519_SIG; default: return CG_RSA_SHA256; }
}
static int cg_sig_family(int alg) /* 0 rsa, 1 ecdsa, 2 ed25519 */
{
    return alg >= CG_ECDSA_SHA256 && alg <= CG_ECDSA_SHA1 ? 1 : alg == CG_ED25519_SIG ? 2 : 0;
}
static const EVP_MD *cg_sig_md(int alg)
{
    switch (alg) {
    case CG_RSA_SHA256: case CG_RSA_PSS_SHA256: case CG_ECDSA_SHA256: return EVP_sha256();
    case CG_RSA_SHA384: case CG_RSA_PSS_SHA384: case CG_ECDSA_SHA384: return EVP_sha384();
    case CG_RSA_SHA512: case CG_ECDSA_SHA512: return EVP_sha512();
    case CG_RSA_SHA1: case CG_ECDSA_SHA1: return EVP_sha1();
    case CG_RSA_MD5: return EVP_md5();
    }
    return NULL;
}
static void cg_hash_algid(cg_buf *b, int alg)
{
    static const unsigned char s256[] = { 0x60, 0x86, 0x48, 0x01, 0x65, 0x03, 0x04, 0x02, 0x01 }, s384[] = { 0x60, 0x86, 0x48, 0x01, 0x65, 0x03, 0x04, 0x02, 0x02 };
    cg_buf t = { 0 }; cg_oid(&t, alg == CG_RSA_PSS_SHA384 ? s384 : s256, 9); cg_null(&t); cg_wrap(b, 0x30, &t);
}
static void cg_sig_algid(cg_buf *b, int alg)
{
    static const unsigned char rsa[] = { 0x2a, 0x86, 0x48, 0x86, 0xf7, 0x0d, 0x01, 0x01, 0 };      /* last arc patched */
    static const unsigned char ec2[] = { 0x2a, 0x86, 0x48, 0xce, 0x3d, 0x04, 0x03, 0 };
    static const unsigned char ec1[] = { 0x2a, 0x86, 0x48, 0xce, 0x3d, 0x04, 0x01 };
    static const unsigned char ed[] = { 0x2b, 0x65, 0x70 };
    static const unsigned char mgf1[] = { 0x2a, 0x86, 0x48, 0x86, 0xf7, 0x0d, 0x01, 0x01, 0x08 };
    cg_buf t = { 0 }; unsigned char o[9];
    switch (alg) {
    case CG_RSA_SHA256: case CG_RSA_SHA384: case CG_RSA_SHA512: case CG_RSA_SHA1: case CG_RSA_MD5:
        memcpy(o, rsa, 9); o[8] = alg == CG_RSA_SHA256 ? 11 : alg == CG_RSA_SHA384 ? 12 : alg == CG_RSA_SHA512 ? 13 : alg == CG_RSA_SHA1 ? 5 : 4;
        cg_oid(&t, o, 9); cg_null(&t); break;
    case CG_RSA_PSS_SHA256: case CG_RSA_PSS_SHA384: {
        memcpy(o, rsa, 9); o[8] = 10; cg_oid(&t, o, 9);
        cg_buf p = { 0 }, a = { 0 }, m = { 0 }, mi = { 0 }, s = { 0 };
        cg_hash_algid(&a, alg); cg_wrap(&p, 0xa0, &a);
        cg_oid(&mi, mgf1, 9); cg_hash_algid(&mi, alg); cg_wrap(&m, 0x30, &mi); cg_wrap(&p, 0xa1, &m);
        cg_int(&s, alg == CG_RSA_PSS_SHA384 ? 48 : 32); cg_wrap(&p, 0xa2, &s);
        cg_wrap(&t, 0x30, &p); break; }
    case CG_ECDSA_SHA256: case CG_ECDSA_SHA384: case CG_ECDSA_SHA512:
        memcpy(o, ec2, 8); o[7] = alg == CG_ECDSA_SHA256 ? 2 : alg == CG_ECDSA_SHA384 ? 3 : 4; cg_oid(&t, o, 8); break;
    case CG_ECDSA_SHA1: cg_oid(&t, ec1, 7); break;
    case CG_ED25519_SIG: cg_oid(&t, ed, 3); break;
    default: fprintf(stderr, "certgen: bad sig alg %d\n", alg); exit(2);
    }
    cg_wrap(b, 0x30, &t);
}
/* sign `msg` with key k using algorithm alg; returns 0 and malloc'd *sig, or -1 if key type and algorithm family do not fit */
static int cg_sign(const cg_key *k, int alg, const unsigned char *msg, size_t len, unsigned char **sig, size_t *siglen)
{
    int fam = cg_sig_family(alg);
    if ((fam == 0 && !cg_is_rsa(k->type)) || (fam == 1 && !cg_is_ec(k->type)) || (fam == 2 && k->type != CG_K_ED25519)) return -1;
    EVP_MD_CTX *c = EVP_MD_CTX_new(); EVP_PKEY_CTX *pc = NULL; int ok = 0;
    if (EVP_DigestSignInit(c, &pc, fam == 2 ? NULL : cg_sig_md(alg), NULL, k->pk) == 1) {
        if (alg == CG_RSA_PSS_SHA256 || alg == CG_RSA_PSS_SHA384) {
            EVP_PKEY_CTX_set_rsa_padding(pc, RSA_PKCS1_PSS_PADDING);
            EVP_PKEY_CTX_set_rsa_pss_saltlen(pc, alg == CG_RSA_PSS_SHA384 ? 48 : 32);
            EVP_PKEY_CTX_set_rsa_mgf1_md(pc, cg_sig_md(alg));
        }
        size_t n = 0;
        if (EVP_DigestSign(c, NULL, &n, msg, len) == 1) {
            *sig = (unsigned char *) malloc(n + 8);
            if (EVP_DigestSign(c, *sig, &n, msg, len) == 1) { *siglen = n; ok = 1; } else free(*sig);
        }
    }
    EVP_MD_CTX_free(c);
    if (!ok) { fprintf(stderr, "certgen: signing failed (alg %s, key %s)\n", cg_signame[alg], cg_ktname[k->type]); ERR_print_errors_fp(stderr); return -1; }
    return 0;
}

/* --------------------------------------------------------------------- names --- */
enum { CG_AT_CN = 3, CG_AT_C = 6, CG_AT_O = 10, CG_AT_OU = 11 };
enum { CG_T_UTF8 = 0x0c, CG_T_PRINTABLE = 0x13, CG_T_T61 = 0x14, CG_T_IA5 = 0x16, CG_T_BITSTRING = 0x03, CG_T_BMP = 0x1e };
typedef struct { int attr, tag, len; unsigned char v[100]; } cg_rdn;
typedef struct { cg_rdn rdn[6]; int n; const unsigned char *raw; int rawlen; } cg_dn;
static void cg_dn_add(cg_dn *d, int attr, int tag, const void *v, int len)
{
    if (d->n >= 6) return;
    cg_rdn *r = &d->rdn[d->n++]; r->attr = attr; r->tag = tag; r->len = len > 100 ? 100 : len; memcpy(r->v, v, r->len);
}
static void cg_dn_set(cg_dn *d, const char *org, const char *cn)
{
    memset(d, 0, sizeof *d);
    if (org) cg_dn_add(d, CG_AT_O, CG_T_UTF8, org, (int) strlen(org));
    if (cn) cg_dn_add(d, CG_AT_CN, CG_T_UTF8, cn, (int) strlen(cn));
}
static void cg_dn_encode(cg_buf *b, const cg_dn *d)
{
    if (d->raw) { cg_put(b, d->raw, d->rawlen); return; }
    cg_buf seq = { 0 };
    for (int i = 0; i < d->n; i++) {
        cg_buf set = { 0 }, atv = { 0 }; unsigned char o[3] = { 0x55, 0x04, (unsigned char) d->rdn[i].attr };
        cg_oid(&atv, o, 3); cg_tlv(&atv, d->rdn[i].tag, d->rdn[i].v, d->rdn[i].len);
        cg_wrap(&set, 0x30, &atv); cg_wrap(&seq, 0x31, &set);
    }
    cg_wrap(b, 0x30, &seq);
}
static int cg_dn_equal(const cg_dn *a, const cg_dn *b)
{
    cg_buf x = { 0 }, y = { 0 }; cg_dn_encode(&x, a); cg_dn_encode(&y, b);
    int r = x.n == y.n && !memcmp(x.p, y.p, x.n); cg_buf_free(&x); cg_buf_free(&y); return r;
}

/* -------------------------------------------------------------- certificates --- */
enum { CG_GN_OTHER = 0, CG_GN_EMAIL = 1, CG_GN_DNS = 2, CG_GN_X400 = 3, CG_GN_DIR = 4, CG_GN_EDI = 5, CG_GN_URI = 6, CG_GN_IP = 7, CG_GN_RID = 8 };
typedef struct { int kind, len; unsigned char v[128]; } cg_gn;
enum { CG_KU_DIGSIG = 0x80, CG_KU_NONREP = 0x40, CG_KU_KEYENC = 0x20, CG_KU_DATAENC = 0x10, CG_KU_KEYAGREE = 0x08, CG_KU_CERTSIGN = 0x04, CG_KU_CRLSIGN = 0x02, CG_KU_ENCONLY = 0x01 };
enum { CG_EKU_SERVER = 1, CG_EKU_CLIENT = 2, CG_EKU_CODE = 4, CG_EKU_EMAIL = 8, CG_EKU_ANY = 16 };
enum { CG_SM_GOOD = 0, CG_SM_FLIP, CG_SM_OVERRIDE, CG_SM_EMPTY, CG_SM_ENVELOPE };
#define CG_MAXSAN 8
typedef struct cg_spec {
    int version;                     /* 2 = v3, 1 = v2, 0 = v1 (version field omitted, no extensions emitted) */
    unsigned char serial[20]; int seriallen;
    int sigalg, outer_sigalg, sign_alg; /* declared in TBS / declared outside (0 = same) / actually used (0 = sigalg) */
    cg_dn issuer, subject;
    long not_before, not_after; int gen_time;
    const cg_key *key;               /* subject public key */
    int bc, bc_ca, bc_pathlen, bc_crit;     /* bc: extension present; bc_pathlen < 0: absent */
    int ku; unsigned ku_bits; int ku_crit;
    int eku; unsigned eku_mask; int eku_crit;
    cg_gn san[CG_MAXSAN]; int nsan, san_crit;
    int ski; unsigned char skid[32]; int skidlen;
    int aki; unsigned char akid[32]; int akidlen;
    int unk;                         /* 0 none, 1 unknown non-critical extension, 2 unknown CRITICAL extension */
    const char *crldp;               /* cRLDistributionPoints URI */
    const unsigned char *rawext; int rawextlen;   /* pre-encoded Extension SEQUENCE(s), appended last */
    const cg_key *signer;            /* key that really signs */
    int sigmode, flip_bit; const unsigned char *sig_override; int sig_override_len;
    cg_gn ian[CG_MAXSAN]; int nian, ian_crit, ian_first;   /* issuerAltName (2.5.29.18) GeneralNames; default none. Emitted right behind the subjectAltName, or right before it when ian_first */
} cg_spec;
typedef struct { unsigned char *der; int len, tbs_off, tbs_len, sig_off, sig_len; } cg_cert;
static void cg_cert_free(cg_cert *c) { free(c->der); memset(c, 0, sizeof *c); }

static void cg_rand_serial(cg_spec *s) { RAND_bytes(s->serial, 8); s->serial[0] = (s->serial[0] & 0x7f) | 0x40; s->seriallen = 8; }
static void cg_san_add(cg_spec *s, int kind, const void *v, int len)
{
    if (s->nsan >= CG_MAXSAN) return;
    cg_gn *g = &s->san[s->nsan++]; g->kind = kind; g->len = len > 128 ? 128 : len; memcpy(g->v, v, g->len);
}
static void cg_ian_add(cg_spec *s, int kind, const void *v, int len)
{
    if (s->nian >= CG_MAXSAN) return;
    cg_gn *g = &s->ian[s->nian++]; g->kind = kind; g->len = len > 128 ? 128 : len; memcpy(g->v, v, g->len);
}
static void cg_ext(cg_buf *exts, const unsigned char *oid, int oidlen, int crit, cg_buf *val)
{
    cg_buf e = { 0 }; cg_oid(&e, oid, oidlen); if (crit) cg_bool(&e, 1); cg_wrap(&e, 0x04, val); cg_wrap(exts, 0x30, &e);
}
static void cg_general_names(cg_buf *b, const cg_gn *g, int n)
{
    cg_buf seq = { 0 };
    for (int i = 0; i < n; i++) cg_tlv(&seq, 0x80 | (g[i].kind & 0x1f) | (g[i].kind == CG_GN_DIR || g[i].kind == CG_GN_OTHER ? 0x20 : 0), g[i].v, g[i].len);
    cg_wrap(b, 0x30, &seq);
}
static void cg_extensions(cg_buf *tbs, const cg_spec *s)
{
    static const unsigned char o_bc[] = { 0x55, 0x1d, 0x13 }, o_ku[] = { 0x55, 0x1d, 0x0f }, o_eku[] = { 0x55, 0x1d, 0x25 }, o_san[] = { 0x55, 0x1d, 0x11 }, o_ian[] = { 0x55, 0x1d, 0x12 },
                               o_ski[] = { 0x55, 0x1d, 0x0e }, o_aki[] = { 0x55, 0x1d, 0x23 }, o_cdp[] = { 0x55, 0x1d, 0x1f },
                               o_unk[] = { 0x2b, 0x06, 0x01, 0x04, 0x01, 0x86, 0x8d, 0x1f, 0x01 },  /* 1.3.6.1.4.1.99999.1 */
                               o_kp[] = { 0x2b, 0x06, 0x01, 0x05, 0x05, 0x07, 0x03, 0 }, o_any[] = { 0x55, 0x1d, 0x25, 0x00 };
    cg_buf exts = { 0 };
    if (s->bc) {
        cg_buf v = { 0 }, q = { 0 };
        if (s->bc_ca) cg_bool(&q, 1);
        if (s->bc_pathlen >= 0) cg_int(&q, s->bc_pathlen);
        cg_wrap(&v, 0x30, &q); cg_ext(&exts, o_bc, 3, s->bc_crit, &v);
    }
    if (s->ku) {
        cg_buf v = { 0 }; unsigned char bits = (unsigned char) (s->ku_bits & 0xff); int unused = 0;
        if (bits) while (!((bits >> unused) & 1)) unused++; else unused = 0;
        cg_bitstring(&v, &bits, 1, bits ? unused : 0); cg_ext(&exts, o_ku, 3, s->ku_crit, &v);
    }
    if (s->eku) {
        cg_buf v = { 0 }, q = { 0 }; unsigned char o[8];
        static const int arc[] = { 1, 2, 3, 4 };
        for (int i = 0; i < 4; i++) if (s->eku_mask & (1u << i)) { memcpy(o, o_kp, 8); o[7] = (unsigned char) arc[i]; cg_oid(&q, o, 8); }
        if (s->eku_mask & CG_EKU_ANY) cg_oid(&q, o_any, 4);
        cg_wrap(&v, 0x30, &q); cg_ext(&exts, o_eku, 3, s->eku_crit, &v);
    }
    if (s->nian && s->ian_first) { cg_buf v = { 0 }; cg_general_names(&v, s->ian, s->nian); cg_ext(&exts, o_ian, 3, s->ian_crit, &v); }
    if (s->nsan) { cg_buf v = { 0 }; cg_general_names(&v, s->san, s->nsan); cg_ext(&exts, o_san, 3, s->san_crit, &v); }
    if (s->nian && !s->ian_first) { cg_buf v = { 0 }; cg_general_names(&v, s->ian, s->nian); cg_ext(&exts, o_ian, 3, s->ian_crit, &v); }
    if (s->ski) { cg_buf v = { 0 }; cg_tlv(&v, 0x04, s->skid, s->skidlen); cg_ext(&exts, o_ski, 3, 0, &v); }
    if (s->aki) { cg_buf v = { 0 }, q = { 0 }; cg_tlv(&q, 0x80, s->akid, s->akidlen); cg_wrap(&v, 0x30, &q); cg_ext(&exts, o_aki, 3, 0, &v); }
    if (s->crldp) {
        cg_buf v = { 0 }, dps = { 0 }, dp = { 0 }, dpn = { 0 }, full = { 0 };
        cg_tlv(&full, 0x86, s->crldp, strlen(s->crldp)); cg_wrap(&dpn, 0xa0, &full); cg_wrap(&dp, 0xa0, &dpn); cg_wrap(&dps, 0x30, &dp); cg_wrap(&v, 0x30, &dps);
        cg_ext(&exts, o_cdp, 3, 0, &v);
    }
    if (s->unk) { cg_buf v = { 0 }; cg_tlv(&v, 0x0c, "verif", 5); cg_ext(&exts, o_unk, 9, s->unk == 2, &v); }
    if (s->rawext) cg_put(&exts, s->rawext, s->rawextlen);
    if (exts.n) { cg_buf w = { 0 }; cg_wrap(&w, 0x30, &exts); cg_wrap(tbs, 0xa3, &w); }
    else cg_buf_free(&exts);
}
static void cg_build_tbs(cg_buf *out, const cg_spec *s)
{
    cg_buf t = { 0 };
    if (s->version > 0) { cg_buf v = { 0 }; cg_int(&v, s->version); cg_wrap(&t, 0xa0, &v); }
    cg_int_bytes(&t, s->serial, s->seriallen);
    cg_sig_algid(&t, s->sigalg);
    cg_dn_encode(&t, &s->issuer);
    { cg_buf v = { 0 }; cg_time(&v, s->not_before, s->gen_time); cg_time(&v, s->not_after, s->gen_time); cg_wrap(&t, 0x30, &v); }
    cg_dn_encode(&t, &s->subject);
    cg_put(&t, s->key->spki, s->key->spkilen);
    if (s->version == 2) cg_extensions(&t, s);
    cg_wrap(out, 0x30, &t);
}
/* Flip one bit of the signature VALUE.  ECDSA signatures are DER SEQUENCE { INTEGER r, INTEGER s }: only bits inside the magnitudes of r and s
 * are candidates (a flipped tag/length octet may leave (r,s) - the actual signature - unchanged for a lenient DER reader). */
static void cg_flip_value_bit(unsigned char *sig, size_t siglen, int ecdsa_der, int which)
{
    if (ecdsa_der && siglen > 8 && sig[0] == 0x30 && sig[1] < 0x80 && sig[2] == 0x02) {
        size_t r0 = 4, rl = sig[3], s0 = 4 + rl + 2, sl = r0 + rl + 1 < siglen ? sig[r0 + rl + 1] : 0;
        if (rl && sig[r0] == 0) { r0++; rl--; }
        if (sl && s0 < siglen && sig[s0] == 0) { s0++; sl--; }
        if (rl && sl && s0 + sl <= siglen) {
            size_t bit = (size_t) which % ((rl + sl) * 8), byte = bit / 8;
            sig[byte < rl ? r0 + byte : s0 + (byte - rl)] ^= (unsigned char) (1 << (bit % 8));
            return;
        }
    }
    size_t bit = (size_t) which % (siglen * 8); sig[bit / 8] ^= (unsigned char) (1 << (bit % 8));
}
/* Build and sign.  Returns 0, or -1 when the requested signing algorithm cannot be computed with the signer's key. */
static int cg_make_cert(const cg_spec *s0, cg_cert *out)
{
    cg_spec s = *s0; cg_buf tbs = { 0 }, body = { 0 }, all = { 0 };
    memset(out, 0, sizeof *out);
    if (!s.signer || !s.key) { fprintf(stderr, "certgen: spec without key/signer\n"); exit(2); }
    if (!s.sigalg) s.sigalg = cg_sig_default(s.signer);
    if (!s.seriallen) cg_rand_serial(&s);
    cg_build_tbs(&tbs, &s);
    unsigned char *sig = NULL; size_t siglen = 0;
    if (s.sigmode == CG_SM_OVERRIDE) { sig = (unsigned char *) malloc(s.sig_override_len + 1); memcpy(sig, s.sig_override, s.sig_override_len); siglen = s.sig_override_len; }
    else if (s.sigmode == CG_SM_EMPTY) { sig = (unsigned char *) malloc(1); siglen = 0; }
    else {
        if (cg_sign(s.signer, s.sign_alg ? s.sign_alg : s.sigalg, tbs.p, tbs.n, &sig, &siglen) < 0) { cg_buf_free(&tbs); return -1; }
        if (s.sigmode == CG_SM_FLIP && siglen) cg_flip_value_bit(sig, siglen, cg_sig_family(s.sign_alg ? s.sign_alg : s.sigalg) == 1, s.flip_bit);
        if (s.sigmode == CG_SM_ENVELOPE && siglen > 2 && sig[0] == 0x30 && sig[1] < 0x80) sig[1] ^= 0x04;
    }
    cg_put(&body, tbs.p, tbs.n);
    cg_sig_algid(&body, s.outer_sigalg ? s.outer_sigalg : s.sigalg);
    size_t before = body.n;
    cg_bitstring(&body, sig, siglen, 0);
    size_t sighdr = body.n - before - siglen;
    cg_tlv(&all, 0x30, body.p, body.n);
    size_t outerhdr = all.n - body.n;
    out->der = (unsigned char *) malloc(all.n);            /* exact-size block: ASan sees any over-read by the parser */
    memcpy(out->der, all.p, all.n); out->len = (int) all.n;
    out->tbs_off = (int) outerhdr; out->tbs_len = (int) tbs.n;
    out->sig_off = (int) (outerhdr + before + sighdr); out->sig_len = (int) siglen;
    free(sig); cg_buf_free(&tbs); cg_buf_free(&body); cg_buf_free(&all);
    return 0;
}

/* defaults for a CA certificate (issuer == NULL: self-signed root) */
static void cg_spec_ca(cg_spec *s, const char *org, const char *cn, const cg_key *key, const cg_spec *issuer, const cg_key *issuer_key, long now, int pathlen)
{
    memset(s, 0, sizeof *s);
    s->version = 2; cg_rand_serial(s);
    cg_dn_set(&s->subject, org, cn);
    if (issuer) s->issuer = issuer->subject; else s->issuer = s->subject;
    s->not_before = now - 30L * 86400; s->not_after = now + 365L * 86400;
    s->key = key; s->signer = issuer ? issuer_key : key;
    s->bc = 1; s->bc_ca = 1; s->bc_crit = 1; s->bc_pathlen = pathlen;
    s->ku = 1; s->ku_crit = 1; s->ku_bits = CG_KU_CERTSIGN | CG_KU_CRLSIGN;
    s->ski = 1; memcpy(s->skid, key->skid, 20); s->skidlen = 20;
    s->aki = 1; memcpy(s->akid, s->signer->skid, 20); s->akidlen = 20;
}
static void cg_spec_leaf(cg_spec *s, const char *org, const char *cn, const cg_key *key, const cg_spec *issuer, const cg_key *issuer_key, long now)
{
    memset(s, 0, sizeof *s);
    s->version = 2; cg_rand_serial(s);
    cg_dn_set(&s->subject, org, cn);
    s->issuer = issuer->subject;
    s->not_before = now - 30L * 86400; s->not_after = now + 365L * 86400;
    s->key = key; s->signer = issuer_key;
    s->bc = 1; s->bc_ca = 0; s->bc_pathlen = -1;
    s->ku = 1; s->ku_crit = 1; s->ku_bits = CG_KU_DIGSIG | (cg_is_rsa(key->type) ? CG_KU_KEYENC : cg_is_ec(key->type) ? CG_KU_KEYAGREE : 0);
    s->eku = 1; s->eku_mask = CG_EKU_SERVER | CG_EKU_CLIENT;
    if (cn) cg_san_add(s, CG_GN_DNS, cn, (int) strlen(cn));
    s->ski = 1; memcpy(s->skid, key->skid, 20); s->skidlen = 20;
    s->aki = 1; memcpy(s->akid, issuer_key->skid, 20); s->akidlen = 20;
}

/* ---------------------------------------------------------------------- CRLs --- */
#define CG_MAXREV 16
typedef struct {
    cg_dn issuer; long this_update, next_update; int no_next_update;
    unsigned char serial[CG_MAXREV][20]; int seriallen[CG_MAXREV]; int nrev;
    const cg_key *signer; int sigalg, outer_sigalg;
    int aki; unsigned char akid[32]; int akidlen; long crl_number; int sigmode, flip_bit;
} cg_crl_spec;
static void cg_crl_for(cg_crl_spec *c, const cg_spec *issuer, const cg_key *issuer_key, long now)
{
    memset(c, 0, sizeof *c);
    c->issuer = issuer->subject; c->this_update = now - 86400; c->next_update = now + 30L * 86400;
    c->signer = issuer_key; c->aki = 1; memcpy(c->akid, issuer_key->skid, 20); c->akidlen = 20; c->crl_number = 1;
}
static void cg_crl_revoke(cg_crl_spec *c, const cg_spec *cert)
{
    if (c->nrev >= CG_MAXREV) return;
    memcpy(c->serial[c->nrev], cert->serial, cert->seriallen); c->seriallen[c->nrev] = cert->seriallen; c->nrev++;
}
static int cg_make_crl(const cg_crl_spec *c, unsigned char **der, int *derlen)
{
    static const unsigned char o_aki[] = { 0x55, 0x1d, 0x23 }, o_num[] = { 0x55, 0x1d, 0x14 };
    int alg = c->sigalg ? c->sigalg : cg_sig_default(c->signer);
    cg_buf t = { 0 }, tbs = { 0 }, body = { 0 }, all = { 0 };
    cg_int(&t, 1);
    cg_sig_algid(&t, alg);
    cg_dn_encode(&t, &c->issuer);
    cg_time(&t, c->this_update, 0);
    if (!c->no_next_update) cg_time(&t, c->next_update, 0);
    if (c->nrev) {
        cg_buf list = { 0 };
        for (int i = 0; i < c->nrev; i++) { cg_buf e = { 0 }; cg_int_bytes(&e, c->serial[i], c->seriallen[i]); cg_time(&e, c->this_update - 3600, 0); cg_wrap(&list, 0x30, &e); }
        cg_wrap(&t, 0x30, &list);
    }
    { cg_buf exts = { 0 }, w = { 0 };
      if (c->aki) { cg_buf v = { 0 }, q = { 0 }; cg_tlv(&q, 0x80, c->akid, c->akidlen); cg_wrap(&v, 0x30, &q); cg_ext(&exts, o_aki, 3, 0, &v); }
      { cg_buf v = { 0 }; cg_int(&v, c->crl_number); cg_ext(&exts, o_num, 3, 0, &v); }
      cg_wrap(&w, 0x30, &exts); cg_wrap(&t, 0xa0, &w); }
    cg_wrap(&tbs, 0x30, &t);
    unsigned char *sig = NULL; size_t siglen = 0;
    if (cg_sign(c->signer, alg, tbs.p, tbs.n, &sig, &siglen) < 0) { cg_buf_free(&tbs); return -1; }
    if (c->sigmode == CG_SM_FLIP) cg_flip_value_bit(sig, siglen, cg_sig_family(alg) == 1, c->flip_bit);
    cg_put(&body, tbs.p, tbs.n); cg_sig_algid(&body, c->outer_sigalg ? c->outer_sigalg : alg); cg_bitstring(&body, sig, siglen, 0);
    cg_tlv(&all, 0x30, body.p, body.n);
    *der = (unsigned char *) malloc(all.n); memcpy(*der, all.p, all.n); *derlen = (int) all.n;
    free(sig); cg_buf_free(&tbs); cg_buf_free(&body); cg_buf_free(&all);
    return 0;
}

/* ------------------------------------------------------- OpenSSL cross-check --- */
/* returns 1 when X509_verify_cert accepts leaf with the given untrusted and trusted certificates at time `now`;
 * 0 = rejected (*err = X509_V_ERR_*), -1 = some DER did not even parse in OpenSSL (*err = index) */
static int cg_ossl_verify(const cg_cert *leaf, const cg_cert *const *untrusted, int nun, const cg_cert *const *anchors, int nanch, long now, int *err)
{
    int rc = -1; *err = 0;
    X509_STORE *st = X509_STORE_new(); STACK_OF(X509) *un = sk_X509_new_null(); X509_STORE_CTX *ctx = X509_STORE_CTX_new(); X509 *lx = NULL;
    const unsigned char *p = leaf->der; lx = d2i_X509(NULL, &p, leaf->len);
    if (!lx) { *err = 0; goto done; }
    for (int i = 0; i < nun; i++) { p = untrusted[i]->der; X509 *x = d2i_X509(NULL, &p, untrusted[i]->len); if (!x) { *err = 1 + i; goto done; } sk_X509_push(un, x); }
    for (int i = 0; i < nanch; i++) { p = anchors[i]->der; X509 *x = d2i_X509(NULL, &p, anchors[i]->len); if (!x) { *err = 100 + i; goto done; } X509_STORE_add_cert(st, x); X509_free(x); }
    X509_STORE_CTX_init(ctx, st, lx, un);
    X509_VERIFY_PARAM *vp = X509_STORE_CTX_get0_param(ctx);
    X509_VERIFY_PARAM_set_time(vp, (time_t) now);
    X509_VERIFY_PARAM_set_flags(vp, X509_V_FLAG_PARTIAL_CHAIN);
    X509_VERIFY_PARAM_set_auth_level(vp, 0);
    X509_VERIFY_PARAM_set_depth(vp, 20);
    rc = X509_verify_cert(ctx) == 1 ? 1 : 0;
    if (!rc) *err = X509_STORE_CTX_get_error(ctx);
done:
    X509_free(lx); sk_X509_pop_free(un, X509_free); X509_STORE_CTX_free(ctx); X509_STORE_free(st);
    ERR_clear_error();
    return rc;
}
#endif /* CERTGEN_H */
