import vflib
WRAPS = ("psGetEntropy", "gettimeofday", "time", "clock_gettime", "psAesInitGCM", "psAesReadyGCM", "psAesReadyGCMRandomIV", "psAesEncryptGCM",
         "psChacha20Poly1305IetfInit", "psChacha20Poly1305IetfEncrypt", "psAesInitCBC", "psAesEncryptCBC")
def run(ctx):
    st = [dict(variant="asan", name="c17", sources=["checks/c17_nonce.c", "harness/mx_wraps.c"], wraps=WRAPS, shards=vflib.NCPU, timeout=7200 if ctx.thorough else 1500)]
    rule = ("Each case = one scenario (version x suite x full/resumed/ticket/client-auth/0-RTT) driven through handshake (DTLS: with a timeout-forced retransmission of every flight), "
            "22 application sends of sizes 0..16384 in bursts without draining, a stream of 300 small records per direction, 0.5-RTT server writes before the client's Finished when early data was accepted, an error alert or closure alerts, while link-time wrappers feed every AEAD seal, CBC encryption and PRNG "
            "output to the online monitor. Plus TLS 1.3 0-RTT corner scenarios (14 kinds x 3 suites): a client resuming with a ticket writes 1-3 early-data records, then (a) the server (secp256r1 only, client share x25519 only) answers the "
            "ClientHello alone with HelloRetryRequest and the client, whose write key is still client_early_traffic, seals one more record before its Finished flight: the application's closure alert before / after ClientHello2 is sent, an alert answering "
            "a ServerHello with another cipher suite, a plaintext Finished out of order, a corrupted protected record; or the handshake completes and data flows; (b) the server rejects the early data without HelloRetryRequest (ticket age off by 60 s) "
            "or (c) accepts it, and the client closes / gets a corrupted protected record right after ServerHello, or the server closes after its flight, or the handshake completes. Clause added: the write sequence number of a write-secure endpoint never goes back while the write key stays the same. "
            "Very long streams (quick: 2-3 AEAD scenarios, thorough: every AEAD suite x TLS version plus one CBC suite per version): 66000 one-octet records per direction on one connection, so that the sequence number carries out of its low 16 bits under one key (the (key, nonce) index is hashed). " 
            "distinct_nontrivial = distinct scenarios executed; the evidence stats give the numbers of seals / CBC records / keys observed.")
    return vflib.std_run(ctx, st, "exploration", rule,
        ["observation is at the crypto-library boundary (link-time --wrap); the TLS 1.3 ticket code's internal psAesReadyGCM call is observed through psAesReadyGCMRandomIV",
         "after a HelloRetryRequest the client's early-data records are withheld from the server (this server answers them with unexpected_message)",
         "a sequence restart is accepted whenever the key of the write context changed between two API calls"], min_nontrivial=40)
