import vflib
WRAPS = ("psGetEntropy", "gettimeofday", "time", "clock_gettime")
def run(ctx):
    st = [dict(variant="asan", name="c06", sources=["checks/c06_sequence.c", "harness/mx_wraps.c"], wraps=WRAPS, libs=["-lcrypto"], shards=vflib.NCPU, timeout=7200 if ctx.thorough else 1500)]
    rule = ("Each case = one deviation (delete / duplicate / swap adjacent / skip a block of 2..n-1 adjacent messages / inject one of 16 handshake message types once or twice, taken from the honest run or - for resumed modes - "
            "from the priming full handshake, a well-formed NewSessionTicket being built where the honest run has none / HelloRetryRequest where the honest run has one / premature ChangeCipherSpec, at every position) of one flight "
            "addressed to the receiver, per mode and role, executed on a fork()ed clone. Modes = version x key exchange x resumed/ticket/client-auth, plus modes in which the client OFFERS what the server declines (TLS <= 1.2 "
            "session_ticket extension to a server without ticket keys, full and session-id-resumed; TLS 1.3 external PSK unknown to the server and stale ticket under rotated ticket keys, both with client authentication "
            "required), TLS 1.3 HelloRetryRequest handshakes and accepted 0-RTT data (EndOfEarlyData). The flight is re-framed to one handshake message per record or every message split over two records (TLS 1.3 protected "
            "flights opened and re-sealed with the sender's early / handshake traffic key) and fed message by message; a reference grammar per mode decides where the sequence becomes illegal - what was negotiated (session_ticket "
            "echoed, pre_shared_key selected, early_data accepted, HelloRetryRequest) is read from the server's messages on the wire of the attacked connection, not from the configuration. The deviant peer is transcript-consistent: "
            "every Finished fed to the receiver is recomputed over the receiver's own transcript and sealed with the sender's keys, and (TLS <= 1.2) the sender's running handshake hash is re-based on the receiver's view, so "
            "completion is decided by the receiver's state machine alone; where no key exchange took place that Finished is the value under the receiver's current (all-zero) master secret. For coalesced cases a forked probe of the "
            "one-message-per-record run supplies, per message, the protection state and the matching Finished value. Client-certificate key-type modes (TLS 1.1/1.2/1.3; RSA, ECDSA, id-RSASSA-PSS, Ed25519 certificates on RSA and ECDSA suites): "
            "where this build's client can sign with the key the handshake is honest, otherwise the deviant client presents the PUBLIC sample certificate in place of its own in every deviant flight (delete CertificateVerify, skipped blocks, ...). "
            "Completion after a grammar-illegal sequence is the violation. Quick tier: declined-offer modes are attacked in the role the unanswered offer concerns "
            "(ticket: client, PSK: server), fragmented framing for all cases of the basic TLS 1.3 modes and a third of the others, coalesced framing for every deletion / skipped block / swap / duplicate / premature CCS / injected Finished and a seventh of the other injections, "
            "key-type modes with the server attacked by deletions, skipped blocks, swaps and duplicates; thorough: every mode in both roles, every case in all three framings, every type injected twice. "
            "distinct_nontrivial = distinct (mode, role, flight, deviation, position, type/length, framing) executed.")
    return vflib.std_run(ctx, st, "exploration", rule,
        ["the reference grammar is a reading of RFC 5246/6347/8446/5077 restricted to the messages this build can emit", "DTLS: only the completion clause is judged (duplicates and out-of-order messages may be ignored); DTLS flights are not coalesced and DTLS Finished values are not crafted, public-certificate substitution is TLS only",
         "the deviant peer knows the session secrets (it is the authenticated peer or an unauthenticated one, never a man in the middle); DTLS and TLS 1.3 senders are not re-based (TLS 1.3 receivers complete without the sender's cooperation)",
         "a TLS 1.3 mode whose honest handshake fails is attacked all the same (its negotiated parameters come from the wire); without a violation the run is then inconclusive, not held"], min_nontrivial=500)
