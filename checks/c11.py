import vflib, os

RULE = ("a case is one (scheme, key size or curve, variant class, mutation position class) tuple actually "
        "submitted to the library and judged; distinct = distinct tuples")
ASSUME = [
    "libcrypto (OpenSSL 3.0) is the reference for PSS/ECDSA/Ed25519 verdicts and for ECDH/DH/X25519/RSA-encryption results; "
    "RSA PKCS#1 v1.5 verdicts are by construction (the encoded message is built by the harness and signed with the private exponent)",
    "non-DER but unambiguous ECDSA signature encodings, DigestInfo without NULL parameters, (r, n-s) malleability and "
    "zero-padded point encodings are recorded as lenient_* statistics, not asserted",
    "keys are generated deterministically from the seed by libcrypto (RAND method replaced) plus the repository's sample keys",
]

def run(ctx):
    args = ["--testkeys", os.path.join(vflib.REPO, "testkeys")]
    extra = os.environ.get("C11_ARGS", "").split()
    st = [dict(variant="asan", name="c11", sources=["checks/c11_pubkey.c"], wraps=["psGetEntropy"], libs=["-lcrypto"],
               args=args + extra, timeout=7200 if ctx.thorough else 900)]
    if ctx.thorough:
        st.append(dict(variant="prod", name="c11p", sources=["checks/c11_pubkey.c"], wraps=["psGetEntropy"], libs=["-lcrypto"],
                       args=args + extra, timeout=7200))
    return vflib.std_run(ctx, st, "exploration", RULE, ASSUME, min_nontrivial=400)
