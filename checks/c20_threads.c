/* c20_threads.c - C20: concurrent sessions sharing one server sslKeys_t (identities, CA list, session-ticket keys,
 * ECDHE ephemeral-key cache), one client sslKeys_t, the global session cache, the process PRNG and the CRL cache.
 *
 * One process = one run: N worker threads x K operations, plus a ticket-key rotator thread and a CRL-cache churn
 * thread.  A worker operation is an in-memory client/server pair driven by that thread: full / session-id-resumed /
 * RFC 5077 ticket-resumed / TLS 1.3 PSK-resumed handshake + data both ways + closure, the same with a record damaged
 * in flight (fatal alert in the handshake or on the established session), an abandoned handshake, a credential reset,
 * a direct chain validation against the shared CA list, a PRNG draw, or a handshake with a credential borrowed from
 * another thread's logical client (so that one cache entry / ticket is resumed by several threads at once).
 * Every ECDHE client offers exactly one curve (P-256/P-384/P-521; neighbouring clients and threads differ), so the shared
 * ephemeral-key cache keeps being regenerated while other sessions copy from it.  revq / revhs: revocation queries for,
 * and handshakes against, a certificate that every CRL of its (only ever psCRL_Update-refreshed) issuer class revokes.
 * Between any two library calls a per-thread seeded PRNG injects sched_yield() or a few microseconds of nanosleep().
 *
 * Every operation is logged in a per-thread buffer (no stdio, no shared monitor memory while the threads run) with
 * call/return stamps from one global counter.  The counter is a RELAXED atomic on purpose: an acquire/release counter
 * or a global monitor mutex would add happens-before edges between all threads at every operation boundary and hide
 * exactly the races ThreadSanitizer is here to find.  On x86 the locked xadd still gives a total real-time order of the
 * stamps, which is all the history checker needs.  The only harness mutexes are the per-cell locks of the credential
 * board (publisher -> borrower of that cell).  After join the main thread dumps the history as JSONL ("t":"op");
 * checks/c20.py does the sequential-explainability check and the overlap statistics.
 * The real PRNG (/dev/urandom behind psGetPrngLocked) and the real clock are used: nothing is wrapped.
 *
 * usage: c20 --seed S --threads N --ops K --out file [--keys <repo>/testkeys] [--crl cls:file.der,...] [--pin dir] [--empty 1] */
#define _GNU_SOURCE
#include "vf.h"
#include "matrixssl/matrixsslApi.h"
#include "matrixssl/matrixssllib.h"
#include <pthread.h>
#include <sched.h>
#include <time.h>

/* ------------------------------------------------------------------ shared (immutable while threads run) */
static sslKeys_t *g_skeys, *g_ckeys;
static const char *g_keydir = "/repo/testkeys";
static int g_nthreads = 4, g_nops = 50;
static uint32_t g_stamp;            /* relaxed atomic */
static uint32_t g_done_ops;         /* relaxed atomic: worker ops finished (paces the service threads) */
static int g_workers_left;          /* relaxed atomic */
static pthread_barrier_t g_start;
static int g_have_ec;
static int g_empty;   /* --empty 1: the rotator now and then deletes ALL ticket keys (legal: "no more session ticket support") */

static inline uint32_t stamp(void) { return __atomic_add_fetch(&g_stamp, 1, __ATOMIC_RELAXED); }

#define MAXCRL 6
static struct { unsigned char *der; int len; int cls; } g_crl[MAXCRL];
static int g_ncrl;
static unsigned char *g_certpem; static int g_certpemlen;
/* Issuer class 2 ("pinned"): CRLs of a CA minted by the driver (--pin <dir>: pinca.pem, pinleaf.pem, pinleaf.key; the sample CAs other than
   the 2048 one lack cRLSign) that ALL list the serial of pinleaf.pem.  The CRL
   thread only ever refreshes this class with psCRL_Update(crl, 1) and never deletes it, so once the first refresh has
   returned every revocation query for that certificate must answer REVOKED_AND_AUTHENTICATED in any sequential order. */
static struct { unsigned char *der; int len; } g_pin[MAXCRL];
static int g_npin;
static const char *g_pindir;
static psX509Cert_t *g_pinca;
static sslKeys_t *g_skeys_rev;          /* server identity = the revoked certificate (used by C_REVHS only) */
   /* server certificate file contents (read-only) */

/* ------------------------------------------------------------------ operation log */
enum { C_HS = 0, C_PRNG, C_VALIDATE, C_RESET, C_TKADD, C_TKDEL, C_CRL, C_REVQ, C_REVHS };
enum { LT_ID12 = 0, LT_TK12, LT_PSK13, LT_ID11, LT_N };
static const char *lt_name[] = { "id12", "tk12", "psk13", "id11" };
enum { M_NORMAL = 0, M_ALERT_HS, M_ALERT_APP, M_ABANDON };
static const char *mode_name[] = { "normal", "alert-hs", "alert-app", "abandon" };

typedef struct {
    uint32_t call, ret;
    uint8_t cat, thr, lc, lt, mode, cauth, sub; uint16_t curve;
    uint16_t suite;
    /* credential the client held before the operation */
    uint64_t off_id, off_tk, off_psk, off_sec; uint8_t off_key[16]; uint8_t off_haskey;
    /* outcome */
    uint8_t on_wire, completed, resumed, srv_err, srv_dead, cli_dead, cli_alert, srv_alert, cb_alert, data_ok, tampered;
    uint8_t tcb_calls, tcb_cached; uint8_t tcb_key[16];   /* ticket callback: times called, 'key is cached' flag of the last call, key name asked for */
    int16_t rc_c, rc_s;
    uint64_t srv_ms, cli_ms, srv_sid;
    /* credential the client holds afterwards */
    uint64_t iss_id, iss_tk, iss_psk, iss_sec; uint8_t iss_key[16]; uint8_t iss_haskey;
    int32_t sent_c, sent_s, got_c, got_s;
    int32_t rc;            /* service ops / validate / prng */
    uint8_t name[16];      /* ticket key name for C_TKADD / C_TKDEL */
    uint64_t h;            /* prng draw hash */
    int32_t expect;        /* service ops: model expectation */
} op_t;

typedef struct { sslSessionId_t *sid; int lt; int ver; uint16_t suite; int cauth; int slot; int curve; /* 0 any, 256/384/521: the only curve this client offers */ } lc_t;

/* Credential board: after a completed handshake a worker publishes a copy of its session-id / RFC 5077 ticket
 * credential; other workers borrow it into a private sslSessionId_t, so that ONE cache entry / ticket is resumed by
 * several threads at the same time (reference counts > 1).  One small mutex per board cell: it orders only the
 * publisher before the borrower of that cell, not the threads in general. */
typedef struct {
    pthread_mutex_t mu; int valid; int lt, ver, curve; uint16_t suite; uint32 cipherId;
    unsigned char id[SSL_MAX_SESSION_ID_SIZE]; int idLen; unsigned char ms[SSL_HS_MASTER_SIZE];
    unsigned char ticket[512]; int ticketLen; uint32 ticketHint; uint16 ticketState;
} board_t;
static board_t *g_board;   /* [thread][LT_N] */

typedef struct worker {
    int idx; vf_rng rng; int p_yield, p_sleep;
    lc_t lc[LT_N];
    op_t *ops; int nops, cap;
    psX509Cert_t *cert;     /* private parsed copy of the server certificate (validated against the shared CA list) */
    psX509Cert_t *revcert;  /* private parsed copy of the revoked certificate */
    op_t *cur;
    ssl_t *gap_ssl;         /* server session of the handshake this thread is driving (NewSessionTicket failpoint) */
    long apicalls, yields, sleeps;
    uint32_t period;        /* service threads */
    pthread_t tid;
} worker_t;

static __thread worker_t *tls_w;

/* ---- failpoint between "the TLS 1.3 server decided to issue a ticket" (tls13Decode.c, client Finished accepted, ticket keys
 * present) and "the ticket is written" (tls13WriteNewSessionTicket, which starts by drawing ticket_age_add from psGetPrng).
 * In --empty runs a worker that arrives here now and then stays for a moment and tells the rotator, which empties the key
 * list right then: the interleaving "last key deleted after the decision" becomes frequent instead of one run in thousands.
 * The rotator stays the only thread that changes the list; no lock is held by the library at this point. */
static int g_in_gap;            /* relaxed atomic: workers waiting at the failpoint */
static uint32_t g_empty_gen;    /* relaxed atomic: times the rotator has emptied the list */
static uint32_t g_gap_hits, g_gap_served;   /* relaxed atomics: failpoint visits that waited / that saw an emptying while waiting */
int32_t __real_psGetPrng(psRandom_t *ctx, unsigned char *bytes, psSize_t size, void *userPtr);
int32_t __wrap_psGetPrng(psRandom_t *ctx, unsigned char *bytes, psSize_t size, void *userPtr)
{
    worker_t *w = tls_w;
    if (g_empty && w && w->gap_ssl && w->gap_ssl->hsState == SSL_HS_TLS_1_3_SEND_NST && (vf_next(&w->rng) & 3) == 0) {
        uint32_t g0 = __atomic_load_n(&g_empty_gen, __ATOMIC_RELAXED);
        __atomic_add_fetch(&g_gap_hits, 1, __ATOMIC_RELAXED);
        __atomic_add_fetch(&g_in_gap, 1, __ATOMIC_RELAXED);
        for (int spin = 0; spin < 60 && __atomic_load_n(&g_empty_gen, __ATOMIC_RELAXED) == g0; spin++) { struct timespec ts = { 0, 100000 }; nanosleep(&ts, NULL); }
        __atomic_sub_fetch(&g_in_gap, 1, __ATOMIC_RELAXED);
        if (__atomic_load_n(&g_empty_gen, __ATOMIC_RELAXED) != g0) __atomic_add_fetch(&g_gap_served, 1, __ATOMIC_RELAXED);
        w->gap_ssl = NULL;      /* once per handshake */
    }
    return __real_psGetPrng(ctx, bytes, size, userPtr);
}

static inline void jit(worker_t *w)
{
    uint32_t r = (uint32_t) (vf_next(&w->rng) >> 24) & 0xff;
    w->apicalls++;
    if (r < (uint32_t) w->p_yield) { w->yields++; sched_yield(); }
    else if (r < (uint32_t) (w->p_yield + w->p_sleep)) {
        struct timespec ts = { 0, 1000 + (long) (vf_next(&w->rng) % 30000) };
        w->sleeps++; nanosleep(&ts, NULL);
    }
}
static op_t *op_new(worker_t *w, int cat)
{
    if (w->nops >= w->cap) return NULL;
    op_t *o = &w->ops[w->nops++];
    memset(o, 0, sizeof *o); o->cat = cat; o->thr = w->idx; o->rc_c = o->rc_s = 0;
    return o;
}
static inline uint64_t H(const void *p, size_t n) { uint64_t h = vf_hash(p, n); return h ? h : 1; }

/* ------------------------------------------------------------------ endpoints (thread-private) */
typedef struct {
    ssl_t *ssl; int hsDone, dead, closeReq, lastrc, nAlertIn, alertLevel, alertDesc;
    unsigned char *got; size_t gotlen, gotcap;
} ep_t;

/* ---- session-ticket callback, registered on the shared server key set (matrixSslSetSessionTicketCallback).
 * The library calls it with g_sessTicketLock RELEASED while a TLS <= 1.2 ticket resumption is being decided: cached = 1 means
 * "the named key is in the list (and pinned for you)", cached = 0 "not in the list, load it if you have it".  The harness
 * records what it was asked, keeps the thread inside the callback for a moment and tells the rotator (relaxed atomics: no
 * happens-before edge) which key is in flight, so that key deletion / loading happens exactly there. */
static int g_in_tcb;            /* relaxed atomic: threads currently inside the callback */
static uint32_t g_tcb_entries;  /* relaxed atomic: callback entries so far */
static uint32_t g_tcb_serial;   /* relaxed atomic: serial of the key the most recent callback was asked about */
static int32 ticket_cb(void *keys, unsigned char name[16], short cached)
{
    worker_t *w = tls_w; (void) keys;
    if (!w) return cached ? 0 : -1;
    if (w->cur) { op_t *o = w->cur; if (o->tcb_calls < 255) o->tcb_calls++; o->tcb_cached = cached ? 1 : 0; memcpy(o->tcb_key, name, 16); }
    if (cached) {
        char hex[9]; memcpy(hex, name + 2, 8); hex[8] = 0;
        __atomic_store_n(&g_tcb_serial, (uint32_t) strtoul(hex, NULL, 16), __ATOMIC_RELAXED);
        uint32_t e0 = __atomic_add_fetch(&g_tcb_entries, 1, __ATOMIC_RELAXED);
        int inside = __atomic_add_fetch(&g_in_tcb, 1, __ATOMIC_RELAXED);
        uint32_t r = (uint32_t) (vf_next(&w->rng) >> 24) & 0xff;
        if (inside >= 2) sched_yield();     /* somebody else holds a key in here already: pass through quickly and finish first */
        else {
            /* mostly short, sometimes long: resumptions holding the same key leave the callback at very different times */
            if (r < 48) sched_yield();
            else { struct timespec ts = { 0, r >= 200 ? 1000000 + (long) (vf_next(&w->rng) % 3000000) : 20000 + (long) (vf_next(&w->rng) % 280000) }; nanosleep(&ts, NULL); }
            /* another resumption came in meanwhile: outlast it (it clears the in-use mark of the key when it is done) */
            if (__atomic_load_n(&g_tcb_entries, __ATOMIC_RELAXED) != e0) { struct timespec ts = { 0, 1500000 }; nanosleep(&ts, NULL); }
        }
        __atomic_sub_fetch(&g_in_tcb, 1, __ATOMIC_RELAXED);
    }
    return cached ? 0 : -1;     /* the application keeps no keys of its own: a key that left the list is gone */
}

static int32 cert_cb(ssl_t *ssl, psX509Cert_t *c, int32 alert)
{
    (void) ssl; (void) c;
    if (alert != 0 && tls_w && tls_w->cur) tls_w->cur->cb_alert = (uint8_t) alert;
    return alert; /* strict: a validation failure fails the handshake and is then reported by the oracle */
}
static void ep_append(ep_t *e, const unsigned char *p, size_t n)
{
    if (e->gotlen + n + 1 > e->gotcap) { e->gotcap = (e->gotlen + n + 1) * 2; e->got = realloc(e->got, e->gotcap); }
    memcpy(e->got + e->gotlen, p, n); e->gotlen += n;
}
static int ep_process(worker_t *w, ep_t *e, int rc, unsigned char *pt, uint32 ptl)
{
    for (int guard = 0; guard < 100000; guard++) {
        e->lastrc = rc;
        if (rc == MATRIXSSL_APP_DATA || rc == MATRIXSSL_APP_DATA_COMPRESSED) {
            ep_append(e, pt, ptl);
            jit(w); rc = matrixSslProcessedData(e->ssl, &pt, &ptl);
            continue;
        }
        if (rc == MATRIXSSL_RECEIVED_ALERT) {
            e->nAlertIn++; if (ptl >= 2) { e->alertLevel = pt[0]; e->alertDesc = pt[1]; }
            jit(w); rc = matrixSslProcessedData(e->ssl, &pt, &ptl);
            continue;
        }
        if (rc == MATRIXSSL_HANDSHAKE_COMPLETE) e->hsDone = 1;
        if (rc == MATRIXSSL_REQUEST_CLOSE) e->closeReq = 1;
        if (rc < 0) e->dead = 1;
        return rc;
    }
    e->dead = 1;
    return -1;
}
static int ep_feed(worker_t *w, ep_t *e, const unsigned char *d, int len)
{
    int off = 0, rc = 0;
    while (off < len) {
        unsigned char *rb; unsigned char *pt = NULL; uint32 ptl = 0;
        jit(w);
        int n = matrixSslGetReadbuf(e->ssl, &rb);
        if (n <= 0) { e->dead = 1; e->lastrc = n; return n ? n : -1; }
        if (n > len - off) n = len - off;
        memcpy(rb, d + off, n); off += n;
        jit(w);
        rc = matrixSslReceivedData(e->ssl, n, &pt, &ptl);
        rc = ep_process(w, e, rc, pt, ptl);
        if (rc < 0) return rc;
    }
    return rc;
}
static int ep_take(worker_t *w, ep_t *e, unsigned char **out)
{
    unsigned char *buf = NULL; int tot = 0;
    for (int guard = 0; guard < 10000; guard++) {
        unsigned char *ob;
        jit(w);
        int n = matrixSslGetOutdata(e->ssl, &ob);
        if (n <= 0) { if (n < 0) { e->dead = 1; e->lastrc = n; } break; }
        buf = realloc(buf, tot + n + 1); memcpy(buf + tot, ob, n); tot += n;
        jit(w);
        int rc = matrixSslSentData(e->ssl, n);
        if (rc == MATRIXSSL_HANDSHAKE_COMPLETE) e->hsDone = 1;
        else if (rc == MATRIXSSL_REQUEST_CLOSE) e->closeReq = 1;
        else if (rc < 0) { e->dead = 1; e->lastrc = rc; break; }
    }
    if (!buf) buf = malloc(1);
    *out = buf;
    return tot;
}

typedef struct { int round; int corrupt_round; int stop_round; int tampered; uint64_t sid_at_tamper; int resumed_at_tamper;
                 const unsigned char *cred, *cred2; int credlen, cred2len; int on_wire; /* bit0: cred, bit1: cred2 in the ClientHello */ } pumpctl_t;

/* move flights until both sides are quiet.  Even rounds: client sends.  Returns 1 if stopped by stop_round. */
static int pump(worker_t *w, ep_t *c, ep_t *s, pumpctl_t *pc)
{
    int idle = 0;
    if (pc->round & 1) pc->round++;
    for (int k = 0; k < 60 && idle < 2; k++, pc->round++) {
        int r = pc->round;
        ep_t *snd = (r & 1) ? s : c, *rcv = (r & 1) ? c : s;
        unsigned char *b; int n = ep_take(w, snd, &b);
        if (n > 0) {
            idle = 0;
            if (r == 0 && pc->cred && pc->credlen > 0 && n >= pc->credlen && memmem(b, n, pc->cred, pc->credlen)) pc->on_wire |= 1;
            if (r == 0 && pc->cred2 && pc->cred2len > 0 && n >= pc->cred2len && memmem(b, n, pc->cred2, pc->cred2len)) pc->on_wire |= 2;
            if (r == pc->stop_round) { free(b); pc->round++; return 1; }
            if (r == pc->corrupt_round && !pc->tampered) {
                /* damage the last record of the client's flight: its MAC/tag no longer verifies */
                pc->tampered = 1;
                pc->sid_at_tamper = s->ssl->sessionIdLen > 0 ? H(s->ssl->sessionId, s->ssl->sessionIdLen) : 0;
                pc->resumed_at_tamper = (s->ssl->flags & SSL_FLAGS_RESUMED) ? 1 : 0;
                b[n - 1] ^= 0x41;
            }
            if (!rcv->dead) ep_feed(w, rcv, b, n);
        } else idle++;
        free(b);
    }
    return 0;
}

/* curve != 0 (clients only): offer exactly that curve, so that handshakes of different clients make the server's shared
   ephemeral-key cache (sslKeys_t.cache) regenerate its key while other sessions are copying it */
static void set_opts(sslSessOpts_t *o, int ver, int role, int ticket, int curve)
{
    memset(o, 0, sizeof *o);
    psProtocolVersion_t v = ver == 13 ? v_tls_1_3 : ver == 12 ? v_tls_1_2 : v_tls_1_1;
    if (role) matrixSslSessOptsSetServerTlsVersionRange(o, v, v); else matrixSslSessOptsSetClientTlsVersionRange(o, v, v);
    if (!role && ticket) o->ticketResumption = 1;
    if (!role && curve) {
        o->ecFlags = curve == 256 ? SSL_OPT_SECP256R1 : curve == 384 ? SSL_OPT_SECP384R1 : SSL_OPT_SECP521R1;
        if (ver == 13) {
            uint16_t g[1] = { (uint16_t) (curve == 256 ? namedgroup_secp256r1 : curve == 384 ? namedgroup_secp384r1 : namedgroup_secp521r1) };
            matrixSslSessOptsSetKeyExGroups(o, g, 1, 1);
        }
    }
}

static void snap_cred(const lc_t *lc, uint64_t *id, uint64_t *tk, uint64_t *psk, uint64_t *sec, uint8_t key[16], uint8_t *haskey)
{
    const sslSessionId_t *s = lc->sid;
    *id = *tk = *psk = *sec = 0; *haskey = 0;
    if (lc->lt == LT_PSK13) {
        if (s->psk && s->psk->pskId && s->psk->pskIdLen >= 16) {
            *psk = H(s->psk->pskId, s->psk->pskIdLen);
            *sec = H(s->psk->pskKey, s->psk->pskLen);
            memcpy(key, s->psk->pskId, 16); *haskey = 1;
        }
        return;
    }
    if (s->cipherId == 0) return;
    if (lc->lt == LT_TK12 && s->sessionTicket && s->sessionTicketLen >= 16) {
        *tk = H(s->sessionTicket, s->sessionTicketLen);
        memcpy(key, s->sessionTicket, 16); *haskey = 1;
    }
    if (s->idLen > 0) *id = H(s->id, s->idLen);
    if (*tk || *id) *sec = H(s->masterSecret, SSL_HS_MASTER_SIZE);
}

static void ep_free(ep_t *e) { if (e->ssl) { matrixSslDeleteSession(e->ssl); e->ssl = NULL; } free(e->got); e->got = NULL; }

static void op_handshake(worker_t *w, lc_t *lc, int mode)
{
    op_t *o = op_new(w, C_HS);
    if (!o) return;
    w->cur = o;
    o->lc = (uint8_t) lc->slot; o->lt = lc->lt; o->mode = mode; o->suite = lc->suite; o->cauth = lc->cauth; o->curve = (uint16_t) lc->curve;
    o->call = stamp();
    snap_cred(lc, &o->off_id, &o->off_tk, &o->off_psk, &o->off_sec, o->off_key, &o->off_haskey);

    ep_t C, S; memset(&C, 0, sizeof C); memset(&S, 0, sizeof S);
    sslSessOpts_t so, co;
    set_opts(&so, lc->ver, 1, 0, 0); set_opts(&co, lc->ver, 0, lc->lt == LT_TK12, lc->curve);
    psCipher16_t cs[1] = { lc->suite };
    pumpctl_t pc; memset(&pc, 0, sizeof pc); pc.corrupt_round = pc.stop_round = -1;
    /* the credential bytes the client holds; looked for in its ClientHello (a client that does not put its credential
       on the wire - e.g. after an aborted handshake left its ticket state machine mid-way - cannot be resumed) */
    unsigned char credbuf[1024], cred2buf[SSL_MAX_SESSION_ID_SIZE];
    {
        const sslSessionId_t *sd = lc->sid; const unsigned char *p = NULL; int n = 0;
        if (lc->lt == LT_PSK13) { if (sd->psk && sd->psk->pskId) { p = sd->psk->pskId; n = sd->psk->pskIdLen; } }
        else if (lc->lt == LT_TK12) { if (sd->sessionTicket && sd->cipherId) { p = sd->sessionTicket; n = sd->sessionTicketLen; } }
        else if (sd->cipherId && sd->idLen > 0) { p = sd->id; n = sd->idLen; }
        if (p && n > 0 && n <= (int) sizeof credbuf) { memcpy(credbuf, p, n); pc.cred = credbuf; pc.credlen = n; }
        /* a ticket client also holds a session id when a server without ticket keys answered it */
        if (lc->lt == LT_TK12 && sd->cipherId && sd->idLen > 0) { memcpy(cred2buf, sd->id, sd->idLen); pc.cred2 = cred2buf; pc.cred2len = sd->idLen; }
    }
    if (mode == M_ALERT_HS) pc.corrupt_round = 2;
    if (mode == M_ABANDON) { pc.stop_round = 1 + (int) vf_below(&w->rng, 3); o->sub = pc.stop_round; }

    jit(w);
    int rc = matrixSslNewServerSession(&S.ssl, g_skeys, lc->cauth ? cert_cb : NULL, &so);
    w->gap_ssl = rc >= 0 ? S.ssl : NULL;
    if (rc < 0) { o->rc_s = rc; S.ssl = NULL; goto out; }
    jit(w);
    rc = matrixSslNewClientSession(&C.ssl, g_ckeys, lc->sid, cs, 1, cert_cb, NULL, NULL, NULL, &co);
    if (rc < 0) { o->rc_c = rc; C.ssl = NULL; goto out; }

    if (pump(w, &C, &S, &pc)) goto out;        /* abandoned */
    o->completed = C.hsDone && S.hsDone && !C.dead && !S.dead &&
                   matrixSslHandshakeIsComplete(C.ssl) && matrixSslHandshakeIsComplete(S.ssl);
    if (o->completed) {
        o->resumed = matrixSslIsResumedSession(S.ssl) ? 1 : 0;
        if (lc->ver == 13) {
            if (o->resumed && S.ssl->sec.tls13ChosenPsk && S.ssl->sec.tls13ChosenPsk->pskKey)
                o->srv_ms = H(S.ssl->sec.tls13ChosenPsk->pskKey, S.ssl->sec.tls13ChosenPsk->pskLen);
            if (o->resumed && C.ssl->sec.tls13ChosenPsk && C.ssl->sec.tls13ChosenPsk->pskKey)
                o->cli_ms = H(C.ssl->sec.tls13ChosenPsk->pskKey, C.ssl->sec.tls13ChosenPsk->pskLen);
        } else {
            o->srv_ms = H(S.ssl->sec.masterSecret, SSL_HS_MASTER_SIZE);
            o->cli_ms = H(lc->sid->masterSecret, SSL_HS_MASTER_SIZE);
        }
        if (S.ssl->sessionIdLen > 0) o->srv_sid = H(S.ssl->sessionId, S.ssl->sessionIdLen);

        /* a session resumed from the shared cache now and then stays open for a while ("application think time") before it
           moves data or fails: other resumptions of the same cache entry - by its owner or by a borrower - then overlap it,
           and the entry is referenced by several sessions when one of them hits a fatal error or closes */
        if (o->resumed && lc->lt != LT_PSK13 && lc->lt != LT_TK12 && vf_below(&w->rng, 3) == 0) {
            struct timespec ts = { 0, 300000 + (long) (vf_next(&w->rng) % 2500000) }; w->sleeps++; nanosleep(&ts, NULL);
        }
        /* data both ways; in M_ALERT_APP the client's record is damaged in flight */
        int l1 = 1 + (int) vf_below(&w->rng, vf_below(&w->rng, 8) == 0 ? 16000 : 1500);
        int l2 = 1 + (int) vf_below(&w->rng, vf_below(&w->rng, 8) == 0 ? 16000 : 1500);
        unsigned char *p1 = malloc(l1), *p2 = malloc(l2);
        vf_fill(&w->rng, p1, l1); vf_fill(&w->rng, p2, l2);
        size_t g0s = S.gotlen, g0c = C.gotlen;
        jit(w);
        rc = matrixSslEncodeToOutdata(C.ssl, p1, l1);
        if (rc < 0) o->rc_c = rc;
        o->sent_c = l1;
        if (mode == M_ALERT_APP) pc.corrupt_round = (pc.round + 1) & ~1;
        pump(w, &C, &S, &pc);
        if (!S.dead && !C.dead && mode != M_ALERT_APP) {
            jit(w);
            rc = matrixSslEncodeToOutdata(S.ssl, p2, l2);
            if (rc < 0) o->rc_s = rc;
            o->sent_s = l2;
            pump(w, &C, &S, &pc);
        }
        o->got_s = (int32_t) (S.gotlen - g0s); o->got_c = (int32_t) (C.gotlen - g0c);
        o->data_ok = (S.gotlen - g0s == (size_t) l1 && !memcmp(S.got + g0s, p1, l1)) &&
                     (o->sent_s == 0 ? C.gotlen == g0c : (C.gotlen - g0c == (size_t) l2 && !memcmp(C.got + g0c, p2, l2)));
        free(p1); free(p2);
        if (!C.dead && !S.dead) {
            /* orderly closure (the server-side cache entry is released by matrixSslDeleteSession) */
            jit(w); matrixSslEncodeClosureAlert(C.ssl); pump(w, &C, &S, &pc);
            jit(w); matrixSslEncodeClosureAlert(S.ssl); pump(w, &C, &S, &pc);
        }
    }
out:
    o->tampered = pc.tampered; o->on_wire = pc.on_wire;
    if (pc.tampered) { if (pc.resumed_at_tamper || !o->srv_sid) o->srv_sid = pc.sid_at_tamper; }
    if (S.ssl) { o->srv_err = (S.ssl->flags & SSL_FLAGS_ERROR) ? 1 : 0; if (!o->rc_s) o->rc_s = (int16_t) S.lastrc; }
    if (C.ssl && !o->rc_c) o->rc_c = (int16_t) C.lastrc;
    o->srv_dead = S.dead; o->cli_dead = C.dead;
    o->cli_alert = C.nAlertIn ? (uint8_t) C.alertDesc : 0xff; o->srv_alert = S.nAlertIn ? (uint8_t) S.alertDesc : 0xff;
    jit(w); ep_free(&C);
    w->gap_ssl = NULL;
    jit(w); ep_free(&S);
    snap_cred(lc, &o->iss_id, &o->iss_tk, &o->iss_psk, &o->iss_sec, o->iss_key, &o->iss_haskey);
    o->ret = stamp();
    w->cur = NULL;
}

static void op_prng(worker_t *w)
{
    op_t *o = op_new(w, C_PRNG); if (!o) return;
    unsigned char b[64]; int n = 16 + (int) vf_below(&w->rng, 49);
    memset(b, 0, sizeof b);
    o->call = stamp();
    jit(w);
    o->rc = psGetPrngLocked(b, n, NULL);
    o->expect = n;
    o->h = H(b, n);
    o->ret = stamp();
}
static void op_validate(worker_t *w)
{
    op_t *o = op_new(w, C_VALIDATE); if (!o) return;
    o->call = stamp();
    o->rc = -9999;
    /* psX509AuthenticateCert consumes the subject's signature buffer (in-place RSA public operation), so a parsed
       certificate can be validated once only: parse a fresh private copy for every validation, as a handshake does */
    psX509Cert_t *cert = NULL;
    if (psX509ParseCertData(NULL, g_certpem, g_certpemlen, &cert, 0) < 0 || !cert) { o->rc = -9998; o->ret = stamp(); return; }
    for (psX509Cert_t *ca = g_ckeys->CAcerts; ca; ca = ca->next) {
        psX509Cert_t *found = NULL;
        jit(w);
        int rc = psX509AuthenticateCert(NULL, cert, ca, &found, NULL, NULL);
        if (rc == PS_SUCCESS && cert->authStatus == PS_CERT_AUTH_PASS) { o->rc = 0; break; }
        if (rc != PS_CERT_AUTH_FAIL_DN) { o->rc = rc ? rc : -cert->authStatus - 1000; break; }
        o->rc = rc;
    }
    o->sub = (uint8_t) cert->revokedStatus;
    psX509FreeCert(cert);
    o->ret = stamp();
}
static void op_reset(worker_t *w, lc_t *lc)
{
    op_t *o = op_new(w, C_RESET); if (!o) return;
    o->lc = (uint8_t) lc->slot; o->lt = lc->lt;
    o->call = stamp();
    snap_cred(lc, &o->off_id, &o->off_tk, &o->off_psk, &o->off_sec, o->off_key, &o->off_haskey);
    jit(w);
    matrixSslClearSessionId(lc->sid);
    o->ret = stamp();
}

static void publish(worker_t *w, lc_t *lc)
{
    const sslSessionId_t *sd = lc->sid;
    if (lc->lt == LT_PSK13 || sd->cipherId == 0) return;
    if (lc->lt == LT_TK12 ? !(sd->sessionTicket && sd->sessionTicketLen > 0 && sd->sessionTicketLen <= 512) : sd->idLen == 0) return;
    board_t *b = &g_board[w->idx * LT_N + lc->lt];
    pthread_mutex_lock(&b->mu);
    b->lt = lc->lt; b->ver = lc->ver; b->suite = lc->suite; b->curve = lc->curve; b->cipherId = sd->cipherId;
    memcpy(b->id, sd->id, sizeof b->id); b->idLen = sd->idLen; memcpy(b->ms, sd->masterSecret, sizeof b->ms);
    b->ticketLen = 0;
    if (lc->lt == LT_TK12) { memcpy(b->ticket, sd->sessionTicket, sd->sessionTicketLen); b->ticketLen = sd->sessionTicketLen; b->ticketHint = sd->sessionTicketLifetimeHint; b->ticketState = sd->sessionTicketState; }
    b->valid = 1;
    pthread_mutex_unlock(&b->mu);
}
/* handshake with a credential issued to another thread's logical client */
static void op_borrow(worker_t *w)
{
    if (g_nthreads < 2) return;
    int other = (w->idx + 1 + (int) vf_below(&w->rng, g_nthreads - 1)) % g_nthreads;
    static const int lts[] = { LT_ID12, LT_ID11, LT_TK12 };
    int lt = lts[vf_below(&w->rng, 3)];
    board_t *b = &g_board[other * LT_N + lt];
    lc_t lc; memset(&lc, 0, sizeof lc);
    if (matrixSslNewSessionId(&lc.sid, NULL) < 0) return;
    int ok = 0;
    pthread_mutex_lock(&b->mu);
    if (b->valid) {
        sslSessionId_t *sd = lc.sid;
        lc.lt = lt; lc.ver = b->ver; lc.suite = b->suite; lc.curve = b->curve; lc.slot = LT_N + lt;
        sd->cipherId = b->cipherId; memcpy(sd->id, b->id, sizeof sd->id); sd->idLen = b->idLen;
        memcpy(sd->masterSecret, b->ms, sizeof sd->masterSecret);
        if (b->ticketLen > 0) {
            sd->sessionTicket = psMalloc(sd->pool, b->ticketLen);
            if (sd->sessionTicket) { memcpy(sd->sessionTicket, b->ticket, b->ticketLen); sd->sessionTicketLen = b->ticketLen; sd->sessionTicketLifetimeHint = b->ticketHint; sd->sessionTicketState = b->ticketState; }
        }
        ok = 1;
    }
    pthread_mutex_unlock(&b->mu);
    if (ok) op_handshake(w, &lc, vf_below(&w->rng, 4) == 0 ? M_ALERT_APP : M_NORMAL);
    matrixSslDeleteSessionId(lc.sid);
}

/* burst of revocation queries for the revoked certificate (thread-private parsed copy: the call writes cert->revokedStatus) */
static void op_revq(worker_t *w)
{
    if (!g_npin || !w->revcert) return;
    op_t *o = op_new(w, C_REVQ); if (!o) return;
    int n = 8 + (int) vf_below(&w->rng, 25), bad = 0, first = CRL_CHECK_REVOKED_AND_AUTHENTICATED;
    o->call = stamp();
    for (int i = 0; i < n; i++) {
        jit(w);
        int st = psCRL_determineRevokedStatus(w->revcert);
        if (st != CRL_CHECK_REVOKED_AND_AUTHENTICATED) { if (!bad) first = st; bad++; }
    }
    o->rc = first; o->expect = CRL_CHECK_REVOKED_AND_AUTHENTICATED; o->sent_c = n; o->got_c = bad;
    o->ret = stamp();
}
/* TLS 1.2 handshake against a server whose certificate is revoked: the client validates as the TLS layer always does
   (psX509AuthenticateCert -> psCRL_determineRevokedStatus on the global cache) and must refuse */
static void op_revhs(worker_t *w)
{
    if (!g_npin || !g_pindir) return;
    op_t *o = op_new(w, C_REVHS); if (!o) return;
    w->cur = o;
    o->suite = 0x009c;
    o->call = stamp();
    ep_t C, S; memset(&C, 0, sizeof C); memset(&S, 0, sizeof S);
    sslSessOpts_t so, co; set_opts(&so, 12, 1, 0, 0); set_opts(&co, 12, 0, 0, 0);
    psCipher16_t cs[1] = { 0x009c };
    pumpctl_t pc; memset(&pc, 0, sizeof pc); pc.corrupt_round = pc.stop_round = -1;
    jit(w);
    int rc = matrixSslNewServerSession(&S.ssl, g_skeys_rev, NULL, &so);
    if (rc < 0) { o->rc_s = rc; S.ssl = NULL; goto out; }
    jit(w);
    rc = matrixSslNewClientSession(&C.ssl, g_ckeys, NULL, cs, 1, cert_cb, NULL, NULL, NULL, &co);
    if (rc < 0) { o->rc_c = rc; C.ssl = NULL; goto out; }
    pump(w, &C, &S, &pc);
    o->completed = C.hsDone && S.hsDone && !C.dead && !S.dead;
out:
    if (S.ssl && !o->rc_s) o->rc_s = (int16_t) S.lastrc;
    if (C.ssl && !o->rc_c) o->rc_c = (int16_t) C.lastrc;
    o->srv_alert = S.nAlertIn ? (uint8_t) S.alertDesc : 0xff;
    jit(w); ep_free(&C);
    jit(w); ep_free(&S);
    o->ret = stamp();
    w->cur = NULL;
}

static const uint16_t suites12[] = { 0xc02f, 0x009c, 0xc027, 0x003d, 0xc030, 0x002f, 0xc02b, 0xc023 };
static const uint16_t suites11[] = { 0x002f, 0xc013, 0x0035, 0xc014, 0xc009 };
static const uint16_t suites13[] = { 0x1301, 0x1302, 0x1303 };

static void *worker_main(void *arg)
{
    worker_t *w = arg; tls_w = w;
    pthread_barrier_wait(&g_start);
    for (int i = 0; i < g_nops; i++) {
        uint32_t r = vf_below(&w->rng, 100);
        lc_t *lc = &w->lc[vf_below(&w->rng, LT_N)];
        if (r < 57) { op_handshake(w, lc, M_NORMAL); publish(w, lc); }
        else if (r < 60) op_revq(w);
        else if (r < 62) op_revhs(w);
        else if (r < 70) op_borrow(w);
        else if (r < 75) op_handshake(w, lc, M_ALERT_HS);
        else if (r < 80) op_handshake(w, lc, M_ALERT_APP);
        else if (r < 84) op_handshake(w, lc, M_ABANDON);
        else if (r < 89) op_reset(w, lc);
        else if (r < 95) op_validate(w);
        else op_prng(w);
        __atomic_add_fetch(&g_done_ops, 1, __ATOMIC_RELAXED);
    }
    __atomic_sub_fetch(&g_workers_left, 1, __ATOMIC_RELAXED);
    return NULL;
}

/* wait until `period` more worker operations have finished; returns 0 when all workers are done */
static int g_in_tcb;            /* relaxed atomic: threads currently inside the ticket callback */
static int pace_ex(worker_t *w, uint32_t *last, int watch_tcb)
{
    long ns = 200000; uint32_t seen = __atomic_load_n(&g_done_ops, __ATOMIC_RELAXED);
    for (;;) {
        if (__atomic_load_n(&g_workers_left, __ATOMIC_RELAXED) <= 0) return 0;
        uint32_t d = __atomic_load_n(&g_done_ops, __ATOMIC_RELAXED);
        if (d - *last >= w->period) { *last = d; return 1; }
        if (watch_tcb && __atomic_load_n(&g_in_tcb, __ATOMIC_RELAXED) >= 2) return 2;   /* two resumptions inside the callback now */
        if (g_empty && __atomic_load_n(&g_in_gap, __ATOMIC_RELAXED) > 0) return 3;          /* a server sits between ticket decision and ticket write */
        /* back off while the workers make no progress, so that a deadlocked run is idle (the driver's progress watchdog
           looks at the CPU time of the process) */
        if (d != seen) { seen = d; ns = 200000; } else if (ns < 50000000) ns *= 2;
        struct timespec ts = { 0, ns }; nanosleep(&ts, NULL);
    }
}
static int pace(worker_t *w, uint32_t *last) { return pace_ex(w, last, 0); }

/* ---- ticket-key rotator: the only thread that changes keys->sessTickets, so its model of the list is exact */
static void tk_name(unsigned char name[16], uint32_t serial) { memset(name, 0, 16); snprintf((char *) name, 16, "tk%08x-c20", serial); name[15] = 'K'; }
static int tk_add(worker_t *w, uint32_t serial)
{
    unsigned char name[16], sym[32], mac[32];
    tk_name(name, serial);
    vf_fill(&w->rng, sym, 32); vf_fill(&w->rng, mac, 32);
    op_t *o = op_new(w, C_TKADD);
    if (o) { memcpy(o->name, name, 16); o->call = w->idx == 0xfe ? 0 : stamp(); }
    int rc = matrixSslLoadSessionTicketKeys(g_skeys, name, sym, (serial & 1) ? 32 : 16, mac, 32);
    if (o) { o->rc = rc; o->expect = 0; o->ret = w->idx == 0xfe ? 0 : stamp(); }
    return rc;
}
static void *rotator_main(void *arg)
{
    worker_t *w = arg; tls_w = w;
    uint32_t live[8]; int nlive = 1; live[0] = 0;   /* key 0 was loaded by main before the threads started */
    uint32_t serial = 1, last = 0;
    pthread_barrier_wait(&g_start);
    int pc;
    while ((pc = pace_ex(w, &last, nlive >= 2)) != 0) {
        uint32_t r = vf_below(&w->rng, 100);
        int what; /* 0 add, 1 delete head, 2 delete newest, 3 delete missing, 4 delete middle */
        if (nlive <= (g_empty ? 0 : 1)) what = 0; else if (nlive >= 4) what = 1;
        else what = r < 40 ? 0 : r < 75 ? 1 : r < 82 ? 2 : r < 90 ? 3 : 4;
        if (what == 4 && nlive < 3) what = 1;
        if (nlive >= 2 && (pc == 2 || vf_below(&w->rng, 100) < 45)) {
            /* aim at a resumption that is inside the ticket callback right now: delete exactly the key it was told is cached,
               then load a new key at once (the allocator tends to hand the freed block out again) */
            for (int spin = 0; spin < 200 && __atomic_load_n(&g_in_tcb, __ATOMIC_RELAXED) <= 0; spin++) { struct timespec ts = { 0, 50000 }; nanosleep(&ts, NULL); }
            if (__atomic_load_n(&g_in_tcb, __ATOMIC_RELAXED) > 0) {
                uint32_t ser = __atomic_load_n(&g_tcb_serial, __ATOMIC_RELAXED); int idx = -1;
                for (int i = 0; i < nlive; i++) if (live[i] == ser) idx = i;
                if (idx >= 0) {
                    /* a refused delete (key in use) is retried a few times while some resumption is still inside the callback, as an
                       application that must get rid of a key would do */
                    op_t *o = op_new(w, C_TKDEL); if (!o) break;
                    tk_name(o->name, live[idx]); o->sub = 6; o->expect = 0;
                    o->call = stamp();
                    for (int attempt = 0; attempt < 80; attempt++) {   /* one logged operation: [first attempt, last attempt] */
                        o->rc = matrixSslDeleteSessionTicketKey(g_skeys, o->name);
                        o->ret = stamp();
                        if (o->rc == 0 || __atomic_load_n(&g_in_tcb, __ATOMIC_RELAXED) <= 0) break;
                        struct timespec ts = { 0, 30000 }; nanosleep(&ts, NULL);
                    }
                    if (pc == 2 && o->rc != 0) { struct timespec ts = { 0, 300000 }; nanosleep(&ts, NULL); }
                    if (o->rc == 0) {
                        memmove(&live[idx], &live[idx + 1], (nlive - idx - 1) * sizeof live[0]); nlive--;
                        if (tk_add(w, serial) == 0) live[nlive++] = serial;
                        serial++;
                    }
                    continue;
                }
            }
            if (pc == 2) { struct timespec ts = { 0, 300000 }; nanosleep(&ts, NULL); continue; }   /* woken by the watch only */
        }
        if (pc == 3 && nlive == 0) { struct timespec ts = { 0, 300000 }; nanosleep(&ts, NULL); continue; }   /* nothing to delete: let the waiter go */
        if (g_empty && nlive >= 1 && (pc == 3 || (r >= 90 && r < 97))) {
            /* empty the list, newest first; it is refilled one pacing period later */
            while (nlive > 0) {
                op_t *o = op_new(w, C_TKDEL); if (!o) return NULL;
                tk_name(o->name, live[nlive - 1]); o->sub = 5; o->expect = 0;
                o->call = stamp();
                o->rc = matrixSslDeleteSessionTicketKey(g_skeys, o->name);
                o->ret = stamp();
                if (o->rc != 0) break;
                nlive--;
            }
            if (nlive == 0) __atomic_add_fetch(&g_empty_gen, 1, __ATOMIC_RELAXED);
            if (pc == 3) { struct timespec ts = { 0, 300000 }; nanosleep(&ts, NULL); }
            continue;
        }
        if (what == 0) { if (tk_add(w, serial) == 0) live[nlive++] = serial; serial++; continue; }
        op_t *o = op_new(w, C_TKDEL); if (!o) break;
        int idx = what == 1 ? 0 : what == 2 ? nlive - 1 : what == 4 ? 1 : -1;
        tk_name(o->name, idx >= 0 ? live[idx] : 0x7fffffffu - serial);
        o->sub = what; o->expect = idx >= 0 ? 0 : PS_FAILURE;
        o->call = stamp();
        o->rc = matrixSslDeleteSessionTicketKey(g_skeys, o->name);
        o->ret = stamp();
        if (o->rc == 0 && idx >= 0) { memmove(&live[idx], &live[idx + 1], (nlive - idx - 1) * sizeof live[0]); nlive--; }
    }
    return NULL;
}

/* ---- CRL cache churn: the only thread that changes the cache, so its model is exact */
enum { CRL_UPDATE = 0, CRL_UPDATE_AUTH, CRL_INSERT, CRL_DELETE, CRL_DELETEALL, CRL_QUERY, CRL_REFRESH_PINNED };
static void *crl_main(void *arg)
{
    worker_t *w = arg; tls_w = w;
    struct { psX509Crl_t *p; int cls; } live[64]; int nlive = 0;
    uint32_t last = 0; int first = 1;
    psX509Cert_t *pinca = g_pinca;   /* copy of the issuer of the pinned class used by this thread only (authenticates its CRLs) */
    pthread_barrier_wait(&g_start);
    while ((g_ncrl || g_npin) && (first || pace(w, &last))) {
        op_t *o = op_new(w, C_CRL); if (!o) break;
        uint32_t r = vf_below(&w->rng, 100);
        int what = r < 30 ? CRL_UPDATE : r < 45 ? CRL_UPDATE_AUTH : r < 55 ? CRL_INSERT : r < 70 ? CRL_DELETE : r < 78 ? CRL_DELETEALL : CRL_QUERY;
        if (g_npin && pinca && (first || vf_below(&w->rng, 100) < 45)) what = CRL_REFRESH_PINNED;
        else if (!g_ncrl) { w->nops--; first = 0; continue; }
        first = 0;
        if (what == CRL_REFRESH_PINNED) {
            /* refresh = what apps do after fetching a newer CRL: parse, authenticate, psCRL_Update(crl, 1); twice per operation */
            o->sub = what; o->expect = 1; o->rc = 1;
            o->call = stamp();
            for (int k = 0; k < 2; k++) {
                int v = (int) vf_below(&w->rng, g_npin);
                psX509Crl_t *crl = NULL;
                unsigned char *tmp = malloc(g_pin[v].len);
                memcpy(tmp, g_pin[v].der, g_pin[v].len);
                int rc = psX509ParseCRL(NULL, &crl, tmp, g_pin[v].len);
                free(tmp);
                if (rc < 0 || !crl) { o->rc = rc; o->sub |= 0x80; break; }
                if (psX509AuthenticateCRL(pinca, crl, NULL) < 0) { o->rc = -77; psX509FreeCRL(crl); break; }
                jit(w);
                rc = psCRL_Update(crl, 1);
                if (rc != 1) { o->rc = rc; break; }
            }
            o->ret = stamp();
            continue;
        }
        if (what == CRL_DELETE && !nlive) what = CRL_UPDATE;
        if (what == CRL_INSERT && nlive >= 60) what = CRL_DELETEALL;
        o->sub = what;
        o->call = stamp();
        if (what == CRL_UPDATE || what == CRL_UPDATE_AUTH || what == CRL_INSERT) {
            int v = (int) vf_below(&w->rng, g_ncrl);
            psX509Crl_t *crl = NULL;
            unsigned char *tmp = malloc(g_crl[v].len);
            memcpy(tmp, g_crl[v].der, g_crl[v].len);
            int rc = psX509ParseCRL(NULL, &crl, tmp, g_crl[v].len);
            free(tmp);
            if (rc < 0 || !crl) { o->rc = rc; o->expect = 0; o->sub |= 0x80; o->ret = stamp(); continue; }
            if (what == CRL_UPDATE_AUTH) {
                for (psX509Cert_t *ca = g_ckeys->CAcerts; ca; ca = ca->next)
                    if (psX509AuthenticateCRL(ca, crl, NULL) >= 0) break;
            }
            jit(w);
            if (what == CRL_INSERT) o->rc = psCRL_Insert(crl);
            else {
                o->rc = psCRL_Update(crl, 1);
                for (int i = 0; i < nlive; i++) if (live[i].cls == g_crl[v].cls) { memmove(&live[i], &live[i + 1], (nlive - i - 1) * sizeof live[0]); nlive--; break; }
            }
            o->expect = 1;
            if (o->rc == 1) { live[nlive].p = crl; live[nlive].cls = g_crl[v].cls; nlive++; }
        } else if (what == CRL_DELETE) {
            int i = (int) vf_below(&w->rng, nlive);
            jit(w);
            o->rc = psCRL_Delete(live[i].p); o->expect = 1;
            memmove(&live[i], &live[i + 1], (nlive - i - 1) * sizeof live[0]); nlive--;
        } else if (what == CRL_DELETEALL) {
            /* one by one: psCRL_DeleteAll() would also drop the pinned class, which by design is never absent */
            o->rc = o->expect = 0;
            while (nlive > 0) { jit(w); if (psCRL_Delete(live[--nlive].p) != 1) o->rc = -1; }
        } else {
            /* the thread's own parsed copy of the server certificate; issuer class 0 = RSA CA */
            int have = 0; for (int i = 0; i < nlive; i++) if (live[i].cls == 0) have = 1;
            jit(w);
            o->rc = psCRL_determineRevokedStatus(w->cert);
            o->expect = have ? 1 : 0;   /* 1: a PASSED_* status, 0: (NOT_)EXPECTED */
        }
        o->ret = stamp();
    }
    return NULL;
}

/* ------------------------------------------------------------------ setup / dump */
static char *pathf(const char *fmt, const char *a) { static char b[8][512]; static int i; char *p = b[i++ & 7]; snprintf(p, 512, fmt, a); return p; }
static void die(const char *m, int rc) { fprintf(stderr, "HARNESS: %s (%d)\n", m, rc); exit(2); }

static void load_keys(void)
{
    char ca[1100];
    if (g_pindir) snprintf(ca, sizeof ca, "%s/RSA/2048_RSA_CA.pem;%s/EC/256_EC_CA.pem;%s/pinca.pem", g_keydir, g_keydir, g_pindir);
    else snprintf(ca, sizeof ca, "%s/RSA/2048_RSA_CA.pem;%s/EC/256_EC_CA.pem", g_keydir, g_keydir);
    int rc;
    if (matrixSslNewKeys(&g_skeys, NULL) < 0 || matrixSslNewKeys(&g_ckeys, NULL) < 0 || matrixSslNewKeys(&g_skeys_rev, NULL) < 0) die("newkeys", -1);
    if (g_pindir && (rc = matrixSslLoadKeys(g_skeys_rev, pathf("%s/pinleaf.pem", g_pindir), pathf("%s/pinleaf.key", g_pindir), NULL, NULL, NULL)) < 0) die("revoked server keys", rc);
    if ((rc = matrixSslLoadKeys(g_skeys, pathf("%s/RSA/2048_RSA.pem", g_keydir), pathf("%s/RSA/2048_RSA_KEY.pem", g_keydir), NULL, ca, NULL)) < 0) die("server keys", rc);
    rc = matrixSslLoadKeys(g_skeys, pathf("%s/EC/256_EC.pem", g_keydir), pathf("%s/EC/256_EC_KEY.pem", g_keydir), NULL, NULL, NULL);
    g_have_ec = rc >= 0;
    if ((rc = matrixSslLoadKeys(g_ckeys, pathf("%s/RSA/2048_RSA.pem", g_keydir), pathf("%s/RSA/2048_RSA_KEY.pem", g_keydir), NULL, ca, NULL)) < 0) die("client keys", rc);
}
static void load_crls(const char *list)
{
    char *dup = strdup(list), *save = NULL;
    for (char *t = strtok_r(dup, ",", &save); t && g_ncrl < MAXCRL; t = strtok_r(NULL, ",", &save)) {
        int cls = 0; char *colon = strchr(t, ':');
        if (colon) { *colon = 0; cls = atoi(t); t = colon + 1; }
        FILE *f = fopen(t, "rb"); if (!f) die("crl file", 0);
        unsigned char *b = malloc(65536); int n = (int) fread(b, 1, 65536, f); fclose(f);
        if (cls == 2) { if (g_npin < MAXCRL) { g_pin[g_npin].der = b; g_pin[g_npin].len = n; g_npin++; } continue; }
        g_crl[g_ncrl].der = b; g_crl[g_ncrl].len = n; g_crl[g_ncrl].cls = cls; g_ncrl++;
    }
    free(dup);
}
static void hex16(char *d, const uint8_t *p) { for (int i = 0; i < 16; i++) sprintf(d + 2 * i, "%02x", p[i]); }

static void dump_op(const op_t *o)
{
    char b[1600], k1[40], k2[40], k3[40]; int n;
    static const char *cat[] = { "hs", "prng", "validate", "reset", "tkadd", "tkdel", "crl", "revq", "revhs" };
    n = snprintf(b, sizeof b, "{\"t\":\"op\",\"th\":%u,\"c\":%u,\"r\":%u,\"k\":\"%s\"", o->thr, o->call, o->ret, cat[o->cat]);
    if (o->cat == C_HS || o->cat == C_RESET) {
        hex16(k1, o->off_key); hex16(k2, o->iss_key); hex16(k3, o->tcb_key);
        n += snprintf(b + n, sizeof b - n, ",\"lc\":%u,\"lt\":\"%s\",\"off_id\":\"%llx\",\"off_tk\":\"%llx\",\"off_psk\":\"%llx\",\"off_sec\":\"%llx\",\"off_key\":\"%s\"",
                      o->lc, lt_name[o->lt], (unsigned long long) o->off_id, (unsigned long long) o->off_tk, (unsigned long long) o->off_psk,
                      (unsigned long long) o->off_sec, o->off_haskey ? k1 : "");
    }
    if (o->cat == C_HS) {
        n += snprintf(b + n, sizeof b - n, ",\"mode\":\"%s\",\"wire\":%u,\"curve\":%u,\"suite\":%u,\"cauth\":%u,\"sub\":%u,\"done\":%u,\"res\":%u,\"srv_err\":%u,\"srv_dead\":%u,\"cli_dead\":%u,"
                      "\"cli_alert\":%u,\"srv_alert\":%u,\"cb_alert\":%u,\"data_ok\":%u,\"tampered\":%u,\"rc_c\":%d,\"rc_s\":%d,"
                      "\"srv_ms\":\"%llx\",\"cli_ms\":\"%llx\",\"srv_sid\":\"%llx\",\"iss_id\":\"%llx\",\"iss_tk\":\"%llx\",\"iss_psk\":\"%llx\",\"iss_sec\":\"%llx\",\"iss_key\":\"%s\","
                      "\"sent_c\":%d,\"sent_s\":%d,\"got_c\":%d,\"got_s\":%d,\"tcb\":%u,\"tcb_cached\":%u,\"tcb_key\":\"%s\"",
                      mode_name[o->mode], o->on_wire, o->curve, o->suite, o->cauth, o->sub, o->completed, o->resumed, o->srv_err, o->srv_dead, o->cli_dead,
                      o->cli_alert, o->srv_alert, o->cb_alert, o->data_ok, o->tampered, o->rc_c, o->rc_s,
                      (unsigned long long) o->srv_ms, (unsigned long long) o->cli_ms, (unsigned long long) o->srv_sid,
                      (unsigned long long) o->iss_id, (unsigned long long) o->iss_tk, (unsigned long long) o->iss_psk, (unsigned long long) o->iss_sec, o->iss_haskey ? k2 : "",
                      o->sent_c, o->sent_s, o->got_c, o->got_s, o->tcb_calls, o->tcb_cached, o->tcb_calls ? k3 : "");
    } else if (o->cat == C_TKADD || o->cat == C_TKDEL) {
        hex16(k1, o->name);
        n += snprintf(b + n, sizeof b - n, ",\"name\":\"%s\",\"rc\":%d,\"expect\":%d,\"sub\":%u", k1, o->rc, o->expect, o->sub);
    } else if (o->cat == C_PRNG) {
        n += snprintf(b + n, sizeof b - n, ",\"rc\":%d,\"expect\":%d,\"h\":\"%llx\"", o->rc, o->expect, (unsigned long long) o->h);
    } else if (o->cat == C_REVQ) {
        n += snprintf(b + n, sizeof b - n, ",\"rc\":%d,\"expect\":%d,\"n\":%d,\"bad\":%d", o->rc, o->expect, o->sent_c, o->got_c);
    } else if (o->cat == C_REVHS) {
        n += snprintf(b + n, sizeof b - n, ",\"done\":%u,\"cb_alert\":%u,\"srv_alert\":%u,\"rc_c\":%d,\"rc_s\":%d", o->completed, o->cb_alert, o->srv_alert, o->rc_c, o->rc_s);
    } else if (o->cat == C_VALIDATE || o->cat == C_CRL) {
        n += snprintf(b + n, sizeof b - n, ",\"rc\":%d,\"expect\":%d,\"sub\":%u", o->rc, o->expect, o->sub);
    }
    n += snprintf(b + n, sizeof b - n, "}\n");
    vf_write(b, n);
}

int main(int argc, char **argv)
{
    vf_init(argc, argv);
    g_nthreads = (int) vf_argl("--threads", 4);
    g_nops = (int) vf_argl("--ops", 50);
    g_keydir = vf_arg("--keys", g_keydir);
    g_empty = (int) vf_argl("--empty", 0);
    g_pindir = vf_arg("--pin", NULL);
    if (g_nthreads < 1 || g_nthreads > 64 || g_nops < 1) die("bad --threads/--ops", 0);
    if (matrixSslOpen() < 0) die("matrixSslOpen", -1);
    load_keys();
    { FILE *f = fopen(pathf("%s/RSA/2048_RSA.pem", g_keydir), "rb"); if (!f) die("cert file", 0);
      g_certpem = malloc(65536); g_certpemlen = (int) fread(g_certpem, 1, 65536, f); fclose(f); }
    if (g_pindir && psX509ParseCertFile(NULL, pathf("%s/pinca.pem", g_pindir), &g_pinca, 0) < 0) die("parse pinned CA", 0);
    const char *crls = vf_arg("--crl", NULL);
    if (crls) load_crls(crls);

    vf_rng master; vf_rng_init(&master, vf_seed, 0xC20);
    int nw = g_nthreads + 2;
    worker_t *W = calloc(nw, sizeof *W);
    static const int py[] = { 0, 6, 24, 64 }, ps[] = { 0, 2, 8, 20 };
    for (int i = 0; i < nw; i++) {
        worker_t *w = &W[i];
        w->idx = i < g_nthreads ? i : (i == g_nthreads ? 0xf0 : 0xf1);
        vf_rng_init(&w->rng, vf_seed, 1000 + i);
        w->p_yield = py[vf_below(&master, 4)]; w->p_sleep = ps[vf_below(&master, 4)];
        w->cap = i < g_nthreads ? g_nops + 4 : g_nops * g_nthreads + 64;
        w->ops = calloc(w->cap, sizeof(op_t));
        if (psX509ParseCertFile(NULL, pathf("%s/RSA/2048_RSA.pem", g_keydir), &w->cert, 0) < 0 || !w->cert) die("parse cert", 0);
        if (g_pindir && (psX509ParseCertFile(NULL, pathf("%s/pinleaf.pem", g_pindir), &w->revcert, 0) < 0 || !w->revcert)) die("parse revoked cert", 0);
        if (i < g_nthreads) {
            int rot = (int) vf_below(&master, 64);
            for (int t = 0; t < LT_N; t++) {
                lc_t *lc = &w->lc[t]; lc->lt = t; lc->slot = t;
                if (matrixSslNewSessionId(&lc->sid, NULL) < 0) die("newsid", 0);
                lc->ver = t == LT_PSK13 ? 13 : t == LT_ID11 ? 11 : 12;
                for (int tries = 0; ; tries++) {
                    int j = i + rot + t * 3 + tries;
                    lc->suite = t == LT_PSK13 ? suites13[j % 3] : t == LT_ID11 ? suites11[j % 5] : suites12[j % 8];
                    int ecdsa = lc->suite == 0xc02b || lc->suite == 0xc023 || lc->suite == 0xc009;
                    if (!ecdsa || g_have_ec) break;
                }
                lc->cauth = vf_below(&master, 4) == 0;
                {   /* seed-independent curve plan: neighbouring clients and threads never agree on the curve */
                    int ecdsa = lc->suite == 0xc02b || lc->suite == 0xc023 || lc->suite == 0xc009;
                    int ecdhe = lc->ver == 13 || (lc->suite >> 8) == 0xc0;
                    lc->curve = !ecdhe ? 0 : ecdsa ? 256 : (i * LT_N + t) % 9 == 4 ? 521 : ((i + t) & 1) ? 384 : 256;
                }
            }
        }
    }
    /* service-thread pacing: rotate ticket keys every `period` finished worker operations */
    static const int rotp[] = { 2, 5, 12 };
    W[g_nthreads].period = (uint32_t) (rotp[vf_below(&master, 3)] * g_nthreads);
    W[g_nthreads + 1].period = (uint32_t) (1 + vf_below(&master, 3)) * (g_nthreads > 3 ? g_nthreads / 2 : 1);
    matrixSslSetSessionTicketCallback(g_skeys, ticket_cb);
    { worker_t *w = &W[g_nthreads]; int save = w->idx; w->idx = 0xfe; if (tk_add(w, 0) < 0) die("initial ticket key", 0); w->idx = save; w->ops[0].thr = save; }

    g_board = calloc((size_t) g_nthreads * LT_N, sizeof *g_board);
    for (int i = 0; i < g_nthreads * LT_N; i++) pthread_mutex_init(&g_board[i].mu, NULL);
    g_workers_left = g_nthreads;
    pthread_barrier_init(&g_start, NULL, nw);
    for (int i = 0; i < nw; i++) {
        void *(*fn)(void *) = i < g_nthreads ? worker_main : i == g_nthreads ? rotator_main : crl_main;
        if (pthread_create(&W[i].tid, NULL, fn, &W[i])) die("pthread_create", i);
    }
    for (int i = 0; i < nw; i++) pthread_join(W[i].tid, NULL);

    /* ---- single-threaded from here on ---- */
    /* quiescent-point invariant of the shared session cache: every session of the run has been deleted, so each of the
       SSL_SESSION_TABLE_SIZE entries must be available again.  Probe through the public API: that many TLS 1.2 sessions
       held open at the same time must each be given a session id (an entry whose reference count leaked during the run
       never returns to the pool, and one session fewer gets an id). */
    int cap_got = 0, cap_done = 0;
    {
        enum { NP = SSL_SESSION_TABLE_SIZE };
        static ep_t PC[NP], PS[NP]; static sslSessionId_t *psid[NP];
        worker_t *w = &W[0];
        for (int i = 0; i < NP; i++) {
            sslSessOpts_t so, co; set_opts(&so, 12, 1, 0, 0); set_opts(&co, 12, 0, 0, 0);
            psCipher16_t cs[1] = { 0x009c };
            pumpctl_t pc; memset(&pc, 0, sizeof pc); pc.corrupt_round = pc.stop_round = -1;
            if (matrixSslNewSessionId(&psid[i], NULL) < 0) break;
            if (matrixSslNewServerSession(&PS[i].ssl, g_skeys, NULL, &so) < 0) { PS[i].ssl = NULL; break; }
            if (matrixSslNewClientSession(&PC[i].ssl, g_ckeys, psid[i], cs, 1, cert_cb, NULL, NULL, NULL, &co) < 0) { PC[i].ssl = NULL; break; }
            pump(w, &PC[i], &PS[i], &pc);
            if (PC[i].hsDone && PS[i].hsDone && !PC[i].dead && !PS[i].dead) { cap_done++; if (PS[i].ssl->sessionIdLen > 0) cap_got++; }
        }
        for (int i = 0; i < NP; i++) { ep_free(&PC[i]); ep_free(&PS[i]); if (psid[i]) matrixSslDeleteSessionId(psid[i]); }
    }
    long total = 0, api = 0, yl = 0, sl = 0;
    char hdr[512];
    int n = snprintf(hdr, sizeof hdr, "{\"t\":\"run\",\"seed\":%llu,\"threads\":%d,\"ops\":%d,\"have_ec\":%d,\"ncrl\":%d,\"rot_period\":%u,\"crl_period\":%u,\"empty\":%d,\"gap_hits\":%u,\"gap_served\":%u,\"cache_size\":%d,\"cache_probe_done\":%d,\"cache_probe_ids\":%d}\n",
                     (unsigned long long) vf_seed, g_nthreads, g_nops, g_have_ec, g_ncrl, W[g_nthreads].period, W[g_nthreads + 1].period, g_empty, g_gap_hits, g_gap_served, (int) SSL_SESSION_TABLE_SIZE, cap_done, cap_got);
    vf_write(hdr, n);
    for (int i = 0; i < nw; i++) {
        for (int k = 0; k < W[i].nops; k++) dump_op(&W[i].ops[k]);
        total += W[i].nops; api += W[i].apicalls; yl += W[i].yields; sl += W[i].sleeps;
    }
    vf_stat("cases", total);
    vf_stat("api_calls", api); vf_stat("yields_injected", yl); vf_stat("sleeps_injected", sl);
    vf_stat("runs", 1);
    for (int i = 0; i < nw; i++) {
        for (int t = 0; t < LT_N; t++) if (W[i].lc[t].sid) matrixSslDeleteSessionId(W[i].lc[t].sid);
        psX509FreeCert(W[i].cert); if (W[i].revcert) psX509FreeCert(W[i].revcert);
    }
    psCRL_DeleteAll();
    if (g_pinca) psX509FreeCert(g_pinca);
    matrixSslDeleteKeys(g_skeys); matrixSslDeleteKeys(g_ckeys); matrixSslDeleteKeys(g_skeys_rev);
    matrixSslClose();
    const char end[] = "{\"t\":\"end\"}\n";
    vf_write(end, sizeof end - 1);
    vf_flush();
    if (vf_verbose) fprintf(stderr, "c20: seed=%llu threads=%d ops=%d total_ops=%ld stamps=%u\n", (unsigned long long) vf_seed, g_nthreads, g_nops, total, g_stamp);
    return 0;
}
