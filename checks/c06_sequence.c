/* C06 - handshakes follow a legal message sequence; no step can be skipped.
 *
 * For every mode (version x key exchange x resumed / ticket / client-auth) and each role as
 * receiver, the honest handshake is run to the start of each flight addressed to the receiver.
 * There the process is fork()ed once per deviation.  The child re-frames the pending flight into
 * ONE handshake message per record (TLS 1.3 protected flights are opened with the sender's
 * handshake key read from its ssl_t and each message re-sealed with libcrypto under the running
 * sequence number), applies one single-step deviation (delete / duplicate / swap adjacent /
 * inject a message type from the alphabet / premature ChangeCipherSpec), feeds the messages one by
 * one and observes liveness after each.  Oracle (reference grammar per mode written from the RFCs):
 *   prefix  : the receiver must be dead (fatal alert / error) right after the first message that
 *             no legal sequence of the negotiated mode admits at that position;
 *   complete: if the deviant sequence differs from the honest one, the receiver never completes.
 * DTLS may ignore duplicates and out-of-order messages, so only the completion clause is judged. */
#include "mx_surgeon.h"

typedef struct { const char *name; int ver; uint16_t suite; int clientAuth, resumed, ticket; } hmode_t;
static hmode_t modes[64]; static int nmodes;
static void addm(const char *n, int v, uint16_t s, int ca, int res, int tk) { modes[nmodes++] = (hmode_t) { n, v, s, ca, res, tk }; }
static void build_modes(void)
{
    addm("rsa", MX_TLS12, 0x003c, 0, 0, 0); addm("rsa-clientauth", MX_TLS12, 0x009c, 1, 0, 0);
    addm("ecdhe-rsa", MX_TLS12, 0xc02f, 0, 0, 0); addm("ecdhe-ecdsa-clientauth", MX_TLS12, 0xc02b, 1, 0, 0);
    addm("psk", MX_TLS12, 0x00ae, 0, 0, 0); addm("rsa-resumed", MX_TLS12, 0x002f, 0, 1, 0); addm("ecdhe-rsa-ticket", MX_TLS12, 0xc013, 0, 1, 1);
    addm("ecdhe-rsa", MX_TLS11, 0xc014, 0, 0, 0); addm("rsa-clientauth", MX_TLS11, 0x0035, 1, 0, 0);
    addm("aes128gcm", MX_TLS13, 0x1301, 0, 0, 0); addm("chacha-clientauth", MX_TLS13, 0x1303, 1, 0, 0); addm("aes256gcm-resumed", MX_TLS13, 0x1302, 0, 1, 0);
    addm("ecdhe-rsa", MX_DTLS12, 0xc027, 0, 0, 0); addm("rsa-clientauth", MX_DTLS10, 0x002f, 1, 0, 0); addm("psk-resumed", MX_DTLS12, 0x00ae, 0, 1, 0);
}

/* ---- units: one handshake message (or CCS / opaque encrypted record) ---- */
enum { U_HS = 0, U_CCS, U_OPAQUE };
typedef struct { int kind, type; unsigned char *body; int len; int prot; /* TLS1.3: was protected */ int origin; } unit_t;
#define T_CCS 1000
#define T_ENCFIN 1020
static unit_t pool[64]; static int npool;             /* every handshake message seen in the honest run (both directions) */
static unit_t tr[64]; static int ntr;                  /* this connection's handshake messages before the attacked flight, in order (TLS <= 1.2, before CCS) */
static const unit_t *pool_get(int type) { for (int i = 0; i < npool; i++) if (pool[i].type == type) return &pool[i]; return NULL; }

static int kx_of(const hmode_t *m) { const mx_suite_t *s = mx_suite_by_id(m->suite); if (s->tls13) return 3; if (s->auth == MX_AUTH_PSK) return 2; return (m->suite & 0xff00) == 0xc000 ? 1 : 0; }   /* 0 RSA, 1 ECDHE, 2 PSK, 3 TLS1.3 */

/* ---- reference grammar: returns next state or -1 if `type` is not admissible in state st ---- */
typedef struct { const hmode_t *m; int role; int resumedActually; int clientSentCert; int ticketNegotiated; } gctx_t;
static int g_next(const gctx_t *g, int st, int type)
{
    const hmode_t *m = g->m; int kx = kx_of(m); int certSuite = kx == 0 || kx == 1;
    if (m->ver == MX_TLS13) {
        if (g->role == MX_CLIENT) {       /* client receives: SH EE [CR] Cert CV Fin ; PSK: SH EE Fin */
            switch (st) {
            case 0: return type == 2 ? 1 : -1;
            case 1: return type == 8 ? 2 : -1;
            case 2: if (g->resumedActually) return type == 20 ? 9 : -1; if (type == 13) return 3; return type == 11 ? 4 : -1;
            case 3: return type == 11 ? 4 : -1;
            case 4: return type == 15 ? 5 : -1;
            case 5: return type == 20 ? 9 : -1;
            default: return -1; }
        } else {                          /* server receives: CH [Cert [CV]] Fin */
            switch (st) {
            case 0: return type == 1 ? 1 : -1;
            case 1: if (m->clientAuth && !g->resumedActually) return type == 11 ? 2 : -1; return type == 20 ? 9 : -1;
            case 2: if (g->clientSentCert) return type == 15 ? 3 : -1; return type == 20 ? 9 : -1;
            case 3: return type == 20 ? 9 : -1;
            default: return -1; }
        }
    }
    if (g->role == MX_CLIENT) {           /* TLS <= 1.2 client receives */
        if (type == 0) return st;         /* HelloRequest is ignored by a client that is negotiating (RFC 5246 7.4.1.1) */
        switch (st) {
        case 0: if (type == 3 && MX_IS_DTLS(m->ver)) return 0; return type == 2 ? (g->resumedActually ? 6 : 1) : -1;
        case 1: if (certSuite) return type == 11 ? 2 : -1;                       /* PSK: */ if (type == 12) return 3; return type == 14 ? 5 : -1;
        case 2: if (type == 22) return 2; if (kx == 1) return type == 12 ? 3 : -1; /* RSA: no SKE */ if (type == 13) return 4; return type == 14 ? 5 : -1;
        case 3: if (type == 13 && certSuite) return 4; return type == 14 ? 5 : -1;
        case 4: return type == 14 ? 5 : -1;
        case 5: if (type == 4 && g->ticketNegotiated) return 7; return type == T_CCS ? 8 : -1;      /* after SHD (client's own flight in between) */
        case 6: if (type == 4 && g->ticketNegotiated) return 7; return type == T_CCS ? 8 : -1;      /* resumed: after SH */
        case 7: return type == T_CCS ? 8 : -1;
        case 8: return (type == 20 || type == T_ENCFIN) ? 9 : -1;
        default: return -1; }
    } else {                              /* TLS <= 1.2 server receives */
        switch (st) {
        case 0: return type == 1 ? (MX_IS_DTLS(m->ver) ? 0 : 1) : -1;            /* DTLS: cookie exchange repeats ClientHello */
        case 1: if (g->resumedActually) return type == T_CCS ? 8 : -1; if (m->clientAuth) return type == 11 ? 2 : -1; return type == 16 ? 3 : -1;
        case 2: return type == 16 ? 3 : -1;
        case 3: if (g->clientSentCert) return type == 15 ? 4 : -1; return type == T_CCS ? 8 : -1;
        case 4: return type == T_CCS ? 8 : -1;
        case 8: return (type == 20 || type == T_ENCFIN) ? 9 : -1;
        default: return -1; }
    }
}

/* ---- splitting a pending flight into units ---- */
static int split_flight(mx_conn *k, mx_ep *T, mx_ep *P, const unsigned char *b, int n, unit_t *u, int maxu)
{
    int off = 0, nu = 0, dtls = k->dtls; mx_rec r; int afterCCS = 0; unsigned long long rseq = 0; int hh = dtls ? 12 : 4;
    static unsigned char plain[70000];
    while (mx_rec_at(b, n, off, dtls, &r) && nu < maxu) {
        const unsigned char *p = b + off + r.hdr; int tot = r.hdr + r.len;
        if (k->cfg.ver == MX_TLS13) {
            if (r.type == 20) { off += tot; continue; }                                   /* compatibility CCS: dropped by the receiver, not part of the sequence */
            if (r.type == 22) {   /* plaintext ClientHello / ServerHello / HRR */
                int o = 0; while (o + 4 <= r.len && nu < maxu) { int l = (p[o + 1] << 16) | (p[o + 2] << 8) | p[o + 3]; u[nu] = (unit_t) { U_HS, p[o], malloc(4 + l), 4 + l, 0, 0 }; memcpy(u[nu].body, p + o, 4 + l); nu++; o += 4 + l; }
            } else if (r.type == 23) {
                int l = mx13_open(k->cfg.suite, P->ssl->sec.tls13HsWriteKey, P->ssl->sec.tls13HsWriteIv, rseq++, b + off, tot, plain);
                if (l < 0) return -1;
                while (l > 0 && plain[l - 1] == 0) l--; int it = plain[l - 1]; l--;
                if (it != 22) { off += tot; continue; }
                int o = 0; while (o + 4 <= l && nu < maxu) { int ml = (plain[o + 1] << 16) | (plain[o + 2] << 8) | plain[o + 3]; u[nu] = (unit_t) { U_HS, plain[o], malloc(4 + ml), 4 + ml, 1, 0 }; memcpy(u[nu].body, plain + o, 4 + ml); nu++; o += 4 + ml; }
            }
        } else if (dtls) {
            int ty = r.type == 20 ? T_CCS : (r.type == 22 && r.epoch == 0 && r.len >= 12) ? p[0] : (r.type == 22 ? T_ENCFIN : 900 + r.type);
            u[nu] = (unit_t) { ty == T_CCS ? U_CCS : U_OPAQUE, ty, malloc(tot), tot, 0, 0 }; memcpy(u[nu].body, b + off, tot); nu++;
        } else if (r.type == 20 && !afterCCS) { u[nu] = (unit_t) { U_CCS, T_CCS, malloc(tot), tot, 0, 0 }; memcpy(u[nu].body, b + off, tot); nu++; afterCCS = 1; }
        else if (afterCCS) { u[nu] = (unit_t) { U_OPAQUE, T_ENCFIN, malloc(tot), tot, 0, 0 }; memcpy(u[nu].body, b + off, tot); nu++; }
        else if (r.type == 22) {
            int o = 0; while (o + hh <= r.len && nu < maxu) { int l = (p[o + 1] << 16) | (p[o + 2] << 8) | p[o + 3]; if (dtls) l = (p[o + 9] << 16) | (p[o + 10] << 8) | p[o + 11];
                u[nu] = (unit_t) { U_HS, p[o], malloc(hh + l), hh + l, 0, 0 }; memcpy(u[nu].body, p + o, hh + l); nu++; o += hh + l; }
        } else { u[nu] = (unit_t) { U_OPAQUE, 900 + r.type, malloc(tot), tot, 0, 0 }; memcpy(u[nu].body, b + off, tot); nu++; }
        off += tot;
    }
    (void) T;
    return nu;
}

/* ---- feeding one unit as its own record ---- */
static unsigned long long feed_seq; static unsigned long long dtls_rsn_next;
static int feed_frag;      /* framing of the deviant flight: 0 = one handshake message per record, 1 = every handshake message split over two records */
static int feed_unit_whole(mx_conn *k, mx_ep *T, mx_ep *P, const unit_t *u);
static int feed_unit(mx_conn *k, mx_ep *T, mx_ep *P, const unit_t *u)
{
    /* record-layer fragmentation (not DTLS: its fragments carry their own headers; not TLS <= 1.2 protected records) */
    /* TLS 1.3 hellos stay whole: the library decides between its two record decoders from a complete hello (a refused fragmented hello is no concern of this property) */
    if (feed_frag && u->kind == U_HS && !k->dtls && u->len >= 12 && !(k->cfg.ver == MX_TLS13 && (u->type == 1 || u->type == 2)) && (k->cfg.ver == MX_TLS13 || !(T->ssl->flags & SSL_FLAGS_READ_SECURE))) {
        int cut = 5 + (u->len - 5) / 2;     /* inside the body (a split inside the 4-byte handshake header is refused by the TLS 1.3 decoder: a limitation, not this property's subject) */
        unit_t a = *u, b = *u; a.len = cut; b.body = u->body + cut; b.len = u->len - cut;
        int rc = feed_unit_whole(k, T, P, &a); if (T->dead) return rc;
        return feed_unit_whole(k, T, P, &b);
    }
    return feed_unit_whole(k, T, P, u);
}
static int feed_unit_whole(mx_conn *k, mx_ep *T, mx_ep *P, const unit_t *u)
{
    static unsigned char rec[70000]; int n = 0, dtls = k->dtls;
    if (u->kind != U_HS) { memcpy(rec, u->body, u->len); n = u->len; }
    else if (k->cfg.ver == MX_TLS13 && (T->ssl->flags & SSL_FLAGS_READ_SECURE)) {
        static unsigned char inner[70000]; memcpy(inner, u->body, u->len); inner[u->len] = 22;
        n = mx13_seal(k->cfg.suite, P->ssl->sec.tls13HsWriteKey, P->ssl->sec.tls13HsWriteIv, mx_seq8(T->ssl->sec.remSeq), inner, u->len + 1, 23, rec);
    } else {
        int maj = dtls ? 254 : 3, min = k->cfg.ver == MX_TLS11 ? 2 : k->cfg.ver == MX_DTLS10 ? 255 : dtls ? 253 : 3;
        if (k->cfg.ver == MX_TLS13 && u->type == 1) min = 1;
        rec[0] = 22; rec[1] = maj; rec[2] = min; int h = 5;
        if (dtls) { rec[3] = 0; rec[4] = 0; for (int i = 0; i < 6; i++) rec[5 + i] = (unsigned char) (dtls_rsn_next >> (8 * (5 - i))); dtls_rsn_next++; h = 13; }
        rec[h - 2] = u->len >> 8; rec[h - 1] = u->len; memcpy(rec + h, u->body, u->len); n = h + u->len;
    }
    if (T->dead) return -1;
    return mx_feed(T, rec, n);
}
static int is_dead(mx_ep *T) { return T->dead || (T->ssl->flags & SSL_FLAGS_ERROR) || T->ssl->err != SSL_ALERT_NONE; }

/* ---- deviations ---- */
enum { DV_NONE = 0, DV_DELETE, DV_DUP, DV_SWAP, DV_INJECT, DV_CCS, DV_INJECT2 };
static const char *dvname[] = { "legal-reframed", "delete", "duplicate", "swap-adjacent", "inject", "premature-ccs", "inject-twice" };
typedef struct { int kind, pos, type; } devn_t;
static const char *tname(int t)
{
    switch (t) { case 0: return "HelloRequest"; case 1: return "ClientHello"; case 2: return "ServerHello"; case 3: return "HelloVerifyRequest"; case 4: return "NewSessionTicket"; case 5: return "EndOfEarlyData"; case 8: return "EncryptedExtensions";
    case 11: return "Certificate"; case 12: return "ServerKeyExchange"; case 13: return "CertificateRequest"; case 14: return "ServerHelloDone"; case 15: return "CertificateVerify"; case 16: return "ClientKeyExchange"; case 20: return "Finished";
    case 22: return "CertificateStatus"; case 24: return "KeyUpdate"; case 99: return "unknown-99"; case T_CCS: return "ChangeCipherSpec"; case T_ENCFIN: return "Finished(protected)"; default: return "other"; }
}

typedef struct { mx_conn *k; const hmode_t *m; int role; int flightNo; int gstate0; devn_t dv; int resumedActually; int clientSentCert; int ticketNegotiated; int frag; } child_arg;
static char cur_desc[256];
static void report(const child_arg *a, const char *clause, int type, const char *fmt, ...)
{
    char key[220], msg[700]; va_list ap; va_start(ap, fmt); vsnprintf(msg, sizeof msg, fmt, ap); va_end(ap);
    snprintf(key, sizeof key, "c06:%s:%s:%s:%s%s:%s", clause, mx_vername[a->m->ver], a->role ? "server" : "client", dvname[a->dv.kind], a->frag ? "+fragmented" : "", tname(type));
    vf_violation(key, cur_desc, "%s | mode=%s flight=%d pos=%d", msg, a->m->name, a->flightNo, a->dv.pos);
}

static void child_run(void *a_)
{
    child_arg *a = a_; mx_conn *k = a->k; mx_ep *T = a->role == MX_SERVER ? &k->s : &k->c, *P = a->role == MX_SERVER ? &k->c : &k->s; int d = a->role == MX_SERVER ? 0 : 1;
    unit_t u[24], dseq[32]; int nu, nd = 0;
    vf_stat("cases", 1); feed_frag = a->frag; if (a->frag) vf_stat("cases_fragmented_framing", 1);
    nu = split_flight(k, T, P, k->q[d] + k->qoff[d], k->qlen[d] - k->qoff[d], u, 24);
    if (nu <= 0) { vf_stat("flight_not_splittable", 1); return; }
    k->qoff[d] = k->qlen[d];
    /* DTLS record sequence numbers for the re-framed plaintext records: continue after the highest epoch-0 number the sender used */
    dtls_rsn_next = 40 + a->flightNo * 40;
    /* build the deviant sequence */
    const devn_t *dv = &a->dv; unit_t inj; memset(&inj, 0, sizeof inj);
    if (dv->kind == DV_INJECT || dv->kind == DV_CCS || dv->kind == DV_INJECT2) {
        if (dv->kind == DV_CCS) { static unsigned char ccs[16]; int h = k->dtls ? 13 : 5; memset(ccs, 0, sizeof ccs); ccs[0] = 20; ccs[1] = k->dtls ? 254 : 3; ccs[2] = k->cfg.ver == MX_TLS11 ? 2 : k->cfg.ver == MX_DTLS10 ? 255 : k->dtls ? 253 : 3; if (k->dtls) ccs[10] = 77; ccs[h - 1] = 1; ccs[h] = 1; inj = (unit_t) { U_CCS, T_CCS, ccs, h + 1, 0, 1 }; }
        else { const unit_t *src = pool_get(dv->type); static unsigned char empty[12]; memset(empty, 0, sizeof empty); empty[0] = (unsigned char) dv->type;
            static unsigned char pskske[6] = { 12, 0, 0, 2, 0, 0 };   /* ServerKeyExchange of a plain PSK suite with an empty identity hint (legal once, RFC 4279) */
            if (src) inj = *src; else if (dv->type == 12 && kx_of(a->m) == 2 && !k->dtls) inj = (unit_t) { U_HS, 12, pskske, 6, 0, 1 };
            else inj = (unit_t) { U_HS, dv->type, empty, k->dtls ? 12 : 4, 0, 1 }; inj.origin = 1; }
    }
    for (int i = 0; i <= nu; i++) {
        if ((dv->kind == DV_INJECT || dv->kind == DV_CCS || dv->kind == DV_INJECT2) && dv->pos == i) { dseq[nd++] = inj; if (dv->kind == DV_INJECT2) dseq[nd++] = inj; }
        if (i == nu) break;
        if (dv->kind == DV_DELETE && dv->pos == i) continue;
        if (dv->kind == DV_SWAP && dv->pos == i && i + 1 < nu) { dseq[nd++] = u[i + 1]; dseq[nd++] = u[i]; i++; continue; }
        dseq[nd++] = u[i];
        if (dv->kind == DV_DUP && dv->pos == i) dseq[nd++] = u[i];
    }
    /* same as the honest sequence? (e.g. swap of two identical units) */
    int same = nd == nu; for (int i = 0; same && i < nu; i++) if (dseq[i].type != u[i].type || dseq[i].len != u[i].len || memcmp(dseq[i].body, u[i].body, u[i].len)) same = 0;
    /* reference grammar walk */
    gctx_t g = { a->m, a->role, a->resumedActually, a->clientSentCert, a->ticketNegotiated }; int st = a->gstate0, illegalAt = -1;
    for (int i = 0; i < nd; i++) { int ns = g_next(&g, st, dseq[i].type); if (ns < 0) { illegalAt = i; break; } st = ns; }
    char seqs[400]; int so = 0; seqs[0] = 0; for (int i = 0; i < nd && so < 360; i++) so += snprintf(seqs + so, sizeof seqs - so, "%s%s%s", i ? "," : "", i == illegalAt ? "!" : "", tname(dseq[i].type));
    vf_distinct("%s|%s|%d|f%d|%s|%d|%d|fr%d", mx_vername[a->m->ver], a->m->name, a->role, a->flightNo, dvname[dv->kind], dv->pos, dv->type, a->frag);
    /* feed one message at a time */
    int firstAcceptedIllegal = -1, completedEarly = 0, completedAt = -1;
    for (int i = 0; i < nd; i++) {
        if (dv->kind != DV_NONE && !same && !k->dtls && (dseq[i].type == 20 || dseq[i].type == T_ENCFIN) && !is_dead(T)) {
            /* transcript-consistent deviant peer: a real (malicious) peer knows the session secrets and sends the Finished value that
               matches the sequence it actually sent, i.e. the one the receiver expects over ITS transcript.  Compute that value with
               the receiver's own snapshot function and seal it with the sender's keys. */
            unsigned char fin[4 + 64], vd[64]; int vl = -1; static unsigned char frec[256];
            if (a->m->ver == MX_TLS13) {
                int hl = a->m->suite == 0x1302 ? 48 : 32; psHmac_t hc; unsigned char trh[64];
                MX_ENTER(); if (tls13DeriveFinishedKey(T->ssl, !MATRIX_IS_SERVER(T->ssl)) >= 0 && tls13TranscriptHashSnapshot(T->ssl, trh) >= 0 &&
                    psHmacSingle(&hc, hl == 48 ? HMAC_SHA384 : HMAC_SHA256, T->ssl->sec.tls13FinishedKey, hl, trh, hl, vd) >= 0) vl = hl; MX_LEAVE();
            } else { MX_ENTER(); vl = sslSnapshotHSHash(T->ssl, vd, PS_FALSE, PS_TRUE); MX_LEAVE(); }
            if (vl > 0 && vl <= 64) {
                fin[0] = 20; fin[1] = 0; fin[2] = 0; fin[3] = (unsigned char) vl; memcpy(fin + 4, vd, vl); vf_stat("consistent_finished_crafted", 1);
                if (a->m->ver == MX_TLS13) { unit_t fu = { U_HS, 20, fin, 4 + vl, 1, 1 }; feed_unit(k, T, P, &fu); }
                else if (T->ssl->flags & SSL_FLAGS_READ_SECURE) { memset(P->ssl->sec.seq, 0, 8); int n = mx_seal_as(P, 22, fin, 4 + vl, frec); if (n > 0 && !T->dead) mx_feed(T, frec, n); }
                else { unit_t fu = { U_HS, 20, fin, 4 + vl, 0, 1 }; feed_unit(k, T, P, &fu); }
                int dead2 = is_dead(T);
                if (i == illegalAt && !dead2) firstAcceptedIllegal = i;
                if (!dead2 && matrixSslHandshakeIsComplete(T->ssl) && !completedEarly) { completedEarly = 1; completedAt = i; }
                if (dead2) break;
                continue;
            }
        }
        feed_unit(k, T, P, &dseq[i]);
        int dead = is_dead(T);
        if (i == illegalAt && !dead && !k->dtls) firstAcceptedIllegal = i;
        if (!dead && matrixSslHandshakeIsComplete(T->ssl) && !completedEarly) { completedEarly = 1; completedAt = i; }
        if (dead) break;
    }
    if (firstAcceptedIllegal >= 0) {
        /* The state machine let an illegal message through.  The statement is violated only if the handshake can then COMPLETE,
           which needs a sender whose own transcript contains the same deviant sequence: give the honest sender that transcript
           (feed the extra message into its running handshake hash through the library's own function) and see. */
        vf_stat("lax_state_machine_observations", 1);
        vf_statf(1, "lax_%s_%s_%s", mx_vername[a->m->ver], a->role ? "server" : "client", tname(dseq[firstAcceptedIllegal].type));
    }
    /* Transcript-consistent deviant sender (TLS <= 1.2 over TCP, before the sender's ChangeCipherSpec): a malicious peer's own
       transcript contains exactly what it sent.  Re-base the sender's running handshake hash on the receiver's view - every
       handshake message exchanged before this flight plus the deviant sequence the receiver consumed - with the library's own
       functions, so that the rest of the handshake (the receiver's Finished checked by the sender, the sender's Finished checked
       by the receiver) is decided by the receiver's state machine alone and not by a transcript mismatch. */
    if (dv->kind != DV_NONE && !same && !k->dtls && a->m->ver != MX_TLS13 && !is_dead(T) && !matrixSslHandshakeIsComplete(T->ssl)
        && !(P->ssl->flags & (SSL_FLAGS_WRITE_SECURE | SSL_FLAGS_READ_SECURE)) && !(T->ssl->flags & SSL_FLAGS_READ_SECURE)) {
        MX_ENTER(); sslInitHSHash(P->ssl);
        for (int i = 0; i < ntr; i++) sslUpdateHSHash(P->ssl, tr[i].body, tr[i].len);
        for (int i = 0; i < nd; i++) if (dseq[i].kind == U_HS && dseq[i].type != 0) sslUpdateHSHash(P->ssl, dseq[i].body, dseq[i].len);   /* HelloRequest is never hashed */
        MX_LEAVE();
        vf_stat("transcript_consistent_sender_runs", 1);
    }
    /* let the rest of the honest handshake run */
    mx_conn_run(k, NULL, NULL, 300);
    /* completion observed at any point counts, whatever follows - unless it happened exactly when the complete honest flight had been
       consumed as a prefix of the deviant sequence (what comes after a completed handshake is C15's subject) */
    int honestPrefix = completedEarly && completedAt == nu - 1;
    for (int j = 0; honestPrefix && j < nu; j++) { int fin = (dseq[j].type == 20 || dseq[j].type == T_ENCFIN) && (u[j].type == 20 || u[j].type == T_ENCFIN);   /* a crafted Finished stands for the honest one */
        if (!fin && (dseq[j].type != u[j].type || dseq[j].len != u[j].len || memcmp(dseq[j].body, u[j].body, u[j].len))) honestPrefix = 0; }
    int complete = ((matrixSslHandshakeIsComplete(T->ssl) && !is_dead(T)) || completedEarly) && !honestPrefix;
    if (honestPrefix) vf_stat("completed_on_honest_prefix_then_extra_message", 1);
    if (dv->kind == DV_NONE || same) {
        if (!mx_conn_established(k)) vf_violation("c06:harness:legal-reframed-sequence-rejected", cur_desc, "one-message-per-record re-framing of the honest flight [%s] was refused (mode %s %s)", seqs, mx_vername[a->m->ver], a->m->name);
        else vf_stat("positive_controls_ok", 1);
        return;
    }
    if (complete && illegalAt < 0) { vf_stat("grammar_legal_deviations_completed", 1); vf_statf(1, "legal_completed_%s_%s", dvname[dv->kind], tname(dv->type)); }
    else if (complete) report(a, "completed-with-deviant-sequence", dv->kind == DV_INJECT || dv->kind == DV_INJECT2 || dv->kind == DV_CCS ? inj.type : u[dv->pos < nu ? dv->pos : nu - 1].type, "receiver reports a completed handshake after consuming [%s] instead of the honest flight", seqs);
    else vf_stat(illegalAt >= 0 ? "deviations_refused_at_offending_message_or_later" : "structurally_legal_deviations_refused_later", 1);
}

static long g_idx;
static void at_flight(mx_conn *k, const hmode_t *m, int role, int flightNo, int gstate0, int resumedActually, int clientSentCert, int ticketNeg)
{
    mx_ep *T = role == MX_SERVER ? &k->s : &k->c, *P = role == MX_SERVER ? &k->c : &k->s; int d = role == MX_SERVER ? 0 : 1;
    unit_t u[24]; int nu = split_flight(k, T, P, k->q[d] + k->qoff[d], k->qlen[d] - k->qoff[d], u, 24);
    if (nu <= 0) return;
    static const int alphabet[] = { 0, 1, 2, 4, 5, 8, 11, 12, 13, 14, 15, 16, 20, 22, 24, 99 };
    devn_t list[800]; int nl = 0;
    list[nl++] = (devn_t) { DV_NONE, 0, 0 };
    if (k->dtls) { for (int i = 0; i < nu; i++) list[nl++] = (devn_t) { DV_DELETE, i, u[i].type }; goto run; }   /* duplicates, reordering and stray records may legally be ignored by DTLS */
    for (int i = 0; i < nu; i++) { list[nl++] = (devn_t) { DV_DELETE, i, u[i].type }; list[nl++] = (devn_t) { DV_DUP, i, u[i].type }; if (i + 1 < nu) list[nl++] = (devn_t) { DV_SWAP, i, u[i].type }; }
    for (int i = 0; i <= nu; i++) { for (int t = 0; t < 16; t++) { list[nl++] = (devn_t) { DV_INJECT, i, alphabet[t] }; int a2 = alphabet[t]; if (nl < 790 && (vf_thorough || a2 == 4 || a2 == 12 || a2 == 13 || a2 == 22 || a2 == 8)) list[nl++] = (devn_t) { DV_INJECT2, i, a2 }; } if (m->ver != MX_TLS13) list[nl++] = (devn_t) { DV_CCS, i, T_CCS }; }
run:
    for (int j = 0; j < nl; j++) {
        long idx = g_idx++;
        if (!vf_mine(idx)) continue;
        for (int fr = 0; fr < 2; fr++) {
            if (fr && (k->dtls || !(m->ver == MX_TLS13 || vf_thorough || (j % 3) == 0))) continue;     /* fragmented framing: all TLS 1.3 cases, a third of the TLS <= 1.2 ones in quick */
            child_arg a = { k, m, role, flightNo, gstate0, list[j], resumedActually, clientSentCert, ticketNeg, fr };
            snprintf(cur_desc, sizeof cur_desc, "mode=%s/%s role=%d flight=%d dev=%s pos=%d type=%d%s", mx_vername[m->ver], m->name, role, flightNo, dvname[list[j].kind], list[j].pos, list[j].type, fr ? " frag" : "");
            if (vf_case && strcmp(vf_case, cur_desc)) continue;
            if (idx % 503 == 0 && !fr) vf_sample("%s", cur_desc);
            vf_fork_case(child_run, &a, "c06", cur_desc, 60);
        }
    }
    for (int i = 0; i < nu; i++) free(u[i].body);
}

static void collect_pool(mx_conn *k)
{
    /* plaintext handshake messages of both directions (TLS <= 1.2 / DTLS: before CCS; TLS 1.3: ClientHello, ServerHello) */
    for (int d = 0; d < 2; d++) { int off = 0; mx_rec r; int hh = k->dtls ? 12 : 4, ccs = 0;
        while (mx_rec_at(k->wire[d], k->wirelen[d], off, k->dtls, &r)) { const unsigned char *p = k->wire[d] + off + r.hdr;
            if (r.type == 20) ccs = 1;
            if (r.type == 22 && !ccs && !(k->dtls && r.epoch > 0)) { int o = 0; while (o + hh <= r.len && npool < 64) { int l = (p[o + 1] << 16) | (p[o + 2] << 8) | p[o + 3]; if (k->dtls) l = (p[o + 9] << 16) | (p[o + 10] << 8) | p[o + 11]; if (o + hh + l > r.len) break;
                if (!pool_get(p[o])) { pool[npool] = (unit_t) { U_HS, p[o], malloc(hh + l), hh + l, 0, 1 }; memcpy(pool[npool].body, p + o, hh + l); npool++; } o += hh + l; } }
            off += r.hdr + r.len; } }
}

static void run_mode(const hmode_t *m, int role)
{
    mx_cfg cfg = { .ver = m->ver, .suite = m->suite, .clientAuth = m->clientAuth, .useTicket = m->ticket }; sslSessionId_t *sid; matrixSslNewSessionId(&sid, NULL); mx_conn k;
    /* honest run first: message pool + what the mode really negotiated */
    npool = 0; int resumedActually = 0, ticketNeg = 0;
    for (int round = 0; round < (m->resumed ? 2 : 1); round++) { if (mx_conn_open(&k, &cfg, sid) != 0) { vf_incon("open failed"); return; } mx_conn_run(&k, NULL, NULL, 300);
        if (!mx_conn_established(&k)) { vf_incon("honest handshake failed for %s/%s", mx_vername[m->ver], m->name); mx_conn_close(&k); return; }
        if (round == 0 && m->resumed) collect_pool(&k);    /* priming (full) handshake: Certificate, ServerKeyExchange, ... stay available for injection into the resumed one */
        if (round == (m->resumed ? 1 : 0)) { unit_t keep[64]; int nkeep = npool; memcpy(keep, pool, sizeof keep); npool = 0; collect_pool(&k);
            for (int i = 0; i < nkeep; i++) { if (!pool_get(keep[i].type) && npool < 64) pool[npool++] = keep[i]; else free(keep[i].body); } resumedActually = matrixSslIsResumedSession(k.s.ssl) ? 1 : 0; if (m->ver == MX_TLS13) resumedActually = k.s.ssl->sec.tls13UsingPsk ? 1 : 0; ticketNeg = m->ticket; }
        mx_conn_close(&k); }
    if (m->resumed && !resumedActually) vf_incon("mode %s/%s did not resume", mx_vername[m->ver], m->name);
    matrixSslDeleteSessionId(sid); matrixSslNewSessionId(&sid, NULL);
    if (m->resumed) { if (mx_conn_open(&k, &cfg, sid) != 0) return; mx_conn_run(&k, NULL, NULL, 300); mx_conn_close(&k); }
    if (mx_conn_open(&k, &cfg, sid) != 0) return;
    int d = role == MX_SERVER ? 0 : 1, flightNo = 0, gstate = 0;
    for (int i = 0; i < ntr; i++) free(tr[i].body); ntr = 0;
    for (int iter = 0; iter < 40; iter++) {
        mx_conn_collect(&k);
        int pend0 = k.qlen[0] - k.qoff[0], pend1 = k.qlen[1] - k.qoff[1];
        if (!pend0 && !pend1) break;
        /* the flight travelling towards the sender of the attacked direction: part of the transcript both sides share */
        if (!k.dtls && m->ver != MX_TLS13 && (d == 0 ? pend1 : pend0) > 0) { int od = !d; unit_t v[24]; int nv = split_flight(&k, od == 0 ? &k.s : &k.c, od == 0 ? &k.c : &k.s, k.q[od] + k.qoff[od], k.qlen[od] - k.qoff[od], v, 24);
            for (int i = 0; i < nv; i++) { if (v[i].kind == U_HS && v[i].type != 0 && ntr < 64) tr[ntr++] = v[i]; else free(v[i].body); } }
        if ((d == 0 ? pend0 : pend1) > 0) {
            mx_ep *T = role == MX_SERVER ? &k.s : &k.c;
            if (!matrixSslHandshakeIsComplete(T->ssl)) {
                int clientSentCert = m->clientAuth;   /* the honest client presents its certificate when asked */
                at_flight(&k, m, role, flightNo, gstate, resumedActually, clientSentCert, ticketNeg);
                /* advance the reference state over the honest flight */
                unit_t u[24]; mx_ep *P = role == MX_SERVER ? &k.c : &k.s; int nu = split_flight(&k, T, P, k.q[d] + k.qoff[d], k.qlen[d] - k.qoff[d], u, 24);
                gctx_t g = { m, role, resumedActually, clientSentCert, ticketNeg };
                int bad = 0; for (int i = 0; i < nu; i++) { int ns = bad ? -1 : g_next(&g, gstate, u[i].type); if (ns < 0 && !bad) { bad = 1; if (!k.dtls) vf_violation("c06:harness:grammar-rejects-honest-flight", m->name, "reference grammar rejects honest message %s in state %d (%s/%s role %d)", tname(u[i].type), gstate, mx_vername[m->ver], m->name, role); } if (!bad) gstate = ns; if (!k.dtls && m->ver != MX_TLS13 && u[i].kind == U_HS && u[i].type != 0 && ntr < 64) tr[ntr++] = u[i]; else free(u[i].body); }
                flightNo++;
            }
        }
        /* deliver everything pending honestly */
        while (mx_conn_step(&k, pend0 ? 0 : 1) >= 0) { if ((k.qlen[0] - k.qoff[0]) == 0 && (k.qlen[1] - k.qoff[1]) == 0) break; }
    }
    if (vf_shard == 0) { vf_stat("modes", 1); vf_stat("flights_attacked", flightNo); }
    mx_conn_close(&k); matrixSslDeleteSessionId(sid);
    for (int i = 0; i < npool; i++) free(pool[i].body); npool = 0;
}

int main(int argc, char **argv)
{
    vf_init(argc, argv); mx_global_init(); mx_keys_load(); build_modes();
    for (int i = 0; i < nmodes; i++) for (int role = 0; role < 2; role++) { mx_entropy_seed(vf_seed * 977 + i * 2 + role); run_mode(&modes[i], role); }
    mx_keys_free(); matrixSslClose(); vf_flush();
    return 0;
}
