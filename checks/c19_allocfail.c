/* C19 - allocation failure yields a clean error, never a crash or a skipped check.
 *
 * Scenario = load keys and CAs from PEM, create sessions (client with expected name), handshake
 * (full / resumed by session id, TLS 1.2 ticket, TLS 1.3 ticket or PSK / client-auth, RSA and ECDSA
 * identities, per version; stale ticket replaced after a server ticket-key rotation; caller-supplied
 * ClientHello extensions incl. HelloVerifyRequest / HelloRetryRequest; x25519 shares; psk_ke; minted
 * certificates with otherName SANs; a ticket re-used for another server name), data both ways,
 * closure, delete everything (sessions, session id, keys).
 * A counting pass numbers every allocation made inside library API calls (link-time
 * --wrap=malloc,calloc,realloc; the harness's own allocations are exempt).  Then one fork()ed run
 * per injected failure k.  Oracle per run: no sanitizer report / crash / hang (driver), nothing
 * leaked after the objects are deleted (explicit LeakSanitizer check in the child), data that is
 * delivered is intact, and a scenario whose credentials must be refused never reports a completed
 * handshake on the verifying side under any fault. */
#include "mx.h"
#include <sanitizer/lsan_interface.h>
#include <sys/mman.h>

extern int mx_fp_armed; extern long mx_fp_count, mx_fp_failat[4], mx_fp_failed; extern uint64_t *mx_fp_sites; extern long mx_fp_sites_cap;

typedef struct { const char *name; int ver; uint16_t suite; int clientAuth; int rounds; int ticket; int bad; int rotate;
                 int ext;      /* caller-supplied ClientHello extensions: bit 0 = server_name (matrixSslCreateSNIext), bit 1 = an unknown extension type
                                  (TLS <= 1.2 only: the TLS 1.3 client refuses user extensions other than server_name and ALPN), bit 2 = ALPN */
                 int grp;      /* TLS 1.3 key exchange groups: 1 = client offers an x25519 share (server accepts it), 2 = client offers x25519 but the server only
                                  supports secp256r1 -> HelloRetryRequest, second ClientHello (user extensions re-sent, cookie echoed) */
                 int win;      /* failpoint armed only from the moment the client has completed the handshake of round 0 (post-handshake NewSessionTicket
                                  processing, closure, next connection, teardown); quick tier enumerates every ordinal of such a window */
                 int pskke;    /* TLS 1.3 external PSK on both sides; the harness rewrites the first ClientHello on the wire so that it offers psk_ke only
                                  (psk_key_exchange_modes edited, PSK binder recomputed with the library's HKDF) -> the server takes the PSK-only key
                                  schedule; the client's transcript differs, so the handshake must not complete (BAD_TAMPERED) */
                 int pki;      /* 1 = credentials minted for this check (harness/c19pki): CA and leaf carry subjectAltName otherName entries */
} scn_t;
enum { BAD_NONE = 0, BAD_UNTRUSTED_CA, BAD_WRONG_KEY, BAD_WRONG_NAME,
       BAD_RENAMED,   /* round 0 is a good connection; round >= 1 reuses the session id for a DIFFERENT server name and must not complete */
       BAD_TAMPERED };  /* a handshake message was modified in transit: the client must not complete */
static const char *badname[] = { "good", "untrusted-ca", "wrong-key", "wrong-name", "renamed-resume", "tampered-hello" };
static const unsigned char c19_psk13[32] = "c19 external psk for tls 1.3 !!"; static const unsigned char c19_psk13_id[] = "c19-psk-identity";
#define C19_PKI "/verif/harness/c19pki/"   /* minted with openssl (ca.cnf there): RSA-2048 CA + leaf for localhost, valid 2020..2040 */
static const scn_t scns[] = {
    { "tls12-ecdhe-rsa-gcm", MX_TLS12, 0xc02f, 0, 1, 0, BAD_NONE },
    { "tls13-aes128gcm-clientauth", MX_TLS13, 0x1301, 1, 1, 0, BAD_NONE },
    { "tls12-rsa-cbc-resumed-id", MX_TLS12, 0x003c, 0, 2, 0, BAD_NONE },
    { "tls12-ecdhe-ecdsa-ticket", MX_TLS12, 0xc02b, 0, 2, 1, BAD_NONE },
    { "tls13-chacha-resumed-psk", MX_TLS13, 0x1303, 0, 2, 0, BAD_NONE },
    { "tls11-rsa-cbc-clientauth", MX_TLS11, 0x002f, 1, 1, 0, BAD_NONE },
    { "dtls12-ecdhe-rsa-cbc", MX_DTLS12, 0xc027, 0, 1, 0, BAD_NONE },
    { "tls12-ecdhe-rsa-untrusted", MX_TLS12, 0xc02f, 0, 1, 0, BAD_UNTRUSTED_CA },
    { "tls13-untrusted", MX_TLS13, 0x1301, 0, 1, 0, BAD_UNTRUSTED_CA },
    { "tls12-ecdhe-wrong-key", MX_TLS12, 0xc030, 0, 1, 0, BAD_WRONG_KEY },
    { "tls13-wrong-key", MX_TLS13, 0x1302, 0, 1, 0, BAD_WRONG_KEY },
    { "tls12-wrong-name", MX_TLS12, 0x009c, 0, 1, 0, BAD_WRONG_NAME },
    { "tls13-wrong-name", MX_TLS13, 0x1301, 0, 1, 0, BAD_WRONG_NAME },
    { "dtls12-untrusted", MX_DTLS12, 0x003c, 0, 1, 0, BAD_UNTRUSTED_CA },
    /* TLS 1.3 with session-ticket keys loaded: NewSessionTicket is written/parsed, round 2 resumes from the ticket
     * (pre_shared_key + psk_key_exchange_modes written, ticket decrypted and imported) */
    { "tls13-ticket-resumed", MX_TLS13, 0x1301, 0, 2, 1, BAD_NONE },
    { "tls13-ticket-clientauth", MX_TLS13, 0x1302, 1, 2, 1, BAD_NONE },
    /* ECDSA identities on both sides, ticket + client auth (CertificateRequest over a CA list), DTLS client auth resumed */
    { "tls12-ecdsa-clientauth", MX_TLS12, 0xc02c, 1, 1, 0, BAD_NONE },
    { "dtls12-rsa-gcm-clientauth-resumed", MX_DTLS12, 0x009c, 1, 2, 0, BAD_NONE },
    { "tls12-ecdhe-rsa-ticket-clientauth", MX_TLS12, 0xc030, 1, 2, 1, BAD_NONE },
    { "tls11-ecdhe-ecdsa-cbc", MX_TLS11, 0xc009, 0, 1, 0, BAD_NONE },
    { "tls13-chacha-clientauth-untrusted", MX_TLS13, 0x1303, 1, 1, 0, BAD_UNTRUSTED_CA },
    { "tls12-ecdsa-wrong-key", MX_TLS12, 0xc02b, 0, 1, 0, BAD_WRONG_KEY },
    { "dtls12-wrong-name", MX_DTLS12, 0xc02f, 0, 1, 0, BAD_WRONG_NAME },
    /* stale RFC 5077 ticket: round 0 is a fault-free priming connection that leaves ticket T1 in the client's session id; the
     * server's ticket key is then rotated (old key deleted, new one loaded); the fault-injected round 1 presents T1, the server
     * cannot unlock it, does a full handshake and issues a different ticket that REPLACES the stored one; then everything,
     * including the session id, is deleted */
    { "tls12-ticket-rotated-key", MX_TLS12, 0xc02f, 0, 2, 1, BAD_NONE, 1 },
    { "dtls12-ticket-rotated-key", MX_DTLS12, 0x009c, 0, 2, 1, BAD_NONE, 1 },
    /* caller-supplied ClientHello extensions (server_name + an unknown type, or server_name + ALPN in TLS 1.3): copied into the session, written, re-sent after
     * HelloVerifyRequest (DTLS) and HelloRetryRequest (TLS 1.3) */
    { "tls12-userext", MX_TLS12, 0xc02f, 0, 1, 0, BAD_NONE, .ext = 3 },
    { "dtls12-userext", MX_DTLS12, 0xc027, 0, 1, 0, BAD_NONE, .ext = 3 },
    { "tls13-userext", MX_TLS13, 0x1301, 0, 1, 0, BAD_NONE, .ext = 5 },
    { "tls13-userext-hrr", MX_TLS13, 0x1302, 0, 1, 0, BAD_NONE, .ext = 5, .grp = 2 },
    /* x25519 key shares (TLS 1.3), with ticket resumption over x25519 in round 2 */
    { "tls13-x25519-ticket", MX_TLS13, 0x1303, 0, 2, 1, BAD_NONE, .grp = 1 },
    /* certificates whose subjectAltName has otherName entries (CA file, server and client identity) */
    { "tls12-othername-pki-clientauth", MX_TLS12, 0xc030, 1, 1, 0, BAD_NONE, .pki = 1 },
    { "tls13-othername-pki", MX_TLS13, 0x1301, 0, 1, 0, BAD_NONE, .pki = 1 },
    /* TLS 1.3 ticket bound to a server name: round 0 (SNI + expected name "localhost") obtains a ticket, round 1 reuses the session id
     * for "other.example.com" and must never complete (a PSK handshake carries no certificate).  Once with every allocation of the
     * whole scenario as a failure point, once with the failpoint armed only after round 0's handshake (every ordinal in quick) */
    /* PSK-only key exchange (psk_ke) on the server */
    { "tls13-extpsk-psk-ke-only", MX_TLS13, 0x1301, 0, 1, 0, BAD_TAMPERED, .pskke = 1 },
    { "tls13-ticket-sni-renamed", MX_TLS13, 0x1301, 0, 2, 1, BAD_RENAMED, .ext = 1 },
    { "tls13-ticket-sni-renamed-nstwindow", MX_TLS13, 0x1301, 0, 2, 1, BAD_RENAMED, .ext = 1, .win = 1 },
};
#define NSCN ((int) (sizeof scns / sizeof scns[0]))

typedef struct { int completedC, completedS, dataOk, cleanFail, stage, completedC2 /* client completions in rounds >= 1 */; } outcome_t;
static const scn_t *cur; static char curdesc[200];
static void report(const char *clause, const char *fmt, ...)
{
    char key[160], msg[500]; va_list ap; va_start(ap, fmt); vsnprintf(msg, sizeof msg, fmt, ap); va_end(ap);
    snprintf(key, sizeof key, "c19:%s:%s", clause, badname[cur->bad]);
    vf_violation(key, curdesc, "%s | scenario=%s", msg, cur->name);
}

#define LIB(stmt) do { mx_in_lib++; stmt; mx_in_lib--; } while (0)
static int32 cb_strict(ssl_t *ssl, psX509Cert_t *c, int32 alert) { (void) ssl; (void) c; return alert; }

/* what a must-fail scenario must never show on the verifying side */
static int forbidden_completion(const scn_t *s, const outcome_t *o) { return s->bad == BAD_RENAMED ? o->completedC2 : o->completedC; }

static int c19_arm_to;
static void c19_cut(void *ctx, mx_conn *k, int dir) { (void) ctx; (void) dir; if (k->c.hsDone && !mx_fp_armed) mx_fp_armed = c19_arm_to; }

/* rewrite the ClientHello waiting in the client->server queue: psk_key_exchange_modes := psk_ke only, then recompute the binder of the
 * (single, external, SHA-256) PSK so that the server accepts the PSK.  Harness-side crypto runs outside LIB(): never counted or faulted. */
static void c19_force_psk_ke(mx_conn *k)
{
    mx_conn_collect(k); unsigned char *b = k->q[0]; int n = k->qlen[0];
    if (n < 5 + 4 + 34 + 4 || b[0] != 22 || b[5] != 1) return;
    unsigned char *hs = b + 5; int hslen = (hs[1] << 16) | (hs[2] << 8) | hs[3]; if (5 + 4 + hslen > n) return;
    unsigned char *p = hs + 4 + 2 + 32; p += 1 + p[0]; p += 2 + ((p[0] << 8) | p[1]); p += 1 + p[0];
    int el = (p[0] << 8) | p[1]; p += 2; unsigned char *ee = p + el, *binders = NULL; if (ee > hs + 4 + hslen) return;
    while (p + 4 <= ee) { int t = (p[0] << 8) | p[1], l = (p[2] << 8) | p[3]; unsigned char *d = p + 4; if (d + l > ee) return;
        if (t == 45) for (int i = 1; i <= d[0] && i < l; i++) d[i] = 0;                 /* every offered mode becomes psk_ke(0) */
        if (t == 41) binders = d + 2 + ((d[0] << 8) | d[1]);
        p = d + l; }
    if (!binders || binders + 3 + 32 > ee || binders[2] != 32) return;
    unsigned char zero[32] = { 0 }, early[64], bkey[32], fkey[32], hempty[32], htr[32]; psSize_t elen = 0; psSha256_t md;
    psSha256Init(&md); psSha256Final(&md, hempty);
    psSha256Init(&md); psSha256Update(&md, hs, (uint32) (binders - hs)); psSha256Final(&md, htr);
    if (psHkdfExtract(HMAC_SHA256, zero, 32, c19_psk13, 32, early, &elen) < 0) return;
    if (psHkdfExpandLabel(NULL, HMAC_SHA256, early, 32, "ext binder", 10, hempty, 32, 32, bkey) < 0) return;
    if (psHkdfExpandLabel(NULL, HMAC_SHA256, bkey, 32, "finished", 8, NULL, 0, 32, fkey) < 0) return;
    unsigned char hk[64]; psSize_t hkl = 0; psHmacSha256(fkey, 32, htr, 32, binders + 3, hk, &hkl);
}

/* like mx_conn_open, plus caller-supplied hello extensions and key exchange group options */
static int c19_open(mx_conn *k, const mx_cfg *cfg, sslSessionId_t *sid, const scn_t *s, const char *name)
{
    if (!s->ext && !s->grp) return mx_conn_open(k, cfg, sid);
    memset(k, 0, sizeof *k); k->cfg = *cfg; k->dtls = MX_IS_DTLS(cfg->ver);
    sslSessOpts_t so, co; mx_opts(&so, cfg, MX_SERVER); mx_opts(&co, cfg, MX_CLIENT);
    if (s->grp) { uint16_t cg[2] = { namedgroup_x25519, namedgroup_secp256r1 }, sg[1] = { namedgroup_secp256r1 };
        matrixSslSessOptsSetKeyExGroups(&co, cg, 2, 1); if (s->grp == 2) matrixSslSessOptsSetKeyExGroups(&so, sg, 1, 1); }
    int rc; mx_ep *e = &k->s; e->role = MX_SERVER; e->ver = cfg->ver; e->id = 1; e->name = "S";
    mx_actor = 1; LIB(rc = matrixSslNewServerSession(&e->ssl, mx_pick_skeys(cfg), cfg->clientAuth ? (cfg->strictCb ? mx_cert_cb_strict : mx_cert_cb_accept) : NULL, &so));
    if (rc < 0) { e->ssl = NULL; return -1; }
    e = &k->c; e->role = MX_CLIENT; e->ver = cfg->ver; e->id = 0; e->name = "C"; e->sid = sid; mx_actor = 0;
    tlsExtension_t *ext = NULL;
    if (s->ext) {
        LIB(rc = matrixSslNewHelloExtension(&ext, NULL)); if (rc < 0) return -2;
        if (s->ext & 1) { unsigned char *sni = NULL; int32 snilen = 0;
            LIB(rc = matrixSslCreateSNIext(NULL, (unsigned char *) name, (int32) strlen(name), &sni, &snilen));
            if (rc >= 0) { LIB(rc = matrixSslLoadHelloExtension(ext, sni, snilen, EXT_SNI)); free(sni); } }
        if (rc >= 0 && (s->ext & 2)) { unsigned char unk[7] = { 'c', '1', '9', 0, 1, 2, 3 }; LIB(rc = matrixSslLoadHelloExtension(ext, unk, sizeof unk, 0xfc19)); }
        if (rc >= 0 && (s->ext & 4)) { unsigned char alpn[] = { 0, 12, 2, 'h', '2', 8, 'h', 't', 't', 'p', '/', '1', '.', '1' }; LIB(rc = matrixSslLoadHelloExtension(ext, alpn, sizeof alpn, EXT_ALPN)); }
        if (rc < 0) { LIB(matrixSslDeleteHelloExtension(ext)); return -2; }
    }
    psCipher16_t cs[1] = { cfg->suite };
    LIB(rc = matrixSslNewClientSession(&e->ssl, mx_pick_ckeys(cfg), sid, cs, 1, cfg->noCallback ? NULL : (cfg->strictCb ? mx_cert_cb_strict : mx_cert_cb_accept), name, ext, NULL, &co));
    if (ext) LIB(matrixSslDeleteHelloExtension(ext));
    if (rc < 0) { e->ssl = NULL; return -2; }
    e->wantTake = 1;
    return 0;
}

static void scenario(const scn_t *s, outcome_t *o)
{
    sslKeys_t *sk = NULL, *ck = NULL; sslSessionId_t *sid = NULL; int rc = 0;
    const mx_suite_t *su = mx_suite_by_id(s->suite); int ec = su->auth == MX_AUTH_ECDSA;
    const char *cert = ec ? MX_TK "EC/256_EC.pem" : MX_TK "RSA/2048_RSA.pem";
    const char *key = ec ? MX_TK "EC/256_EC_KEY.pem" : MX_TK "RSA/2048_RSA_KEY.pem";
    const char *ca = ec ? MX_TK "EC/256_EC_CA.pem" : MX_TK "RSA/2048_RSA_CA.pem";
    const char *cca = ca;
    if (s->bad == BAD_UNTRUSTED_CA) cca = ec ? MX_TK "RSA/2048_RSA_CA.pem" : MX_TK "EC/256_EC_CA.pem";
    if (s->bad == BAD_WRONG_KEY) key = ec ? MX_TK "EC/384_EC_KEY.pem" : MX_TK "RSA/3072_RSA_KEY.pem";
    if (s->pki) { cert = C19_PKI "leaf.pem"; key = C19_PKI "leaf_key.pem"; ca = cca = C19_PKI "ca.pem"; }
    memset(o, 0, sizeof *o);
    if (s->win) { c19_arm_to = mx_fp_armed; mx_fp_armed = 0; }
    mx_actor = 2;
    LIB(rc = matrixSslNewKeys(&sk, NULL)); if (rc < 0) { sk = NULL; goto out; }
    LIB(rc = matrixSslLoadKeys(sk, cert, key, NULL, s->clientAuth ? ca : NULL, NULL)); if (rc < 0) goto out;
    LIB(rc = matrixSslLoadPsk(sk, mx_psk_key, 16, mx_psk_id, 16)); if (rc < 0) goto out;
    if (s->pskke) { LIB(rc = matrixSslLoadTls13Psk(sk, c19_psk13, 32, c19_psk13_id, sizeof c19_psk13_id - 1, NULL)); if (rc < 0) goto out; }
    if (s->ticket) { unsigned char tn[16] = "ticket-key-name", tk[32], th[32]; memset(tk, 7, 32); memset(th, 9, 32);
        LIB(rc = matrixSslLoadSessionTicketKeys(sk, tn, tk, 32, th, 32)); if (rc < 0) goto out; }
    o->stage = 1;
    LIB(rc = matrixSslNewKeys(&ck, NULL)); if (rc < 0) { ck = NULL; goto out; }
    if (s->clientAuth) LIB(rc = matrixSslLoadKeys(ck, cert, key, NULL, cca, NULL)); else LIB(rc = matrixSslLoadKeys(ck, NULL, NULL, NULL, cca, NULL));
    if (rc < 0) goto out;
    if (s->pskke) { LIB(rc = matrixSslLoadTls13Psk(ck, c19_psk13, 32, c19_psk13_id, sizeof c19_psk13_id - 1, NULL)); if (rc < 0) goto out; }
    LIB(rc = matrixSslNewSessionId(&sid, NULL)); if (rc < 0) { sid = NULL; goto out; }
    o->stage = 2;
    for (int round = 0; round < s->rounds; round++) {
        int armed = mx_fp_armed;
        if (s->rotate && round == 0) mx_fp_armed = 0;    /* priming connection: not counted, never faulted */
        if (s->rotate && round == 1) { unsigned char tn0[16] = "ticket-key-name", tn[16] = "ticket-key-two", tk[32], th[32]; memset(tk, 3, 32); memset(th, 5, 32);
            mx_actor = 2; LIB(rc = matrixSslDeleteSessionTicketKey(sk, tn0)); if (rc < 0) break;
            LIB(rc = matrixSslLoadSessionTicketKeys(sk, tn, tk, 32, th, 32)); if (rc < 0) break; }
        const char *name = s->bad == BAD_WRONG_NAME ? "not-the-name.example" : (s->bad == BAD_RENAMED && round > 0) ? "other.example.com" : "localhost";
        mx_cfg cfg = { .ver = s->ver, .suite = s->suite, .clientAuth = s->clientAuth, .useTicket = s->ticket, .skeys = sk, .ckeys = ck, .noCallback = 1,
                       .expectedName = name };
        if (s->clientAuth) cfg.strictCb = 1;
        mx_conn k; memset(&k, 0, sizeof k);
        int orc = c19_open(&k, &cfg, sid, s, name);
        if (orc == 0) {
            if (s->pskke) c19_force_psk_ke(&k);
            mx_conn_run(&k, (s->win && round == 0) ? c19_cut : NULL, NULL, 300);
            if (k.c.hsDone || matrixSslHandshakeIsComplete(k.c.ssl)) { o->completedC++; if (round > 0) o->completedC2++; }
            if (k.s.hsDone || matrixSslHandshakeIsComplete(k.s.ssl)) o->completedS++;
            if (mx_conn_established(&k)) {
                unsigned char p[20000]; int ok = 1;
                mx_payload(p, 300, 0x0c19, 0, round); if (mx_send(&k.c, p, 300) > 0) { mx_conn_run(&k, NULL, NULL, 50); if (k.s.gotlen && (k.s.gotlen != 300 || memcmp(k.s.got, p, 300))) ok = 0; }
                mx_payload(p, 17000, 0x0c19, 1, round);
                if (!MX_IS_DTLS(s->ver)) { int r1 = mx_send(&k.s, p, 16384), r2 = r1 > 0 ? mx_send(&k.s, p + 16384, 616) : -1; mx_conn_run(&k, NULL, NULL, 50);
                    if (k.c.gotlen && (k.c.gotlen > 17000 || memcmp(k.c.got, p, k.c.gotlen))) ok = 0; (void) r2; }
                if (!ok) report("corrupt-data-delivered", "delivered application data differs from what was sent under an allocation fault");
                else o->dataOk++;
                mx_actor = 0; LIB(matrixSslEncodeClosureAlert(k.c.ssl)); k.c.wantTake = 1; mx_conn_run(&k, NULL, NULL, 20);
                mx_actor = 1; LIB(matrixSslEncodeClosureAlert(k.s.ssl)); k.s.wantTake = 1; mx_conn_run(&k, NULL, NULL, 20);
            }
        }
        mx_conn_close(&k);
        if (s->rotate) mx_fp_armed = armed;
        if (s->win && round == 0 && !mx_fp_armed) mx_fp_armed = c19_arm_to;   /* round 0 never completed on the client: arm for the rest anyway */
        if (orc != 0) break;
    }
    o->stage = 3;
out:
    if (rc < 0) o->cleanFail = 1;
    if (sid) LIB(matrixSslDeleteSessionId(sid));
    if (ck) LIB(matrixSslDeleteKeys(ck));
    if (sk) LIB(matrixSslDeleteKeys(sk));
}

typedef struct { const scn_t *s; long k[4]; int nk; } child_arg;
static void child_run(void *a_)
{
    child_arg *a = a_; outcome_t o;
    cur = a->s;
    for (int i = 0; i < 4; i++) mx_fp_failat[i] = i < a->nk ? a->k[i] : -1;
    mx_fp_count = 0; mx_fp_failed = 0; mx_fp_armed = 1;
    scenario(a->s, &o);
    mx_fp_armed = 0;
    vf_stat("cases", 1);
    if (mx_fp_failed == 0) { vf_stat("fault_not_reached", 1); }
    else {
        vf_stat("faults_injected", mx_fp_failed);
        vf_distinct("%s|%ld|%ld", a->s->name, a->k[0], a->nk > 1 ? a->k[1] : 0);
        if (o.completedC && o.completedS && o.dataOk) vf_stat("outcome_completed_despite_fault", 1);
        else if (o.stage < 2) vf_stat("outcome_clean_failure_in_setup", 1);
        else vf_stat("outcome_clean_handshake_failure", 1);
    }
    if (a->s->bad != BAD_NONE && forbidden_completion(a->s, &o)) report("completed-with-verification-skipped", a->s->bad == BAD_RENAMED ?
        "client reported a completed (PSK) handshake for a server name the resumption state was not established for; no certificate was verified for it (faults at %ld,%ld)" :
        "client reported a completed handshake although the server's credentials must be refused (faults at %ld,%ld)", a->k[0], a->nk > 1 ? a->k[1] : 0);
    MX_ENTER(); matrixSslClose(); MX_LEAVE();
    if (__lsan_do_recoverable_leak_check()) { fflush(NULL); _exit(23); }
}

int main(int argc, char **argv)
{
    vf_init(argc, argv); mx_global_init();
    long only_k = -1; int only_s = -1;
    if (vf_case) { char nm[100]; long k1 = 0, k2 = 0; if (sscanf(vf_case, "scn=%99[^ ] k=%ld,%ld", nm, &k1, &k2) >= 2) { for (int i = 0; i < NSCN; i++) if (!strcmp(scns[i].name, nm)) only_s = i; only_k = k1; } }
    long idx = 0;
    for (int si = 0; si < NSCN; si++) {
        const scn_t *s = &scns[si]; cur = s;
        if (only_s >= 0 && si != only_s) continue;
        /* counting pass (in a child so that process-global state stays pristine): number of allocations and their sites */
        long cap = 400000; uint64_t *sites = mmap(NULL, cap * 8, PROT_READ | PROT_WRITE, MAP_SHARED | MAP_ANONYMOUS, -1, 0); long *shared = mmap(NULL, 64, PROT_READ | PROT_WRITE, MAP_SHARED | MAP_ANONYMOUS, -1, 0);
        pid_t pid = fork();
        if (pid == 0) { outcome_t o; mx_fp_sites = sites; mx_fp_sites_cap = cap; mx_fp_count = 0; for (int i = 0; i < 4; i++) mx_fp_failat[i] = -1; mx_fp_armed = 1; scenario(s, &o); mx_fp_armed = 0; shared[0] = mx_fp_count; shared[1] = o.completedC && o.completedS && o.dataOk; shared[2] = forbidden_completion(s, &o); shared[3] = o.completedC; _exit(0); }
        int st; waitpid(pid, &st, 0);
        long N = shared[0];
        if (!(WIFEXITED(st) && WEXITSTATUS(st) == 0) || N <= 0) { vf_incon("counting pass failed for %s", s->name); continue; }
        if (s->bad == BAD_NONE && !shared[1]) { vf_incon("fault-free run of good scenario %s does not complete", s->name); continue; }
        if (s->bad == BAD_RENAMED && !shared[3]) { vf_incon("fault-free run of %s: the first (good) connection does not complete", s->name); continue; }
        if (s->bad != BAD_NONE && shared[2]) { snprintf(curdesc, sizeof curdesc, "scn=%s k=0", s->name); report("completed-with-verification-skipped", "client completes WITHOUT any fault"); continue; }
        if (vf_shard == 0) { vf_statf(N, "allocs_%s", s->name); vf_stat("scenarios", 1); }
        /* choose the failure points */
        char *pick = calloc(N + 2, 1); long npick = 0;
        if (vf_thorough || s->win) { for (long k = 1; k <= N; k++) pick[k] = 1; }
        else {
            /* first occurrence of every distinct allocation site + seeded extras */
            uint64_t *seen = calloc(65536, 8); long nsites = 0;
            for (long k = 1; k <= N && k < cap; k++) { uint64_t h = sites[k] ? sites[k] : 1; size_t j = (h * 0x9e3779b97f4a7c15ULL) >> 48; while (seen[j] && seen[j] != h) j = (j + 1) & 65535; if (!seen[j]) { seen[j] = h; pick[k] = 1; nsites++; } }
            free(seen);
            if (vf_shard == 0) vf_statf(nsites, "sites_%s", s->name);
            vf_rng g; vf_rng_init(&g, vf_seed, si); for (int i = 0; i < 120; i++) pick[1 + vf_below(&g, (uint32_t) N)] = 1;
        }
        for (long k = 1; k <= N; k++) if (pick[k]) npick++;
        for (long k = 1; k <= N; k++) {
            if (!pick[k]) continue;
            if (only_k >= 0 && k != only_k) continue;
            if (!vf_mine(idx++)) continue;
            child_arg a = { s, { k, -1, -1, -1 }, 1 };
            snprintf(curdesc, sizeof curdesc, "scn=%s k=%ld,0", s->name, k);
            if (k % 997 == 1) vf_sample("%s (of %ld allocations)", curdesc, N);
            vf_fork_case(child_run, &a, "c19", curdesc, 120);
        }
        /* multi-fault: seeded pairs / triples */
        int nmulti = vf_thorough ? 3000 : 60; vf_rng g2; vf_rng_init(&g2, vf_seed * 77 + 5, si);
        for (int i = 0; i < nmulti && only_k < 0; i++) {
            child_arg a = { s, { 1 + vf_below(&g2, (uint32_t) N), 1 + vf_below(&g2, (uint32_t) N), (i & 1) ? 1 + vf_below(&g2, (uint32_t) N) : -1, -1 }, (i & 1) ? 3 : 2 };
            if (!vf_mine(idx++)) continue;
            snprintf(curdesc, sizeof curdesc, "scn=%s k=%ld,%ld", s->name, a.k[0], a.k[1]);
            vf_fork_case(child_run, &a, "c19", curdesc, 120);
        }
        free(pick); munmap(sites, cap * 8); munmap(shared, 64);
    }
    vf_flush();
    return 0;
}
