/* C11 - signatures verify iff valid; public-key results standard; bad keys
 * rejected.  Oracle: by construction (any encoded message EM is turned into a
 * real signature with the test key's private exponent; the verdict must be
 * "accept iff EM is the one correct encoding") plus differential against
 * libcrypto (PSS, ECDSA, Ed25519, ECDH/DH/X25519, RSA encrypt/decrypt).
 * Every input handed to the library lives in an exact-size heap buffer so an
 * over-read on truncated input trips ASan.  Work is split in "units" (one
 * scheme + one key + a batch of cases); a unit runs in a forked child.
 * Replay spec: s<seed>/<unit id>#<case index>. */
#include "vf.h"
#include "crypto/cryptoApi.h"
#include <openssl/bn.h>
#include <openssl/rsa.h>
#include <openssl/evp.h>
#include <openssl/ec.h>
#include <openssl/ecdsa.h>
#include <openssl/ecdh.h>
#include <openssl/dh.h>
#include <openssl/pem.h>
#include <openssl/rand.h>
#include <openssl/err.h>
#include <openssl/obj_mac.h>
#include <openssl/x509.h>

/* ------------------------------------------------------------ globals --- */
static vf_rng R;      /* per-case value generator */
static vf_rng ORNG;   /* feeds libcrypto's RAND (keygen, nonces, salts) */
static vf_rng MRNG;   /* feeds MatrixSSL's psGetEntropy (wrapped) */
static char g_replay[200];
static const char *g_testkeys = "/repo/testkeys";
static BN_CTX *bnctx;
static int g_verbose_case;
static const char *g_variant;

int32 __wrap_psGetEntropy(unsigned char *bytes, uint32 size, void *userPtr)
{
    (void) userPtr;
    vf_fill(&MRNG, bytes, size);
    return (int32) size;
}
static int drb_bytes(unsigned char *buf, int num) { vf_fill(&ORNG, buf, (size_t) num); return 1; }
static int drb_status(void) { return 1; }
static int drb_seed(const void *b, int n) { (void) b; (void) n; return 1; }
static int drb_add(const void *b, int n, double e) { (void) b; (void) n; (void) e; return 1; }
static RAND_METHOD drb_meth = { drb_seed, drb_bytes, NULL, drb_add, drb_bytes, drb_status };

static void seed_all(const char *tag, long idx)
{
    uint64_t h = vf_hash(tag, strlen(tag));
    vf_rng_init(&R, vf_seed ^ h, (uint64_t) idx * 3 + 1);
    vf_rng_init(&ORNG, vf_seed ^ (h * 31 + 7), (uint64_t) idx * 3 + 2);
    vf_rng_init(&MRNG, vf_seed ^ (h * 131 + 11), (uint64_t) idx * 3 + 3);
}

/* exact-size heap copy: a read past the end is an ASan report */
static unsigned char *hb(const void *p, size_t n)
{
    unsigned char *q = malloc(n ? n : 1);
    if (n) memcpy(q, p, n);
    return q;
}
static const char *hx(const unsigned char *p, size_t n)
{
    static char buf[4][200]; static int w;
    char *b = buf[w++ & 3];
    size_t m = n > 40 ? 40 : n;
    vf_hex(b, p, m);
    if (n > m) snprintf(b + 2 * m, 40, "..(%zu bytes)", n);
    return b;
}
static void viol(const char *scheme, const char *cls, const char *fmt, ...)
{
    char key[160], msg[3000];
    va_list ap; va_start(ap, fmt); vsnprintf(msg, sizeof msg, fmt, ap); va_end(ap);
    snprintf(key, sizeof key, "c11:%s:%s", scheme, cls);
    vf_statf(1, "viol_%s_%s", scheme, g_variant ? g_variant : cls);
    vf_violation(key, g_replay, "%s", msg);
}
/* one evaluated case */
static void rec(const char *scheme, const char *keylabel, const char *variant, const char *pos)
{
    vf_stat("cases", 1);
    vf_statf(1, "cases_%s", scheme);
    g_variant = variant;
    vf_distinct("%s|%s|%s|%s", scheme, keylabel, variant, pos ? pos : "");
    if (g_verbose_case) { printf("CASE %s key=%s variant=%s pos=%s\n", scheme, keylabel, variant, pos ? pos : ""); fflush(stdout); }
}
static void verdict_stat(const char *scheme, int accepted) { vf_statf(1, "%s_%s", scheme, accepted ? "accepted" : "rejected"); }

/* ---------------------------------------------------------- hash algs --- */
typedef struct { const char *name; int sigAlg; int hlen; unsigned char oid[12]; int oidlen; int raw; int pssId; int nid; } halg_t;
static const halg_t HALG[] = {
    { "md5",    OID_MD5_RSA_SIG,    16, { 0x2a, 0x86, 0x48, 0x86, 0xf7, 0x0d, 0x02, 0x05 }, 8, 0, PKCS1_MD5_ID, NID_md5 },
    { "sha1",   OID_SHA1_RSA_SIG,   20, { 0x2b, 0x0e, 0x03, 0x02, 0x1a }, 5, 0, PKCS1_SHA1_ID, NID_sha1 },
    { "sha256", OID_SHA256_RSA_SIG, 32, { 0x60, 0x86, 0x48, 0x01, 0x65, 0x03, 0x04, 0x02, 0x01 }, 9, 0, PKCS1_SHA256_ID, NID_sha256 },
    { "sha384", OID_SHA384_RSA_SIG, 48, { 0x60, 0x86, 0x48, 0x01, 0x65, 0x03, 0x04, 0x02, 0x02 }, 9, 0, PKCS1_SHA384_ID, NID_sha384 },
    { "sha512", OID_SHA512_RSA_SIG, 64, { 0x60, 0x86, 0x48, 0x01, 0x65, 0x03, 0x04, 0x02, 0x03 }, 9, 0, PKCS1_SHA512_ID, NID_sha512 },
    { "raw36",  OID_RSA_TLS_SIG_ALG, 36, { 0 }, 0, 1, -1, NID_md5_sha1 },
};
#define NHALG 6
#define H_MD5 0
#define H_SHA1 1
#define H_SHA256 2
#define H_SHA384 3
#define H_SHA512 4
#define H_RAW 5
static const EVP_MD *hmd(const halg_t *H) { return H->raw ? EVP_md5_sha1() : EVP_get_digestbynid(H->nid); }

/* ------------------------------------------------------------ RSA keys --- */
typedef struct {
    int bits; unsigned long e; int gen; const char *file; char label[40];
    int ready, failed;
    RSA *rsa; EVP_PKEY *pkey; const BIGNUM *n, *ebn, *d; int k;
    psPubKey_t pub, priv;
} rsak_t;
#define MAXRSA 256
static rsak_t rsaks[MAXRSA]; static int nrsaks;

static rsak_t *rsa_slot(int bits, unsigned long e, int gen, const char *file)
{
    for (int i = 0; i < nrsaks; i++)
        if (rsaks[i].bits == bits && rsaks[i].e == e && rsaks[i].gen == gen && rsaks[i].file == file) return &rsaks[i];
    if (nrsaks >= MAXRSA) { vf_incon("too many rsa key slots"); vf_flush(); exit(2); }
    rsak_t *K = &rsaks[nrsaks++];
    memset(K, 0, sizeof *K);
    K->bits = bits; K->e = e; K->gen = gen; K->file = file;
    if (file) snprintf(K->label, sizeof K->label, "tk%d", bits);
    else snprintf(K->label, sizeof K->label, "rsa%de%lug%d", bits, e, gen);
    return K;
}
/* generate (deterministically from the seed) or load, and import into MatrixSSL */
static int rsa_ready(rsak_t *K)
{
    if (K->ready) return 1;
    if (K->failed) return 0;
    K->failed = 1;
    if (K->file) {
        char path[512]; snprintf(path, sizeof path, "%s/%s", g_testkeys, K->file);
        FILE *f = fopen(path, "r");
        if (!f) { vf_incon("cannot open %s", path); return 0; }
        EVP_PKEY *pk = PEM_read_PrivateKey(f, NULL, NULL, NULL); fclose(f);
        if (!pk) { vf_incon("cannot parse %s", path); return 0; }
        K->rsa = EVP_PKEY_get1_RSA(pk); EVP_PKEY_free(pk);
        if (!K->rsa) { vf_incon("not an RSA key: %s", path); return 0; }
    } else {
        char tag[64]; snprintf(tag, sizeof tag, "rsakey:%s", K->label);
        seed_all(tag, 0);
        BIGNUM *e = BN_new(); BN_set_word(e, K->e);
        K->rsa = RSA_new();
        if (RSA_generate_key_ex(K->rsa, K->bits, e, NULL) != 1) { vf_incon("RSA keygen failed for %s", K->label); BN_free(e); return 0; }
        BN_free(e);
    }
    RSA_get0_key(K->rsa, &K->n, &K->ebn, &K->d);
    K->k = BN_num_bytes(K->n);
    K->pkey = EVP_PKEY_new(); EVP_PKEY_set1_RSA(K->pkey, K->rsa);
    /* public half: SubjectPublicKeyInfo DER -> psRsaParsePubKeyMem */
    unsigned char *der = NULL; int dl = i2d_RSA_PUBKEY(K->rsa, &der);
    unsigned char *d2 = hb(der, dl);
    psInitPubKey(NULL, &K->pub, PS_RSA);
    int rc = psRsaParsePubKeyMem(NULL, d2, dl, NULL, &K->pub.key.rsa);
    free(d2); OPENSSL_free(der);
    if (rc < 0) { vf_incon("psRsaParsePubKeyMem rc=%d for %s", rc, K->label); return 0; }
    K->pub.keysize = psRsaSize(&K->pub.key.rsa);
    /* private half: PKCS#1 RSAPrivateKey DER */
    der = NULL; dl = i2d_RSAPrivateKey(K->rsa, &der);
    d2 = hb(der, dl);
    psInitPubKey(NULL, &K->priv, PS_RSA);
    rc = psRsaParsePkcs1PrivKey(NULL, d2, dl, &K->priv.key.rsa);
    free(d2); OPENSSL_clear_free(der, dl);
    if (rc < 0) { vf_incon("psRsaParsePkcs1PrivKey rc=%d for %s", rc, K->label); return 0; }
    K->priv.keysize = psRsaSize(&K->priv.key.rsa);
    if (K->pub.keysize != K->k || K->priv.keysize != K->k) { vf_incon("key size mismatch for %s: %d/%d vs %d", K->label, K->pub.keysize, K->priv.keysize, K->k); return 0; }
    K->failed = 0; K->ready = 1;
    return 1;
}
/* s = m^d mod n, k bytes (m is reduced mod n first when needed) */
static int rsa_priv_raw(rsak_t *K, const unsigned char *m, int mlen, unsigned char *out)
{
    BIGNUM *x = BN_bin2bn(m, mlen, NULL);
    int ok;
    if (mlen == K->k && BN_cmp(x, K->n) < 0) {
        ok = RSA_private_encrypt(K->k, m, out, K->rsa, RSA_NO_PADDING) == K->k;
    } else {
        BIGNUM *s = BN_new();
        BN_mod(x, x, K->n, bnctx);
        ok = BN_mod_exp(s, x, K->d, K->n, bnctx) && BN_bn2binpad(s, out, K->k) == K->k;
        BN_free(s);
    }
    BN_free(x);
    return ok;
}
/* c = m^e mod n, k bytes */
static int rsa_pub_raw(rsak_t *K, const unsigned char *m, int mlen, unsigned char *out)
{
    BIGNUM *x = BN_bin2bn(m, mlen, NULL), *c = BN_new();
    int ok = BN_mod_exp(c, x, K->ebn, K->n, bnctx) && BN_bn2binpad(c, out, K->k) == K->k;
    BN_free(x); BN_free(c);
    return ok;
}

/* ------------------------------------------------------------ units ------ */
typedef struct unit {
    char id[100]; const char *scheme;
    void (*fn)(struct unit *, int);
    rsak_t *rk, *rk2; int a, b, c, round; int ncases; int timeout;
} unit_t;
static unit_t *units; static int nunits, capunits;
static unit_t *add_unit(const char *scheme, void (*fn)(unit_t *, int), int ncases, const char *fmt, ...)
{
    if (nunits == capunits) { capunits = capunits ? capunits * 2 : 1024; units = realloc(units, capunits * sizeof *units); }
    unit_t *u = &units[nunits++];
    memset(u, 0, sizeof *u);
    va_list ap; va_start(ap, fmt); vsnprintf(u->id, sizeof u->id, fmt, ap); va_end(ap);
    u->scheme = scheme; u->fn = fn; u->ncases = ncases; u->timeout = 300;
    return u;
}
static int only_ci = -1;
static void run_unit(void *arg)
{
    unit_t *u = arg;
    if (u->rk && !rsa_ready(u->rk)) return;
    if (u->rk2 && !rsa_ready(u->rk2)) return;
    for (int ci = 0; ci < u->ncases; ci++) {
        if (only_ci >= 0 && ci != only_ci) continue;
        snprintf(g_replay, sizeof g_replay, "s%llu/%s#%d", (unsigned long long) vf_seed, u->id, ci);
        seed_all(u->id, ci + 1);
        ERR_clear_error();
        g_variant = NULL;
        u->fn(u, ci);
    }
}

/* ================================================= RSA PKCS#1 v1.5 verify === */
static int tlv(unsigned char *o, int tag, const unsigned char *c, int clen, int lf)
{
    int n = 0;
    o[n++] = (unsigned char) tag;
    if (lf == 0 && clen < 128) o[n++] = (unsigned char) clen;
    else if (lf <= 1 && clen < 256) { o[n++] = 0x81; o[n++] = (unsigned char) clen; }
    else { o[n++] = 0x82; o[n++] = (unsigned char) (clen >> 8); o[n++] = (unsigned char) clen; }
    if (clen) memcpy(o + n, c, clen);
    return n + clen;
}
/* null_mode: 0 NULL, 1 absent, 2 OCTET STRING garbage of pglen bytes, 3 "05 81 00", 4 "05 01 00" */
typedef struct { int seq_lf, alg_lf, oid_lf, oct_lf, null_mode, pglen; } dimod_t;
static int di_build(unsigned char *out, const unsigned char *oid, int oidlen, const unsigned char *dg, int dglen, const dimod_t *m, vf_rng *r)
{
    unsigned char alg[700], body[900], tmp[700];
    int an = tlv(alg, 0x06, oid, oidlen, m->oid_lf);
    switch (m->null_mode) {
    case 0: alg[an++] = 0x05; alg[an++] = 0x00; break;
    case 1: break;
    case 2: vf_fill(r, tmp, m->pglen); an += tlv(alg + an, 0x04, tmp, m->pglen, 0); break;
    case 3: alg[an++] = 0x05; alg[an++] = 0x81; alg[an++] = 0x00; break;
    case 4: alg[an++] = 0x05; alg[an++] = 0x01; alg[an++] = 0x00; break;
    }
    int bn = tlv(body, 0x30, alg, an, m->alg_lf);
    bn += tlv(body + bn, 0x04, dg, dglen, m->oct_lf);
    return tlv(out, 0x30, body, bn, m->seq_lf);
}
/* T for the correct encoding (DigestInfo || digest, or the bare value for TLS<1.2) */
static int t_correct(unsigned char *out, const halg_t *H, const unsigned char *dg, int null_absent)
{
    if (H->raw) { memcpy(out, dg, H->hlen); return H->hlen; }
    dimod_t m; memset(&m, 0, sizeof m); m.null_mode = null_absent ? 1 : 0;
    return di_build(out, H->oid, H->oidlen, dg, H->hlen, &m, NULL);
}
/* 00 bt PS 00 T G ; padmode 0 FF, 1 00, 2 random non-zero, 3 FE; gmode 0 random 1 zero. returns PS length or -1 */
static int em_make(unsigned char *em, int k, int bt, int padmode, const unsigned char *T, int tlen, int glen, int gmode)
{
    int ps = k - 3 - tlen - glen;
    if (ps < 0) return -1;
    em[0] = 0; em[1] = (unsigned char) bt;
    for (int i = 0; i < ps; i++) {
        unsigned char c = 0xff;
        if (padmode == 1) c = 0; else if (padmode == 2) c = (unsigned char) (1 + vf_below(&R, 255)); else if (padmode == 3) c = 0xfe;
        em[2 + i] = c;
    }
    em[2 + ps] = 0;
    memcpy(em + 3 + ps, T, tlen);
    if (glen) { if (gmode == 0) vf_fill(&R, em + 3 + ps + tlen, glen); else memset(em + 3 + ps + tlen, 0, glen); }
    return ps;
}
static void em_correct(unsigned char *em, int k, const halg_t *H, const unsigned char *dg, int null_absent)
{
    unsigned char T[128]; int tl = t_correct(T, H, dg, null_absent);
    em_make(em, k, 1, 0, T, tl, 0, 0);
}

/* the library's verdict; sig and digest in exact-size heap buffers */
static int ms_rsa_verify(rsak_t *K, const halg_t *H, const unsigned char *dg, int dglen, const unsigned char *sig, int siglen, int *prc)
{
    unsigned char *sb = hb(sig, siglen), *db = hb(dg, dglen);
    psVerifyOptions_t o; memset(&o, 0, sizeof o);
    o.msgIsDigestInfo = H->raw ? PS_FALSE : PS_TRUE;
    psBool_t vr = 2;
    psRes_t rc = psVerifySig(NULL, db, dglen, sb, (psSize_t) siglen, &K->pub, H->sigAlg, &vr, &o);
    free(sb); free(db);
    if ((rc == PS_SUCCESS) != (vr == PS_TRUE))
        viol("rsa-pkcs1-verify", "inconsistent-result", "psVerifySig rc=%d but verifyResult=%d (key %s, %s)", rc, vr, K->label, H->name);
    if (prc) *prc = rc;
    return rc == PS_SUCCESS && vr == PS_TRUE;
}
static int ossl_v15_verify(rsak_t *K, const halg_t *H, const unsigned char *dg, int dglen, const unsigned char *sig, int siglen)
{
    EVP_PKEY_CTX *c = EVP_PKEY_CTX_new(K->pkey, NULL);
    int r = 0;
    if (c && EVP_PKEY_verify_init(c) == 1 && EVP_PKEY_CTX_set_rsa_padding(c, RSA_PKCS1_PADDING) == 1 &&
        EVP_PKEY_CTX_set_signature_md(c, hmd(H)) == 1)
        r = EVP_PKEY_verify(c, sig, siglen, dg, dglen) == 1;
    EVP_PKEY_CTX_free(c); ERR_clear_error();
    return r;
}
/* decide one v1.5 case. em==NULL: the signature is malformed at the octet-string level */
static void judge_v15(rsak_t *K, const halg_t *H, const unsigned char *dg, const unsigned char *em,
                      const unsigned char *sig, int siglen, int s_in_range, const char *variant, const char *pos, const char *badcls)
{
    int k = K->k, rc = 0;
    unsigned char *ref = malloc(k), *refnn = malloc(k);
    em_correct(ref, k, H, dg, 0);
    int is_correct = em && siglen == k && s_in_range && memcmp(em, ref, k) == 0;
    int is_lenient = 0;
    if (!H->raw) { em_correct(refnn, k, H, dg, 1); is_lenient = em && siglen == k && s_in_range && memcmp(em, refnn, k) == 0; }
    rec("rsa-pkcs1-verify", K->label, variant, pos);
    int got = ms_rsa_verify(K, H, dg, H->hlen, sig, siglen, &rc);
    verdict_stat("rsa-pkcs1-verify", got);
    if (is_lenient) {
        vf_stat(got ? "lenient_rsa_v15_absent_null_params_accepted" : "strict_rsa_v15_absent_null_params_rejected", 1);
    } else if (got && !is_correct) {
        viol("rsa-pkcs1-verify", badcls, "accepted a signature whose encoded message is not the correct EMSA-PKCS1-v1_5 block: key %s hash %s variant %s pos %s siglen %d (k=%d) EM=%s sig=%s",
             K->label, H->name, variant, pos ? pos : "-", siglen, k, em ? hx(em, k) : "(n/a)", hx(sig, siglen));
    } else if (!got && is_correct) {
        viol("rsa-pkcs1-verify", "rejects-valid", "rejected a valid signature rc=%d: key %s hash %s variant %s digest=%s sig=%s", rc, K->label, H->name, variant, hx(dg, H->hlen), hx(sig, siglen));
    }
    /* oracle self-check against libcrypto (strict: only the NULL-parameter form) */
    if (!is_lenient && vf_below(&R, 4) == 0) {
        int o = ossl_v15_verify(K, H, dg, H->hlen, sig, siglen);
        if (o != is_correct) vf_incon("oracle self-check: construction says %d, libcrypto says %d (key %s hash %s variant %s) %s", is_correct, o, K->label, H->name, variant, g_replay);
    }
    if (vf_nsamples < 2 && (is_correct || got != is_correct))
        vf_sample("rsa-pkcs1-verify key=%s hash=%s variant=%s expected=%d got=%d sig=%s", K->label, H->name, variant, is_correct, got, hx(sig, siglen));
    free(ref); free(refnn);
}
/* sign EM and judge */
static void sign_and_judge(rsak_t *K, const halg_t *H, const unsigned char *dg, const unsigned char *em, const char *variant, const char *pos, const char *badcls)
{
    unsigned char *sig = malloc(K->k);
    if (!rsa_priv_raw(K, em, K->k, sig)) { vf_incon("raw private op failed %s", g_replay); free(sig); return; }
    judge_v15(K, H, dg, em, sig, K->k, 1, variant, pos, badcls);
    free(sig);
}

enum { V_VALID, V_BT, V_LEAD, V_SHIFT, V_ZEROPAD, V_PADBYTE, V_BB06, V_WRONGOID, V_LONGFORM, V_PARAMS, V_DIGLEN, V_DIGWRONG, V_SIGLEN, V_SGEN, V_STRIP, V_ALGMIS, V_WRONGKEY };
static const struct v15v { int v, sub; const char *name, *cls; } V15[] = {
    { V_VALID, 0, "valid", "" }, { V_VALID, 1, "valid-psVerify", "" }, { V_VALID, 2, "valid-signedElement", "" },
    { V_BT, 0, "bt00-ps00", "accepts-bad-block-type" }, { V_BT, 1, "bt00-psFF", "accepts-bad-block-type" },
    { V_BT, 2, "bt02-psFF", "accepts-bad-block-type" }, { V_BT, 3, "bt02-psRand", "accepts-bad-block-type" },
    { V_BT, 4, "bt03", "accepts-bad-block-type" }, { V_BT, 5, "btFF", "accepts-bad-block-type" },
    { V_LEAD, 0, "lead01", "accepts-bad-block-type" },
    { V_SHIFT, 0, "shift-right", "accepts-bad-padding" },
    { V_ZEROPAD, 0, "zero-in-pad-first", "accepts-bad-padding" }, { V_ZEROPAD, 1, "zero-in-pad-mid", "accepts-bad-padding" },
    { V_ZEROPAD, 2, "zero-in-pad-last", "accepts-bad-padding" }, { V_ZEROPAD, 3, "zero-in-pad-rand", "accepts-bad-padding" },
    { V_PADBYTE, 0, "pad-all-FE", "accepts-bad-padding" }, { V_PADBYTE, 1, "pad-one-rand", "accepts-bad-padding" },
    { V_BB06, 0, "bb06-ff0", "accepts-trailing-garbage" }, { V_BB06, 1, "bb06-ff1", "accepts-trailing-garbage" },
    { V_BB06, 2, "bb06-ff7", "accepts-trailing-garbage" }, { V_BB06, 3, "bb06-ff8", "accepts-trailing-garbage" },
    { V_BB06, 4, "bb06-ff9", "accepts-trailing-garbage" }, { V_BB06, 5, "bb06-ffrand", "accepts-trailing-garbage" },
    { V_BB06, 6, "bb06-one-garbage-byte", "accepts-trailing-garbage" }, { V_BB06, 7, "bb06-ff8-zero-garbage", "accepts-trailing-garbage" },
    { V_WRONGOID, 0, "oid-last-byte", "accepts-digestinfo-wrong-oid" }, { V_WRONGOID, 1, "oid-other-alg", "accepts-digestinfo-wrong-oid" }, { V_WRONGOID, 2, "oid-truncated", "accepts-digestinfo-wrong-oid" },
    { V_LONGFORM, 0, "ber-seq-len", "accepts-digestinfo-ber-lengths" }, { V_LONGFORM, 1, "ber-alg-len", "accepts-digestinfo-ber-lengths" }, { V_LONGFORM, 2, "ber-oid-len", "accepts-digestinfo-ber-lengths" },
    { V_LONGFORM, 3, "ber-octet-len", "accepts-digestinfo-ber-lengths" }, { V_LONGFORM, 4, "ber-all-len", "accepts-digestinfo-ber-lengths" }, { V_LONGFORM, 5, "ber-seq-len2", "accepts-digestinfo-ber-lengths" },
    { V_PARAMS, 0, "absent-null", "accepts-bad-digestinfo" }, { V_PARAMS, 1, "drop-null-keep-lengths", "accepts-digestinfo-inconsistent-lengths" },
    { V_PARAMS, 2, "params-octet2", "accepts-digestinfo-extra-params" }, { V_PARAMS, 3, "params-octet8", "accepts-digestinfo-extra-params" }, { V_PARAMS, 4, "params-octet-max", "accepts-digestinfo-extra-params" },
    { V_PARAMS, 5, "null-longform", "accepts-digestinfo-nonstandard-null" }, { V_PARAMS, 6, "null-with-content", "accepts-digestinfo-nonstandard-null" },
    { V_DIGLEN, 0, "digest-short1", "accepts-wrong-digest-length" }, { V_DIGLEN, 1, "digest-long1", "accepts-wrong-digest-length" },
    { V_DIGLEN, 2, "octet-len-plus1", "accepts-wrong-digest-length" }, { V_DIGLEN, 3, "octet-len-minus1", "accepts-wrong-digest-length" },
    { V_DIGWRONG, 0, "digest-random", "accepts-wrong-digest" }, { V_DIGWRONG, 1, "digest-flip-first", "accepts-wrong-digest" }, { V_DIGWRONG, 2, "digest-flip-last", "accepts-wrong-digest" },
    { V_SIGLEN, 0, "sig-drop-last", "accepts-wrong-length-signature" }, { V_SIGLEN, 1, "sig-drop-first", "accepts-wrong-length-signature" },
    { V_SIGLEN, 2, "sig-00-prefix", "accepts-wrong-length-signature" }, { V_SIGLEN, 3, "sig-00-suffix", "accepts-wrong-length-signature" },
    { V_SIGLEN, 4, "sig-empty", "accepts-wrong-length-signature" }, { V_SIGLEN, 5, "sig-1byte", "accepts-wrong-length-signature" },
    { V_SGEN, 0, "s-plus-n", "accepts-s-out-of-range" }, { V_SGEN, 1, "s-plus-n-longer", "accepts-s-out-of-range" },
    { V_STRIP, 0, "strip-leading-zero", "accepts-wrong-length-signature" },
    { V_ALGMIS, 0, "alg-mismatch", "accepts-digestinfo-wrong-oid" },
    { V_WRONGKEY, 0, "wrong-key", "accepts-wrong-key" },
};
#define NV15 ((int) (sizeof V15 / sizeof V15[0]))

static void case_v15(unit_t *u, int ci)
{
    rsak_t *K = u->rk; const halg_t *H = &HALG[u->a];
    const struct v15v *V = &V15[ci];
    int k = K->k, hl = H->hlen;
    unsigned char dg[64], T[1200], *em = malloc(k + 8), *sig = malloc(k + 8);
    vf_fill(&R, dg, hl);
    int tl = t_correct(T, H, dg, 0);
    dimod_t m; memset(&m, 0, sizeof m);
    switch (V->v) {
    case V_VALID:
        em_correct(em, k, H, dg, 0);
        if (V->sub == 0) sign_and_judge(K, H, dg, em, V->name, NULL, V->cls);
        else if (V->sub == 1) {
            /* psVerify: the library hashes the message itself */
            if (H->raw || u->a == H_MD5) break;
            unsigned char msg[300]; unsigned int dl = 0; int ml = 1 + vf_below(&R, 299);
            vf_fill(&R, msg, ml);
            EVP_Digest(msg, ml, dg, &dl, hmd(H), NULL);
            em_correct(em, k, H, dg, 0);
            rsa_priv_raw(K, em, k, sig);
            for (int bad = 0; bad < 2; bad++) {
                unsigned char *sb = hb(sig, k), *mb = hb(msg, ml);
                if (bad) mb[vf_below(&R, ml)] ^= 1 << vf_below(&R, 8);
                psVerifyOptions_t o; memset(&o, 0, sizeof o); o.msgIsDigestInfo = PS_TRUE;
                psBool_t vr = 2;
                psRes_t rc = psVerify(NULL, mb, ml, sb, k, &K->pub, H->sigAlg, &vr, &o);
                int got = rc == PS_SUCCESS && vr == PS_TRUE;
                rec("rsa-pkcs1-verify", K->label, bad ? "psVerify-msg-altered" : V->name, NULL);
                verdict_stat("rsa-pkcs1-verify", got);
                if (got == bad) viol("rsa-pkcs1-verify", bad ? "accepts-wrong-digest" : "rejects-valid", "psVerify rc=%d result=%d for %s message (key %s, %s)", rc, vr, bad ? "an altered" : "the signed", K->label, H->name);
                free(sb); free(mb);
            }
        } else {
            if (H->raw) break;
            rsa_priv_raw(K, em, k, sig);
            unsigned char *sb = hb(sig, k), *ob = malloc(hl);
            int rc = pubRsaDecryptSignedElement(NULL, &K->pub.key.rsa, sb, k, ob, hl, NULL);
            rec("rsa-pkcs1-verify", K->label, V->name, NULL);
            if (u->a == H_MD5) { /* hash-length -> algorithm mapping has no 16-byte entry: either verdict is fine when consistent */
                if (rc >= 0 && memcmp(ob, dg, hl)) viol("rsa-pkcs1-verify", "wrong-digest-output", "pubRsaDecryptSignedElement returned a different digest");
            } else if (rc < 0 || memcmp(ob, dg, hl))
                viol("rsa-pkcs1-verify", "rejects-valid", "pubRsaDecryptSignedElement rc=%d on a valid signature (key %s, %s)", rc, K->label, H->name);
            free(sb); free(ob);
        }
        break;
    case V_BT: {
        static const int bts[] = { 0, 0, 2, 2, 3, 0xff }, pm[] = { 1, 0, 0, 2, 0, 0 };
        em_make(em, k, bts[V->sub], pm[V->sub], T, tl, 0, 0);
        sign_and_judge(K, H, dg, em, V->name, NULL, V->cls);
        break; }
    case V_LEAD:
        em_correct(em, k, H, dg, 0); em[0] = 1;
        sign_and_judge(K, H, dg, em, V->name, NULL, V->cls);
        break;
    case V_SHIFT:
        em[0] = 0; em_make(em + 1, k - 1, 1, 0, T, tl, 0, 0); em[1] = 0; em[2] = 1;
        sign_and_judge(K, H, dg, em, V->name, NULL, V->cls);
        break;
    case V_ZEROPAD: {
        int ps = em_make(em, k, 1, 0, T, tl, 0, 0);
        int at = V->sub == 0 ? 0 : V->sub == 1 ? ps / 2 : V->sub == 2 ? ps - 1 : (int) vf_below(&R, ps);
        em[2 + at] = 0;
        sign_and_judge(K, H, dg, em, V->name, NULL, V->cls);
        break; }
    case V_PADBYTE: {
        int ps = em_make(em, k, 1, V->sub == 0 ? 3 : 0, T, tl, 0, 0);
        if (V->sub == 1) em[2 + vf_below(&R, ps)] = (unsigned char) (1 + vf_below(&R, 254));
        sign_and_judge(K, H, dg, em, V->name, NULL, V->cls);
        break; }
    case V_BB06: {
        int room = k - 3 - tl, nff;
        switch (V->sub) { case 0: nff = 0; break; case 1: nff = 1; break; case 2: nff = 7; break; case 3: case 7: nff = 8; break; case 4: nff = 9; break;
                          case 5: nff = (int) vf_below(&R, room - 1); break; default: nff = room - 1; }
        em_make(em, k, 1, 0, T, tl, room - nff, V->sub == 7);
        sign_and_judge(K, H, dg, em, V->name, NULL, V->cls);
        break; }
    case V_WRONGOID: {
        if (H->raw) break;
        unsigned char oid[12]; int ol = H->oidlen; memcpy(oid, H->oid, ol);
        if (V->sub == 0) oid[ol - 1] ^= (unsigned char) (1 + vf_below(&R, 7));
        else if (V->sub == 1) { const halg_t *O = &HALG[(u->a + 1 + vf_below(&R, 4)) % 5]; ol = O->oidlen; memcpy(oid, O->oid, ol); }
        else ol--;
        tl = di_build(T, oid, ol, dg, hl, &m, &R);
        em_make(em, k, 1, 0, T, tl, 0, 0);
        sign_and_judge(K, H, dg, em, V->name, NULL, V->cls);
        break; }
    case V_LONGFORM:
        if (H->raw) break;
        if (V->sub == 0) m.seq_lf = 1; else if (V->sub == 1) m.alg_lf = 1; else if (V->sub == 2) m.oid_lf = 1; else if (V->sub == 3) m.oct_lf = 1;
        else if (V->sub == 4) m.seq_lf = m.alg_lf = m.oid_lf = m.oct_lf = 1; else m.seq_lf = 2;
        tl = di_build(T, H->oid, H->oidlen, dg, hl, &m, &R);
        em_make(em, k, 1, 0, T, tl, 0, 0);
        sign_and_judge(K, H, dg, em, V->name, NULL, V->cls);
        break;
    case V_PARAMS:
        if (H->raw) break;
        if (V->sub == 1) { /* remove "05 00" but leave every length field as it was */
            int off = 2 + 2 + 2 + H->oidlen;
            memmove(T + off, T + off + 2, tl - off - 2); tl -= 2;
        } else {
            m.null_mode = V->sub == 0 ? 1 : V->sub <= 4 ? 2 : V->sub == 5 ? 3 : 4;
            m.pglen = V->sub == 2 ? 2 : V->sub == 3 ? 8 : k - 3 - 8 - tl - 8;
            tl = di_build(T, H->oid, H->oidlen, dg, hl, &m, &R);
        }
        if (em_make(em, k, 1, 0, T, tl, 0, 0) < 0) break;
        sign_and_judge(K, H, dg, em, V->name, NULL, V->cls);
        break;
    case V_DIGLEN: {
        unsigned char d2[80]; memcpy(d2, dg, hl); d2[hl] = (unsigned char) vf_next(&R);
        if (H->raw) { if (V->sub > 1) break; tl = V->sub == 0 ? hl - 1 : hl + 1; memcpy(T, d2, tl); }
        else if (V->sub == 0) tl = di_build(T, H->oid, H->oidlen, d2, hl - 1, &m, &R);
        else if (V->sub == 1) tl = di_build(T, H->oid, H->oidlen, d2, hl + 1, &m, &R);
        else T[tl - hl - 1] += V->sub == 2 ? 1 : -1;
        em_make(em, k, 1, 0, T, tl, 0, 0);
        sign_and_judge(K, H, dg, em, V->name, NULL, V->cls);
        break; }
    case V_DIGWRONG: {
        unsigned char d2[64]; memcpy(d2, dg, hl);
        if (V->sub == 0) { vf_fill(&R, d2, hl); if (!memcmp(d2, dg, hl)) d2[0] ^= 1; }
        else if (V->sub == 1) d2[0] ^= 0x80; else d2[hl - 1] ^= 1;
        em_correct(em, k, H, d2, 0);
        sign_and_judge(K, H, dg, em, V->name, NULL, V->cls);
        break; }
    case V_SIGLEN: {
        em_correct(em, k, H, dg, 0); rsa_priv_raw(K, em, k, sig + 1); sig[0] = 0; sig[k + 1] = 0;
        const unsigned char *p = sig + 1; int n = k;
        switch (V->sub) { case 0: n = k - 1; break; case 1: p = sig + 2; n = k - 1; break; case 2: p = sig; n = k + 1; break; case 3: n = k + 1; break; case 4: n = 0; break; default: n = 1; }
        judge_v15(K, H, dg, NULL, p, n, 1, V->name, NULL, V->cls);
        break; }
    case V_SGEN: {
        BIGNUM *s = BN_new(); int done = 0;
        for (int t = 0; t < 64 && !done; t++) {
            em_correct(em, k, H, dg, 0); rsa_priv_raw(K, em, k, sig);
            BN_bin2bn(sig, k, s); BN_add(s, s, K->n);
            if (V->sub == 0 && BN_num_bytes(s) <= k) { BN_bn2binpad(s, sig, k); judge_v15(K, H, dg, em, sig, k, 0, V->name, "same-length", V->cls); done = 1; }
            else if (V->sub == 1) { BN_bn2binpad(s, sig, k + 1); judge_v15(K, H, dg, NULL, sig, k + 1, 0, V->name, "longer", V->cls); done = 1; }
            else vf_fill(&R, dg, hl);
        }
        if (!done) { BN_bn2binpad(s, sig, k + 1); judge_v15(K, H, dg, NULL, sig, k + 1, 0, V->name, "longer", V->cls); }
        BN_free(s);
        break; }
    case V_STRIP: {
        if (K->bits > 2048) break;
        int found = 0;
        for (int t = 0; t < 4000 && !found; t++) {
            vf_fill(&R, dg, hl); em_correct(em, k, H, dg, 0); rsa_priv_raw(K, em, k, sig);
            if (sig[0] == 0) found = 1;
        }
        if (!found) { vf_stat("skipped_no_leading_zero_signature", 1); break; }
        judge_v15(K, H, dg, NULL, sig + 1, k - 1, 1, V->name, NULL, V->cls);
        break; }
    case V_ALGMIS: {
        const halg_t *O = &HALG[(u->a + 1 + vf_below(&R, 4)) % 5];
        unsigned char d2[64]; vf_fill(&R, d2, O->hlen); memcpy(d2, dg, O->hlen < hl ? O->hlen : hl);
        em_correct(em, k, O, d2, 0);
        sign_and_judge(K, H, dg, em, V->name, NULL, V->cls);
        break; }
    case V_WRONGKEY: {
        rsak_t *K2 = u->rk2; if (!K2 || K2->k != k) break;
        em_correct(em, k, H, dg, 0);
        rsa_priv_raw(K2, em, k, sig);
        /* what this key recovers is sig^e mod n: practically random */
        unsigned char *em2 = malloc(k); rsa_pub_raw(K, sig, k, em2);
        BIGNUM *s = BN_bin2bn(sig, k, NULL);
        judge_v15(K, H, dg, em2, sig, k, BN_cmp(s, K->n) < 0, V->name, NULL, V->cls);
        BN_free(s); free(em2);
        break; }
    }
    free(em); free(sig);
}

/* every byte of the padded block altered; unit covers positions [b*128, b*128+ncases) */
static const char *v15_posclass(int p, int k, int tl, int hl, int raw)
{
    int ps_end = k - tl - 1; /* index of the 00 separator */
    if (p == 0) return "lead"; if (p == 1) return "block-type";
    if (p < ps_end) return p == 2 ? "pad-first" : p == ps_end - 1 ? "pad-last" : p < 10 ? "pad-first8" : "pad";
    if (p == ps_end) return "separator";
    if (p >= k - hl) return p == k - hl ? "digest-first" : p == k - 1 ? "digest-last" : "digest";
    (void) raw;
    int o = p - ps_end - 1;
    if (o < 2) return "di-seq-hdr"; if (o < 4) return "di-alg-hdr"; if (o < 6) return "di-oid-hdr";
    if (o >= tl - hl - 2) return "di-octet-hdr"; if (o >= tl - hl - 4) return "di-null";
    return "di-oid";
}
static void case_v15_byte(unit_t *u, int ci)
{
    rsak_t *K = u->rk; const halg_t *H = &HALG[u->a];
    int k = K->k, hl = H->hlen, p = u->b * 128 + ci;
    unsigned char dg[64], T[128], *em = malloc(k);
    if (p >= k) { free(em); return; }
    vf_fill(&R, dg, hl);
    int tl = t_correct(T, H, dg, 0);
    em_make(em, k, 1, 0, T, tl, 0, 0);
    int mode = vf_below(&R, 4);
    unsigned char old = em[p];
    if (mode == 0) em[p] ^= (unsigned char) (1 << vf_below(&R, 8));
    else if (mode == 1) em[p] = (unsigned char) (old == 0 ? 0xff : 0);
    else if (mode == 2) em[p] = (unsigned char) (old + 1);
    else { do em[p] = (unsigned char) vf_next(&R); while (em[p] == old); }
    const char *pc = v15_posclass(p, k, tl, hl, H->raw);
    const char *cls = (p < 2) ? "accepts-bad-block-type" : !strncmp(pc, "pad", 3) || !strcmp(pc, "separator") ? "accepts-bad-padding" : !strncmp(pc, "digest", 6) ? "accepts-wrong-digest" : "accepts-bad-digestinfo";
    sign_and_judge(K, H, dg, em, "byte-altered", pc, cls);
    free(em);
}

/* ============================================================ RSASSA-PSS === */
static EVP_PKEY_CTX *pss_ctx(rsak_t *K, const EVP_MD *md, const EVP_MD *mgf, int saltlen, int sign)
{
    EVP_PKEY_CTX *c = EVP_PKEY_CTX_new(K->pkey, NULL);
    if (!c) return NULL;
    if ((sign ? EVP_PKEY_sign_init(c) : EVP_PKEY_verify_init(c)) != 1 ||
        EVP_PKEY_CTX_set_rsa_padding(c, RSA_PKCS1_PSS_PADDING) != 1 ||
        EVP_PKEY_CTX_set_signature_md(c, md) != 1 ||
        EVP_PKEY_CTX_set_rsa_mgf1_md(c, mgf) != 1 ||
        EVP_PKEY_CTX_set_rsa_pss_saltlen(c, saltlen) != 1) { EVP_PKEY_CTX_free(c); ERR_clear_error(); return NULL; }
    return c;
}
static int ossl_pss_verify(rsak_t *K, const EVP_MD *md, int saltlen, const unsigned char *mh, int hl, const unsigned char *sig, int siglen)
{
    EVP_PKEY_CTX *c = pss_ctx(K, md, md, saltlen, 0);
    int r = c && EVP_PKEY_verify(c, sig, siglen, mh, hl) == 1;
    EVP_PKEY_CTX_free(c); ERR_clear_error();
    return r;
}
static int ossl_pss_sign(rsak_t *K, const EVP_MD *md, const EVP_MD *mgf, int saltlen, const unsigned char *mh, int hl, unsigned char *sig)
{
    EVP_PKEY_CTX *c = pss_ctx(K, md, mgf, saltlen, 1);
    size_t sl = K->k;
    int r = c && EVP_PKEY_sign(c, sig, &sl, mh, hl) == 1 && (int) sl == K->k;
    EVP_PKEY_CTX_free(c); ERR_clear_error();
    return r;
}
static int ms_pss_verify(rsak_t *K, const halg_t *H, int saltlen, const unsigned char *mh, int hl, const unsigned char *sig, int siglen, int *prc)
{
    unsigned char *sb = hb(sig, siglen), *mb = hb(mh, hl);
    psVerifyOptions_t o; memset(&o, 0, sizeof o);
    o.useRsaPss = PS_TRUE; o.rsaPssHashAlg = H->pssId; o.rsaPssHashLen = H->hlen; o.rsaPssSaltLen = (psSize_t) saltlen;
    psBool_t vr = 2;
    psRes_t rc = psVerifySig(NULL, mb, hl, sb, (psSize_t) siglen, &K->pub, OID_RSASSA_PSS, &vr, &o);
    free(sb); free(mb);
    if (rc == PS_SUCCESS && vr != PS_TRUE) viol("rsa-pss-verify", "inconsistent-result", "rc=0 but verifyResult=%d", vr);
    if (prc) *prc = rc;
    return rc == PS_SUCCESS && vr == PS_TRUE;
}
/* own EMSA-PSS encoder with tweak points. emBits = modBits-1. returns emLen */
typedef struct { int ps_nonzero_at; int sep; int trailer; int set_top; } psstw_t;
static int pss_encode(unsigned char *em, int modbits, const EVP_MD *md, const unsigned char *mh, int hl, const unsigned char *salt, int sl, const psstw_t *tw)
{
    int embits = modbits - 1, emlen = (embits + 7) / 8, dblen = emlen - hl - 1;
    if (emlen < hl + sl + 2) return -1;
    unsigned char mp[8 + 64 + 600], Hh[64], *db = calloc(1, dblen), *mask = malloc(dblen);
    unsigned int l = 0;
    memset(mp, 0, 8); memcpy(mp + 8, mh, hl); memcpy(mp + 8 + hl, salt, sl);
    EVP_Digest(mp, 8 + hl + sl, Hh, &l, md, NULL);
    db[dblen - sl - 1] = (unsigned char) (tw ? tw->sep : 1);
    memcpy(db + dblen - sl, salt, sl);
    if (tw && tw->ps_nonzero_at >= 0 && dblen - sl - 1 > 0) db[tw->ps_nonzero_at == 0 ? 0 : dblen - sl - 2] |= 0x01;
    PKCS1_MGF1(mask, dblen, Hh, hl, md);
    for (int i = 0; i < dblen; i++) em[i] = db[i] ^ mask[i];
    em[0] &= (unsigned char) (0xff >> (8 * emlen - embits));
    if (tw && tw->set_top) em[0] |= (unsigned char) (0x80 >> ((8 * emlen - embits) - 1 < 0 ? 0 : (8 * emlen - embits) - 1));
    memcpy(em + dblen, Hh, hl);
    em[emlen - 1] = (unsigned char) (tw ? tw->trailer : 0xbc);
    free(db); free(mask);
    return emlen;
}
static void judge_pss(rsak_t *K, const halg_t *H, int vsalt, const unsigned char *mh, const unsigned char *sig, int siglen, const char *variant, const char *pos, const char *badcls)
{
    int rc = 0, odd = (K->bits & 7) != 0;
    int o = ossl_pss_verify(K, hmd(H), vsalt, mh, H->hlen, sig, siglen);
    rec("rsa-pss-verify", K->label, variant, pos);
    int got = ms_pss_verify(K, H, vsalt, mh, H->hlen, sig, siglen, &rc);
    verdict_stat("rsa-pss-verify", got);
    if (siglen < K->k && o) {
        /* RFC 8017 8.1.2 step 1 says a signature shorter than k octets is invalid; libcrypto takes it as an integer. Either verdict is tolerated. */
        vf_stat(got ? "lenient_rsa_pss_short_signature_accepted" : "strict_rsa_pss_short_signature_rejected", 1);
    } else if (got && !o)
        viol("rsa-pss-verify", badcls, "accepted a PSS signature libcrypto rejects: key %s hash %s saltlen %d variant %s pos %s siglen %d (k=%d) sig=%s",
             K->label, H->name, vsalt, variant, pos ? pos : "-", siglen, K->k, hx(sig, siglen));
    else if (!got && o)
        viol("rsa-pss-verify", odd ? "rejects-valid-modulus-bits-not-multiple-of-8" : "rejects-valid", "rejected (rc=%d) a PSS signature libcrypto accepts: key %s (%d-bit) hash %s saltlen %d variant %s mHash=%s sig=%s",
             rc, K->label, K->bits, H->name, vsalt, variant, hx(mh, H->hlen), hx(sig, siglen));
    if (vf_nsamples < 2 && o) vf_sample("rsa-pss-verify key=%s hash=%s salt=%d variant=%s libcrypto=%d got=%d sig=%s", K->label, H->name, vsalt, variant, o, got, hx(sig, siglen));
}
enum { P_VALID, P_OWNENC, P_SALTPARAM, P_EMBYTE, P_TRAILER, P_TOPBIT, P_DBPAD, P_MGF, P_WRONGHASH, P_SIGLEN, P_SGEN, P_WRONGKEY, P_STRIP };
static const struct pssv { int v, sub; const char *name, *cls; } PSSV[] = {
    { P_VALID, 0, "valid-salt0", "" }, { P_VALID, 1, "valid-salt1", "" }, { P_VALID, 2, "valid-salt-hlen", "" }, { P_VALID, 3, "valid-salt-max", "" }, { P_VALID, 4, "valid-salt-rand", "" },
    { P_OWNENC, 0, "valid-own-encoder", "" },
    { P_SALTPARAM, 0, "verify-saltlen-plus1", "accepts-wrong-salt-length" }, { P_SALTPARAM, 1, "verify-saltlen-minus1", "accepts-wrong-salt-length" }, { P_SALTPARAM, 2, "verify-saltlen-0", "accepts-wrong-salt-length" },
    { P_EMBYTE, 0, "em-first", "accepts-bad-encoding" }, { P_EMBYTE, 1, "em-db-mid", "accepts-bad-encoding" }, { P_EMBYTE, 2, "em-db-last", "accepts-bad-encoding" },
    { P_EMBYTE, 3, "em-h-first", "accepts-bad-encoding" }, { P_EMBYTE, 4, "em-h-last", "accepts-bad-encoding" },
    { P_TRAILER, 0, "trailer-bd", "accepts-bad-encoding" }, { P_TRAILER, 1, "trailer-00", "accepts-bad-encoding" },
    { P_TOPBIT, 0, "top-bit-set", "accepts-bad-encoding" },
    { P_DBPAD, 0, "ps-nonzero-first", "accepts-bad-encoding" }, { P_DBPAD, 1, "ps-nonzero-last", "accepts-bad-encoding" }, { P_DBPAD, 2, "separator-02", "accepts-bad-encoding" }, { P_DBPAD, 3, "separator-00", "accepts-bad-encoding" },
    { P_MGF, 0, "other-mgf1-hash", "accepts-bad-encoding" },
    { P_WRONGHASH, 0, "mhash-bit-flipped", "accepts-wrong-hash" },
    { P_SIGLEN, 0, "sig-drop-last", "accepts-wrong-length-signature" }, { P_SIGLEN, 1, "sig-00-prefix", "accepts-wrong-length-signature" },
    { P_SIGLEN, 2, "sig-00-suffix", "accepts-wrong-length-signature" }, { P_SIGLEN, 3, "sig-empty", "accepts-wrong-length-signature" },
    { P_SGEN, 0, "s-plus-n", "accepts-s-out-of-range" },
    { P_WRONGKEY, 0, "wrong-key", "accepts-wrong-key" },
    { P_STRIP, 0, "strip-leading-zero", "accepts-wrong-length-signature" },
};
#define NPSSV ((int) (sizeof PSSV / sizeof PSSV[0]))

/* sign an EM (emLen may be k-1 for odd moduli) */
static int pss_sign_em(rsak_t *K, const unsigned char *em, int emlen, unsigned char *sig)
{
    BIGNUM *x = BN_bin2bn(em, emlen, NULL);
    int ok = BN_cmp(x, K->n) < 0;
    BN_free(x);
    if (!ok) return 0;
    unsigned char *pad = calloc(1, K->k); memcpy(pad + K->k - emlen, em, emlen);
    ok = rsa_priv_raw(K, pad, K->k, sig);
    free(pad);
    return ok;
}
static void case_pss(unit_t *u, int ci)
{
    rsak_t *K = u->rk; const halg_t *H = &HALG[u->a]; const struct pssv *V = &PSSV[ci];
    int k = K->k, hl = H->hlen, emlen = (K->bits - 1 + 7) / 8, maxsalt = emlen - hl - 2;
    if (maxsalt < 0) return;
    unsigned char mh[64], salt[600], *em = malloc(k + 8), *sig = malloc(k + 8);
    vf_fill(&R, mh, hl);
    int defsalt = hl <= maxsalt ? hl : maxsalt;
    psstw_t tw = { -1, 1, 0xbc, 0 };
    switch (V->v) {
    case P_VALID: {
        int sl = V->sub == 0 ? 0 : V->sub == 1 ? 1 : V->sub == 2 ? defsalt : V->sub == 3 ? maxsalt : (int) vf_below(&R, maxsalt + 1);
        if (sl > maxsalt) sl = maxsalt;
        if (!ossl_pss_sign(K, hmd(H), hmd(H), sl, mh, hl, sig)) { vf_incon("libcrypto PSS sign failed %s", g_replay); break; }
        judge_pss(K, H, sl, mh, sig, k, V->name, NULL, "accepts-invalid");
        break; }
    case P_OWNENC: case P_TRAILER: case P_TOPBIT: case P_DBPAD: case P_EMBYTE: {
        int sl = defsalt;
        if (V->v == P_TRAILER) tw.trailer = V->sub ? 0x00 : 0xbd;
        if (V->v == P_TOPBIT) { if ((K->bits & 7) == 1) break; tw.set_top = 1; }
        if (V->v == P_DBPAD) { if (V->sub == 0) tw.ps_nonzero_at = 0; else if (V->sub == 1) tw.ps_nonzero_at = 1; else tw.sep = V->sub == 2 ? 2 : 0; if (V->sub <= 1 && emlen - hl - sl - 2 <= 0) sl = maxsalt > 4 ? maxsalt - 4 : 0; }
        int done = 0;
        for (int t = 0; t < 40 && !done; t++) {
            vf_fill(&R, salt, sl);
            int el = pss_encode(em, K->bits, hmd(H), mh, hl, salt, sl, &tw);
            if (el < 0) break;
            if (V->v == P_EMBYTE) {
                int dblen = el - hl - 1;
                int p = V->sub == 0 ? 0 : V->sub == 1 ? dblen / 2 : V->sub == 2 ? dblen - 1 : V->sub == 3 ? dblen : el - 2;
                em[p] ^= (unsigned char) (V->sub == 0 ? 0x01 : 1 << vf_below(&R, 8));
            }
            if (pss_sign_em(K, em, el, sig)) done = 1; /* else EM >= n: other salt */
        }
        if (!done) { vf_stat("skipped_pss_em_not_below_n", 1); break; }
        judge_pss(K, H, sl, mh, sig, k, V->name, NULL, V->v == P_OWNENC ? "accepts-invalid" : V->cls);
        break; }
    case P_SALTPARAM: {
        int sl = V->sub == 2 ? defsalt : 1 + (int) vf_below(&R, maxsalt > 2 ? maxsalt - 2 : 1);
        if (sl > maxsalt) sl = maxsalt;
        if (!ossl_pss_sign(K, hmd(H), hmd(H), sl, mh, hl, sig)) break;
        int vs = V->sub == 0 ? sl + 1 : V->sub == 1 ? sl - 1 : 0;
        if (vs == sl || vs < 0) break;
        judge_pss(K, H, vs, mh, sig, k, V->name, NULL, V->cls);
        break; }
    case P_MGF: {
        const halg_t *O = &HALG[u->a == H_SHA256 ? H_SHA1 : H_SHA256];
        if (!ossl_pss_sign(K, hmd(H), hmd(O), defsalt, mh, hl, sig)) break;
        judge_pss(K, H, defsalt, mh, sig, k, V->name, NULL, V->cls);
        break; }
    case P_WRONGHASH:
        if (!ossl_pss_sign(K, hmd(H), hmd(H), defsalt, mh, hl, sig)) break;
        mh[vf_below(&R, hl)] ^= (unsigned char) (1 << vf_below(&R, 8));
        judge_pss(K, H, defsalt, mh, sig, k, V->name, NULL, V->cls);
        break;
    case P_SIGLEN: {
        if (!ossl_pss_sign(K, hmd(H), hmd(H), defsalt, mh, hl, sig + 1)) break;
        sig[0] = 0; sig[k + 1] = 0;
        const unsigned char *p = sig + 1; int n = k;
        switch (V->sub) { case 0: n = k - 1; break; case 1: p = sig; n = k + 1; break; case 2: n = k + 1; break; default: n = 0; }
        judge_pss(K, H, defsalt, mh, p, n, V->name, NULL, V->cls);
        break; }
    case P_SGEN: {
        if (!ossl_pss_sign(K, hmd(H), hmd(H), defsalt, mh, hl, sig)) break;
        BIGNUM *s = BN_bin2bn(sig, k, NULL); BN_add(s, s, K->n);
        int n = BN_num_bytes(s) <= k ? k : k + 1;
        BN_bn2binpad(s, sig, n); BN_free(s);
        judge_pss(K, H, defsalt, mh, sig, n, V->name, n == k ? "same-length" : "longer", V->cls);
        break; }
    case P_WRONGKEY: {
        rsak_t *K2 = u->rk2; if (!K2 || K2->k != k) break;
        if (!ossl_pss_sign(K2, hmd(H), hmd(H), defsalt, mh, hl, sig)) break;
        judge_pss(K, H, defsalt, mh, sig, k, V->name, NULL, V->cls);
        break; }
    case P_STRIP: {
        if (K->bits > 2048) break;
        int found = 0;
        for (int t = 0; t < 4000 && !found; t++) { if (!ossl_pss_sign(K, hmd(H), hmd(H), defsalt, mh, hl, sig)) break; if (sig[0] == 0) found = 1; }
        if (!found) { vf_stat("skipped_no_leading_zero_signature", 1); break; }
        judge_pss(K, H, defsalt, mh, sig + 1, k - 1, V->name, NULL, V->cls);
        break; }
    }
    free(em); free(sig);
}
/* every byte of a PSS encoded message altered */
static void case_pss_byte(unit_t *u, int ci)
{
    rsak_t *K = u->rk; const halg_t *H = &HALG[u->a];
    int k = K->k, hl = H->hlen, p = u->b * 128 + ci, emlen = (K->bits - 1 + 7) / 8, maxsalt = emlen - hl - 2;
    if (p >= emlen || maxsalt < 0) return;
    int sl = hl <= maxsalt ? hl : maxsalt;
    unsigned char mh[64], salt[64], *em = malloc(k), *sig = malloc(k);
    vf_fill(&R, mh, hl);
    int done = 0, dblen = emlen - hl - 1;
    for (int t = 0; t < 40 && !done; t++) {
        vf_fill(&R, salt, sl);
        pss_encode(em, K->bits, hmd(H), mh, hl, salt, sl, NULL);
        em[p] ^= (unsigned char) (p == 0 ? 1 << vf_below(&R, 7) : 1 << vf_below(&R, 8));
        if (pss_sign_em(K, em, emlen, sig)) done = 1;
    }
    if (done) judge_pss(K, H, sl, mh, sig, k, "byte-altered", p == 0 ? "first" : p < dblen - sl - 1 ? "masked-ps" : p == dblen - sl - 1 ? "masked-sep" : p < dblen ? "masked-salt" : p < emlen - 1 ? "H" : "trailer", "accepts-bad-encoding");
    free(em); free(sig);
}

/* ================================= RSA encrypt / decrypt (PKCS#1 v1.5 type 2) === */
static const char *ENCV[] = {
    "enc-len1", "enc-len48", "enc-max", "enc-too-long",
    "dec-len1", "dec-len48", "dec-max",
    "bad-lead01", "bad-bt01", "bad-bt00", "bad-bt03", "bad-no-separator", "bad-zero-at-ps-first", "bad-zero-in-ps-mid",
    "bad-ps-len7", "bad-ps-len0", "bad-ps-len1", "bad-outlen-minus1", "bad-outlen-plus1", "bad-c-plus-n", "bad-inlen-short", "ok-ps-len8",
};
#define NENCV ((int) (sizeof ENCV / sizeof ENCV[0]))
static void case_rsaenc(unit_t *u, int ci)
{
    rsak_t *K = u->rk; int k = K->k;
    const char *vn = ENCV[ci];
    unsigned char *msg = malloc(k), *em = malloc(k + 1), *ct = malloc(k + 1), *out = malloc(k + 1);
    if (ci <= 3) { /* MatrixSSL encrypts, libcrypto decrypts */
        int L = ci == 0 ? 1 : ci == 1 ? 48 : ci == 2 ? k - 11 : k - 10;
        vf_fill(&R, msg, L);
        unsigned char *mb = hb(msg, L), *cb = malloc(k);
        int rc = psRsaEncryptPub(NULL, &K->pub.key.rsa, mb, (psSize_t) L, cb, (psSize_t) k, NULL);
        rec("rsa-encrypt", K->label, vn, NULL);
        if (ci == 3) {
            if (rc >= 0) viol("rsa-encrypt", "accepts-too-long-message", "psRsaEncryptPub accepted a %d-byte message for k=%d (padding < 8)", L, k);
        } else if (rc < 0) viol("rsa-encrypt", "spurious-failure", "psRsaEncryptPub rc=%d for %d-byte message, key %s", rc, L, K->label);
        else {
            int n = RSA_private_decrypt(k, cb, out, K->rsa, RSA_PKCS1_PADDING);
            if (n != L || memcmp(out, msg, L)) viol("rsa-encrypt", "ciphertext-not-standard", "libcrypto cannot decrypt psRsaEncryptPub output (n=%d, expected %d) key %s ct=%s", n, L, K->label, hx(cb, k));
            RSA_private_decrypt(k, cb, em, K->rsa, RSA_NO_PADDING);
            int bad = em[0] != 0 || em[1] != 2 || em[k - L - 1] != 0;
            for (int i = 2; i < k - L - 1; i++) if (em[i] == 0) bad = 1;
            if (bad) viol("rsa-encrypt", "bad-padding-produced", "psRsaEncryptPub produced a non-conforming block %s", hx(em, k));
        }
        free(mb); free(cb); ERR_clear_error();
        goto done;
    }
    if (ci <= 6) { /* libcrypto encrypts, MatrixSSL decrypts */
        int L = ci == 4 ? 1 : ci == 5 ? 48 : k - 11;
        vf_fill(&R, msg, L);
        if (RSA_public_encrypt(L, msg, ct, K->rsa, RSA_PKCS1_PADDING) != k) { vf_incon("libcrypto encrypt failed"); goto done; }
        unsigned char *cb = hb(ct, k), *ob = malloc(L);
        int rc = psRsaDecryptPriv(NULL, &K->priv.key.rsa, cb, (psSize_t) k, ob, (psSize_t) L, NULL);
        rec("rsa-decrypt", K->label, vn, NULL);
        if (rc < 0 || memcmp(ob, msg, L)) viol("rsa-decrypt", "rejects-valid", "psRsaDecryptPriv rc=%d on a libcrypto ciphertext (L=%d key %s)", rc, L, K->label);
        free(cb); free(ob);
        goto done;
    }
    { /* constructed blocks */
        int L = 48, ps, expect_ok = 0, outlen, inlen = k;
        const char *cls = "accepts-bad-padding";
        if (ci == 14) L = k - 10; else if (ci == 15) L = k - 3; else if (ci == 16) L = k - 4; else if (ci == 21) L = k - 11;
        ps = k - 3 - L; outlen = L;
        vf_fill(&R, msg, L);
        em[0] = 0; em[1] = 2;
        for (int i = 0; i < ps; i++) em[2 + i] = (unsigned char) (1 + vf_below(&R, 255));
        em[2 + ps] = 0; memcpy(em + 3 + ps, msg, L);
        switch (ci) {
        case 7: em[0] = 1; break;
        case 8: em[1] = 1; memset(em + 2, 0xff, ps); break;
        case 9: em[1] = 0; break;
        case 10: em[1] = 3; break;
        case 11: em[2 + ps] = 0x55; for (int i = 0; i < L; i++) if (!em[3 + ps + i]) em[3 + ps + i] = 1; break;
        case 12: em[2] = 0; break;
        case 13: em[2 + ps / 2] = 0; break;
        case 14: case 15: case 16: cls = "accepts-short-padding"; break;
        case 17: outlen = L - 1; cls = "accepts-wrong-length"; break;
        case 18: outlen = L + 1; cls = "accepts-wrong-length"; break;
        case 19: case 20: break;
        case 21: expect_ok = 1; break;
        }
        rsa_pub_raw(K, em, k, ct);
        if (ci == 19) { BIGNUM *c = BN_bin2bn(ct, k, NULL); BN_add(c, c, K->n); inlen = BN_num_bytes(c) <= k ? k : k + 1; BN_bn2binpad(c, ct, inlen); BN_free(c); cls = "accepts-c-out-of-range"; }
        if (ci == 20) { inlen = k - 1; cls = "accepts-wrong-length"; }
        unsigned char *cb = hb(ct, inlen), *ob = malloc(outlen ? outlen : 1);
        int rc = psRsaDecryptPriv(NULL, &K->priv.key.rsa, cb, (psSize_t) inlen, ob, (psSize_t) outlen, NULL);
        rec("rsa-decrypt", K->label, vn, NULL);
        verdict_stat("rsa-decrypt", rc >= 0);
        if (expect_ok) { if (rc < 0 || memcmp(ob, msg, L)) viol("rsa-decrypt", "rejects-valid", "psRsaDecryptPriv rc=%d on a block with exactly 8 padding bytes", rc); }
        else if (rc >= 0) viol("rsa-decrypt", cls, "psRsaDecryptPriv rc=%d accepted block variant %s (k=%d, message %d bytes, padding %d bytes, outlen %d) EM=%s", rc, vn, k, L, ps, outlen, hx(em, k));
        if (vf_nsamples < 1) vf_sample("rsa-decrypt key=%s variant=%s rc=%d EM=%s", K->label, vn, rc, hx(em, k));
        free(cb); free(ob);
    }
done:
    free(msg); free(em); free(ct); free(out);
}

/* ================================================ RSA signing cross-checks === */
static const char *SIGNV[] = { "v15-sha256", "v15-sha384", "v15-sha1-generic", "v15-tls-md5sha1", "v15-sha512",
                               "pss-sha256-salt32", "pss-sha256-salt0", "pss-sha384-salt48", "pss-sha384-given-salt", "pss-sha512-salt-max", "pss-sha512-salt0" };
#define NSIGNV ((int) (sizeof SIGNV / sizeof SIGNV[0]))
static void case_rsasign(unit_t *u, int ci)
{
    rsak_t *K = u->rk; int k = K->k, odd = (K->bits & 7) != 0;
    unsigned char dg[64], *ref = malloc(k), salt[64];
    unsigned char *out = NULL; psSize_t outlen = 0;
    if (ci <= 4) {
        static const int hid[] = { H_SHA256, H_SHA384, H_SHA1, H_RAW, H_SHA512 };
        const halg_t *H = &HALG[hid[ci]];
        int alg = ci == 2 ? OID_RSA_PKCS15_SIG_ALG : H->sigAlg;
        vf_fill(&R, dg, H->hlen);
        unsigned char *db = hb(dg, H->hlen);
        int rc = psSignHash(NULL, &K->priv, alg, db, (psSize_t) H->hlen, &out, &outlen, NULL);
        rec("rsa-pkcs1-sign", K->label, SIGNV[ci], NULL);
        free(db);
        if (rc < 0) {
            if (ci == 4) vf_stat("unsupported_rsa_pkcs1_sign_sha512", 1);
            else viol("rsa-pkcs1-sign", "spurious-failure", "psSignHash rc=%d for %s with key %s", rc, SIGNV[ci], K->label);
        } else {
            /* deterministic scheme: must be byte-identical to the reference */
            unsigned char *em = malloc(k); em_correct(em, k, H, dg, 0); rsa_priv_raw(K, em, k, ref); free(em);
            if (outlen != k || memcmp(out, ref, k))
                viol("rsa-pkcs1-sign", "signature-not-standard", "psSignHash(%s) output differs from the EMSA-PKCS1-v1_5 signature: key %s got=%s want=%s", SIGNV[ci], K->label, hx(out, outlen), hx(ref, k));
            else if (!ossl_v15_verify(K, H, dg, H->hlen, out, outlen)) vf_incon("libcrypto rejects the reference signature");
            psFree(out, NULL);
        }
    } else {
        const halg_t *H = &HALG[ci <= 6 ? H_SHA256 : ci <= 8 ? H_SHA384 : H_SHA512];
        int emlen = (K->bits - 1 + 7) / 8, maxsalt = emlen - H->hlen - 2;
        int sl = (ci == 6 || ci == 10) ? 0 : ci == 9 ? maxsalt : H->hlen;
        if (maxsalt < 0) goto done;
        if (sl > maxsalt) sl = maxsalt;
        if (ci == 9 && sl > 60) sl = 60 + (int) vf_below(&R, maxsalt - 60 + 1 > 200 ? 200 : maxsalt - 60 + 1);
        vf_fill(&R, dg, H->hlen); vf_fill(&R, salt, sizeof salt);
        psSignOpts_t so; memset(&so, 0, sizeof so);
        so.rsaPssHashAlg = H->pssId; so.rsaPssSaltLen = (psSize_t) sl; so.rsaPssSalt = (ci == 8) ? salt : NULL;
        unsigned char *db = hb(dg, H->hlen);
        int rc = psSignHash(NULL, &K->priv, OID_RSASSA_PSS, db, (psSize_t) H->hlen, &out, &outlen, &so);
        rec("rsa-pss-sign", K->label, SIGNV[ci], NULL);
        free(db);
        if (rc < 0) viol("rsa-pss-sign", odd ? "spurious-failure-modulus-bits-not-multiple-of-8" : "spurious-failure", "psSignHash(PSS) rc=%d %s saltlen %d key %s", rc, SIGNV[ci], sl, K->label);
        else {
            if (!ossl_pss_verify(K, hmd(H), sl, dg, H->hlen, out, outlen))
                viol("rsa-pss-sign", odd ? "signature-not-standard-modulus-bits-not-multiple-of-8" : "signature-not-standard", "libcrypto rejects the PSS signature made by psSignHash: %s saltlen %d key %s (%d bits) mHash=%s sig=%s", SIGNV[ci], sl, K->label, K->bits, hx(dg, H->hlen), hx(out, outlen));
            psFree(out, NULL);
        }
    }
done:
    free(ref);
}

/* ================================================================= ECC === */
typedef struct { const char *name; int nid, iana, size; const char *tkfile; } curve_t;
static const curve_t CURVES[] = {
    { "p192", NID_X9_62_prime192v1, 19, 24, "EC/192_EC_KEY.pem" }, { "p224", NID_secp224r1, 21, 28, "EC/224_EC_KEY.pem" },
    { "p256", NID_X9_62_prime256v1, 23, 32, "EC/256_EC_KEY.pem" }, { "p384", NID_secp384r1, 24, 48, "EC/384_EC_KEY.pem" },
    { "p521", NID_secp521r1, 25, 66, "EC/521_EC_KEY.pem" },
};
#define NCURVES 5
typedef struct {
    const curve_t *C; const psEccCurve_t *mc; EC_KEY *ek; const EC_GROUP *g; BIGNUM *n, *p, *a, *b;
    unsigned char pt[140]; int ptlen;
    psPubKey_t pub, priv; int have_priv;
} eck_t;
/* make (deterministically) or load a key and import both halves into MatrixSSL */
static int eck_make2(eck_t *E, const curve_t *C, const char *tag, int fromfile, EC_KEY *given)
{
    memset(E, 0, sizeof *E); E->C = C;
    if (getEccParamById((psCurve16_t) C->iana, &E->mc) < 0 || !E->mc) { vf_incon("curve %s not available in the library", C->name); return 0; }
    if (given) E->ek = given;
    else if (fromfile) {
        char path[512]; snprintf(path, sizeof path, "%s/%s", g_testkeys, C->tkfile);
        FILE *f = fopen(path, "r"); if (!f) { vf_incon("cannot open %s", path); return 0; }
        E->ek = PEM_read_ECPrivateKey(f, NULL, NULL, NULL); fclose(f);
        if (!E->ek) { vf_incon("cannot parse %s", path); return 0; }
    } else {
        uint64_t keep_r = R.s, keep_m = MRNG.s, keep_o = ORNG.s;
        seed_all(tag, 0);
        E->ek = EC_KEY_new_by_curve_name(C->nid);
        int okg = E->ek && EC_KEY_generate_key(E->ek) == 1;
        R.s = keep_r; MRNG.s = keep_m; ORNG.s = keep_o;
        if (!okg) { vf_incon("EC keygen failed %s", C->name); return 0; }
    }
    E->g = EC_KEY_get0_group(E->ek);
    E->n = BN_new(); E->p = BN_new(); E->a = BN_new(); E->b = BN_new();
    EC_GROUP_get_order(E->g, E->n, bnctx); EC_GROUP_get_curve(E->g, E->p, E->a, E->b, bnctx);
    E->ptlen = (int) EC_POINT_point2oct(E->g, EC_KEY_get0_public_key(E->ek), POINT_CONVERSION_UNCOMPRESSED, E->pt, sizeof E->pt, bnctx);
    unsigned char *pb = hb(E->pt, E->ptlen);
    psInitPubKey(NULL, &E->pub, PS_ECC);
    int rc = psEccX963ImportKey(NULL, pb, (psSize_t) E->ptlen, &E->pub.key.ecc, E->mc);
    free(pb);
    if (rc < 0) { viol("ecc-import", "rejects-valid", "psEccX963ImportKey rc=%d on a valid %s point %s", rc, C->name, hx(E->pt, E->ptlen)); return 0; }
    E->pub.keysize = (psSize_t) C->size;
    unsigned char *der = NULL; int dl = i2d_ECPrivateKey(E->ek, &der);
    unsigned char *db = hb(der, dl);
    psInitPubKey(NULL, &E->priv, PS_ECC);
    rc = psEccParsePrivKey(NULL, db, (psSize_t) dl, &E->priv.key.ecc, NULL);
    free(db); OPENSSL_free(der);
    if (rc < 0) { vf_incon("psEccParsePrivKey rc=%d for %s", rc, C->name); return 0; }
    E->priv.keysize = (psSize_t) C->size; E->have_priv = 1;
    return 1;
}
static int eck_make(eck_t *E, const curve_t *C, const char *tag, int fromfile) { return eck_make2(E, C, tag, fromfile, NULL); }
static void eck_free(eck_t *E)
{
    if (E->ek) EC_KEY_free(E->ek);
    BN_free(E->n); BN_free(E->p); BN_free(E->a); BN_free(E->b);
    if (E->mc) { psClearPubKey(&E->pub); if (E->have_priv) psClearPubKey(&E->priv); }
}
/* per-unit key cache (a unit uses one or two keys for all of its cases) */
static eck_t g_ek[2]; static int g_ek_ok[2]; static char g_ek_tag[2][120];
static eck_t *unit_eckey(unit_t *u, int which, int curve, int fromfile)
{
    char tag[120]; snprintf(tag, sizeof tag, "eckey:%s:%d:%d:%d", CURVES[curve].name, u->round, which, fromfile);
    if (strcmp(tag, g_ek_tag[which])) {
        if (g_ek_tag[which][0]) eck_free(&g_ek[which]);
        snprintf(g_ek_tag[which], sizeof g_ek_tag[which], "%s", tag);
        g_ek_ok[which] = eck_make(&g_ek[which], &CURVES[curve], tag, fromfile);
    }
    return g_ek_ok[which] ? &g_ek[which] : NULL;
}

/* DER INTEGER encodings. mode 0 strict, 1 no sign octet (reads negative when the top bit is set), 2 one extra 00, 3 two extra 00, 4 long-form length */
static int enc_int(unsigned char *o, const BIGNUM *v, int mode)
{
    unsigned char b[200]; int n = BN_num_bytes(v), off = 0;
    if (n == 0) { b[0] = 0; n = 1; } else BN_bn2bin(v, b);
    unsigned char c[210];
    int top = b[0] & 0x80;
    if (mode == 0 || mode == 4) { if (top) c[off++] = 0; }
    else if (mode == 2) { c[off++] = 0; if (top) c[off++] = 0; }
    else if (mode == 3) { c[off++] = 0; c[off++] = 0; if (top) c[off++] = 0; }
    memcpy(c + off, b, n);
    return tlv(o, 0x02, c, off + n, mode == 4 ? 1 : 0);
}
/* seqmode 0 strict, 1 long-form len, 2 length too small by 2, 3 length zero, 4 trailing bytes inside, 5 trailing bytes outside, 6 indefinite */
static int enc_sig(unsigned char *o, const BIGNUM *r, const BIGNUM *s, int rmode, int smode, int seqmode)
{
    unsigned char body[450]; int bn = enc_int(body, r, rmode); bn += enc_int(body + bn, s, smode);
    if (seqmode == 4) { body[bn++] = 0x05; body[bn++] = 0x00; }
    int n;
    if (seqmode == 6) { o[0] = 0x30; o[1] = 0x80; memcpy(o + 2, body, bn); o[2 + bn] = 0; o[3 + bn] = 0; return bn + 4; }
    n = tlv(o, 0x30, body, bn, seqmode == 1 ? 1 : 0);
    { int li = (o[1] & 0x80) ? 2 : 1; if (seqmode == 2) o[li] -= 2; else if (seqmode == 3) o[li] = 0; }
    if (seqmode == 5) { o[n++] = (unsigned char) vf_next(&R); o[n++] = (unsigned char) vf_next(&R); }
    return n;
}
static int ms_ecdsa_verify(eck_t *E, const unsigned char *dg, int dl, const unsigned char *sig, int sl, int direct, int *prc)
{
    unsigned char *sb = hb(sig, sl), *db = hb(dg, dl);
    int got, rc;
    if (direct) {
        int32_t st = 0;
        rc = psEccDsaVerify(NULL, &E->pub.key.ecc, db, (psSize_t) dl, sb, (psSize_t) sl, &st, NULL);
        got = rc >= 0 && st == 1;
    } else {
        psVerifyOptions_t o; memset(&o, 0, sizeof o);
        psBool_t vr = 2;
        rc = psVerifySig(NULL, db, dl, sb, (psSize_t) sl, &E->pub, dl == 48 ? OID_SHA384_ECDSA_SIG : dl == 64 ? OID_SHA512_ECDSA_SIG : OID_SHA256_ECDSA_SIG, &vr, &o);
        got = rc == PS_SUCCESS && vr == PS_TRUE;
        if ((rc == PS_SUCCESS) != (vr == PS_TRUE)) viol("ecdsa-verify", "inconsistent-result", "psVerifySig rc=%d verifyResult=%d", rc, vr);
    }
    free(sb); free(db);
    if (prc) *prc = rc;
    return got;
}
/* mathematical validity of (r,s) for digest under key: own range check, then libcrypto */
static int ecdsa_math_valid(eck_t *E, const BIGNUM *r, const BIGNUM *s, const unsigned char *dg, int dl, const char **why)
{
    if (BN_is_zero(r) || BN_is_negative(r) || BN_cmp(r, E->n) >= 0) { *why = "accepts-r-out-of-range"; return 0; }
    if (BN_is_zero(s) || BN_is_negative(s) || BN_cmp(s, E->n) >= 0) { *why = "accepts-s-out-of-range"; return 0; }
    ECDSA_SIG *sg = ECDSA_SIG_new(); ECDSA_SIG_set0(sg, BN_dup(r), BN_dup(s));
    int ok = ECDSA_do_verify(dg, dl, sg, E->ek) == 1;
    ECDSA_SIG_free(sg); ERR_clear_error();
    *why = "accepts-forged";
    return ok;
}
/* strictness: 0 strict DER (must accept when valid), 1 non-DER (either verdict, recorded), 2 malformed (must reject) */
static void judge_ecdsa(eck_t *E, const BIGNUM *r, const BIGNUM *s, const unsigned char *dg, int dl, const unsigned char *sig, int sl,
                        int strictness, const char *variant, const char *pos, const char *badcls, int direct)
{
    const char *why = "accepts-malformed"; int rc = 0;
    int valid = (r && s) ? ecdsa_math_valid(E, r, s, dg, dl, &why) : 0;
    rec("ecdsa-verify", E->C->name, variant, pos);
    int got = ms_ecdsa_verify(E, dg, dl, sig, sl, direct, &rc);
    verdict_stat("ecdsa-verify", got);
    if (got && (!valid || strictness == 2))
        viol("ecdsa-verify", !valid && badcls ? badcls : why, "accepted an invalid ECDSA signature: curve %s variant %s pos %s hashlen %d hash=%s sig=%s", E->C->name, variant, pos ? pos : "-", dl, hx(dg, dl), hx(sig, sl));
    else if (!got && valid && strictness == 0)
        viol("ecdsa-verify", "rejects-valid", "rejected (rc=%d) a valid strict-DER ECDSA signature: curve %s variant %s hashlen %d hash=%s sig=%s", rc, E->C->name, variant, dl, hx(dg, dl), hx(sig, sl));
    else if (valid && strictness == 1)
        vf_statf(1, "%s_ecdsa_%s_%s", got ? "lenient" : "strict", variant, got ? "accepted" : "rejected");
    if (vf_nsamples < 2 && valid) vf_sample("ecdsa-verify curve=%s variant=%s valid=%d got=%d hash=%s sig=%s", E->C->name, variant, valid, got, hx(dg, dl), hx(sig, sl));
}
static const int HLENS[] = { 20, 28, 32, 48, 64 };
static const char *ECV[] = {
    "valid", "valid-direct", "malleable-n-minus-s",
    "r-zero", "s-zero", "r-eq-n", "s-eq-n", "r-plus-n", "s-plus-n", "r-2pow-bits", "s-2pow-bits", "r-2pow-8size", "r-eq-p", "both-zero", "r-one", "s-one", "r-n-minus-1",
    "r-bitflip", "s-bitflip", "r-top-byte", "s-last-byte", "r-s-swapped",
    "hash-flip-first", "hash-flip-last", "hash-random", "hash-shorter", "hash-longer", "wrong-key",
    "enc-r-unsigned", "enc-s-unsigned", "enc-r-pad1", "enc-s-pad2", "enc-int-longlen", "enc-seq-longlen", "enc-seq-len-small", "enc-seq-len-zero", "enc-trailing-inside", "enc-trailing-outside", "enc-indefinite",
    "bad-r-plus-n-unsigned", "bad-empty-r", "bad-empty-s", "bad-seq-tag", "bad-int-tag", "bad-one-int", "bad-empty", "bad-random-bytes", "bad-r-len-overrun",
};
#define NECV ((int) (sizeof ECV / sizeof ECV[0]))
static void case_ecdsa(unit_t *u, int ci)
{
    eck_t *E = unit_eckey(u, 0, u->a, u->c); if (!E) return;
    int dl = HLENS[u->b], sl = 0, bits = BN_num_bits(E->n);
    unsigned char dg[80], sig[500];
    const char *vn = ECV[ci];
    vf_fill(&R, dg, sizeof dg);
    ECDSA_SIG *sg = ECDSA_do_sign(dg, dl, E->ek);
    if (!sg) { vf_incon("libcrypto ECDSA sign failed"); return; }
    BIGNUM *r = BN_dup(ECDSA_SIG_get0_r(sg)), *s = BN_dup(ECDSA_SIG_get0_s(sg));
    ECDSA_SIG_free(sg);
    int rm = 0, sm = 0, qm = 0, strict = 0;
    const char *cls = NULL;
    if (ci <= 1) { }
    else if (ci == 2) BN_sub(s, E->n, s);
    else if (ci <= 16) {
        switch (ci) {
        case 3: BN_zero(r); break; case 4: BN_zero(s); break; case 5: BN_copy(r, E->n); break; case 6: BN_copy(s, E->n); break;
        case 7: BN_add(r, r, E->n); break; case 8: BN_add(s, s, E->n); break;
        case 9: BN_zero(r); BN_set_bit(r, bits); break; case 10: BN_zero(s); BN_set_bit(s, bits); break;
        case 11: BN_zero(r); BN_set_bit(r, 8 * E->C->size); break; case 12: BN_copy(r, E->p); break;
        case 13: BN_zero(r); BN_zero(s); break; case 14: BN_one(r); break; case 15: BN_one(s); break; case 16: BN_sub(r, E->n, BN_value_one()); break;
        }
    } else if (ci <= 21) {
        if (ci == 17) { int b = vf_below(&R, bits - 1); if (BN_is_bit_set(r, b)) BN_clear_bit(r, b); else BN_set_bit(r, b); }
        else if (ci == 18) { int b = vf_below(&R, bits - 1); if (BN_is_bit_set(s, b)) BN_clear_bit(s, b); else BN_set_bit(s, b); }
        else if (ci == 19) { int b = bits - 2 - vf_below(&R, 6); if (BN_is_bit_set(r, b)) BN_clear_bit(r, b); else BN_set_bit(r, b); }
        else if (ci == 20) { int b = vf_below(&R, 8); if (BN_is_bit_set(s, b)) BN_clear_bit(s, b); else BN_set_bit(s, b); }
        else BN_swap(r, s);
    } else if (ci <= 26) {
        if (ci == 22) dg[0] ^= 0x80; else if (ci == 23) dg[dl - 1] ^= 1; else if (ci == 24) vf_fill(&R, dg, dl); else if (ci == 25) dl -= 1; else dl += 1;
    } else if (ci == 27) {
        eck_t *E2 = unit_eckey(u, 1, u->a, 0); if (!E2) goto out;
        sl = enc_sig(sig, r, s, 0, 0, 0);
        judge_ecdsa(E2, r, s, dg, dl, sig, sl, 0, vn, NULL, "accepts-wrong-key", 0);
        goto out;
    } else if (ci <= 38) {
        strict = 1;
        if (ci == 28 || ci == 29) { /* need the top bit set so that the unsigned reading differs from DER */
            for (int t = 0; t < 64; t++) {
                const BIGNUM *x = ci == 28 ? r : s;
                if (BN_num_bits(x) % 8 == 0) break;
                vf_fill(&R, dg, sizeof dg); sg = ECDSA_do_sign(dg, dl, E->ek);
                BN_copy(r, ECDSA_SIG_get0_r(sg)); BN_copy(s, ECDSA_SIG_get0_s(sg)); ECDSA_SIG_free(sg);
            }
            if (ci == 28) rm = 1; else sm = 1;
        } else if (ci == 30) rm = 2; else if (ci == 31) sm = 3; else if (ci == 32) rm = sm = 4; else qm = ci - 32;
    } else {
        strict = 2;
        if (ci == 39) { BN_add(r, r, E->n); rm = 1; cls = "accepts-r-out-of-range"; }
        else if (ci == 40 || ci == 41) {
            unsigned char body[300]; int bn = 0;
            if (ci == 40) { body[bn++] = 2; body[bn++] = 0; bn += enc_int(body + bn, s, 0); BN_zero(r); }
            else { bn += enc_int(body, r, 0); body[bn++] = 2; body[bn++] = 0; BN_zero(s); }
            sl = tlv(sig, 0x30, body, bn, 0);
            judge_ecdsa(E, r, s, dg, dl, sig, sl, 2, vn, NULL, NULL, 0);
            goto out;
        } else {
            sl = enc_sig(sig, r, s, 0, 0, 0);
            if (ci == 42) sig[0] = 0x31;
            else if (ci == 43) sig[sig[1] & 0x80 ? 3 : 2] = 0x03;
            else if (ci == 44) { unsigned char body[200]; int bn = enc_int(body, r, 0); sl = tlv(sig, 0x30, body, bn, 0); }
            else if (ci == 45) sl = 0;
            else if (ci == 46) { sl = 8 + vf_below(&R, 130); vf_fill(&R, sig, sl); }
            else { int hdr = sig[1] & 0x80 ? 3 : 2; sig[hdr + 1] = (unsigned char) (sl - hdr); /* r length runs past the end */ }
            judge_ecdsa(E, NULL, NULL, dg, dl, sig, sl, 2, vn, NULL, "accepts-malformed", 0);
            goto out;
        }
    }
    sl = enc_sig(sig, r, s, rm, sm, qm);
    judge_ecdsa(E, r, s, dg, dl, sig, sl, strict, vn, NULL, cls, ci == 1);
out:
    BN_free(r); BN_free(s);
}
/* Signatures with a tiny s, constructed at the digest level: pick k and a small s0, r = (kG).x mod n, and
 * solve e = s0*k - r*d mod n, so that (r, s0) is a genuine signature of the "digest" e.  Then (r, s0+n) is below
 * the field prime for these s0 and would pass a range check made against p instead of the group order n;
 * random signatures never have such an s.  ci = 4 * (s0 index) + variant. */
static const char *SMV[] = { "small-s-valid", "small-s-plus-n", "small-s-r-plus-n", "small-s-plus-2n" };
static const char *SMS[] = { "s0=1", "s0=2", "s0=2^16", "s0=2^64", "s0=rand-a", "s0=rand-b", "s0=rand-c" };
#define NSMALLS 28
static void case_ecdsa_smalls(unit_t *u, int ci)
{
    eck_t *E = unit_eckey(u, 0, u->a, 0); if (!E) return;
    int si = ci / 4, var = ci % 4, size = E->C->size;
    /* digest length = curve size; for P-521 (n has 521 bits) 65 octets so that neither side truncates or shifts */
    int dl = (8 * size > BN_num_bits(E->n)) ? size - 1 : size, ok = 0, sl;
    BIGNUM *s0 = BN_new(), *k = BN_new(), *r = BN_new(), *e = BN_new(), *t = BN_new(), *x = BN_new(), *lim = BN_new(), *s = BN_new();
    const BIGNUM *d = EC_KEY_get0_private_key(E->ek);
    EC_POINT *P = EC_POINT_new(E->g);
    unsigned char dg[80], sig[500];
    BN_sub(lim, E->p, E->n);                       /* s0 + n < p  <=>  s0 < p - n */
    BN_zero(t); BN_set_bit(t, 100); if (BN_cmp(t, lim) < 0) BN_copy(lim, t);
    switch (si) {
    case 0: BN_one(s0); break; case 1: BN_set_word(s0, 2); break;
    case 2: BN_zero(s0); BN_set_bit(s0, 16); break; case 3: BN_zero(s0); BN_set_bit(s0, 64); break;
    default: BN_rand_range(s0, lim); if (BN_num_bits(s0) < 2) BN_set_word(s0, 3); break;
    }
    if (BN_cmp(s0, lim) >= 0) vf_incon("small s0 not below p-n on %s", E->C->name);
    for (int tries = 0; tries < 200 && !ok; tries++) {
        BN_rand_range(k, E->n); if (BN_is_zero(k)) continue;
        if (EC_POINT_mul(E->g, P, k, NULL, NULL, bnctx) != 1 || EC_POINT_get_affine_coordinates(E->g, P, x, NULL, bnctx) != 1) continue;
        BN_nnmod(r, x, E->n, bnctx); if (BN_is_zero(r)) continue;
        BN_mod_mul(e, s0, k, E->n, bnctx); BN_mod_mul(t, r, d, E->n, bnctx); BN_mod_sub(e, e, t, E->n, bnctx);
        if (BN_num_bits(e) <= 8 * dl) ok = 1;
    }
    if (!ok) { vf_incon("could not construct a small-s signature on %s", E->C->name); goto out; }
    BN_bn2binpad(e, dg, dl);
    BN_copy(s, s0);
    {   /* construction self-check: (r, s0) must be a real signature of e according to libcrypto */
        const char *why;
        if (!ecdsa_math_valid(E, r, s0, dg, dl, &why)) { vf_incon("constructed small-s signature is not valid per libcrypto (%s, %s) %s", E->C->name, SMS[si], g_replay); goto out; }
    }
    char pos[48]; snprintf(pos, sizeof pos, "%s", SMS[si]);
    if (var == 1) BN_add(s, s0, E->n);
    else if (var == 2) { BN_add(r, r, E->n); snprintf(pos, sizeof pos, "%s,r+n-%s-p", SMS[si], BN_cmp(r, E->p) < 0 ? "below" : "above"); }
    else if (var == 3) { BN_add(s, s0, E->n); BN_add(s, s, E->n); }
    if (var == 1 && BN_cmp(s, E->p) >= 0) vf_incon("s0+n not below the field prime on %s", E->C->name);
    sl = enc_sig(sig, r, s, 0, 0, 0);
    judge_ecdsa(E, r, s, dg, dl, sig, sl, 0, SMV[var], pos, NULL, (ci + u->round) & 1);
out:
    EC_POINT_free(P);
    BN_free(s0); BN_free(k); BN_free(r); BN_free(e); BN_free(t); BN_free(x); BN_free(lim); BN_free(s);
}
/* truncation at every length, then a flipped bit in every byte of r and s */
static void case_ecdsa_sweep(unit_t *u, int ci)
{
    eck_t *E = unit_eckey(u, 0, u->a, 0); if (!E) return;
    int dl = HLENS[2 + (u->a + u->round) % 3], size = E->C->size;
    unsigned char dg[64], sig[200];
    vf_fill(&R, dg, sizeof dg);
    ECDSA_SIG *sg = ECDSA_do_sign(dg, dl, E->ek);
    BIGNUM *r = BN_dup(ECDSA_SIG_get0_r(sg)), *s = BN_dup(ECDSA_SIG_get0_s(sg));
    ECDSA_SIG_free(sg);
    if (ci < 150) {
        int sl = enc_sig(sig, r, s, 0, 0, 0);
        if (ci < sl) {
            const char *pos = ci == 0 ? "empty" : ci < 3 ? "in-seq-header" : ci < sl / 2 ? "in-r" : ci < sl - 1 ? "in-s" : "last-byte-missing";
            judge_ecdsa(E, NULL, NULL, dg, dl, sig, ci, 2, "truncated", pos, "accepts-truncated", ci & 1);
        }
    } else if (ci >= 150 + 2 * size) {
        /* truncated, with the outer SEQUENCE length rewritten to agree with the shortened buffer: only the inner INTEGER
           that claims more content than remains gives the truncation away (its reader must not look behind the buffer) */
        int j = ci - (150 + 2 * size), sl = enc_sig(sig, r, s, 0, 0, 0), hdr = (sig[1] & 0x80) ? 3 : 2;
        if (j >= hdr && j < sl) {
            int rend = hdr + 2 + sig[hdr + 1];
            const char *pos = j < rend ? "in-r" : j == rend ? "s-missing" : j < rend + 2 ? "in-s-header" : j < sl - 1 ? "in-s" : "last-byte-missing";
            sig[hdr - 1] = (unsigned char) (j - hdr);
            judge_ecdsa(E, NULL, NULL, dg, dl, sig, j, 2, "truncated-outer-length-adjusted", pos, "accepts-truncated", ci & 1);
        }
    } else {
        int j = ci - 150;
        if (j < 2 * size) {
            BIGNUM *x = j < size ? r : s; int byte = j % size, bit = 8 * (size - 1 - byte) + (int) vf_below(&R, 8);
            if (BN_is_bit_set(x, bit)) BN_clear_bit(x, bit); else BN_set_bit(x, bit);
            int sl = enc_sig(sig, r, s, 0, 0, 0);
            judge_ecdsa(E, r, s, dg, dl, sig, sl, 0, j < size ? "r-byte-altered" : "s-byte-altered", byte == 0 ? "first" : byte == size - 1 ? "last" : "middle", NULL, 0);
        }
    }
    BN_free(r); BN_free(s);
}

/* ------------------------------------------------------------ ECDSA sign --- */
static void case_ecsign(unit_t *u, int ci)
{
    eck_t *E = unit_eckey(u, 0, u->a, u->c); if (!E) return;
    static const int hl[] = { 32, 48, 64, 20 };
    int dl = hl[ci % 4], inc = (ci / 4) % 2, api = (ci / 8) % 2; /* api 0: psEccDsaSign, 1: psSignHash */
    unsigned char dg[64]; vf_fill(&R, dg, dl);
    unsigned char *db = hb(dg, dl), *sb = NULL; psSize_t sl = 0; int rc;
    char vn[64]; snprintf(vn, sizeof vn, "%s-h%d%s", api ? "psSignHash" : "psEccDsaSign", dl, inc ? "-sizeprefix" : "");
    if (api == 0) {
        sl = 150; sb = malloc(sl);
        rc = psEccDsaSign(NULL, &E->priv.key.ecc, db, (psSize_t) dl, sb, &sl, (uint8_t) inc, NULL);
    } else {
        if (dl == 20) { free(db); return; }
        psSignOpts_t so; memset(&so, 0, sizeof so); if (inc) so.flags |= PS_SIGN_OPTS_ECDSA_INCLUDE_SIZE;
        rc = psSignHash(NULL, &E->priv, dl == 32 ? OID_SHA256_ECDSA_SIG : dl == 48 ? OID_SHA384_ECDSA_SIG : OID_SHA512_ECDSA_SIG, db, (psSize_t) dl, &sb, &sl, &so);
    }
    rec("ecdsa-sign", E->C->name, vn, NULL);
    if (rc < 0) { viol("ecdsa-sign", "spurious-failure", "%s rc=%d on curve %s", vn, rc, E->C->name); goto out; }
    {
        const unsigned char *p = sb; long n = sl;
        if (inc) { if (n < 2 || ((p[0] << 8) | p[1]) != n - 2) { viol("ecdsa-sign", "bad-size-prefix", "size prefix %02x%02x does not match %ld-byte signature", p[0], p[1], n); goto out; } p += 2; n -= 2; }
        const unsigned char *q = p;
        ECDSA_SIG *sg = d2i_ECDSA_SIG(NULL, &q, n);
        unsigned char *re = NULL; int rl = sg ? i2d_ECDSA_SIG(sg, &re) : -1;
        if (!sg || q != p + n || rl != n || memcmp(re, p, n))
            viol("ecdsa-sign", "signature-not-der", "%s produced a signature that is not the DER encoding of (r,s): curve %s sig=%s", vn, E->C->name, hx(p, n));
        else {
            const char *why;
            if (!ecdsa_math_valid(E, ECDSA_SIG_get0_r(sg), ECDSA_SIG_get0_s(sg), dg, dl, &why))
                viol("ecdsa-sign", "signature-invalid", "libcrypto rejects the signature made by %s: curve %s hash=%s sig=%s", vn, E->C->name, hx(dg, dl), hx(p, n));
        }
        if (sg) ECDSA_SIG_free(sg);
        OPENSSL_free(re); ERR_clear_error();
    }
out:
    free(db);
    if (api == 0) free(sb); else if (sb) psFree(sb, NULL);
}

/* ------------------------------------------------------------ point import --- */
/* what the encoding denotes when split the way X9.63 says: tag || X || Y with equal halves */
static int point_class(eck_t *E, const unsigned char *in, int inlen, int *unreduced)
{
    /* returns 1 valid-canonical, 2 valid value in non-canonical length, 0 invalid */
    *unreduced = 0;
    if (inlen < 3 || (inlen & 1) == 0 || in[0] != 4) return 0;
    int cl = (inlen - 1) / 2, ok;
    BIGNUM *x = BN_bin2bn(in + 1, cl, NULL), *y = BN_bin2bn(in + 1 + cl, cl, NULL), *l = BN_new(), *rr = BN_new();
    BN_mod_sqr(l, y, E->p, bnctx);
    BN_mod_sqr(rr, x, E->p, bnctx); BN_mod_mul(rr, rr, x, E->p, bnctx);
    BIGNUM *ax = BN_new(); BN_mod_mul(ax, E->a, x, E->p, bnctx); BN_mod_add(rr, rr, ax, E->p, bnctx); BN_mod_add(rr, rr, E->b, E->p, bnctx);
    ok = BN_cmp(l, rr) == 0;
    if (ok && (BN_cmp(x, E->p) >= 0 || BN_cmp(y, E->p) >= 0)) { *unreduced = 1; ok = 0; }
    BN_free(x); BN_free(y); BN_free(l); BN_free(rr); BN_free(ax);
    if (!ok) return 0;
    return inlen == 2 * E->C->size + 1 ? 1 : 2;
}
static void judge_import(eck_t *E, const unsigned char *in, int inlen, const char *variant, const char *pos, const char *badcls)
{
    int unred = 0, cls = point_class(E, in, inlen, &unred);
    unsigned char *ib = hb(in, inlen);
    psEccKey_t key; memset(&key, 0, sizeof key);
    int rc = psEccX963ImportKey(NULL, ib, (psSize_t) inlen, &key, E->mc);
    free(ib);
    rec("ecc-import", E->C->name, variant, pos);
    verdict_stat("ecc-import", rc >= 0);
    if (rc >= 0 && cls == 0 && unred) {
        /* congruent to a curve point but a coordinate is >= p: acceptable only if it is then used as the reduced point */
        unsigned char s1[70], s2[70]; psSize_t l1 = sizeof s1; size_t fl = E->C->size;
        int r1 = psEccGenSharedSecret(NULL, &E->priv.key.ecc, &key, s1, &l1, NULL);
        int cl = (inlen - 1) / 2;
        BIGNUM *x = BN_bin2bn(in + 1, cl, NULL), *y = BN_bin2bn(in + 1 + cl, cl, NULL);
        BN_mod(x, x, E->p, bnctx); BN_mod(y, y, E->p, bnctx);
        EC_POINT *P = EC_POINT_new(E->g);
        int ok = EC_POINT_set_affine_coordinates(E->g, P, x, y, bnctx) == 1 && ECDH_compute_key(s2, fl, P, E->ek, NULL) == (int) fl;
        if (r1 < 0) vf_stat("lenient_ecc_import_unreduced_coordinate_refused_at_use", 1);
        else if (ok && l1 == fl && !memcmp(s1, s2, fl)) vf_stat("lenient_ecc_import_unreduced_coordinate_accepted", 1);
        else viol("ecc-import", "accepts-unreduced-coordinate", "a point with a coordinate >= p was imported and ECDH with it does not equal ECDH with the reduced point: curve %s in=%s", E->C->name, hx(in, inlen));
        EC_POINT_free(P); BN_free(x); BN_free(y); ERR_clear_error();
    } else if (rc >= 0 && cls == 0)
        viol("ecc-import", badcls, "psEccX963ImportKey accepted an invalid public value: curve %s variant %s pos %s len %d in=%s", E->C->name, variant, pos ? pos : "-", inlen, hx(in, inlen));
    else if (rc < 0 && cls == 1)
        viol("ecc-import", "rejects-valid", "psEccX963ImportKey rc=%d on a valid point: curve %s variant %s in=%s", rc, E->C->name, variant, hx(in, inlen));
    else if (cls == 2)
        vf_stat(rc >= 0 ? "lenient_ecc_import_noncanonical_length_accepted" : "strict_ecc_import_noncanonical_length_rejected", 1);
    if (rc >= 0) psEccClearKey(&key);
    if (vf_nsamples < 1) vf_sample("ecc-import curve=%s variant=%s class=%d rc=%d in=%s", E->C->name, variant, cls, rc, hx(in, inlen));
}
static int other_curve_point(int nid, unsigned char *out, int cap)
{
    EC_KEY *k = EC_KEY_new_by_curve_name(nid);
    if (!k || EC_KEY_generate_key(k) != 1) { if (k) EC_KEY_free(k); ERR_clear_error(); return 0; }
    int n = (int) EC_POINT_point2oct(EC_KEY_get0_group(k), EC_KEY_get0_public_key(k), POINT_CONVERSION_UNCOMPRESSED, out, cap, bnctx);
    EC_KEY_free(k);
    return n;
}
static const char *IMPV[] = {
    "valid", "valid-negated-y", "infinity-1byte", "infinity-padded", "zero-zero", "tag00-valid-coords", "truncated-1", "truncated-2", "extended-1", "padded-coords",
    "len-49", "compressed-02", "compressed-03", "tag02-full", "tag03-full", "hybrid-06", "hybrid-07", "tag05", "tagFF", "tag01",
    "other-curve-same-size-k", "other-curve-same-size-brainpool", "other-curve-smaller", "other-curve-larger", "x-plus-p-same-len", "x-plus-p-extended", "y-plus-p-extended", "x-eq-p", "y-zero", "random-coords",
    "swapped-xy", "x-only-shifted",
};
#define NIMPV ((int) (sizeof IMPV / sizeof IMPV[0]))
static void case_import(unit_t *u, int ci)
{
    eck_t *E = unit_eckey(u, 0, u->a, 0); if (!E) return;
    int sz = E->C->size, len = E->ptlen, n = len;
    unsigned char b[300]; memset(b, 0, sizeof b); memcpy(b, E->pt, len);
    const char *vn = IMPV[ci], *cls = "accepts-off-curve";
    BIGNUM *x = BN_bin2bn(E->pt + 1, sz, NULL), *y = BN_bin2bn(E->pt + 1 + sz, sz, NULL);
    switch (ci) {
    case 0: break;
    case 1: BN_sub(y, E->p, y); BN_bn2binpad(y, b + 1 + sz, sz); break;
    case 2: b[0] = 0; n = 1; cls = "accepts-infinity"; break;
    case 3: memset(b, 0, len); cls = "accepts-infinity"; break;
    case 4: memset(b + 1, 0, len - 1); break;
    case 5: b[0] = 0; cls = "accepts-infinity"; break;
    case 6: n = len - 1; cls = "accepts-wrong-length"; break;
    case 7: n = len - 2; cls = "accepts-wrong-length"; break;
    case 8: n = len + 1; b[len] = 0; cls = "accepts-wrong-length"; break;
    case 9: b[1] = 0; memcpy(b + 2, E->pt + 1, sz); b[2 + sz] = 0; memcpy(b + 3 + sz, E->pt + 1 + sz, sz); n = len + 2; break;
    case 10: n = 49; if (len == 49) { b[10] ^= 4; } cls = "accepts-wrong-length"; break;
    case 11: case 12: b[0] = (unsigned char) (ci == 11 ? 2 : 3); n = sz + 1; cls = "accepts-compressed"; break;
    case 13: case 14: b[0] = (unsigned char) (ci == 13 ? 2 : 3); cls = "accepts-compressed"; break;
    case 15: case 16: b[0] = (unsigned char) (ci == 15 ? 6 : 7); cls = "accepts-compressed"; break;
    case 17: b[0] = 5; cls = "accepts-bad-tag"; break; case 18: b[0] = 0xff; cls = "accepts-bad-tag"; break; case 19: b[0] = 1; cls = "accepts-bad-tag"; break;
    case 20: { static const int kn[] = { NID_secp192k1, NID_secp224k1, NID_secp256k1, 0, 0 }; if (!kn[u->a] || !(n = other_curve_point(kn[u->a], b, sizeof b))) goto out; if (n != len) goto out; cls = "accepts-other-curve-point"; break; }
    case 21: { static const int kn[] = { NID_brainpoolP192r1, NID_brainpoolP224r1, NID_brainpoolP256r1, NID_brainpoolP384r1, 0 }; if (!kn[u->a] || !(n = other_curve_point(kn[u->a], b, sizeof b))) goto out; cls = "accepts-other-curve-point"; break; }
    case 22: if (u->a == 0) goto out; n = other_curve_point(CURVES[u->a - 1].nid, b, sizeof b); if (n < 49) goto out; cls = "accepts-other-curve-point"; break;
    case 23: if (u->a == NCURVES - 1) goto out; n = other_curve_point(CURVES[u->a + 1].nid, b, sizeof b); cls = "accepts-other-curve-point"; break;
    case 24: BN_add(x, x, E->p); if (BN_num_bytes(x) > sz) goto out; BN_bn2binpad(x, b + 1, sz); cls = "accepts-unreduced-coordinate"; break;
    case 25: BN_add(x, x, E->p); BN_bn2binpad(x, b + 1, sz + 1); BN_bn2binpad(y, b + 2 + sz, sz + 1); n = len + 2; cls = "accepts-unreduced-coordinate"; break;
    case 26: BN_add(y, y, E->p); BN_bn2binpad(x, b + 1, sz + 1); BN_bn2binpad(y, b + 2 + sz, sz + 1); n = len + 2; cls = "accepts-unreduced-coordinate"; break;
    case 27: BN_bn2binpad(E->p, b + 1, sz); break;
    case 28: memset(b + 1 + sz, 0, sz); break;
    case 29: vf_fill(&R, b + 1, 2 * sz); if (u->a == 4) { b[1] &= 1; b[1 + sz] &= 1; } break;
    case 30: memcpy(b + 1, E->pt + 1 + sz, sz); memcpy(b + 1 + sz, E->pt + 1, sz); break;
    case 31: memmove(b + 2, b + 1, 2 * sz - 1); b[1] = 0; break;
    }
    judge_import(E, b, n, vn, NULL, cls);
out:
    BN_free(x); BN_free(y);
}
/* one bit flipped in every byte position (8 cases per byte); unit covers 256 bit positions */
static void case_import_bits(unit_t *u, int ci)
{
    eck_t *E = unit_eckey(u, 0, u->a, 0); if (!E) return;
    int sz = E->C->size, idx = u->b * 256 + ci, byte = idx / 8, bit = idx % 8;
    if (byte >= 2 * sz) return;
    unsigned char b[140]; memcpy(b, E->pt, E->ptlen);
    b[1 + byte] ^= (unsigned char) (1 << bit);
    char pos[32]; snprintf(pos, sizeof pos, "%s-%s-bit%d", byte < sz ? "x" : "y", (byte % sz) == 0 ? "first" : (byte % sz) == sz - 1 ? "last" : "mid", bit);
    judge_import(E, b, E->ptlen, "bit-flipped", pos, "accepts-off-curve");
}

/* ------------------------------------------------------------------ ECDH --- */
static void case_ecdh(unit_t *u, int ci)
{
    eck_t *A = unit_eckey(u, 0, u->a, 0), *B; if (!A) return;
    eck_t Bk; char tag[64]; snprintf(tag, sizeof tag, "ecdhpeer:%s:%d:%d", CURVES[u->a].name, u->round, ci);
    int sz = A->C->size;
    unsigned char ref[70];
    const char *vn = "random-pair";
    if (ci == 1) { /* a peer for which the shared x coordinate has a leading zero octet: output must stay fixed-length */
        EC_KEY *b = NULL; int found = 0;
        for (int t = 0; t < 4000 && !found; t++) {
            if (b) EC_KEY_free(b);
            b = EC_KEY_new_by_curve_name(CURVES[u->a].nid); EC_KEY_generate_key(b);
            if (ECDH_compute_key(ref, sz, EC_KEY_get0_public_key(b), A->ek, NULL) == sz && ref[0] == 0) found = 1;
        }
        if (!found) vf_stat("skipped_no_leading_zero_ecdh_secret", 1);
        if (!eck_make2(&Bk, &CURVES[u->a], tag, 0, b)) return;
        vn = "leading-zero-secret";
    } else if (!eck_make(&Bk, &CURVES[u->a], tag, 0)) return;
    B = &Bk;
    unsigned char *out = malloc(sz); psSize_t ol = (psSize_t) sz;
    int rl = ECDH_compute_key(ref, sz, EC_KEY_get0_public_key(B->ek), A->ek, NULL);
    int rc = psEccGenSharedSecret(NULL, &A->priv.key.ecc, &B->pub.key.ecc, out, &ol, NULL);
    rec("ecdh", A->C->name, vn, NULL);
    if (rl != sz) vf_incon("libcrypto ECDH failed");
    else if (rc < 0) viol("ecdh", "spurious-failure", "psEccGenSharedSecret rc=%d curve %s", rc, A->C->name);
    else if (ol != sz || memcmp(out, ref, sz)) viol("ecdh", "secret-mismatch", "ECDH secret differs from libcrypto: curve %s peer=%s got=%s want=%s", A->C->name, hx(B->pt, B->ptlen), hx(out, ol), hx(ref, sz));
    if (vf_nsamples < 1) vf_sample("ecdh curve=%s peer=%s secret=%s", A->C->name, hx(B->pt, B->ptlen), hx(ref, sz));
    /* the other direction with the same pair */
    ol = (psSize_t) sz;
    rc = psEccGenSharedSecret(NULL, &B->priv.key.ecc, &A->pub.key.ecc, out, &ol, NULL);
    rec("ecdh", A->C->name, "random-pair-reverse", NULL);
    if (rc < 0 || ol != sz || memcmp(out, ref, sz)) viol("ecdh", "secret-mismatch", "reverse-direction ECDH secret differs (rc=%d) curve %s", rc, A->C->name);
    if (ci == 0 && u->a + 1 < NCURVES) { /* mismatched curves must be refused */
        eck_t Ck; if (eck_make(&Ck, &CURVES[u->a + 1], "ecdh-othercurve", 0)) {
            unsigned char big[70]; ol = sizeof big;
            rc = psEccGenSharedSecret(NULL, &A->priv.key.ecc, &Ck.pub.key.ecc, big, &ol, NULL);
            rec("ecdh", A->C->name, "peer-on-other-curve", NULL);
            if (rc >= 0) viol("ecdh", "accepts-other-curve-point", "psEccGenSharedSecret combined a %s private key with a %s public key", A->C->name, Ck.C->name);
            eck_free(&Ck);
        }
    }
    free(out); eck_free(B);
}

/* ==================================================================== DH === */
typedef struct { const char *name; int kind; int nid; const char *file; } dhg_t; /* kind 0 ffdhe nid, 1 modp, 2 params file */
static const dhg_t DHG[] = {
    { "ffdhe2048", 0, NID_ffdhe2048, NULL }, { "ffdhe3072", 0, NID_ffdhe3072, NULL }, { "ffdhe4096", 0, NID_ffdhe4096, NULL },
    { "modp1024", 1, 1024, NULL }, { "modp1536", 1, 1536, NULL }, { "modp2048", 1, 2048, NULL }, { "modp3072", 1, 3072, NULL }, { "modp4096", 1, 4096, NULL },
    { "tk-dh1024", 2, 0, "DH/dh1024.pem" }, { "tk-dh2048", 2, 0, "DH/dh2048.pem" }, { "tk-3072", 2, 0, "DH/3072_DH_PARAMS.pem" },
};
#define NDHG ((int) (sizeof DHG / sizeof DHG[0]))
static int dh_group(const dhg_t *G, BIGNUM **p, BIGNUM **g)
{
    *p = *g = NULL;
    if (G->kind == 0) { DH *d = DH_new_by_nid(G->nid); if (!d) return 0; *p = BN_dup(DH_get0_p(d)); *g = BN_dup(DH_get0_g(d)); DH_free(d); }
    else if (G->kind == 1) {
        *p = G->nid == 1024 ? BN_get_rfc2409_prime_1024(NULL) : G->nid == 1536 ? BN_get_rfc3526_prime_1536(NULL) : G->nid == 2048 ? BN_get_rfc3526_prime_2048(NULL) :
             G->nid == 3072 ? BN_get_rfc3526_prime_3072(NULL) : BN_get_rfc3526_prime_4096(NULL);
        *g = BN_new(); BN_set_word(*g, 2);
    } else {
        char path[512]; snprintf(path, sizeof path, "%s/%s", g_testkeys, G->file);
        FILE *f = fopen(path, "r"); if (!f) return 0;
        DH *d = PEM_read_DHparams(f, NULL, NULL, NULL); fclose(f);
        if (!d) { ERR_clear_error(); return 0; }
        *p = BN_dup(DH_get0_p(d)); *g = BN_dup(DH_get0_g(d)); DH_free(d);
    }
    return *p && *g;
}
static const char *DHV[] = {
    "pair-short-exp", "pair-256bit-exp", "pair-full-exp", "pair-short-exp-2", "pair-leading-zero-secret", "own-keygen",
    "pub-2", "pub-p-minus-2", "pub-0", "pub-0-padded", "pub-empty", "pub-1", "pub-1-padded", "pub-p-minus-1", "pub-p", "pub-p-plus-1", "pub-2pow", "pub-p-plus-rand", "pub-2p-minus-1", "pub-p-padded",
};
#define NDHV ((int) (sizeof DHV / sizeof DHV[0]))
static void case_dh(unit_t *u, int ci)
{
    const dhg_t *G = &DHG[u->a]; BIGNUM *p, *g;
    if (!dh_group(G, &p, &g)) { vf_incon("DH group %s unavailable", G->name); return; }
    int k = BN_num_bytes(p), pbits = BN_num_bits(p);
    const char *vn = DHV[ci];
    unsigned char *pbin = malloc(k), *abin = malloc(k), *ybin = malloc(k + 2), *ref = malloc(k), *out = malloc(k);
    BN_bn2bin(p, pbin);
    BIGNUM *a = BN_new(), *y = BN_new(), *z = BN_new(), *t = BN_new();
    int abits = (ci == 1) ? 256 : (ci == 2) ? (pbits > 2048 && !vf_thorough ? 1024 : pbits - 2) : 225 + (int) vf_below(&R, 96);
    BN_rand(a, abits, BN_RAND_TOP_ONE, BN_RAND_BOTTOM_ANY);
    int alen = BN_bn2bin(a, abin), ylen, expect_ok = 1;
    psDhKey_t priv, pub; memset(&priv, 0, sizeof priv); memset(&pub, 0, sizeof pub);
    unsigned char *ab = hb(abin, alen);
    if (psDhImportPrivKey(NULL, ab, (psSize_t) alen, &priv) < 0) { vf_incon("psDhImportPrivKey failed"); free(ab); goto out; }
    free(ab);
    if (ci == 5) { /* the library generates the peer key; libcrypto must agree on the secret */
        unsigned char *der = NULL; DH *d = DH_new(); DH_set0_pqg(d, BN_dup(p), NULL, BN_dup(g)); int dl = i2d_DHparams(d, &der); DH_free(d);
        psDhParams_t prm; memset(&prm, 0, sizeof prm);
        unsigned char *db = hb(der, dl);
        int rc = psPkcs3ParseDhParamBin(NULL, db, (psSize_t) dl, &prm);
        free(db); OPENSSL_free(der);
        rec("dh", G->name, vn, NULL);
        if (rc < 0) { viol("dh", "rejects-valid-params", "psPkcs3ParseDhParamBin rc=%d for %s", rc, G->name); goto out; }
        psDhKey_t mine; memset(&mine, 0, sizeof mine);
        rc = psDhGenKeyParams(NULL, &prm, &mine, NULL);
        if (rc < 0) { viol("dh", "spurious-failure", "psDhGenKeyParams rc=%d for %s", rc, G->name); psPkcs3ClearDhParams(&prm); goto out; }
        unsigned char *pb = malloc(k); psSize_t pl = (psSize_t) k;
        rc = psDhExportPubKey(NULL, &mine, pb, &pl);
        BN_bin2bn(pb, pl, y);
        BIGNUM *pm1 = BN_dup(p); BN_sub_word(pm1, 1);
        if (rc < 0 || BN_cmp(y, BN_value_one()) <= 0 || BN_cmp(y, pm1) >= 0) viol("dh", "generates-invalid-public-value", "psDhGenKeyParams produced public value %s (rc=%d)", hx(pb, pl), rc);
        else {
            /* peer (libcrypto, exponent a) public value; both sides must derive the same secret */
            BN_mod_exp(t, g, a, p, bnctx); ylen = BN_bn2bin(t, ybin);
            BN_mod_exp(z, y, a, p, bnctx); int zl = BN_bn2bin(z, ref);
            unsigned char *yb = hb(ybin, ylen); psSize_t ol = (psSize_t) k;
            psDhKey_t peer; memset(&peer, 0, sizeof peer);
            psDhImportPubKey(NULL, yb, (psSize_t) ylen, &peer); free(yb);
            rc = psDhGenSharedSecretParams(NULL, &mine, &peer, &prm, out, &ol, NULL);
            if (rc < 0 || ol != zl || memcmp(out, ref, zl)) viol("dh", "secret-mismatch", "secret from a library-generated key differs from libcrypto's (rc=%d) group %s", rc, G->name);
            psDhClearKey(&peer);
        }
        BN_free(pm1); free(pb); psDhClearKey(&mine); psPkcs3ClearDhParams(&prm);
        goto out;
    }
    /* choose the peer's public value */
    if (ci <= 4) {
        BIGNUM *b = BN_new(); BN_rand(b, 256, BN_RAND_TOP_ONE, BN_RAND_BOTTOM_ANY); BN_mod_exp(y, g, b, p, bnctx);
        if (ci == 4) /* search for a secret with a leading zero octet: output must be stripped like libcrypto's DH_compute_key */
            for (int tt = 0; tt < 3000; tt++) { BN_mod_exp(z, y, a, p, bnctx); if (BN_num_bytes(z) < k) break; BN_add_word(b, 1); BN_mod_mul(y, y, g, p, bnctx); }
        BN_free(b);
        ylen = BN_bn2binpad(y, ybin, k);
    } else {
        ylen = -1;
        switch (ci) {
        case 6: BN_set_word(y, 2); break;
        case 7: BN_copy(y, p); BN_sub_word(y, 2); break;
        case 8: BN_zero(y); ybin[0] = 0; ylen = 1; expect_ok = 0; break;
        case 9: BN_zero(y); memset(ybin, 0, k); ylen = k; expect_ok = 0; break;
        case 10: BN_zero(y); ylen = 0; expect_ok = 0; break;
        case 11: BN_one(y); expect_ok = 0; break;
        case 12: BN_one(y); ylen = BN_bn2binpad(y, ybin, k); expect_ok = 0; break;
        case 13: BN_copy(y, p); BN_sub_word(y, 1); expect_ok = 0; break;
        case 14: BN_copy(y, p); expect_ok = 0; break;
        case 15: BN_copy(y, p); BN_add_word(y, 1); expect_ok = 0; break;
        case 16: BN_zero(y); BN_set_bit(y, 8 * k); expect_ok = 0; break;
        case 17: BN_rand(t, pbits - 1, BN_RAND_TOP_ANY, BN_RAND_BOTTOM_ANY); BN_add(y, p, t); expect_ok = 0; break;
        case 18: BN_lshift1(y, p); BN_sub_word(y, 1); expect_ok = 0; break;
        case 19: BN_copy(y, p); ylen = BN_bn2binpad(y, ybin, k + 2); expect_ok = 0; break;
        }
        if (ylen < 0) ylen = BN_bn2bin(y, ybin);
    }
    {
        unsigned char *yb = hb(ybin, ylen); psSize_t ol = (psSize_t) k;
        int rc1 = psDhImportPubKey(NULL, yb, (psSize_t) ylen, &pub), rc2 = -1;
        free(yb);
        unsigned char *pb = hb(pbin, k);
        if (rc1 >= 0) rc2 = psDhGenSharedSecret(NULL, &priv, &pub, pb, (psSize_t) k, out, &ol, NULL);
        free(pb);
        rec("dh", G->name, vn, NULL);
        verdict_stat("dh", rc1 >= 0 && rc2 >= 0);
        if (!expect_ok) {
            if (rc1 >= 0 && rc2 >= 0) viol("dh", "accepts-out-of-range-public-value", "public value %s (%s) was used to compute a secret: group %s", hx(ybin, ylen), vn, G->name);
        } else {
            BN_mod_exp(z, y, a, p, bnctx); int zl = BN_bn2bin(z, ref);
            if (rc1 < 0 || rc2 < 0) viol("dh", "rejects-valid", "valid public value refused (import rc=%d, secret rc=%d) variant %s group %s y=%s", rc1, rc2, vn, G->name, hx(ybin, ylen));
            else if (ol != zl || memcmp(out, ref, zl)) viol("dh", "secret-mismatch", "DH secret differs from libcrypto: group %s variant %s got(%d)=%s want(%d)=%s", G->name, vn, ol, hx(out, ol), zl, hx(ref, zl));
            if (ci == 4 && zl < k) vf_stat("dh_secret_with_leading_zero_octet", 1);
        }
        if (vf_nsamples < 1) vf_sample("dh group=%s variant=%s y=%s import=%d secret_rc=%d", G->name, vn, hx(ybin, ylen), rc1, rc2);
        if (rc1 >= 0) psDhClearKey(&pub);
    }
out:
    psDhClearKey(&priv);
    BN_free(a); BN_free(y); BN_free(z); BN_free(t); BN_free(p); BN_free(g);
    free(pbin); free(abin); free(ybin); free(ref); free(out);
}

/* ================================================================ X25519 === */
static int ossl_x25519(const unsigned char priv[32], const unsigned char pub[32], unsigned char out[32])
{
    EVP_PKEY *a = EVP_PKEY_new_raw_private_key(EVP_PKEY_X25519, NULL, priv, 32), *b = EVP_PKEY_new_raw_public_key(EVP_PKEY_X25519, NULL, pub, 32);
    EVP_PKEY_CTX *c = a ? EVP_PKEY_CTX_new(a, NULL) : NULL; size_t l = 32; int ok = 0;
    if (c && b && EVP_PKEY_derive_init(c) == 1 && EVP_PKEY_derive_set_peer(c, b) == 1 && EVP_PKEY_derive(c, out, &l) == 1 && l == 32) ok = 1;
    EVP_PKEY_CTX_free(c); EVP_PKEY_free(a); EVP_PKEY_free(b); ERR_clear_error();
    return ok;
}
static int ms_x25519(const unsigned char priv[32], const unsigned char pub[32], unsigned char out[32])
{
    unsigned char *pb = hb(priv, 32), *ub = hb(pub, 32), *ob = malloc(32);
    int rc = psDhX25519GenSharedSecret(ub, pb, ob);
    memcpy(out, ob, 32); free(pb); free(ub); free(ob);
    return rc;
}
static const char *X_SMALL[] = {
    "0000000000000000000000000000000000000000000000000000000000000000", "0100000000000000000000000000000000000000000000000000000000000000",
    "e0eb7a7c3b41b8ae1656e3faf19fc46ada098deb9c32b1fd866205165f49b800", "5f9c95bca3508c24b1d0b1559c83ef5b04445cc4581c8e86d8224eddd09f1157",
    "ecffffffffffffffffffffffffffffffffffffffffffffffffffffffffffff7f", "edffffffffffffffffffffffffffffffffffffffffffffffffffffffffffff7f",
    "eeffffffffffffffffffffffffffffffffffffffffffffffffffffffffffff7f",
};
static void case_x25519(unit_t *u, int ci)
{
    unsigned char a[32], b[32], A[32], B[32], s1[32], s2[32], base[32] = { 9 };
    (void) u;
    if (ci < 7) { /* low-order inputs: the all-zero result must be refused */
        vf_fill(&R, a, 32); vf_unhex(B, X_SMALL[ci]);
        int rc = ms_x25519(a, B, s1), o = ossl_x25519(a, B, s2);
        rec("x25519", "x25519", "low-order-point", X_SMALL[ci] + 56);
        if (rc == PS_SUCCESS) viol("x25519", "accepts-low-order-point", "psDhX25519GenSharedSecret succeeded for low-order u=%s (secret %s, libcrypto %s)", X_SMALL[ci], hx(s1, 32), o ? "also succeeds" : "refuses");
        return;
    }
    if (ci == 7 || ci == 8) { /* RFC 7748 section 5.2 vectors */
        static const char *kx[] = { "a546e36bf0527c9d3b16154b82465edd62144c0ac1fc5a18506a2244ba449ac4", "4b66e9d4d1b4673c5ad22691957d6af5c11b6421e0ea01d42ca4169e7918ba0d" };
        static const char *ux[] = { "e6db6867583030db3594c1a424b15f7c726624ec26b3353b10a903a6d0ab1c4c", "e5210f12786811d3f4b7959d0538ae2c31dbe7106fc03c3efc4cd549c715a493" };
        static const char *rx[] = { "c3da55379de9c6908e94ea4df28d084f32eccf03491c71f754b4075577a28552", "95cbde9476e8907d7aade45cb4b873f88b595a68799fa152e6f8f7647aac7957" };
        vf_unhex(a, kx[ci - 7]); vf_unhex(B, ux[ci - 7]); vf_unhex(s2, rx[ci - 7]);
        int rc = ms_x25519(a, B, s1);
        rec("x25519", "x25519", "rfc7748-vector", ci == 7 ? "1" : "2");
        if (rc != PS_SUCCESS || memcmp(s1, s2, 32)) viol("x25519", "secret-mismatch", "RFC 7748 vector %d: rc=%d got %s", ci - 6, rc, hx(s1, 32));
        return;
    }
    if (ci == 9) { /* RFC 7748 iterated test, 1 and 1000 iterations */
        unsigned char k[32] = { 9 }, uu[32] = { 9 }, r[32], want1[32], want1000[32];
        vf_unhex(want1, "422c8e7a6227d7bca1350b3e2bb7279f7897b87bb6854b783c60e80311ae3079");
        vf_unhex(want1000, "684cf59ba83309552800ef566f2f4d3c1c3887c49360e3875f2eb94d99532c51");
        for (int i = 1; i <= 1000; i++) {
            if (ms_x25519(k, uu, r) != PS_SUCCESS) { viol("x25519", "spurious-failure", "iteration %d failed", i); return; }
            memcpy(uu, k, 32); memcpy(k, r, 32);
            if (i == 1 && memcmp(k, want1, 32)) viol("x25519", "secret-mismatch", "RFC 7748 iterated test wrong after 1 iteration");
        }
        rec("x25519", "x25519", "rfc7748-iterated-1000", NULL);
        if (memcmp(k, want1000, 32)) viol("x25519", "secret-mismatch", "RFC 7748 iterated test wrong after 1000 iterations: %s", hx(k, 32));
        return;
    }
    vf_fill(&R, a, 32); vf_fill(&R, b, 32);
    const char *vn = "random-pair";
    if (ci % 8 == 2) { /* non-canonical u: top bit set, or u in [p, 2^255) */
        vf_fill(&R, B, 32); B[31] |= 0x80; vn = "u-top-bit-set";
    } else if (ci % 8 == 3) {
        memset(B, 0xff, 32); B[31] = 0x7f; B[0] = (unsigned char) (0xed + 2 + vf_below(&R, 17)); vn = "u-not-reduced";
    } else {
        if (ms_x25519(b, base, B) != PS_SUCCESS) { viol("x25519", "spurious-failure", "base-point multiplication failed"); return; }
        if (!ossl_x25519(b, base, A) || memcmp(A, B, 32)) viol("x25519", "public-key-mismatch", "public key from scalar %s differs from libcrypto's", hx(b, 32));
    }
    int rc = ms_x25519(a, B, s1), o = ossl_x25519(a, B, s2);
    rec("x25519", "x25519", vn, NULL);
    if (!o) { if (rc == PS_SUCCESS) vf_stat("x25519_libcrypto_refused_matrixssl_accepted", 1); }
    else if (rc != PS_SUCCESS) viol("x25519", "spurious-failure", "rc=%d for u=%s", rc, hx(B, 32));
    else if (memcmp(s1, s2, 32)) viol("x25519", "secret-mismatch", "%s: scalar %s u %s got %s want %s", vn, hx(a, 32), hx(B, 32), hx(s1, 32), hx(s2, 32));
    if (vf_nsamples < 1) vf_sample("x25519 u=%s secret=%s", hx(B, 32), hx(s2, 32));
}

/* =============================================================== Ed25519 === */
typedef struct { unsigned char priv[32], pub[32]; EVP_PKEY *sk, *pk; psPubKey_t mk; } edk_t;
static int edk_from_priv(edk_t *K, const unsigned char priv[32])
{
    size_t l = 32;
    memcpy(K->priv, priv, 32);
    K->sk = EVP_PKEY_new_raw_private_key(EVP_PKEY_ED25519, NULL, priv, 32);
    if (!K->sk || EVP_PKEY_get_raw_public_key(K->sk, K->pub, &l) != 1) return 0;
    K->pk = EVP_PKEY_new_raw_public_key(EVP_PKEY_ED25519, NULL, K->pub, 32);
    memset(&K->mk, 0, sizeof K->mk);
    psInitPubKey(NULL, &K->mk, PS_ED25519);
    memcpy(K->mk.key.ed25519.priv, K->priv, 32); memcpy(K->mk.key.ed25519.pub, K->pub, 32);
    K->mk.key.ed25519.havePriv = K->mk.key.ed25519.havePub = PS_TRUE;
    K->mk.keysize = 32;
    return K->pk != NULL;
}
static void edk_free(edk_t *K) { EVP_PKEY_free(K->sk); EVP_PKEY_free(K->pk); }
static int ossl_ed_verify(const unsigned char pub[32], const unsigned char *msg, size_t ml, const unsigned char *sig, size_t sl)
{
    EVP_PKEY *pk = EVP_PKEY_new_raw_public_key(EVP_PKEY_ED25519, NULL, pub, 32);
    EVP_MD_CTX *c = EVP_MD_CTX_new(); int ok = 0;
    if (pk && EVP_DigestVerifyInit(c, NULL, NULL, NULL, pk) == 1) ok = EVP_DigestVerify(c, sig, sl, msg, ml) == 1;
    EVP_MD_CTX_free(c); EVP_PKEY_free(pk); ERR_clear_error();
    return ok;
}
static int ossl_ed_sign(edk_t *K, const unsigned char *msg, size_t ml, unsigned char sig[64])
{
    EVP_MD_CTX *c = EVP_MD_CTX_new(); size_t sl = 64;
    int ok = EVP_DigestSignInit(c, NULL, NULL, NULL, K->sk) == 1 && EVP_DigestSign(c, sig, &sl, msg, ml) == 1 && sl == 64;
    EVP_MD_CTX_free(c); ERR_clear_error();
    return ok;
}
static int ms_ed_verify(const unsigned char pub[32], const unsigned char *msg, size_t ml, const unsigned char *sig, size_t sl, int *prc)
{
    psPubKey_t k; memset(&k, 0, sizeof k); psInitPubKey(NULL, &k, PS_ED25519);
    memcpy(k.key.ed25519.pub, pub, 32); k.key.ed25519.havePub = PS_TRUE; k.keysize = 32;
    unsigned char *mb = hb(msg, ml), *sb = hb(sig, sl);
    psVerifyOptions_t o; memset(&o, 0, sizeof o);
    psBool_t vr = 2;
    psRes_t rc = psVerify(NULL, mb, ml, sb, (psSize_t) sl, &k, OID_ED25519_KEY_ALG, &vr, &o);
    free(mb); free(sb);
    if ((rc == PS_SUCCESS) != (vr == PS_TRUE)) viol("ed25519-verify", "inconsistent-result", "psVerify rc=%d verifyResult=%d", rc, vr);
    if (prc) *prc = rc;
    return rc == PS_SUCCESS && vr == PS_TRUE;
}
static void judge_ed(const unsigned char pub[32], const unsigned char *msg, size_t ml, const unsigned char *sig, size_t sl, const char *variant, const char *pos, const char *badcls)
{
    int rc = 0, o = ossl_ed_verify(pub, msg, ml, sig, sl);
    rec("ed25519-verify", "ed25519", variant, pos);
    int got = ms_ed_verify(pub, msg, ml, sig, sl, &rc);
    verdict_stat("ed25519-verify", got);
    if (got && !o) viol("ed25519-verify", badcls, "accepted an Ed25519 signature libcrypto rejects: variant %s pos %s siglen %zu pub=%s msg=%s sig=%s", variant, pos ? pos : "-", sl, hx(pub, 32), hx(msg, ml), hx(sig, sl));
    else if (!got && o) viol("ed25519-verify", "rejects-valid", "rejected (rc=%d) an Ed25519 signature libcrypto accepts: variant %s pub=%s msg=%s sig=%s", rc, variant, hx(pub, 32), hx(msg, ml), hx(sig, sl));
    if (vf_nsamples < 1 && o) vf_sample("ed25519-verify variant=%s pub=%s sig=%s got=%d", variant, hx(pub, 32), hx(sig, sl), got);
}
static const unsigned char ED_L[32] = { 0xed, 0xd3, 0xf5, 0x5c, 0x1a, 0x63, 0x12, 0x58, 0xd6, 0x9c, 0xf7, 0xa2, 0xde, 0xf9, 0xde, 0x14, 0, 0, 0, 0, 0, 0, 0, 0, 0, 0, 0, 0, 0, 0, 0, 0x10 };
static void add_L(unsigned char s[32], int times)
{
    for (int t = 0; t < times; t++) { int c = 0; for (int i = 0; i < 32; i++) { c += s[i] + ED_L[i]; s[i] = (unsigned char) c; c >>= 8; } }
}
static const char *EDV[] = {
    "valid-len0", "valid-len1", "valid-len32", "valid-len64", "valid-len200", "valid-len1500",
    "s-plus-L", "s-plus-8L", "s-zero", "s-eq-L", "r-zero", "r-identity", "r-random", "r-s-swapped",
    "msg-flip", "msg-truncated", "msg-extended", "pub-flip", "pub-other-key", "pub-zero",
    "sig-len63", "sig-len32", "sig-len1", "sig-len0", "sig-len65", "sig-len128",
    "sign-len0", "sign-len1", "sign-len100", "sign-len1000",
};
#define NEDV ((int) (sizeof EDV / sizeof EDV[0]))
#define ED_SWEEP 512
static void ed_unit_key(unit_t *u, edk_t *K)
{
    unsigned char priv[32]; vf_rng r; vf_rng_init(&r, vf_seed ^ 0xed25519, (uint64_t) u->a * 1000 + u->round);
    vf_fill(&r, priv, 32);
    edk_from_priv(K, priv);
}
static void case_ed(unit_t *u, int ci)
{
    edk_t K, K2; ed_unit_key(u, &K);
    unsigned char msg[1600], sig[200], s2[64];
    const char *vn = ci < NEDV ? EDV[ci] : "sig-bit-flipped";
    size_t ml = 1 + vf_below(&R, 120), sl = 64;
    vf_fill(&R, msg, sizeof msg);
    if (ci >= NEDV) { /* every bit of the signature */
        int bit = ci - NEDV; char pos[32];
        ossl_ed_sign(&K, msg, ml, sig);
        sig[bit / 8] ^= (unsigned char) (1 << (bit % 8));
        snprintf(pos, sizeof pos, "%s-byte%d", bit < 256 ? "R" : "S", (bit / 8) % 32 == 0 ? 0 : (bit / 8) % 32 == 31 ? 31 : 15);
        judge_ed(K.pub, msg, ml, sig, 64, vn, pos, "accepts-forged");
        edk_free(&K); return;
    }
    if (ci >= 20 && ci <= 23) { edk_free(&K); return; } /* truncated signatures: units edtrunc/ */
    if (ci <= 5) { static const int L[] = { 0, 1, 32, 64, 200, 1500 }; ml = L[ci]; }
    if (ci >= 26) { /* the library signs: deterministic, must equal libcrypto's bytes */
        static const int L[] = { 0, 1, 100, 1000 }; ml = L[ci - 26];
        unsigned char *mb = hb(msg, ml), *out = NULL; psSize_t ol = 0;
        int rc = psSign(NULL, &K.mk, OID_ED25519_KEY_ALG, mb, ml, &out, &ol, NULL);
        ossl_ed_sign(&K, msg, ml, s2);
        rec("ed25519-sign", "ed25519", vn, NULL);
        if (rc < 0 || !out) viol("ed25519-sign", "spurious-failure", "psSign rc=%d msglen %zu", rc, ml);
        else if (ol != 64 || memcmp(out, s2, 64)) viol("ed25519-sign", "signature-not-standard", "psSign output differs from the RFC 8032 signature: priv=%s msglen %zu got=%s want=%s", hx(K.priv, 32), ml, hx(out, ol), hx(s2, 64));
        if (out) psFree(out, NULL);
        free(mb); edk_free(&K); return;
    }
    ossl_ed_sign(&K, msg, ml, sig);
    const unsigned char *pub = K.pub; const char *cls = "accepts-forged";
    unsigned char pb[32]; memcpy(pb, K.pub, 32);
    switch (ci) {
    case 6: add_L(sig + 32, 1); cls = "accepts-noncanonical-s"; break;
    case 7: add_L(sig + 32, 8); cls = "accepts-noncanonical-s"; break;
    case 8: memset(sig + 32, 0, 32); break;
    case 9: memcpy(sig + 32, ED_L, 32); cls = "accepts-noncanonical-s"; break;
    case 10: memset(sig, 0, 32); break;
    case 11: memset(sig, 0, 32); sig[0] = 1; break;
    case 12: vf_fill(&R, sig, 32); break;
    case 13: memcpy(s2, sig, 32); memcpy(sig, sig + 32, 32); memcpy(sig + 32, s2, 32); break;
    case 14: if (ml == 0) ml = 1; msg[vf_below(&R, ml)] ^= (unsigned char) (1 << vf_below(&R, 8)); cls = "accepts-wrong-message"; break;
    case 15: ml -= 1; cls = "accepts-wrong-message"; break;
    case 16: ml += 1; cls = "accepts-wrong-message"; break;
    case 17: pb[vf_below(&R, 32)] ^= (unsigned char) (1 << vf_below(&R, 8)); pub = pb; cls = "accepts-wrong-key"; break;
    case 18: { unsigned char p2[32]; vf_fill(&R, p2, 32); edk_from_priv(&K2, p2); memcpy(pb, K2.pub, 32); edk_free(&K2); pub = pb; cls = "accepts-wrong-key"; break; }
    case 19: memset(pb, 0, 32); pub = pb; cls = "accepts-wrong-key"; break;
    case 20: sl = 63; cls = "accepts-wrong-length-signature"; break;
    case 21: sl = 32; cls = "accepts-wrong-length-signature"; break;
    case 22: sl = 1; cls = "accepts-wrong-length-signature"; break;
    case 23: sl = 0; cls = "accepts-wrong-length-signature"; break;
    case 24: sl = 65; sig[64] = 0; cls = "accepts-wrong-length-signature"; break;
    case 25: sl = 128; memcpy(sig + 64, sig, 64); cls = "accepts-wrong-length-signature"; break;
    }
    judge_ed(pub, msg, ml, sig, sl, vn, NULL, cls);
    edk_free(&K);
}
/* RFC 8032 section 7.1 test vectors (TEST 1, 2, 3, SHA(abc)) */
static void case_ed_vectors(unit_t *u, int ci)
{
    static const char *sk[] = { "9d61b19deffd5a60ba844af492ec2cc44449c5697b326919703bac031cae7f60", "4ccd089b28ff96da9db6c346ec114e0f5b8a319f35aba624da8cf6ed4fb8a6fb",
                                "c5aa8df43f9f837bedb7442f31dcb7b166d38535076f094b85ce3a2e0b4458f7", "833fe62409237b9d62ec77587520911e9a759cec1d19755b7da901b96dca3d42" };
    static const char *pk[] = { "d75a980182b10ab7d54bfed3c964073a0ee172f3daa62325af021a68f707511a", "3d4017c3e843895a92b70aa74d1b7ebc9c982ccf2ec4968cc0cd55f12af4660c",
                                "fc51cd8e6218a1a38da47ed00230f0580816ed13ba3303ac5deb911548908025", "ec172b93ad5e563bf4932c70e1245034c35467ef2efd4d64ebf819683467e2bf" };
    static const char *ms[] = { "", "72", "af82", "ddaf35a193617abacc417349ae20413112e6fa4e89a97ea20a9eeee64b55d39a2192992a274fc1a836ba3c23a3feebbd454d4423643ce80e2a9ac94fa54ca49f" };
    static const char *sg[] = { "e5564300c360ac729086e2cc806e828a84877f1eb8e5d974d873e065224901555fb8821590a33bacc61e39701cf9b46bd25bf5f0595bbe24655141438e7a100b",
                                "92a009a9f0d4cab8720e820b5f642540a2b27b5416503f8fb3762223ebdb69da085ac1e43e15996e458f3613d0f11d8c387b2eaeb4302aeeb00d291612bb0c00",
                                "6291d657deec24024827e69c3abe01a30ce548a284743a445e3680d7db5ac3ac18ff9b538d16f290ae67f760984dc6594a7c15e9716ed28dc027beceea1ec40a",
                                "dc2a4459e7369633a52b1bf277839a00201009a3efbf3ecb69bea2186c26b58909351fc9ac90b3ecfdfbc7c66431e0303dca179c138ac17ad9bef1177331a704" };
    unsigned char s[32], p[32], m[64], g[64]; (void) u;
    vf_unhex(s, sk[ci]); vf_unhex(p, pk[ci]); int ml = vf_unhex(m, ms[ci]); vf_unhex(g, sg[ci]);
    edk_t K; edk_from_priv(&K, s);
    rec("ed25519-verify", "ed25519", "rfc8032-vector", sk[ci] + 60);
    if (memcmp(K.pub, p, 32)) vf_incon("libcrypto derives a different public key for RFC 8032 vector %d", ci);
    int rc = 0;
    if (!ms_ed_verify(p, m, ml, g, 64, &rc)) viol("ed25519-verify", "rejects-valid", "RFC 8032 test vector %d rejected rc=%d", ci + 1, rc);
    unsigned char *mb = hb(m, ml), *out = NULL; psSize_t ol = 0;
    rc = psSign(NULL, &K.mk, OID_ED25519_KEY_ALG, mb, ml, &out, &ol, NULL);
    rec("ed25519-sign", "ed25519", "rfc8032-vector", sk[ci] + 60);
    if (rc < 0 || ol != 64 || memcmp(out, g, 64)) viol("ed25519-sign", "signature-not-standard", "RFC 8032 test vector %d: psSign rc=%d output %s", ci + 1, rc, out ? hx(out, ol) : "-");
    if (out) psFree(out, NULL);
    free(mb); edk_free(&K);
}
/* Small-order public keys (all 8 torsion points in both sign encodings plus the non-canonical encodings of y = 0, 1, -1): with such a key the
 * "signature" R = <small-order point>, S = 0 satisfies the verification equation for a large share of all messages, i.e. it can be made without any
 * private key.  By construction none of these 14 x 14 x messages may be accepted (libcrypto's verdict is recorded, not used). */
static const char *ED_SMALL[14] = {
    "0100000000000000000000000000000000000000000000000000000000000000", "ecffffffffffffffffffffffffffffffffffffffffffffffffffffffffffff7f",
    "0000000000000000000000000000000000000000000000000000000000000000", "0000000000000000000000000000000000000000000000000000000000000080",
    "c7176a703d4dd84fba3c0b760d10670f2a2053fa2c39ccc64ec7fd7792ac037a", "c7176a703d4dd84fba3c0b760d10670f2a2053fa2c39ccc64ec7fd7792ac03fa",
    "26e8958fc2b227b045c3f489f2ef98f0d5dfac05d3c63339b13802886d53fc05", "26e8958fc2b227b045c3f489f2ef98f0d5dfac05d3c63339b13802886d53fc85",
    "0100000000000000000000000000000000000000000000000000000000000080", "ecffffffffffffffffffffffffffffffffffffffffffffffffffffffffffffff",
    "edffffffffffffffffffffffffffffffffffffffffffffffffffffffffffff7f", "edffffffffffffffffffffffffffffffffffffffffffffffffffffffffffffff",
    "eeffffffffffffffffffffffffffffffffffffffffffffffffffffffffffff7f", "eeffffffffffffffffffffffffffffffffffffffffffffffffffffffffffffff" };
static void case_ed_smallorder(unit_t *u, int ci)
{
    unsigned char A[32], sig[64], msg[40]; int ai = ci % 14, ri = ci / 14; (void) u;
    vf_unhex(A, ED_SMALL[ai]); vf_unhex(sig, ED_SMALL[ri]); memset(sig + 32, 0, 32);
    int nmsg = vf_thorough ? 64 : 16, accepted = 0, rc = 0;
    for (int m = 0; m < nmsg; m++) {
        int ml = 1 + m % 33; for (int i = 0; i < ml; i++) msg[i] = (unsigned char) (m * 7 + i * 13 + ai);
        rec("ed25519-verify", "ed25519", "small-order-key-forgery", ED_SMALL[ai] + 56);
        if (ms_ed_verify(A, msg, ml, sig, 64, &rc)) { accepted++; if (accepted == 1) viol("ed25519-verify", "accepts-forgery-under-small-order-key", "signature R=%s S=0 accepted for public key %s (message of %d octets): it can be produced without any private key", ED_SMALL[ri], ED_SMALL[ai], ml); }
        else verdict_stat("ed25519-verify", 0);
    }
}
/* truncated Ed25519 signatures each get a unit of their own (an over-read aborts the process) */
static void case_ed_trunc(unit_t *u, int ci)
{
    static const int L[] = { 63, 32, 1, 0 };
    edk_t K; ed_unit_key(u, &K);
    unsigned char msg[64], sig[64]; size_t ml = 1 + vf_below(&R, 60);
    (void) ci;
    vf_fill(&R, msg, sizeof msg);
    ossl_ed_sign(&K, msg, ml, sig);
    char pos[16]; snprintf(pos, sizeof pos, "len%d", L[u->b]);
    judge_ed(K.pub, msg, ml, sig, L[u->b], "sig-truncated", pos, "accepts-wrong-length-signature");
    edk_free(&K);
}

/* ================================================================== main === */
static const int RSA_BITS[] = { 1024, 2048, 3072, 4096 };
static const unsigned long RSA_E[] = { 3, 17, 65537 };
static void build_units(void)
{
    int T = vf_thorough;
    /* ---- RSA ---- */
    for (int bi = 0; bi < 4; bi++) {
        int bits = RSA_BITS[bi];
        int gens = T ? (bits <= 2048 ? 3 : bits == 3072 ? 2 : 1) : 1;
        int vr = T ? (bits == 1024 ? 24 : bits == 2048 ? 12 : bits == 3072 ? 4 : 2) : 1;   /* rounds of the variant table */
        int br = T ? (bits == 1024 ? 6 : bits == 2048 ? 3 : 1) : 1;                          /* rounds of the byte sweep */
        for (int gen = 0; gen < gens; gen++) for (int ei = 0; ei < 3; ei++) {
            rsak_t *K = rsa_slot(bits, RSA_E[ei], gen, NULL), *K2 = rsa_slot(bits, RSA_E[(ei + 1) % 3], gen, NULL);
            int idx = bi * 3 + ei + gen;
            for (int round = 0; round < vr; round++) {
                for (int h = 0; h < NHALG; h++) { unit_t *u = add_unit("rsa-pkcs1-verify", case_v15, NV15, "v15/%s/%s/r%d", K->label, HALG[h].name, round); u->rk = K; u->rk2 = K2; u->a = h; u->round = round; }
                for (int h = H_SHA1; h <= H_SHA512; h++) { unit_t *u = add_unit("rsa-pss-verify", case_pss, NPSSV, "pss/%s/%s/r%d", K->label, HALG[h].name, round); u->rk = K; u->rk2 = K2; u->a = h; u->round = round; }
            }
            for (int round = 0; round < br; round++) {
                int nh = T ? NHALG : (bits <= 2048 ? 2 : 1);
                for (int hh = 0; hh < nh; hh++) {
                    int h = (idx + hh * 3 + round) % NHALG;
                    for (int c = 0; c * 128 < bits / 8; c++) { unit_t *u = add_unit("rsa-pkcs1-verify", case_v15_byte, 128, "v15b/%s/%s/c%d/r%d", K->label, HALG[h].name, c, round); u->rk = K; u->a = h; u->b = c; u->round = round; }
                }
                if (ei == 2 || T) {
                    int h = H_SHA1 + (idx + round) % 4;
                    for (int c = 0; c * 128 < bits / 8; c++) { unit_t *u = add_unit("rsa-pss-verify", case_pss_byte, 128, "pssb/%s/%s/c%d/r%d", K->label, HALG[h].name, c, round); u->rk = K; u->a = h; u->b = c; u->round = round; }
                }
            }
            int er = T ? (bits <= 2048 ? 6 : 2) : 1;
            for (int round = 0; round < er; round++) {
                unit_t *u = add_unit("rsa-decrypt", case_rsaenc, NENCV, "rsaenc/%s/r%d", K->label, round); u->rk = K; u->round = round;
                u = add_unit("rsa-pkcs1-sign", case_rsasign, NSIGNV, "rsasign/%s/r%d", K->label, round); u->rk = K; u->round = round;
            }
        }
    }
    /* the repository's sample keys (moduli other than 1024/1536/2048/3072/4096 bits are documented as unsupported by pstm_exptmod) */
    {
        rsak_t *X[5]; int nx = 0;
        X[nx++] = rsa_slot(1024, 0, 0, "RSA/1024_RSA_KEY.pem"); X[nx++] = rsa_slot(2048, 0, 0, "RSA/2048_RSA_KEY.pem"); X[nx++] = rsa_slot(4096, 0, 0, "RSA/4096_RSA_KEY.pem");
        for (int i = 0; i < nx; i++) {
            rsak_t *K = X[i];
            static const int hs[] = { H_SHA256, H_RAW, H_SHA384 };
            for (int j = 0; j < 3; j++) { unit_t *u = add_unit("rsa-pkcs1-verify", case_v15, NV15, "v15/%s/%s/r0", K->label, HALG[hs[j]].name); u->rk = K; u->a = hs[j]; }
            for (int h = H_SHA256; h <= H_SHA384; h++) { unit_t *u = add_unit("rsa-pss-verify", case_pss, NPSSV, "pss/%s/%s/r0", K->label, HALG[h].name); u->rk = K; u->a = h; }
            unit_t *u = add_unit("rsa-decrypt", case_rsaenc, NENCV, "rsaenc/%s/r0", K->label); u->rk = K;
            u = add_unit("rsa-pkcs1-sign", case_rsasign, NSIGNV, "rsasign/%s/r0", K->label); u->rk = K;
        }
    }
    /* ---- ECC ---- */
    for (int c = 0; c < NCURVES; c++) {
        int sz = CURVES[c].size;
        int er = T ? 40 : 2, ir = T ? 200 : 2, sr = T ? 12 : 1, dr = T ? 6 : 1;
        for (int round = 0; round < er; round++) {
            for (int h = 0; h < 5; h++) { unit_t *u = add_unit("ecdsa-verify", case_ecdsa, NECV, "ecdsa/%s/h%d/r%d", CURVES[c].name, HLENS[h], round); u->a = c; u->b = h; u->round = round; }
            unit_t *u = add_unit("ecdsa-verify", case_ecdsa_sweep, 150 + 2 * sz + 150, "ecdsas/%s/r%d", CURVES[c].name, round); u->a = c; u->round = round;
            u = add_unit("ecdsa-verify", case_ecdsa_smalls, NSMALLS, "ecdsak/%s/r%d", CURVES[c].name, round); u->a = c; u->round = round;
        }
        { unit_t *u = add_unit("ecdsa-verify", case_ecdsa, NECV, "ecdsa/%s/h32/tk", CURVES[c].name); u->a = c; u->b = 2; u->c = 1; u->round = 9999;
          u = add_unit("ecdsa-sign", case_ecsign, 16, "ecsign/%s/tk", CURVES[c].name); u->a = c; u->c = 1; u->round = 9999; }
        for (int round = 0; round < sr; round++) { unit_t *u = add_unit("ecdsa-sign", case_ecsign, 16, "ecsign/%s/r%d", CURVES[c].name, round); u->a = c; u->round = round; }
        for (int round = 0; round < ir; round++) {
            unit_t *u = add_unit("ecc-import", case_import, NIMPV, "eccimp/%s/r%d", CURVES[c].name, round); u->a = c; u->round = round;
            for (int k = 0; k * 256 < 2 * sz * 8; k++) { u = add_unit("ecc-import", case_import_bits, 256, "eccbits/%s/c%d/r%d", CURVES[c].name, k, round); u->a = c; u->b = k; u->round = round; }
        }
        for (int round = 0; round < dr; round++) { unit_t *u = add_unit("ecdh", case_ecdh, 12, "ecdh/%s/r%d", CURVES[c].name, round); u->a = c; u->round = round; }
    }
    /* ---- DH, X25519, Ed25519 ---- */
    for (int g = 0; g < NDHG; g++) for (int round = 0; round < (T ? 4 : 1); round++) { unit_t *u = add_unit("dh", case_dh, NDHV, "dh/%s/r%d", DHG[g].name, round); u->a = g; u->round = round; }
    for (int k = 0; k < (T ? 1000 : 4); k++) add_unit("x25519", case_x25519, 128, "x25519/c%d", k);
    for (int k = 0; k < (T ? 600 : 6); k++) { unit_t *u = add_unit("ed25519-verify", case_ed, NEDV + ED_SWEEP, "ed/k%d", k); u->a = k; }
    for (int b = 0; b < 4; b++) { unit_t *u = add_unit("ed25519-verify", case_ed_trunc, 1, "edtrunc/l%d", b); u->a = 0; u->b = b; }
    add_unit("ed25519-verify", case_ed_vectors, 4, "edvec");
    add_unit("ed25519-verify", case_ed_smallorder, 14 * 14, "edsmall");
}

int main(int argc, char **argv)
{
    vf_init(argc, argv);
    g_testkeys = vf_arg("--testkeys", g_testkeys);
    const char *only_scheme = vf_arg("--scheme", NULL);
    char want_unit[120] = "";
    int replaying = 0;
    if (vf_case) {
        /* s<seed>/<unit id>#<case index> */
        const char *p = vf_case;
        if (*p == 's') { vf_seed = strtoull(p + 1, (char **) &p, 10); if (*p == '/') p++; }
        snprintf(want_unit, sizeof want_unit, "%s", p);
        char *h = strchr(want_unit, '#');
        if (h) { *h = 0; if (h[1]) only_ci = atoi(h + 1); }
        g_verbose_case = 1;
        replaying = 1;
        vf_case = NULL; /* keep vf_fork_case capturing the child's stderr so that a sanitizer report is keyed exactly as in the original run */
    }
    if (psCryptoOpen(PSCRYPTO_CONFIG) < 0) { vf_incon("psCryptoOpen failed"); vf_flush(); return 2; }
    RAND_set_rand_method(&drb_meth);
    seed_all("init", 0);
    bnctx = BN_CTX_new();
    build_units();
    long ran = 0;
    for (int i = 0; i < nunits; i++) {
        unit_t *u = &units[i];
        if (replaying) { if (strcmp(u->id, want_unit)) continue; }
        else { if (!vf_mine((long) ((vf_hash(u->id, strlen(u->id)) >> 7) % 1000003))) continue; if (only_scheme && strcmp(only_scheme, u->scheme)) continue; }
        /* RSA keys are generated once in the parent and inherited by the forked units */
        if (u->rk && !rsa_ready(u->rk)) continue;
        if (u->rk2 && !rsa_ready(u->rk2)) continue;
        char spec[200]; snprintf(spec, sizeof spec, "s%llu/%s#", (unsigned long long) vf_seed, u->id);
        vf_fork_case(run_unit, u, u->scheme, spec, vf_thorough ? 3000 : 600);
        ran++;
    }
    if (replaying && !ran) vf_incon("replay spec names no unit: %s", want_unit);
    vf_stat("units", ran);
    vf_flush();
    fflush(NULL);
    _exit(0); /* the parent only holds key material; leak checking is not this check's business */
}
