#!/bin/sh
# import_seed3.sh <PID>: third-round seeds: /tmp/seed3-<PID>/SEED/{A,B} -> seeded/<PID>e|f, drop the worktree
p=$1
for x in A:e B:f; do s=${x%%:*}; l=${x##*:}; if [ -f /tmp/seed3-$p/SEED/$s/patch.diff ]; then mkdir -p /verif/seeded/$p$l; cp /tmp/seed3-$p/SEED/$s/* /verif/seeded/$p$l/ 2>/dev/null; rm -f /verif/seeded/$p$l/demo /verif/seeded/$p$l/demoA /verif/seeded/$p$l/demoB; fi; done
git -C /repo worktree remove --force /tmp/seed3-$p
