#!/bin/sh
# import_seed.sh <PID>: copy /tmp/seed-<PID>/SEED/{A,B} into seeded/<PID>a|b, drop the worktree
p=$1
for x in A:a B:b; do s=${x%%:*}; l=${x##*:}; if [ -f /tmp/seed-$p/SEED/$s/patch.diff ]; then mkdir -p /verif/seeded/$p$l; cp /tmp/seed-$p/SEED/$s/patch.diff /tmp/seed-$p/SEED/$s/demo.c /tmp/seed-$p/SEED/$s/build.sh /tmp/seed-$p/SEED/$s/meta.json /verif/seeded/$p$l/ 2>/dev/null; fi; done
git -C /repo worktree remove --force /tmp/seed-$p
