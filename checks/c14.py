import vflib
WRAPS = ("psGetEntropy", "gettimeofday", "time", "clock_gettime")
def run(ctx):
    st = [dict(variant="asan", name="c14", sources=["checks/c14_resume.c", "harness/mx_wraps.c"], wraps=WRAPS,
               shards=vflib.NCPU, timeout=14400 if ctx.thorough else 1200)]
    rule = ("Each case = one operation of a history executed against the real server in a fork()ed child (fresh process-global session cache per history; "
            "TLS servers enable TLS 1.1, 1.2 and 1.3 at once, the client fixes the version; histories are a pure function of (seed, index): a fixed set of scripted class histories per version x credential kind plus seeded random ones over 4-40 clients and two server key sets). "
            "Operations: full handshake, resume by id / RFC 5077 ticket / TLS 1.3 PSK, replay of any issued credential with the true, a random or an all-zero secret, ClientHello edited on the wire "
            "(session id truncated/edited/replaced, ticket edited/truncated/extended/re-named, PSK identity/age/binder edited, suite removed, cross-version ticket), "
            "extended_master_secret removed from, or inserted first / last / directly after session_ticket into, the hello that presents an id or ticket of a session recorded the other way, and the same mismatch produced by the genuine client's own configuration "
            "(its hello carries session_ticket before extended_master_secret), TLS 1.3 tickets presented by a client on its own clock (clock_gettime offset while the client endpoint is inside the library: stood still, half speed, "
            "claims lifetime-1 s, claims > 24.8 days, ran backwards; the obfuscated_ticket_age on the wire is read back and counted against the ticket's age on the server's clock), other server key set, "
            "other protocol version, clock steps around both lifetimes and far beyond, fatal alert sent/received on a live or resumed connection, close, abandoned handshake, cache fill beyond 32, "
            "ticket key load/delete/rotate. The server's decision is read when its ServerHello flight appears (SSL_FLAGS_RESUMED / ServerHello+ChangeCipherSpec / pre_shared_key) and checked against a "
            "sequential model credential -> {secret, version, suite, EMS, issue time, key, invalidated}; expiry is judged on the server's clock only, the age a client claims never justifies or (for a fresh ticket) forbids a resumption. distinct_nontrivial = distinct (operation, forgery label, credential kind presented, "
            "version, outcome) tuples plus distinct history shapes (hash of the operation-kind sequence).")
    return vflib.std_run(ctx, st, "exploration", rule,
        ["the library's session clock is CLOCK_MONOTONIC (USE_HIGHRES_TIME); it is virtualised together with time()/gettimeofday()",
         "the session cache is process-global: ids issued through either server key set of the same process are 'this server's'; a foreign server is modelled by a second ticket-key set and by fabricated ids",
         "the converse (a valid credential must resume) is asserted only in the quiet positive-control histories; DTLS ticket resumption is not part of the control (MatrixSSL's DTLS client does not complete it)",
         "stateless tickets / TLS 1.3 PSKs cannot be invalidated server-side: invalidation by fatal alert is required for cached sessions only",
         "only the TLS 1.3 client consults the clock (ticket age); certificate validity is checked against time(), which stays common to both endpoints",
         "self-checks: the claimed-ticket-age and ems-differs/ticket scripted histories are inconclusive unless an expired ticket was actually presented with a claimed age inside the lifetime / a non-EMS ticket was actually followed by extended_master_secret on the wire"],
        min_nontrivial=150)
