/* harness self-test: every suite x version completes a handshake and round-trips tagged data */
#include "mx.h"
int main(int argc, char **argv) {
    vf_init(argc, argv); mx_global_init(); mx_keys_load();
    for (int v = 0; v < MX_NVER; v++) for (int i = 0; i < MX_NSUITES; i++) {
        const mx_suite_t *s = &mx_suites[i]; if (!mx_suite_ok_for(s, v)) continue;
        for (int ca = 0; ca < 2; ca++) {
            if (ca && s->auth == MX_AUTH_PSK) continue;
            mx_cfg cfg = { .ver = v, .suite = s->id, .clientAuth = ca }; mx_conn k; sslSessionId_t *sid; matrixSslNewSessionId(&sid, NULL);
            int rc = mx_conn_open(&k, &cfg, sid);
            int steps = rc == 0 ? mx_conn_run(&k, NULL, NULL, 200) : -1;
            int est = rc == 0 && mx_conn_established(&k);
            unsigned char p[300]; int okc = 0, oks = 0;
            if (est) { mx_payload(p, 200, 1, 0, 1); mx_send(&k.c, p, 200); mx_conn_run(&k, NULL, NULL, 50); oks = k.s.gotlen == 200 && !memcmp(k.s.got, p, 200);
                       mx_payload(p, 300, 1, 1, 1); mx_send(&k.s, p, 300); mx_conn_run(&k, NULL, NULL, 50); okc = k.c.gotlen == 300 && !memcmp(k.c.got, p, 300); }
            printf("%-8s %-32s ca=%d open=%d steps=%d est=%d data=%d/%d recs c->s %d s->c %d\n", mx_vername[v], s->name, ca, rc, steps, est, oks, okc, k.delivered[0], k.delivered[1]);
            vf_stat("cases", 1); if (est && okc && oks) vf_distinct("%d-%d-%d", v, i, ca); else vf_violation("selftest:hs-failed", "", "%s %s ca=%d", mx_vername[v], s->name, ca);
            if (rc == 0 || rc == -2) mx_conn_close(&k); matrixSslDeleteSessionId(sid);
        }
    }
    mx_keys_free(); matrixSslClose(); vf_flush(); return 0;
}
