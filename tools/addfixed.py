#!/usr/bin/env python3
"""usage: addfixed.py <property> <finding-id> <grep-for-commit-subject> <what failed> [key patterns...] - dev-time helper (never used by checks)."""
import json, subprocess, sys
pid, fid, subj, what = sys.argv[1:5]; keys = sys.argv[5:]
sha = subprocess.run(["git", "-C", "/repo", "log", "--format=%h", "--grep", subj, "-F", "-1"], capture_output=True, text=True).stdout.strip()
assert sha, "commit not found"
f = json.load(open("/verif/known_findings.json"))
f["findings"].append({"id": fid, "property": pid, "status": "fixed", "commit": sha, "keys": keys, "record": "fixed: property=%s %s %s" % (pid, sha, what)})
json.dump(f, open("/verif/known_findings.json", "w"), indent=1)
print(sha)
