/* Record / handshake-message aware libFuzzer mutator for the C08 network targets
 * (#included by c08_netfuzz.c; uses g_lanes[] to know whether the lane of an input is DTLS).
 *
 * Input = 4 header bytes (lane, flags, cut, chunk seed) + payload.  The payload is parsed leniently
 * into records (TLS 5-byte / DTLS 13-byte headers) and, for handshake records whose body parses,
 * into handshake messages (TLS 4-byte / DTLS 12-byte headers).  One call applies one edit:
 *   header      : other lane of the target, cut +-1 / random, flag bits, chunk seed
 *   record      : duplicate, delete, swap, retype (incl. the sealed-mode pass-through bit), version,
 *                 lying length, truncate, split in two, join with the next, byte-mutate one body,
 *                 DTLS epoch / sequence number edits
 *   handshake   : lying 24-bit length, retype, duplicate / delete / swap / transplant messages,
 *                 split a message over several records at arbitrary points (TLS fragmentation),
 *                 coalesce the messages of two records, byte-mutate one message body (lengths
 *                 re-computed 3/4 of the time), grow / shrink a body, overwrite a 1/2/3-byte field
 *                 inside a body with a boundary value of the remaining length, grow (padding) / shrink one length-prefixed
 *                 vector element with all enclosing vector, handshake and record lengths kept consistent,
 *                 DTLS message_seq / fragment_offset / fragment_length edits (incl. values beyond
 *                 the record and the message) and re-fragmentation into 2-4 fragments (in order,
 *                 shuffled, overlapping, duplicated)
 * and 1/4 of all calls (and anything unparsable) fall back to LLVMFuzzerMutate on the payload.
 * All randomness derives from libFuzzer's Seed argument. */

typedef struct { uint32_t s; } mrng_t;
static uint32_t mr(mrng_t *r) { uint32_t x = r->s; x ^= x << 13; x ^= x >> 17; x ^= x << 5; return r->s = x ? x : 0x9e3779b9u; }
static uint32_t mb(mrng_t *r, uint32_t n) { return n ? mr(r) % n : 0; }

#define M_MAXR 96
#define M_MAXM 64
#define M_CAP (C08_MAXIN + 4096)
typedef struct { int off, h, blen, dlen; } mrec_t;           /* header offset, header size, body bytes present, declared length */
typedef struct { int off, hh, blen, dlen; } mmsg_t;           /* offsets relative to the record body */
static mrec_t m_r[M_MAXR]; static int m_nr;
static mmsg_t m_m[M_MAXM]; static int m_nm;
static uint8_t m_out[M_CAP], m_tmp[M_CAP], m_tmp2[M_CAP];
static int m_on;

static int m_parse_recs(const uint8_t *p, int n, int dtls)
{
    int off = 0, h = dtls ? 13 : 5; m_nr = 0;
    while (off + h <= n && m_nr < M_MAXR) {
        int dl = (p[off + h - 2] << 8) | p[off + h - 1], bl = dl;
        if (off + h + bl > n) bl = n - off - h;
        m_r[m_nr].off = off; m_r[m_nr].h = h; m_r[m_nr].blen = bl; m_r[m_nr].dlen = dl; m_nr++;
        off += h + bl;
    }
    return m_nr;
}
static int m_parse_msgs(const uint8_t *b, int n, int dtls)
{
    int off = 0, hh = dtls ? 12 : 4; m_nm = 0;
    while (off + hh <= n && m_nm < M_MAXM) {
        int dl = (b[off + 1] << 16) | (b[off + 2] << 8) | b[off + 3], bl;
        if (dtls) { int fl = (b[off + 9] << 16) | (b[off + 10] << 8) | b[off + 11]; bl = fl; } else bl = dl;
        if (off + hh + bl > n) bl = n - off - hh;
        m_m[m_nm].off = off; m_m[m_nm].hh = hh; m_m[m_nm].blen = bl; m_m[m_nm].dlen = dl; m_nm++;
        off += hh + bl;
    }
    return off == n ? m_nm : 0;     /* only a body that is exactly a sequence of messages counts as parsed */
}
static void m_put(const uint8_t *p, int n) { if (n > 0 && m_on + n <= M_CAP) { memcpy(m_out + m_on, p, n); m_on += n; } }
static void m_put_rec_hdr(const uint8_t *hdr, int h, int len, int seqadd)
{
    if (m_on + h > M_CAP) return;
    memcpy(m_out + m_on, hdr, h);
    m_out[m_on + h - 2] = len >> 8; m_out[m_on + h - 1] = len;
    if (h == 13 && seqadd) m_out[m_on + 10] += seqadd;
    m_on += h;
}
static void m_set24(uint8_t *p, int v) { p[0] = v >> 16; p[1] = v >> 8; p[2] = v; }
static int m_special_len(mrng_t *g, int actual, int wide)
{
    switch (mb(g, 12)) {
    case 0: return 0;
    case 1: return 1;
    case 2: return actual + 1;
    case 3: return actual > 0 ? actual - 1 : 0;
    case 4: return actual + 1 + mb(g, 64);
    case 5: return wide >= 3 ? 59000 : 16385;
    case 6: return wide >= 3 ? 0xffffff : wide == 2 ? 0xffff : 0xff;
    case 7: return wide >= 3 ? 65536 + (int) mb(g, 3) - 1 : 16384;
    case 8: return wide >= 3 ? 1024 + (int) mb(g, 3) - 1 : 18432 + (int) mb(g, 3);
    case 9: return actual / 2;
    case 10: return wide >= 2 ? 0x8000 + (int) mb(g, 2) - 1 : 0x80;
    default: return (int) mb(g, wide >= 2 ? 70000 : 256);
    }
}
/* positions inside b[0..n) that look like genuine length prefixes: a 1/2/3-byte big-endian value whose vector ends exactly at a
   known boundary (end of the message, or the start of an item found further right).  Scanned right to left. */
typedef struct { int p, w, v; } mlenf_t;
static int m_find_lenfields(const uint8_t *b, int n, mlenf_t *out, int max)
{
    static uint8_t bound[M_CAP + 8];
    int cnt = 0;
    if (n <= 0 || n > M_CAP) return 0;
    memset(bound, 0, (size_t) n + 4); bound[n] = 1;
    for (int p = n - 1; p >= 0 && cnt < max; p--) {
        for (int w = 3; w >= 1; w--) {
            if (p + w > n) continue;
            int v = 0; for (int i = 0; i < w; i++) v = (v << 8) | b[p + i];
            int e = p + w + v;
            if (e <= n && bound[e] && (v > 0 || w == 2)) {
                /* "00 LL LL" read at p+1 as a 2-byte and at p as a 3-byte length is ONE field: keep the wider reading */
                if (cnt > 0 && out[cnt - 1].p > p && out[cnt - 1].p + out[cnt - 1].w == p + w && out[cnt - 1].v == v) cnt--;
                out[cnt].p = p; out[cnt].w = w; out[cnt].v = v; cnt++;
                bound[p] = 1; if (p >= 2) bound[p - 2] = 1;     /* the item may start with a 2-byte type before its length */
                break;
            }
        }
    }
    return cnt;
}
static const uint8_t m_hstypes[] = { 0, 1, 2, 3, 4, 5, 8, 11, 12, 13, 14, 15, 16, 20, 21, 22, 23, 24, 67, 254 };
static const uint8_t m_rectypes[] = { 20, 21, 22, 23, 24, 25, 0, 255, 0x80 | 20, 0x80 | 21, 0x80 | 22, 0x80 | 23 };

/* re-emit record ri with a new body (optionally keeping the stale declared length) */
static void m_emit_rec(const uint8_t *pl, int ri, const uint8_t *body, int blen, int keepdecl)
{
    m_put_rec_hdr(pl + m_r[ri].off, m_r[ri].h, keepdecl ? m_r[ri].dlen : blen, 0);
    m_put(body, blen);
}
static void m_copy_recs(const uint8_t *pl, int from, int to) { for (int i = from; i < to; i++) m_put(pl + m_r[i].off, m_r[i].h + m_r[i].blen); }
static void m_copy_tail(const uint8_t *pl, int pn) { if (m_nr) { int e = m_r[m_nr - 1].off + m_r[m_nr - 1].h + m_r[m_nr - 1].blen; m_put(pl + e, pn - e); } else m_put(pl, pn); }

static int m_header_edit(uint8_t *d, mrng_t *g)
{
    switch (mb(g, 8)) {
    case 0: d[0] = (uint8_t) mb(g, g_nlanes ? g_nlanes : 1); break;
    case 1: d[2]++; break;
    case 2: d[2]--; break;
    case 3: d[2] = (uint8_t) mb(g, 40); break;
    case 4: d[1] ^= (uint8_t) (1u << mb(g, 6)); break;
    case 5: d[3] = (uint8_t) mr(g); break;
    case 6: d[3] = 0; break;
    default: d[1] ^= F_SEALED; break;
    }
    return 1;
}

/* handshake-level edit inside record ri; returns 1 when m_out holds the new payload */
static int m_hs_edit(const uint8_t *pl, int pn, int ri, int dtls, mrng_t *g, size_t room)
{
    const uint8_t *body = pl + m_r[ri].off + m_r[ri].h; int bl = m_r[ri].blen;
    if (!m_parse_msgs(body, bl, dtls)) return 0;
    int mi = (int) mb(g, m_nm); mmsg_t *M = &m_m[mi]; int hh = M->hh;
    int nb = 0;                                   /* new body of record ri in m_tmp */
#define TPUT(p, n) do { if ((n) > 0 && nb + (n) <= M_CAP) { memcpy(m_tmp + nb, (p), (n)); nb += (n); } } while (0)
    int op = (int) mb(g, dtls ? 19 : 15);
    if (op >= (dtls ? 16 : 12)) op = 7;          /* length-field lies get a larger share */
    if (mb(g, 7) == 0) op = 100;                  /* consistent grow / shrink of one vector element */
    int multi = 0;                                /* the op emits records itself */
    switch (op) {
    case 0: /* lying handshake length */
        TPUT(body, bl); m_set24(m_tmp + M->off + 1, m_special_len(g, M->dlen, 3)); break;
    case 1: /* retype */
        TPUT(body, bl); m_tmp[M->off] = mb(g, 4) ? m_hstypes[mb(g, sizeof m_hstypes)] : (uint8_t) mr(g); break;
    case 2: /* duplicate message */
        TPUT(body, M->off + hh + M->blen); TPUT(body + M->off, hh + M->blen); TPUT(body + M->off + hh + M->blen, bl - (M->off + hh + M->blen)); break;
    case 3: /* delete message */
        if (m_nm < 2) return 0;
        TPUT(body, M->off); TPUT(body + M->off + hh + M->blen, bl - (M->off + hh + M->blen)); break;
    case 4: { /* swap with next */
        if (mi + 1 >= m_nm) return 0; mmsg_t *N = &m_m[mi + 1];
        TPUT(body, M->off); TPUT(body + N->off, N->hh + N->blen); TPUT(body + M->off, hh + M->blen); TPUT(body + N->off + N->hh + N->blen, bl - (N->off + N->hh + N->blen)); break; }
    case 5: { /* byte-mutate the message body, lengths consistent 3/4 */
        uint8_t *w = m_tmp2; int cap = M->blen + 256; if (cap > M_CAP - 16) cap = M_CAP - 16;
        memcpy(w, body + M->off + hh, M->blen);
        int nl = (int) LLVMFuzzerMutate(w, M->blen, cap);
        TPUT(body, M->off + hh);
        if (mb(g, 4)) { m_set24(m_tmp + M->off + 1, nl); if (dtls) { m_set24(m_tmp + M->off + 6, 0); m_set24(m_tmp + M->off + 9, nl); } }
        TPUT(w, nl);
        TPUT(body + M->off + hh + M->blen, bl - (M->off + hh + M->blen)); break; }
    case 6: { /* grow / shrink the body consistently */
        int nl = mb(g, 2) ? (int) mb(g, M->blen + 1) : M->blen + 1 + (int) mb(g, mb(g, 4) ? 40 : 3000);
        TPUT(body, M->off + hh); m_set24(m_tmp + M->off + 1, nl); if (dtls) { m_set24(m_tmp + M->off + 6, 0); m_set24(m_tmp + M->off + 9, nl); }
        if (nl <= M->blen) TPUT(body + M->off + hh, nl);
        else { TPUT(body + M->off + hh, M->blen); for (int i = M->blen; i < nl && nb < M_CAP; i++) m_tmp[nb++] = (uint8_t) (mb(g, 4) ? 0 : mr(g)); }
        TPUT(body + M->off + hh + M->blen, bl - (M->off + hh + M->blen)); break; }
    case 7: { /* a length field inside the body lies: either a field that really is a vector length (found structurally), or any position */
        if (M->blen < 2) return 0;
        TPUT(body, bl);
        if (mb(g, 4)) {
            static mlenf_t lf[256]; int nl = m_find_lenfields(body + M->off + hh, M->blen, lf, 256);
            if (nl > 0) {
                mlenf_t *f = &lf[mb(g, nl)]; int v;
                switch (mb(g, 8)) { case 0: v = f->v + 1; break; case 1: v = f->v > 0 ? f->v - 1 : 1; break; case 2: v = f->w == 1 ? 0xff : f->w == 2 ? 0xffff : 0xffffff; break;
                                   case 3: v = 0; break; case 4: v = f->v + 2 + (int) mb(g, 300); break; case 5: v = f->w == 1 ? 0x80 + (int) mb(g, 0x7f) : 1200 + (int) mb(g, 40000); break;
                                   case 6: v = f->v * 2 + 1; break; default: v = M->blen - f->p - f->w + 1 + (int) mb(g, 3); }
                uint8_t *q = m_tmp + M->off + hh + f->p;
                if (f->w == 1) q[0] = v; else if (f->w == 2) { q[0] = v >> 8; q[1] = v; } else m_set24(q, v);
                break;
            }
        }
        int w = 1 + (int) mb(g, 3), p = (int) mb(g, M->blen), rem; if (p + w > M->blen) { w = 1; p = M->blen - 1; }
        rem = M->blen - p - w;
        int v = mb(g, 3) ? rem + (int) mb(g, 5) - 2 : m_special_len(g, rem, w); if (v < 0) v = 0;
        uint8_t *q = m_tmp + M->off + hh + p;
        if (w == 1) q[0] = v; else if (w == 2) { q[0] = v >> 8; q[1] = v; } else m_set24(q, v);
        break; }
    case 8: { /* TLS: split the message over 2..3 records at arbitrary points; DTLS: split the RECORD after the message */
        int tot = hh + M->blen, a = 1 + (int) mb(g, tot > 1 ? tot - 1 : 1), b = a + (int) mb(g, tot - a + 1);
        if (mb(g, 3) == 0) a = 1 + (int) mb(g, hh);          /* inside the handshake header */
        if (a > tot) a = tot; if (b < a) b = a;
        m_copy_recs(pl, 0, ri);
        m_put_rec_hdr(pl + m_r[ri].off, m_r[ri].h, M->off + a, 0); m_put(body, M->off + a);
        if (b > a) { m_put_rec_hdr(pl + m_r[ri].off, m_r[ri].h, b - a, 1); m_put(body + M->off + a, b - a); }
        m_put_rec_hdr(pl + m_r[ri].off, m_r[ri].h, bl - (M->off + b), 2); m_put(body + M->off + b, bl - (M->off + b));
        m_copy_recs(pl, ri + 1, m_nr); m_copy_tail(pl, pn); multi = 1; break; }
    case 9: { /* coalesce with the next record's body (whatever it is) */
        if (ri + 1 >= m_nr) return 0;
        TPUT(body, bl); TPUT(pl + m_r[ri + 1].off + m_r[ri + 1].h, m_r[ri + 1].blen);
        m_copy_recs(pl, 0, ri); m_emit_rec(pl, ri, m_tmp, nb, 0); m_copy_recs(pl, ri + 2, m_nr); m_copy_tail(pl, pn); multi = 1; break; }
    case 10: { /* transplant a message from another handshake record */
        int rj = (int) mb(g, m_nr); if (rj == ri || (pl[m_r[rj].off] & 0x7f) != 22) return 0;
        mmsg_t sv[M_MAXM]; int nsv = m_nm; memcpy(sv, m_m, sizeof(mmsg_t) * m_nm);
        const uint8_t *ob = pl + m_r[rj].off + m_r[rj].h;
        if (!m_parse_msgs(ob, m_r[rj].blen, dtls)) return 0;
        mmsg_t X = m_m[mb(g, m_nm)]; memcpy(m_m, sv, sizeof(mmsg_t) * nsv); m_nm = nsv;
        int at = mb(g, 2) ? M->off : M->off + hh + M->blen;
        TPUT(body, at); TPUT(ob + X.off, X.hh + X.blen); TPUT(body + at, bl - at); break; }
    case 100: { /* grow (padding) or shrink ONE length-prefixed vector element by k bytes and keep every enclosing vector length, the
                   handshake length, the DTLS fragment length and (below) the record length consistent */
        static mlenf_t lf[1024]; const uint8_t *mbdy = body + M->off + hh;
        int nl = m_find_lenfields(mbdy, M->blen, lf, 1024);
        if (nl <= 0) return 0;
        /* the scan runs right to left, so the outermost vectors (certificate_list, its entries, extension blocks) are the LAST
           candidates: half of the time pick among those, otherwise anywhere (DER long-form lengths inside certificates qualify too) */
        mlenf_t f = lf[mb(g, 2) ? nl - 1 - (int) mb(g, nl < 4 ? nl : 4) : (int) mb(g, nl)]; int fend = f.p + f.w + f.v;
        int k = mb(g, 8) ? 1 + (int) mb(g, 8) : 1 + (int) mb(g, 256), grow = (int) mb(g, 4) != 0;
        if (!grow) { if (f.v == 0) return 0; if (k > f.v) k = f.v; k = -k; }
        if (M->blen + k > 65535 + 64 || nb + bl + k + 16 > M_CAP) return 0;
        TPUT(body, M->off + hh);
        int mstart = nb;
        if (grow) { TPUT(mbdy, fend); for (int i = 0; i < k && nb < M_CAP; i++) m_tmp[nb++] = (uint8_t) (mb(g, 3) ? 0 : mr(g)); TPUT(mbdy + fend, M->blen - fend); }
        else { TPUT(mbdy, fend + k); TPUT(mbdy + fend, M->blen - fend); }
        for (int i = 0; i < nl; i++) {          /* f itself and everything that encloses it */
            mlenf_t *e = &lf[i];
            if (e->p > f.p || e->p + e->w + e->v < fend || (e->p != f.p && e->p + e->w > f.p)) continue;
            int v = e->v + k; uint8_t *q = m_tmp + mstart + e->p;
            if (v < 0 || (e->w == 1 && v > 0xff) || (e->w == 2 && v > 0xffff)) continue;
            if (e->w == 1) q[0] = v; else if (e->w == 2) { q[0] = v >> 8; q[1] = v; } else m_set24(q, v);
        }
        m_set24(m_tmp + M->off + 1, M->dlen + k);
        if (dtls) m_set24(m_tmp + M->off + 9, M->blen + k);
        TPUT(body + M->off + hh + M->blen, bl - (M->off + hh + M->blen));
        break; }
    case 11: { /* truncate the record inside the message, message header untouched */
        int keepn = M->off + (int) mb(g, hh + M->blen); TPUT(body, keepn); break; }
    case 12: { /* DTLS message_seq */
        TPUT(body, bl); int ms = (m_tmp[M->off + 4] << 8) | m_tmp[M->off + 5];
        ms = mb(g, 3) == 0 ? (int) mb(g, 65536) : ms + (int) mb(g, 5) - 2; m_tmp[M->off + 4] = ms >> 8; m_tmp[M->off + 5] = ms; break; }
    case 13: { /* DTLS fragment_offset */
        TPUT(body, bl); int v;
        switch (mb(g, 6)) { case 0: v = M->dlen; break; case 1: v = M->dlen ? M->dlen - 1 : 0; break; case 2: v = 0xffffff; break; case 3: v = (int) mb(g, M->dlen + 1); break; case 4: v = 1; break; default: v = M->dlen - M->blen + (int) mb(g, 3) - 1; if (v < 0) v = 0; }
        m_set24(m_tmp + M->off + 6, v); break; }
    case 14: { /* DTLS fragment_length (the body stays): beyond the record, beyond the message, zero, ... */
        TPUT(body, bl); m_set24(m_tmp + M->off + 9, m_special_len(g, M->blen, 3));
        if (mb(g, 2)) m_set24(m_tmp + M->off + 1, m_special_len(g, M->dlen, 3));
        break; }
    default: { /* DTLS re-fragmentation: the message as 2..4 fragments, one record each */
        int nf = 2 + (int) mb(g, 3), style = (int) mb(g, 5), L = M->blen; if (L < nf) return 0;
        int cutp[6]; cutp[0] = 0; for (int i = 1; i < nf; i++) cutp[i] = cutp[i - 1] + 1 + (int) mb(g, (L - cutp[i - 1]) - (nf - i)); cutp[nf] = L;
        int order[5]; for (int i = 0; i < nf; i++) order[i] = i;
        if (style == 1 || style == 3) for (int i = nf - 1; i > 0; i--) { int j = (int) mb(g, i + 1), t = order[i]; order[i] = order[j]; order[j] = t; }
        m_copy_recs(pl, 0, ri);
        if (M->off) m_emit_rec(pl, ri, body, M->off, 0);
        for (int k = 0; k < nf + (style == 4); k++) {
            int f = order[k % nf], fo = cutp[f], fl = cutp[f + 1] - cutp[f];
            if (style == 2 && f > 0) { int ov = 1 + (int) mb(g, fo < 8 ? fo : 8); fo -= ov; fl += ov; }      /* overlap */
            uint8_t hb[12]; memcpy(hb, body + M->off, 12); m_set24(hb + 1, L); m_set24(hb + 6, fo); m_set24(hb + 9, fl);
            m_put_rec_hdr(pl + m_r[ri].off, m_r[ri].h, 12 + fl, k + 1); m_put(hb, 12); m_put(body + M->off + hh + fo, fl);
        }
        int rest = M->off + hh + M->blen;
        if (bl > rest) { m_put_rec_hdr(pl + m_r[ri].off, m_r[ri].h, bl - rest, nf + 2); m_put(body + rest, bl - rest); }
        m_copy_recs(pl, ri + 1, m_nr); m_copy_tail(pl, pn); multi = 1; break; }
    }
#undef TPUT
    if (!multi) { m_copy_recs(pl, 0, ri); m_emit_rec(pl, ri, m_tmp, nb, op == 11 && mb(g, 2)); m_copy_recs(pl, ri + 1, m_nr); m_copy_tail(pl, pn); }
    (void) room;
    return 1;
}

static int m_rec_edit(const uint8_t *pl, int pn, int dtls, mrng_t *g, size_t room)
{
    if (!m_parse_recs(pl, pn, dtls)) return 0;
    int ri = (int) mb(g, m_nr); mrec_t *R = &m_r[ri]; const uint8_t *body = pl + R->off + R->h;
    /* handshake records: mostly message-level edits */
    if ((pl[R->off] & 0x7f) == 22 && mb(g, 3) && m_hs_edit(pl, pn, ri, dtls, g, room)) return 1;
    m_on = 0;
    switch (mb(g, dtls ? 13 : 11)) {
    case 0: { int at = (int) mb(g, m_nr + 1); m_copy_recs(pl, 0, at); m_put(pl + R->off, R->h + R->blen); m_copy_recs(pl, at, m_nr); m_copy_tail(pl, pn); break; }
    case 1: if (m_nr < 2) return 0; m_copy_recs(pl, 0, ri); m_copy_recs(pl, ri + 1, m_nr); m_copy_tail(pl, pn); break;
    case 2: { int rj = (int) mb(g, m_nr); if (rj == ri) return 0; int a = ri < rj ? ri : rj, b = ri < rj ? rj : ri;
        m_copy_recs(pl, 0, a); m_copy_recs(pl, b, b + 1); m_copy_recs(pl, a + 1, b); m_copy_recs(pl, a, a + 1); m_copy_recs(pl, b + 1, m_nr); m_copy_tail(pl, pn); break; }
    case 3: m_put(pl, pn); m_out[R->off] = mb(g, 5) ? m_rectypes[mb(g, sizeof m_rectypes)] : (uint8_t) mr(g); break;
    case 4: m_put(pl, pn); if (mb(g, 2)) m_out[R->off + 1] = (uint8_t) (mb(g, 2) ? mr(g) : (dtls ? 254 : 3)); m_out[R->off + 2] = (uint8_t) (mb(g, 3) ? (dtls ? 252 + mb(g, 4) : mb(g, 6)) : mr(g)); break;
    case 5: { int v = m_special_len(g, R->blen, 2); m_put(pl, pn); m_out[R->off + R->h - 2] = v >> 8; m_out[R->off + R->h - 1] = v; break; }
    case 6: { int keepn = (int) mb(g, R->blen + 1); m_copy_recs(pl, 0, ri); m_emit_rec(pl, ri, body, keepn, (int) mb(g, 2)); m_copy_recs(pl, ri + 1, m_nr); m_copy_tail(pl, pn); break; }
    case 7: { int a = (int) mb(g, R->blen + 1); m_copy_recs(pl, 0, ri); m_put_rec_hdr(pl + R->off, R->h, a, 0); m_put(body, a); m_put_rec_hdr(pl + R->off, R->h, R->blen - a, 1); m_put(body + a, R->blen - a); m_copy_recs(pl, ri + 1, m_nr); m_copy_tail(pl, pn); break; }
    case 8: { if (ri + 1 >= m_nr) return 0; mrec_t *N = &m_r[ri + 1]; m_copy_recs(pl, 0, ri); m_put_rec_hdr(pl + R->off, R->h, R->blen + N->blen, 0); m_put(body, R->blen); m_put(pl + N->off + N->h, N->blen); m_copy_recs(pl, ri + 2, m_nr); m_copy_tail(pl, pn); break; }
    case 9: case 10: { int cap = R->blen + 512; if (cap > M_CAP - 64) cap = M_CAP - 64; memcpy(m_tmp, body, R->blen); int nl = (int) LLVMFuzzerMutate(m_tmp, R->blen, cap);
        m_copy_recs(pl, 0, ri); m_emit_rec(pl, ri, m_tmp, nl, mb(g, 5) == 0); m_copy_recs(pl, ri + 1, m_nr); m_copy_tail(pl, pn); break; }
    case 11: { m_put(pl, pn); uint8_t *e = m_out + R->off + 3; int ep = (e[0] << 8) | e[1];
        switch (mb(g, 5)) { case 0: ep++; break; case 1: ep--; break; case 2: ep = 0; break; case 3: ep = 1; break; default: ep = (int) mb(g, 65536); }
        e[0] = ep >> 8; e[1] = ep; break; }
    default: { m_put(pl, pn); uint8_t *s = m_out + R->off + 5;
        switch (mb(g, 5)) { case 0: memset(s, 0, 6); break; case 1: s[5]++; break; case 2: s[5] -= 1 + mb(g, 40); break; case 3: memset(s, 0xff, 6); break; default: if (m_nr > 1) memcpy(s, pl + m_r[mb(g, m_nr)].off + 5, 6); else s[4] ^= 1; }
        break; }
    }
    (void) room;
    return 1;
}

size_t LLVMFuzzerCustomMutator(uint8_t *data, size_t size, size_t max, unsigned int seed)
{
    mrng_t g = { seed * 2654435761u + 0x9e3779b9u };
    if (max < 8) return LLVMFuzzerMutate(data, size, max);
    if (size < 4) { /* give it a header */ uint8_t h[4] = { (uint8_t) mr(&g), (uint8_t) (mr(&g) & 0x3f), (uint8_t) mb(&g, 12), (uint8_t) (mb(&g, 2) ? mr(&g) : 0) }; memcpy(data, h, 4); size = 4; }
    uint32_t pick = mb(&g, 100);
    if (pick < 8) { m_header_edit(data, &g); return size; }
    if (pick < 30 || size == 4) {
        size_t n = LLVMFuzzerMutate(data + 4, size - 4, max - 4);
        return 4 + n;
    }
    if (pick < 33) return LLVMFuzzerMutate(data, size, max);
    int dtls = g_nlanes ? g_lanes[data[0] % g_nlanes].dtls : 0;
    m_on = 0;
    if (m_rec_edit(data + 4, (int) (size - 4), dtls, &g, max - 4) && m_on > 0 && (size_t) m_on + 4 <= max && (m_on != (int) (size - 4) || memcmp(m_out, data + 4, m_on))) {
        memcpy(data + 4, m_out, m_on);
        if (mb(&g, 10) == 0) m_header_edit(data, &g);
        return 4 + (size_t) m_on;
    }
    return 4 + LLVMFuzzerMutate(data + 4, size - 4, max - 4);
}

/* splice at record granularity: header and a prefix of records from the first input, records of the second, the rest of the first */
size_t LLVMFuzzerCustomCrossOver(const uint8_t *d1, size_t s1, const uint8_t *d2, size_t s2, uint8_t *out, size_t max, unsigned int seed)
{
    mrng_t g = { seed * 2246822519u + 77 };
    if (s1 < 4 || s2 < 4 || max < 8) { size_t n = s1 < max ? s1 : max; memcpy(out, d1, n); return n; }
    int dt1 = g_nlanes ? g_lanes[d1[0] % g_nlanes].dtls : 0, dt2 = g_nlanes ? g_lanes[d2[0] % g_nlanes].dtls : 0;
    mrec_t r1[M_MAXR]; int n1;
    n1 = m_parse_recs(d1 + 4, (int) s1 - 4, dt1); memcpy(r1, m_r, sizeof(mrec_t) * n1);
    int n2 = dt1 == dt2 ? m_parse_recs(d2 + 4, (int) s2 - 4, dt2) : 0;
    m_on = 0;
    if (n1 && n2) {
        int a = (int) mb(&g, n1 + 1), b0 = (int) mb(&g, n2), b1 = b0 + 1 + (int) mb(&g, n2 - b0), skip = (int) mb(&g, 2);
        for (int i = 0; i < a; i++) m_put(d1 + 4 + r1[i].off, r1[i].h + r1[i].blen);
        for (int i = b0; i < b1; i++) m_put(d2 + 4 + m_r[i].off, m_r[i].h + m_r[i].blen);
        for (int i = a + skip; i < n1; i++) m_put(d1 + 4 + r1[i].off, r1[i].h + r1[i].blen);
    } else {
        int a = (int) mb(&g, (uint32_t) s1 - 3), b = (int) mb(&g, (uint32_t) s2 - 3);
        m_put(d1 + 4, a); m_put(d2 + 4 + b, (int) s2 - 4 - b);
    }
    if ((size_t) m_on + 4 > max) m_on = (int) max - 4;
    memcpy(out, d1, 4); memcpy(out + 4, m_out, m_on);
    if (mb(&g, 4) == 0) out[2] = d2[2];
    return 4 + (size_t) m_on;
}
