/* mx_surgeon.h - the "key-holding peer": opens and seals records with libcrypto using keys read
 * from an endpoint's ssl_t (attacker strength 2 in DESIGN.md 2.4). */
#ifndef MX_SURGEON_H
#define MX_SURGEON_H
#include "mx.h"
#include <openssl/evp.h>
#include <openssl/hmac.h>

static int mx13_keylen(uint16_t suite) { return suite == 0x1301 ? 16 : 32; }
static const EVP_CIPHER *mx13_cipher(uint16_t suite) { return suite == 0x1301 ? EVP_aes_128_gcm() : suite == 0x1302 ? EVP_aes_256_gcm() : EVP_chacha20_poly1305(); }
static void mx13_nonce(const unsigned char iv[12], unsigned long long seq, unsigned char out[12]) { memcpy(out, iv, 12); for (int i = 0; i < 8; i++) out[11 - i] ^= (unsigned char) (seq >> (8 * i)); }
static unsigned long long mx_seq8(const unsigned char s[8]) { unsigned long long v = 0; for (int i = 0; i < 8; i++) v = (v << 8) | s[i]; return v; }

/* seal inner (content || type byte already appended by caller) -> rec (5 + il + 16). outerType normally 23 */
static int mx13_seal(uint16_t suite, const unsigned char *key, const unsigned char *iv, unsigned long long seq,
                     const unsigned char *inner, int il, int outerType, unsigned char *rec)
{
    unsigned char n[12]; int l = 0, l2 = 0;
    rec[0] = (unsigned char) outerType; rec[1] = 3; rec[2] = 3; rec[3] = (unsigned char) ((il + 16) >> 8); rec[4] = (unsigned char) (il + 16);
    mx13_nonce(iv, seq, n);
    EVP_CIPHER_CTX *x = EVP_CIPHER_CTX_new();
    EVP_EncryptInit_ex(x, mx13_cipher(suite), NULL, NULL, NULL);
    EVP_CIPHER_CTX_ctrl(x, EVP_CTRL_AEAD_SET_IVLEN, 12, NULL);
    EVP_EncryptInit_ex(x, NULL, NULL, key, n);
    unsigned char aad[5] = { 23, 3, 3, rec[3], rec[4] };   /* the AAD a conforming sender uses */
    EVP_EncryptUpdate(x, NULL, &l, aad, 5);
    EVP_EncryptUpdate(x, rec + 5, &l, inner, il);
    EVP_EncryptFinal_ex(x, rec + 5 + l, &l2);
    EVP_CIPHER_CTX_ctrl(x, EVP_CTRL_AEAD_GET_TAG, 16, rec + 5 + il);
    EVP_CIPHER_CTX_free(x);
    return 5 + il + 16;
}
/* open rec (with 5-byte header) -> out; returns inner length (content+type+padding) or -1 */
static int mx13_open(uint16_t suite, const unsigned char *key, const unsigned char *iv, unsigned long long seq,
                     const unsigned char *rec, int reclen, unsigned char *out)
{
    int ctl = reclen - 5 - 16, l = 0, l2 = 0; unsigned char n[12];
    if (ctl < 0) return -1;
    mx13_nonce(iv, seq, n);
    EVP_CIPHER_CTX *x = EVP_CIPHER_CTX_new();
    EVP_DecryptInit_ex(x, mx13_cipher(suite), NULL, NULL, NULL);
    EVP_CIPHER_CTX_ctrl(x, EVP_CTRL_AEAD_SET_IVLEN, 12, NULL);
    EVP_DecryptInit_ex(x, NULL, NULL, key, n);
    EVP_DecryptUpdate(x, NULL, &l, rec, 5);
    EVP_DecryptUpdate(x, out, &l, rec + 5, ctl);
    EVP_CIPHER_CTX_ctrl(x, EVP_CTRL_AEAD_SET_TAG, 16, (void *) (rec + 5 + ctl));
    int ok = EVP_DecryptFinal_ex(x, out + l, &l2);
    EVP_CIPHER_CTX_free(x);
    return ok > 0 ? ctl : -1;
}

/* ---- authentic records under the sender's CURRENT write state (any version) ----
 * mx_seal_as(sender, type, content, len, out): builds the record an endpoint holding `sender`'s
 * keys could legitimately send next (content type and content are arbitrary), and advances the
 * sender's write sequence number so that its later honest records stay in sequence.
 * Returns the record length, or -1 when the sender is not encrypting / the suite is not handled. */
static void mx_incr_be(unsigned char *s, int n) { for (int i = n - 1; i >= 0; i--) if (++s[i]) break; }
static int mx_seal_as(mx_ep *snd, int type, const unsigned char *content, int len, unsigned char *out)
{
    ssl_t *ssl = snd->ssl; int dtls = MX_IS_DTLS(snd->ver);
    if (!(ssl->flags & SSL_FLAGS_WRITE_SECURE) || !ssl->cipher) return -1;
    if (snd->ver == MX_TLS13) {
        const unsigned char *key; sslSec_t *sc = &ssl->sec; uint16_t suite = ssl->cipher->ident;
        if (!memcmp(sc->tls13WriteIv, sc->tls13AppWriteIv, 12)) key = sc->tls13AppWriteKey;
        else if (!memcmp(sc->tls13WriteIv, sc->tls13HsWriteIv, 12)) key = sc->tls13HsWriteKey;
        else if (!memcmp(sc->tls13WriteIv, sc->tls13EarlyDataIv, 12)) key = sc->tls13EarlyDataKey;
        else return -1;
        unsigned char *inner = malloc(len + 1); memcpy(inner, content, len); inner[len] = (unsigned char) type;
        int n = mx13_seal(suite, key, sc->tls13WriteIv, mx_seq8(sc->seq), inner, len + 1, 23, out);
        free(inner); mx_incr_be(sc->seq, 8);
        return n;
    }
    int maj = dtls ? 254 : 3, min = snd->ver == MX_TLS11 ? 2 : snd->ver == MX_TLS12 ? 3 : snd->ver == MX_DTLS10 ? 255 : 253;
    unsigned char seq[8]; int h = dtls ? 13 : 5;
    if (dtls) { memcpy(seq, ssl->epoch, 2); memcpy(seq + 2, ssl->rsn, 6); } else memcpy(seq, ssl->sec.seq, 8);
    out[0] = (unsigned char) type; out[1] = maj; out[2] = min;
    if (dtls) memcpy(out + 3, seq, 8);
    int keylen = ssl->cipher->keySize, bodylen;
    if (ssl->cipher->flags & CRYPTO_FLAGS_GCM) {
        unsigned char nonce[12], aad[13]; int l = 0, l2 = 0;
        memcpy(nonce, ssl->sec.writeIV, 4); memcpy(nonce + 4, seq, 8);
        memcpy(aad, seq, 8); aad[8] = type; aad[9] = maj; aad[10] = min; aad[11] = len >> 8; aad[12] = len;
        memcpy(out + h, seq, 8);
        EVP_CIPHER_CTX *x = EVP_CIPHER_CTX_new();
        EVP_EncryptInit_ex(x, keylen == 16 ? EVP_aes_128_gcm() : EVP_aes_256_gcm(), NULL, NULL, NULL);
        EVP_CIPHER_CTX_ctrl(x, EVP_CTRL_AEAD_SET_IVLEN, 12, NULL);
        EVP_EncryptInit_ex(x, NULL, NULL, ssl->sec.writeKey, nonce);
        EVP_EncryptUpdate(x, NULL, &l, aad, 13);
        EVP_EncryptUpdate(x, out + h + 8, &l, content, len);
        EVP_EncryptFinal_ex(x, out + h + 8 + l, &l2);
        EVP_CIPHER_CTX_ctrl(x, EVP_CTRL_AEAD_GET_TAG, 16, out + h + 8 + len);
        EVP_CIPHER_CTX_free(x);
        bodylen = 8 + len + 16;
    } else if ((ssl->cipher->flags & CRYPTO_FLAGS_AES) || (ssl->cipher->flags & CRYPTO_FLAGS_AES256)) {
        int ms = ssl->enMacSize; unsigned int ml = 0; unsigned char mac[64], hdr13[13];
        const EVP_MD *md = ms == 20 ? EVP_sha1() : ms == 32 ? EVP_sha256() : ms == 48 ? EVP_sha384() : NULL;
        if (!md) return -1;
        memcpy(hdr13, seq, 8); hdr13[8] = type; hdr13[9] = maj; hdr13[10] = min; hdr13[11] = len >> 8; hdr13[12] = len;
        HMAC_CTX *hc = HMAC_CTX_new(); HMAC_Init_ex(hc, ssl->sec.writeMAC, ms, md, NULL); HMAC_Update(hc, hdr13, 13); HMAC_Update(hc, content, len); HMAC_Final(hc, mac, &ml); HMAC_CTX_free(hc);
        int ptl = len + ms; int pad = 16 - (ptl % 16); /* pad bytes incl. length byte, each = pad-1 */
        unsigned char *pt = malloc(ptl + pad); memcpy(pt, content, len); memcpy(pt + len, mac, ms); memset(pt + ptl, pad - 1, pad);
        unsigned char iv[16]; for (int i = 0; i < 16; i++) iv[i] = (unsigned char) (0x40 + i + seq[7]);
        memcpy(out + h, iv, 16);
        int l = 0, l2 = 0; EVP_CIPHER_CTX *x = EVP_CIPHER_CTX_new();
        EVP_EncryptInit_ex(x, keylen == 16 ? EVP_aes_128_cbc() : EVP_aes_256_cbc(), NULL, ssl->sec.writeKey, iv); EVP_CIPHER_CTX_set_padding(x, 0);
        EVP_EncryptUpdate(x, out + h + 16, &l, pt, ptl + pad); EVP_EncryptFinal_ex(x, out + h + 16 + l, &l2); EVP_CIPHER_CTX_free(x); free(pt);
        bodylen = 16 + ptl + pad;
    } else return -1;
    out[h - 2] = bodylen >> 8; out[h - 1] = bodylen;
    if (dtls) mx_incr_be(ssl->rsn, 6); else mx_incr_be(ssl->sec.seq, 8);
    return h + bodylen;
}
#endif
