#!/usr/bin/env python3
"""Regenerates MANIFEST.json from the table below (dev-time helper)."""
import json, os
HERE = os.path.dirname(os.path.dirname(os.path.abspath(__file__)))
props = [json.loads(l) for l in open(os.path.join(HERE, "properties.jsonl"))]
C = {}
def check(pid, cat, text, note, tech, ref):
    C[pid] = dict(property_id=pid, quick_cmd="./check %s --tier quick" % pid, thorough_cmd="./check %s --tier thorough" % pid,
                  evidence_file="/verif/evidence/%s.json" % pid, replay_cmd_template="./check %s --replay {path}" % pid, engine="vf",
                  level_claimed=dict(category=cat, text=text, design_ref=ref), level_note=note, technique=tech)
exec(open(os.path.join(HERE, "tools", "manifest_table.py")).read())
# measured numbers of the last quick run on /repo (from the committed evidence) are appended to the level note
for pid, c in C.items():
    try:
        e = json.load(open(os.path.join(HERE, "evidence", pid + ".json")))
        cov = e["coverage"]
        c["level_note"] += " Last %s run recorded in evidence/%s.json: %d evaluations, %d distinct non-trivial cases, %d violations, wall %.0f s." % (e["tier"], pid, cov["evaluations"], cov["distinct_nontrivial"], e["violations"], e["wall_s"])
    except Exception:
        pass
na = [dict(property_id=p["id"], reason=NA.get(p["id"], "check not yet built in this session; not claimed")) for p in props if p["id"] not in C]
m = dict(version=1, setup_cmd="python3 tools/setup.py",
         hooks=dict(guard="MATRIXSSL_VERIF", enable="tools/vflib.py build(): scratch copy of /repo's working tree built with EXTRA_CFLAGS='<sanitizer flags> -DMATRIXSSL_VERIF'; all observation is by link-time --wrap interposition and the library's own headers, so no source hook exists",
                    baseline_off_cmd="python3 tools/baseline_off.py", source_commits=HOOK_COMMITS, add_only=True),
         engines=[dict(name="vf", path="/verif/check", serves_properties=sorted(C), kind_free_text="python driver + C harnesses: sanitizer builds of /repo's tree, fork-per-case execution, reference-model / history / metamorphic monitors, known-findings matching")],
         checks=[C[k] for k in sorted(C)], notes=NOTES, not_applicable=na)
json.dump(m, open(os.path.join(HERE, "MANIFEST.json"), "w"), indent=1)
print("claimed:", sorted(C), "not claimed:", [x["property_id"] for x in na])
