import vflib
WRAPS = ("psGetEntropy", "gettimeofday", "time", "clock_gettime")
def run(ctx):
    st = [dict(variant="asan", name="c15", sources=["checks/c15_dead.c", "harness/mx_wraps.c"], wraps=WRAPS, libs=["-lcrypto"],
               shards=vflib.NCPU, timeout=7200 if ctx.thorough else 1200)]
    rule = ("Each case = (scenario, role, cut point, error event, continuation) on a fork()ed clone of the live connection. Events: inbound alerts (descriptions x levels), "
            "corrupted / oversize / wrong-version records, illegal handshake message, a genuine protected fatal alert or close_notify from the peer. Continuations: the peer's "
            "next honest records, the original of the corrupted record, an older record, garbage, a fresh ClientHello, an application encode, full honest pumping, drain loops. "
            "distinct_nontrivial counts distinct (version, scenario, role, cut, state, event, continuation) tuples whose event the endpoint recognised as an error.")
    return vflib.std_run(ctx, st, "exploration", rule,
        ["events the endpoint does not treat as errors (DTLS silently dropping a bad datagram, warning alerts) are counted but judged by C02, not here",
         "sending close_notify locally is not treated as death (the statement lists received close_notify only)"], min_nontrivial=500)
