/* C16 - DTLS survives loss / reordering / duplication and never accepts a record twice.
 *
 * A datagram-level network simulator in logical rounds (no wall clock) drives a real MatrixSSL DTLS
 * client and server with the discipline of the reference applications (apps/dtls/dtlsClient.c,
 * dtlsServer.c):
 *   - the server session is created when the first datagram for it arrives;
 *   - one datagram is handed to matrixSslReceivedData at a time; output is drained with
 *     matrixDtlsGetOutdata/matrixDtlsSentData only after MATRIXSSL_REQUEST_SEND (server leaves the loop
 *     at HANDSHAKE_COMPLETE like dtlsServer.c, client loops until 0 like dtlsClient.c);
 *   - a timeout round happens only when the network is completely empty and the handshake is not yet
 *     complete on both sides; in it every endpoint that the reference would time out calls
 *     matrixDtlsGetOutdata/SentData until 0 (a client that has seen HANDSHAKE_COMPLETE never does,
 *     a server that returned HANDSHAKE_COMPLETE from ReceivedData - resumed handshake - never does);
 *   - a negative return of matrixSslReceivedData ends the session (and is a violation, because the
 *     network only drops, duplicates, delays and reorders);
 *   - spurious timeouts (timer fires although the peer's flight is still in flight / half delivered)
 *     are a separate, explicitly generated class ("T<step><C|S>" events);
 *   - application discipline: by default data is written only when BOTH handshakes are complete; an 'eager writer' ("E<C|S>" option)
 *     writes its first datagram the moment its OWN handshake is reported complete - for the sender of the final flight (server in a
 *     full handshake, client in a resumed one) that is before the peer can have seen that flight. The eager datagram takes its fate
 *     from the schedule like any other; it must be delivered exactly once if it arrives, undelayed, at a peer whose handshake is
 *     complete and under the epoch that is current on the wire (otherwise RFC 6347 4.1 lets the receiver discard it: at most once).
 *
 * Schedule: one fate character per datagram in global send order:
 *   '.' deliver next round   'x' drop   'd' duplicate (two copies back to back)
 *   'D' duplicate, second copy three rounds late   '1'..'9' delay k extra rounds
 *   's' swap with the next datagram of the same direction that is due in the same round
 *   'R' delayed two extra rounds (arrives out of order) and then delivered twice
 * datagrams beyond the string are delivered normally.
 *
 * Oracles (violation key c16:<clause>:<version>:<cbc|gcm>:<handshake kind>:<schedule class or replay mode>):
 *   app-record-delivered-twice / delivered-datagram-never-sent   tagged payloads (mx_payload, unique serials): delivered multiset is a
 *                                          sub-multiset of the sent one and every serial is delivered at most once
 *   hs-state-regressed / handshake-uncompleted   a duplicated or replayed datagram never moves hsState backwards along the clean path,
 *                                          a completed handshake stays completed
 *   receive-error-under-benign-network, resend-failed-<role>-hs<state>, alert-sent-<role>-<desc>, alert-received
 *                                          a negative API return or a fatal alert under a network that only drops/duplicates/delays/reorders
 *   no-progress                            handshake incomplete N_PROGRESS timeout rounds after the last fault decision (or livelock / stall)
 *   app-datagram-lost-without-drop, data-exchange-broken   a fresh application datagram that the network delivered in order was discarded
 *   sanitizer reports                      keyed by the driver from the child's stderr
 *
 * Replay phase: an established session (four establishment variants) with every record and multi-record datagram seen on the wire
 * captured; each is replayed at each of K positions of a fresh bidirectional exchange (alone, after the peer's Finished, twice, in
 * pairs), plus the sequence-gap family (g datagrams lost in a row, g = 1..40 around the 32-entry window, then replays around the jump).
 *
 * Every schedule case re-seeds the entropy streams from a hash of its spec and the run's seed (option "N<k>" only varies that hash):
 * ECDSA signature lengths vary between cases and repetitions of one schedule, and --case reproduces them.
 *
 * Mixed-version pairs: <ver> = "<client>~<server>" configures the two endpoints differently ("dtls1.2" enables DTLS 1.2 and 1.0, "dtls1.0"
 * only 1.0); both negotiate 1.0. With "dtls1.2~dtls1.0" every further copy of a ClientHello (duplicate, retransmission, replay) carries
 * record version 1.2 to a server that has meanwhile chosen 1.0. Schedules, kinds, replay phase and oracles are the same as for alike peers.
 *
 * ECDHE-ECDSA cases also start from an empty ephemeral-key cache and (unless they resume by session id) an empty server session cache.
 *
 * Case specs (also accepted by --case; several specs separated by ';' are run in sequence in one process):
 *   S/<ver or cver~sver>/<suite>/<pmtu>/<kind>/<class>/<fates>/<options: T<step><C|S> spurious timer, E<C|S> eager writer, N<k> entropy variation>
 *   R/<ver>/<suite>/<pmtu>/<kind>/<est>/<mode>/<rec>/<rec2>/<pos>      (gap-replay: <gap>/<variant*2+direction>/0)
 */
#include "mx.h"

enum { K_FULL = 0, K_RESUMED, K_CAUTH, K_TKFULL, K_TKRES, NKIND };   /* K_TKFULL: full handshake that issues an RFC 5077 ticket; K_TKRES: resumption by ticket */
static const char *kindname[] = { "full", "resumed", "client-auth", "ticket-full", "ticket-resumed" };
typedef struct { int ver; uint16_t suite; int pmtu; int kind; int sver; } cfg_t;   /* ver: what the client enables, sver: what the server enables (MX_DTLS12 = DTLS 1.2 and 1.0, MX_DTLS10 = DTLS 1.0 only) */
/* version token of specs and keys: "dtls1.2" when both peers are configured alike, "dtls1.2~dtls1.0" = client configuration ~ server configuration */
static const char *vn(const cfg_t *c)
{
    static char b[4][40]; static int k; char *o = b[k++ & 3];
    if (c->sver == c->ver) snprintf(o, 40, "%s", mx_vername[c->ver]); else snprintf(o, 40, "%s~%s", mx_vername[c->ver], mx_vername[c->sver]);
    return o;
}
/* version number of distinct-case strings (unchanged for alike peers) */
#define VERID(c) ((c)->ver + ((c)->sver != (c)->ver ? 16 * ((c)->sver + 1) : 0))

#define N_PROGRESS 12          /* timeout rounds allowed after the schedule stopped interfering */
#define LIVELOCK_ROUNDS 80     /* rounds allowed after the schedule stopped interfering */
#define MAXNET 1024
#define MAXSER 1024
#define CONN_TAG 0x0c16
#define PAYLEN 48

typedef struct { unsigned char *d; int n, dir, idx, due, copy, swap, late, ser; } dg_t;   /* ser: serial + 1 of the application payload it carries, 0 = none */
typedef struct { unsigned char *d; int n, dir, epoch, type, isdg, nrec; unsigned long long seq; } cap_t;

typedef struct {
    cfg_t cfg; mx_cfg mc, smc; const char *cls; char spec[512]; char keytail[96];
    const char *fates; int nf;
    struct { int step, ep, fired; } sp[8]; int nsp;
    mx_ep C, S; int sExists, sResumedComplete; sslSessionId_t *sid, *ownSid;
    dg_t net[MAXNET]; int nnet;
    int sendIdx, step, round, roundsSinceInterf, quietT, stall, totT, retxFlights, retxDg, dupDelivered, dropped;
    int complete[2];             /* handshake complete has been observed (must never revert) */
    unsigned char sent[2][MAXSER], lost[2][MAXSER], deliv[2][MAXSER];
    int failed, verbose, forceClean, dropAll;
    int maxEpoch[2];             /* highest record epoch delivered so far, per direction */
    int eager, eagerDone[2], curSer;   /* eager: bit 0 client, bit 1 server writes application data the moment its OWN handshake is complete */
    unsigned char lastdg[2048]; int lastn, lastdir;
    int capture; cap_t cap[256]; int ncap;
    int tComplete, rComplete;    /* timeout rounds / rounds until both complete */
    char clauses[16][48]; int nclauses;
} sim_t;
static sim_t G;

/* hsState rank along the clean handshake of the current configuration, per role */
static int g_rank[2][256];
static int g_record_rank, g_nrank[2];

static const char *famname(uint16_t suite) { const mx_suite_t *s = mx_suite_by_id(suite); return s && s->aead ? "gcm" : "cbc"; }

static void viol(const char *clause, const char *fmt, ...)
{
    for (int i = 0; i < G.nclauses; i++) if (!strcmp(G.clauses[i], clause)) return;   /* once per clause and case */
    if (G.nclauses < 16) snprintf(G.clauses[G.nclauses++], 48, "%s", clause);
    char key[256], msg[1500]; va_list ap; va_start(ap, fmt); vsnprintf(msg, sizeof msg, fmt, ap); va_end(ap);
    snprintf(key, sizeof key, "c16:%s:%s", clause, G.keytail);
    vf_violation(key, G.spec, "%s [case %s]", msg, G.spec);
}
#define TRACE(...) do { if (G.verbose) fprintf(stderr, __VA_ARGS__); } while (0)

/* ---- application payloads ---- */
static void on_app(mx_ep *e, const unsigned char *pt, uint32 len)
{
    int dir = e->role == MX_SERVER ? 0 : 1;      /* direction the datagram travelled: 0 = client->server */
    char h[24]; unsigned conn = 0; char dc = 0; int serial = -1, l = -1;
    if (len >= 20) { memcpy(h, pt, 20); h[20] = 0; sscanf(h, "%4x|%c|%6d|%5d|", &conn, &dc, &serial, &l); }
    unsigned char ref[PAYLEN + 8];
    int ok = len == PAYLEN && conn == CONN_TAG && dc == (dir ? 'S' : 'C') && serial >= 0 && serial < MAXSER && l == (int) len && G.sent[dir][serial];
    if (ok) { mx_payload(ref, PAYLEN, CONN_TAG, dir, serial); ok = !memcmp(ref, pt, PAYLEN); }
    TRACE("      %s APP_DATA len=%u serial=%d ok=%d\n", e->name, len, serial, ok);
    if (!ok) { viol("delivered-datagram-never-sent", "%s delivered %u bytes of application data that no honest sender submitted in this direction (header '%.20s')", e->name, len, len >= 20 ? h : ""); return; }
    if (++G.deliv[dir][serial] > 1)
        viol("app-record-delivered-twice", "%s delivered application datagram serial %d (%s) %d times", e->name, serial, dir ? "server->client" : "client->server", G.deliv[dir][serial]);
}

/* ---- network ---- */
static int interference_pending(void)
{
    for (int i = G.sendIdx; i < G.nf; i++) if (G.fates[i] != '.') return 1;
    for (int i = 0; i < G.nsp; i++) if (!G.sp[i].fired) return 1;
    for (int i = 0; i < G.nnet; i++) if (G.net[i].late) return 1;
    return 0;
}
static void capture_dg(int dir, const unsigned char *d, int n)
{
    if (!G.capture) return;
    int off = 0, nrec = 0; mx_rec r; int first = G.ncap;
    while (mx_rec_at(d, n, off, 1, &r) && G.ncap < 250) {
        cap_t *c = &G.cap[G.ncap++]; c->n = r.hdr + r.len; c->d = malloc(c->n); memcpy(c->d, d + off, c->n);
        c->dir = dir; c->epoch = r.epoch; c->seq = r.seq; c->type = r.type; c->isdg = 0; c->nrec = 1; off += c->n; nrec++;
    }
    if (nrec > 1 && G.ncap < 250) { cap_t *c = &G.cap[G.ncap++]; c->n = n; c->d = malloc(n); memcpy(c->d, d, n); c->dir = dir; c->epoch = G.cap[first].epoch; c->seq = G.cap[first].seq; c->type = G.cap[first].type; c->isdg = 1; c->nrec = nrec; }
}
static void net_add(const unsigned char *d, int n, int dir, int idx, int due, int copy, int swap, int late)
{
    if (G.nnet >= MAXNET) { vf_incon("network queue overflow in %s", G.spec); G.failed = 1; return; }
    dg_t *g = &G.net[G.nnet++]; g->d = malloc(n); memcpy(g->d, d, n); g->n = n; g->dir = dir; g->idx = idx; g->due = due; g->copy = copy; g->swap = swap; g->late = late; g->ser = G.curSer;
}
static void net_push(int dir, const unsigned char *d, int n)
{
    int idx = G.sendIdx++; char f = (!G.forceClean && idx < G.nf) ? G.fates[idx] : '.';
    capture_dg(dir, d, n);
    if (n <= (int) sizeof G.lastdg) { memcpy(G.lastdg, d, n); G.lastn = n; G.lastdir = dir; }
    if (G.dropAll) f = 'x';
    if (f != '.') G.roundsSinceInterf = 0, G.quietT = 0;
    TRACE("    dg#%d %s len=%d type=%d epoch=%d seq=%d fate=%c\n", idx, dir ? "S->C" : "C->S", n, d[0], (d[3] << 8) | d[4], (d[9] << 8) | d[10], f);
    switch (f) {
    case 'x': G.dropped++; break;
    case 'd': net_add(d, n, dir, idx, G.round + 1, 0, 0, 0); net_add(d, n, dir, idx, G.round + 1, 1, 0, 0); break;
    case 'D': net_add(d, n, dir, idx, G.round + 1, 0, 0, 0); net_add(d, n, dir, idx, G.round + 4, 1, 0, 1); break;
    case 's': net_add(d, n, dir, idx, G.round + 1, 0, 1, 0); break;
    case 'R': net_add(d, n, dir, idx, G.round + 3, 0, 0, 1); net_add(d, n, dir, idx, G.round + 3, 1, 0, 1); break;
    default:
        if (f >= '1' && f <= '9') net_add(d, n, dir, idx, G.round + 1 + (f - '0'), 0, 0, 1);
        else net_add(d, n, dir, idx, G.round + 1, 0, 0, 0);
    }
}

/* matrixDtlsGetOutdata / matrixDtlsSentData loop of the reference applications */
static int drain(mx_ep *e, const char *why)
{
    int n, cnt = 0, dir = e->role == MX_SERVER ? 1 : 0, resend = 0;
    for (int guard = 0; guard < 2000; guard++) {
        unsigned char *ob = NULL;
        if (e->ssl->outlen == 0) resend = !e->ssl->flightDone && !e->ssl->appDataExch;
        if (resend && e->ssl->outlen == 0) TRACE("    %s resend request: hsState=%d ckeSize=%d ckeMsg=%p retransmit=%d outsize=%d\n", e->name, e->ssl->hsState, (int) e->ssl->ckeSize, (void *) e->ssl->ckeMsg, e->ssl->retransmit, e->ssl->outsize);
        mx_actor = e->id; e->calls++;
        n = matrixDtlsGetOutdata(e->ssl, &ob);
        if (n < 0) { char cl[48]; snprintf(cl, sizeof cl, "resend-failed-%s-hs%d", e->role == MX_SERVER ? "server" : "client", e->ssl->hsState);
            e->dead = 1; e->lastrc = n; viol(cl, "%s: matrixDtlsGetOutdata returned %d when asked to retransmit (%s) at hsState %d, ssl->err %d; the session is unusable afterwards", e->name, n, why, e->ssl->hsState, e->ssl->err); G.failed = 1; break; }
        if (n == 0) break;
        if (resend && cnt == 0) { G.retxFlights++; TRACE("    %s retransmits its flight (%s)\n", e->name, why);
            /* measured, not assumed: how often a rebuilt flight carried an ECDSA signature whose length differs from the predicted one */
            if (e->ssl->ecdsaSizeChange) vf_statf(1, "rebuilt_flights_with_unpredicted_ecdsa_size_%s", e->role == MX_SERVER ? "server" : "client"); }
        if (resend) G.retxDg++;
        if (n > matrixDtlsGetPmtu()) viol("datagram-exceeds-pmtu", "%s produced a %d byte datagram with PMTU %d", e->name, n, matrixDtlsGetPmtu());
        net_push(dir, ob, n); cnt++;
        mx_actor = e->id; e->calls++;
        int rc = matrixDtlsSentData(e->ssl, n);
        if (rc == MATRIXSSL_HANDSHAKE_COMPLETE) { e->hsDone = 1; TRACE("    %s HANDSHAKE_COMPLETE from SentData\n", e->name); if (e->role == MX_SERVER) break; }
        else if (rc == MATRIXSSL_REQUEST_CLOSE) { e->closeReq = 1; break; }
        else if (rc < 0) { e->dead = 1; e->lastrc = rc; viol("sentdata-error-under-benign-network", "%s: matrixDtlsSentData returned %d (%s)", e->name, rc, why); G.failed = 1; break; }
    }
    return cnt;
}

static void state_checks(mx_ep *e, int before, const char *what, int isdup)
{
    int role = e->role == MX_SERVER, after = e->ssl->hsState;
    if (g_record_rank) { if (g_rank[role][after] < 0) g_rank[role][after] = g_nrank[role]++; }
    else {
        int rb = g_rank[role][before], ra = g_rank[role][after];
        /* only for duplicated / replayed datagrams: fragment reassembly legitimately revisits states for fresh ones */
        if (isdup && rb >= 0 && ra >= 0 && ra < rb) viol("hs-state-regressed", "%s: hsState went from %d back to %d on %s", e->name, before, after, what);
        if (ra < 0 && after != before) vf_stat("hs_states_outside_clean_path", 1);
    }
    int comp = matrixSslHandshakeIsComplete(e->ssl) ? 1 : 0;
    if (G.complete[role] && !comp) viol("handshake-uncompleted", "%s: completed handshake reverted to hsState %d on %s", e->name, after, what);
    if (comp && e->hsDone) G.complete[role] = 1;
}

static int dg_feed(mx_ep *e, const unsigned char *d, int n)
{
    unsigned char *rb = NULL, *pt = NULL; uint32 ptl = 0;
    mx_actor = e->id; e->calls++;
    int cap = matrixSslGetReadbuf(e->ssl, &rb);
    if (cap < n) cap = matrixSslGetReadbufOfSize(e->ssl, n, &rb);
    if (cap < n || !rb) { vf_incon("no read buffer for a %d byte datagram (%d) in %s", n, cap, G.spec); G.failed = 1; return -9999; }
    memcpy(rb, d, n);
    mx_actor = e->id; e->calls++;
    int rc = matrixSslReceivedData(e->ssl, n, &pt, &ptl);
    return mx_process_rc(e, rc, pt, ptl);
}

/* 'eager writer' discipline: the application of an endpoint writes its first datagram the moment its OWN handshake is reported
 * complete (MATRIXSSL_HANDSHAKE_COMPLETE from matrixDtlsSentData for the sender of the final flight, from matrixSslReceivedData for
 * its receiver), i.e. possibly before the peer has seen the final flight. */
#define EAGER_SERIAL 40
static void app_send(mx_ep *e, int serial);
static void eager_write(mx_ep *e)
{
    int role = e->role == MX_SERVER;
    if (!((G.eager >> role) & 1) || G.eagerDone[role] || !e->hsDone || e->dead || G.failed) return;
    G.eagerDone[role] = 1; vf_stat("eager_writes", 1);
    mx_ep *peer = role ? &G.C : &G.S;
    if (!(role ? 1 : G.sExists) || !peer->hsDone) vf_stat("eager_writes_before_peer_complete", 1);
    TRACE("  %s application writes at once (own handshake complete, peer complete: %d)\n", e->name, peer->ssl ? peer->hsDone : 0);
    app_send(e, EAGER_SERIAL);
}

static void fire_timeout(mx_ep *e, const char *why)
{
    if (e->dead || !e->ssl) return;
    if (e->role == MX_CLIENT && e->hsDone) return;               /* dtlsClient.c never resends once complete */
    if (e->role == MX_SERVER && G.sResumedComplete) return;      /* dtlsServer.c: RESUMED_HANDSHAKE_COMPLETE */
    int before = e->ssl->hsState;
    TRACE("  timeout at %s (%s) hsState=%d\n", e->name, why, before);
    G.totT++; vf_stat("timeouts_fired", 1);
    drain(e, why);
    state_checks(e, before, "a timeout retransmission", 0);
    eager_write(e);
}

static void deliver(dg_t *g)
{
    mx_ep *e = g->dir == 0 ? &G.S : &G.C;
    if (g->dir == 0 && !G.sExists) {
        if (mx_new_server(&G.S, &G.smc) < 0) { vf_incon("server session creation failed in %s", G.spec); G.failed = 1; return; }
        G.S.on_app = on_app; G.sExists = 1;
    }
    if (e->dead || G.failed) return;
    int before = e->ssl->hsState, wasDone = e->hsDone;
    /* an application datagram that reaches an endpoint whose handshake is not complete yet (eager writer, final flight lost or
       overtaken) may be discarded (RFC 6347 4.1: "implementations MAY either buffer or discard"): no delivery obligation */
    if (g->ser && !wasDone) { G.lost[g->dir][g->ser - 1] = 1; vf_stat("app_datagrams_arrived_before_completion", 1); }
    /* ... and so may one written under an epoch that a retransmitted ChangeCipherSpec/Finished of its sender has superseded by the
       time it arrives (judged from the wire alone: a datagram of a higher epoch of the same direction was delivered before it) */
    { mx_rec r; int off = 0, first = 1, top = G.maxEpoch[g->dir];
      while (mx_rec_at(g->d, g->n, off, 1, &r)) {
          if (first && g->ser && r.epoch < G.maxEpoch[g->dir]) { G.lost[g->dir][g->ser - 1] = 1; vf_stat("app_datagrams_of_superseded_epoch", 1); }
          first = 0; if (r.epoch > top) top = r.epoch; off += r.hdr + r.len; }
      G.maxEpoch[g->dir] = top; }
    if (g->copy) G.dupDelivered++;
    if (g->late) G.roundsSinceInterf = 0, G.quietT = 0;
    /* measured, not assumed: handshake datagrams whose record version is above the version their receiver has negotiated by then
       (further copies of the ClientHello of a DTLS 1.2-capable client at a server that chose 1.0) */
    if (g->n > 2 && g->d[0] == 22 && g->d[1] == 0xfe && g->d[2] == 0xfd && VersionNegotiationComplete(e->ssl) && NGTD_VER(e->ssl, v_dtls_1_0))
        vf_statf(1, "handshake_datagrams_above_negotiated_version_to_%s", e->role == MX_SERVER ? "server" : "client");
    int rc = dg_feed(e, g->d, g->n);
    G.step++;
    TRACE("  step %d: dg#%d%s -> %s rc=%d hsState %d->%d hsDone=%d\n", G.step, g->idx, g->copy ? "(dup)" : "", e->name, rc, before, e->ssl->hsState, e->hsDone);
    if (rc == -9999) return;
    if (rc < 0) {
        viol("receive-error-under-benign-network", "%s: matrixSslReceivedData returned %d for datagram #%d%s (type %d, epoch %d, len %d) at hsState %d; the network only dropped/duplicated/delayed/reordered",
            e->name, rc, g->idx, g->copy ? " (duplicate copy)" : "", g->d[0], (g->d[3] << 8) | g->d[4], g->n, before);
        G.failed = 1; return;
    }
    if (e->nAlertIn) { viol("alert-received", "%s received alert level %d desc %d", e->name, e->alertLevel, e->alertDesc); G.failed = 1; return; }
    if (e->role == MX_SERVER) {
        if (rc == MATRIXSSL_HANDSHAKE_COMPLETE && !wasDone) G.sResumedComplete = 1;
        if (e->nApp) G.sResumedComplete = 0;
    }
    if (rc == MATRIXSSL_REQUEST_SEND) drain(e, "response");
    if (e->closeReq) { char cl[48]; snprintf(cl, sizeof cl, "alert-sent-%s-%d", e->role == MX_SERVER ? "server" : "client", e->ssl->err);
        viol(cl, "%s answered datagram #%d%s with fatal alert %d and closed (hsState %d before); the network only dropped/duplicated/delayed/reordered", e->name, g->idx, g->copy ? " (duplicate copy)" : "", e->ssl->err, before); G.failed = 1; return; }
    state_checks(e, before, g->copy ? "a duplicated datagram" : "a datagram", g->copy);
    eager_write(e);
    if (G.failed) return;
    for (int i = 0; i < G.nsp; i++) if (!G.sp[i].fired && G.sp[i].step == G.step) {
        G.sp[i].fired = 1; G.roundsSinceInterf = 0; G.quietT = 0; vf_stat("spurious_timeouts_fired", 1);
        mx_ep *t = G.sp[i].ep ? &G.S : &G.C;
        if (G.sp[i].ep && !G.sExists) continue;
        fire_timeout(t, "spurious");
    }
}

static int cmp_dg(const void *a, const void *b) { const dg_t *x = a, *y = b; if (x->idx != y->idx) return x->idx - y->idx; return x->copy - y->copy; }
static void deliver_due(void)
{
    dg_t due[MAXNET]; int nd = 0, k = 0;
    for (int i = 0; i < G.nnet; i++) { if (G.net[i].due <= G.round) due[nd++] = G.net[i]; else G.net[k++] = G.net[i]; }
    G.nnet = k;
    qsort(due, nd, sizeof(dg_t), cmp_dg);
    for (int i = 0; i < nd; i++) if (due[i].swap) {
        due[i].swap = 0;
        for (int j = i + 1; j < nd; j++) if (due[j].dir == due[i].dir) { dg_t t = due[i]; due[i] = due[j]; due[j] = t; break; }
    }
    for (int i = 0; i < nd; i++) { if (!G.failed) deliver(&due[i]); free(due[i].d); }
}
static int both_done(void) { return G.sExists && mx_both_done(&G.C, &G.S); }

static void app_send(mx_ep *e, int serial)
{
    unsigned char p[PAYLEN]; int dir = e->role == MX_SERVER ? 1 : 0;
    if (e->dead) return;
    mx_payload(p, PAYLEN, CONN_TAG, dir, serial);
    int idx = G.sendIdx; char f = (!G.forceClean && idx < G.nf) ? G.fates[idx] : '.';
    G.sent[dir][serial] = 1;
    /* dropped, or delayed across rounds (a record of a superseded epoch may legitimately be discarded): no delivery obligation */
    if (f == 'x' || f == 'R' || (f >= '1' && f <= '9')) G.lost[dir][serial] = 1;
    mx_actor = e->id;
    int rc = matrixSslEncodeToOutdata(e->ssl, p, PAYLEN);
    if (rc <= 0) { viol("app-send-failed-after-handshake", "%s: matrixSslEncodeToOutdata returned %d for a %d byte payload after the handshake completed", e->name, rc, PAYLEN); G.failed = 1; return; }
    TRACE("  %s sends application datagram serial %d\n", e->name, serial);
    G.curSer = serial + 1;
    int n = drain(e, "application data");
    G.curSer = 0;
    if (n != 1 && !G.failed) viol("app-send-failed-after-handshake", "%s: one application payload produced %d datagrams", e->name, n);
}

/* ---- simulation ---- */
static void sim_free(void)
{
    if (G.C.ssl) mx_ep_free(&G.C);
    if (G.sExists && G.S.ssl) mx_ep_free(&G.S);
    if (G.ownSid) { matrixSslDeleteSessionId(G.ownSid); G.ownSid = NULL; }
    for (int i = 0; i < G.nnet; i++) free(G.net[i].d);
    G.nnet = 0;
}
static void sim_init(const cfg_t *c, const char *cls, const char *fates, const char *spur, sslSessionId_t *sid)
{
    sim_free();
    memset(&G, 0, sizeof G);
    G.cfg = *c; G.cls = cls; G.fates = fates; G.nf = (int) strlen(fates); G.verbose = vf_verbose;
    G.mc = (mx_cfg) { .ver = c->ver, .suite = c->suite, .clientAuth = c->kind == K_CAUTH, .useTicket = c->kind == K_TKFULL || c->kind == K_TKRES };
    G.smc = G.mc; G.smc.ver = c->sver;
    snprintf(G.spec, sizeof G.spec, "S/%s/%04x/%d/%s/%s/%s/%s", vn(c), c->suite, c->pmtu, kindname[c->kind], cls, fates, spur ? spur : "");
    snprintf(G.keytail, sizeof G.keytail, "%s:%s:%s:%s", vn(c), famname(c->suite), kindname[c->kind], cls);
    /* options field: T<step><C|S> spurious timer expiry, E<C|S> eager writer on that side, N<k> entropy variation (only hashed) */
    for (const char *p = spur; p && *p; ) {
        if (*p == 'T' && G.nsp < 8) { char *end; G.sp[G.nsp].step = (int) strtol(p + 1, &end, 10); G.sp[G.nsp].ep = *end == 'S'; G.nsp++; p = *end ? end + 1 : end; }
        else if (*p == 'E' && (p[1] == 'C' || p[1] == 'S')) { G.eager |= p[1] == 'S' ? 2 : 1; p += 2; }
        else p++;
    }
    G.sid = sid;
    if (c->kind == K_TKFULL && !sid) { static sslSessionId_t *fresh; if (fresh) matrixSslDeleteSessionId(fresh); matrixSslNewSessionId(&fresh, NULL); G.sid = fresh; }   /* the client asks for a ticket and holds none */
    matrixDtlsSetPmtu(c->pmtu);
}

/* handshake phase: returns 1 when both sides completed */
static int sim_handshake(void)
{
    sslSessionId_t *sid = G.sid;
    if (!sid) { matrixSslNewSessionId(&sid, NULL); G.ownSid = sid; }
    if (mx_new_client(&G.C, &G.mc, sid) < 0) { vf_incon("client session creation failed in %s", G.spec); G.failed = 1; return 0; }
    G.C.on_app = on_app;
    if (g_record_rank && g_rank[0][G.C.ssl->hsState] < 0) g_rank[0][G.C.ssl->hsState] = g_nrank[0]++;
    drain(&G.C, "first flight");
    while (!G.failed) {
        G.round++; G.roundsSinceInterf++;
        deliver_due();
        if (G.failed) break;
        if (both_done()) { G.tComplete = G.totT; G.rComplete = G.round; return 1; }
        if (G.C.dead || (G.sExists && G.S.dead)) break;
        if (G.nnet == 0) {
            /* empty network, handshake incomplete: timeout round */
            int pend = interference_pending();
            if (!pend && ++G.quietT > N_PROGRESS) {
                viol("no-progress", "handshake not complete %d timeout rounds after the schedule stopped interfering (client hsState %d hsDone %d, server hsState %d hsDone %d, %d retransmitted flights)",
                    G.quietT - 1, G.C.ssl->hsState, G.C.hsDone, G.sExists ? G.S.ssl->hsState : -1, G.sExists ? G.S.hsDone : 0, G.retxFlights);
                return 0;
            }
            TRACE(" round %d: network empty -> timeout round (quiet %d)\n", G.round, G.quietT);
            vf_stat("timeout_rounds", 1);
            int t0 = G.sendIdx;
            fire_timeout(&G.C, "timeout");
            if (G.sExists) fire_timeout(&G.S, "timeout");
            /* nobody retransmits any more: the remaining schedule has nothing to act on */
            if (G.sendIdx != t0) G.stall = 0;
            else if (++G.stall > N_PROGRESS) {
                viol("no-progress", "handshake not complete and neither side retransmits in %d consecutive timeout rounds (client hsState %d hsDone %d, server hsState %d hsDone %d)",
                    G.stall - 1, G.C.ssl->hsState, G.C.hsDone, G.sExists ? G.S.ssl->hsState : -1, G.sExists ? G.S.hsDone : 0);
                return 0;
            }
        }
        if (!interference_pending() && G.roundsSinceInterf > LIVELOCK_ROUNDS) {
            viol("no-progress", "handshake not complete %d rounds after the schedule stopped interfering (retransmission livelock; client hsState %d, server hsState %d)", G.roundsSinceInterf, G.C.ssl->hsState, G.sExists ? G.S.ssl->hsState : -1);
            return 0;
        }
        if (G.round > 600) { vf_incon("round cap reached in %s", G.spec); return 0; }
    }
    return 0;
}

/* deliver everything in flight (no timeouts) */
static void sim_settle(int maxrounds)
{
    for (int r = 0; r < maxrounds && G.nnet > 0 && !G.failed; r++) { G.round++; deliver_due(); }
}

/* data phase under the remaining schedule, then a clean exchange that must work */
static void sim_data(int D, int base)
{
    for (int j = 0; j <= D && !G.failed; j++) {
        if (j < D) app_send(&G.C, base + j);
        if (j >= 1) app_send(&G.S, base + j - 1);
        G.round++; deliver_due();
    }
    sim_settle(16);
}
static void sim_final_checks(int lo, int hi, const char *when)
{
    if (G.failed) return;
    for (int dir = 0; dir < 2; dir++) for (int s = lo; s < hi; s++) {
        if (!G.sent[dir][s] || G.lost[dir][s]) continue;
        if (G.deliv[dir][s] == 0) viol("app-datagram-lost-without-drop", "%s datagram serial %d sent %s was never delivered although the network did not drop it", dir ? "server->client" : "client->server", s, when);
    }
    for (int role = 0; role < 2; role++) { mx_ep *e = role ? &G.S : &G.C; if (!matrixSslHandshakeIsComplete(e->ssl) || e->dead) viol("handshake-uncompleted", "%s no longer complete %s (hsState %d dead %d)", e->name, when, e->ssl->hsState, e->dead); }
}
static void sim_clean_exchange(int serial, const char *when)
{
    if (G.failed) return;
    G.forceClean = 1;
    app_send(&G.C, serial); sim_settle(8);
    app_send(&G.S, serial); sim_settle(8);
    app_send(&G.C, serial + 1); sim_settle(8);
    G.forceClean = 0;
    if (G.failed) return;
    if (G.deliv[0][serial] != 1 || G.deliv[1][serial] != 1 || G.deliv[0][serial + 1] != 1)
        viol("data-exchange-broken", "clean exchange %s: client->server delivered %d and %d times, server->client %d times (expected once each); client epoch/appDataExch %d/%d server %d/%d", when,
            G.deliv[0][serial], G.deliv[0][serial + 1], G.deliv[1][serial], G.C.ssl->epoch[1], G.C.ssl->appDataExch, G.S.ssl->epoch[1], G.S.ssl->appDataExch);
}

static void sched_signature(char *out, size_t cap)
{
    /* the fates actually consumed */
    int n = G.sendIdx < G.nf ? G.sendIdx : G.nf; if (n > 60) n = 60;
    snprintf(out, cap, "%.*s", n, G.fates);
}

/* The ECDHE key pair cached in a key set (matrixSslGenEphemeralEcKey) outlives sessions: forget it, so that the case generates its own
 * from its own entropy and the signed ServerKeyExchange (hence the signature and its length) does not depend on what ran before */
static void forget_ephemeral(sslKeys_t *k)
{
    if (k && k->cache.eccPrivKeyUse) { psEccClearKey(&k->cache.eccPrivKey); k->cache.eccPrivKey.curve = NULL; k->cache.eccPrivKeyUse = 0; }
}
static void run_schedule_case(const cfg_t *c, const char *cls, const char *fates, const char *spur, sslSessionId_t *sid)
{
    sim_init(c, cls, fates, spur, sid);
    TRACE("CASE %s\n", G.spec);
    /* the entropy of a case is a function of its spec and the run's seed: a replay (--case) draws the same ECDSA nonces, and
       repetitions of one schedule (option N<k>) see different signature lengths */
    mx_entropy_seed(vf_hash(G.spec, strlen(G.spec)) ^ (vf_seed * 0x9e3779b97f4a7c15ULL));
    if (mx_suite_by_id(c->suite)->auth == MX_AUTH_ECDSA) {
        forget_ephemeral(mx_pick_skeys(&G.mc)); forget_ephemeral(mx_pick_ckeys(&G.mc));
        /* the session id in ServerHello is the cache slot number + server random, and CertificateVerify signs the transcript: start
           from an empty server cache (not for session-id resumption, which needs the entry made by the set-up handshake and signs nothing) */
        if (c->kind != K_RESUMED && c->kind != K_TKRES) { mx_actor = 7;   /* matrixSslOpen draws entropy: from a stream of its own */
            matrixSslClose(); if (matrixSslOpen() < 0) { vf_incon("matrixSslOpen failed"); return; } }
    }
    int ok = sim_handshake();
    if (ok) {
        sim_data(4, 0);
        /* the reference server keeps timing out connected clients; must be harmless */
        if (!G.failed) { fire_timeout(&G.S, "post-handshake server timer"); sim_settle(12); }
        sim_final_checks(0, 8, "in the data phase");
        sim_final_checks(EAGER_SERIAL, EAGER_SERIAL + 1, "by an eager writer");
        sim_clean_exchange(100, "after the handshake");
        sim_final_checks(100, 102, "in the clean exchange");
        vf_statmax("max_timeout_rounds_to_completion", G.tComplete);
        vf_statmax("max_rounds_to_completion", G.rComplete);
        vf_stat("handshakes_completed", 1);
    }
    char sig[80]; sched_signature(sig, sizeof sig);
    vf_stat("cases", 1); vf_stat("schedules", 1); vf_statf(1, "schedules_%s", cls);
    vf_stat("retransmitted_flights", G.retxFlights); vf_stat("retransmitted_datagrams", G.retxDg);
    vf_stat("datagrams_sent", G.sendIdx); vf_stat("datagrams_dropped", G.dropped); vf_stat("duplicate_copies_delivered", G.dupDelivered);
    vf_distinct("S/%d/%04x/%d/%d/%s/%s", VERID(c), c->suite, c->pmtu, c->kind, sig, spur ? spur : "");
    if (G.retxFlights) vf_stat("schedules_with_retransmission", 1);
    TRACE("END %s ok=%d rounds=%d timeouts=%d retx=%d sent=%d\n", G.spec, ok, G.round, G.totT, G.retxFlights, G.sendIdx);
    sim_free();
}

/* ---- configuration set-up in the parent: clean run (rank table, datagram count), session for resumption ---- */
typedef struct { cfg_t c; int ready; int ndg, nsteps; int rank[2][256]; sslSessionId_t *sid; int usable; } cfgstate_t;

static void cfg_prepare_body(cfgstate_t *cs);
static void cfg_probe(void *arg) { cfgstate_t tmp = *(cfgstate_t *) arg; cfg_prepare_body(&tmp); }
static void cfg_prepare(cfgstate_t *cs)
{
    if (cs->ready) return;
    cs->ready = 1;
    /* dry run in a child: a crash in a clean handshake must not take the shard down */
    char spec[200]; snprintf(spec, sizeof spec, "S/%s/%04x/%d/%s/setup//", vn(&cs->c), cs->c.suite, cs->c.pmtu, kindname[cs->c.kind]);
    if (!vf_case) {
        int sv = vf_shard; vf_shard = -1;
        int rc = vf_fork_case(cfg_probe, cs, "c16-setup", spec, 120);
        vf_shard = sv;
        if (rc) return;
    }
    cfg_prepare_body(cs);
}
static void cfg_prepare_body(cfgstate_t *cs)
{
    matrixDtlsSetPmtu(cs->c.pmtu);
    if (cs->c.kind == K_RESUMED || cs->c.kind == K_TKRES) {
        /* establish the session that the cases resume */
        cfg_t full = cs->c; full.kind = cs->c.kind == K_TKRES ? K_TKFULL : K_FULL;
        matrixSslNewSessionId(&cs->sid, NULL);
        memset(g_rank, 0xff, sizeof g_rank); g_record_rank = 1; g_nrank[0] = g_nrank[1] = 0;
        sim_init(&full, "setup", "", "", cs->sid);
        if (!sim_handshake()) { if (!G.nclauses) vf_incon("set-up handshake failed for %s %04x pmtu %d", vn(&cs->c), cs->c.suite, cs->c.pmtu); return; }
        sim_clean_exchange(900, "set-up");
        sim_free();
    }
    memset(g_rank, 0xff, sizeof g_rank); g_record_rank = 1; g_nrank[0] = g_nrank[1] = 0;
    sim_init(&cs->c, "setup", "", "", cs->sid);
    int ok = sim_handshake();
    g_record_rank = 0;
    if (!ok || G.nclauses) { if (!G.nclauses) vf_incon("clean handshake failed for %s %04x pmtu %d %s", vn(&cs->c), cs->c.suite, cs->c.pmtu, kindname[cs->c.kind]); return; }
    if ((cs->c.kind == K_RESUMED || cs->c.kind == K_TKRES) && !(G.S.ssl->flags & SSL_FLAGS_RESUMED)) { vf_incon("session was not resumed for %s %04x", vn(&cs->c), cs->c.suite); return; }
    /* peers that enable different version sets must have met at DTLS 1.0 */
    if (cs->c.sver != cs->c.ver && !(NGTD_VER(G.S.ssl, v_dtls_1_0) && NGTD_VER(G.C.ssl, v_dtls_1_0))) { vf_incon("mixed-version pair %s %04x did not negotiate DTLS 1.0", vn(&cs->c), cs->c.suite); return; }
    cs->ndg = G.sendIdx; cs->nsteps = G.step;
    memcpy(cs->rank, g_rank, sizeof g_rank);
    sim_free();
    cs->usable = 1;
    if (vf_shard == 0) { vf_stat("configurations", 1); vf_statmax("max_datagrams_clean_handshake", cs->ndg); }
}
static void cfg_activate(cfgstate_t *cs) { memcpy(g_rank, cs->rank, sizeof g_rank); g_record_rank = 0; matrixDtlsSetPmtu(cs->c.pmtu); }

/* ---- batched fork execution of schedule cases ---- */
typedef struct { char cls[32]; char fates[72]; char spur[48]; } scase_t;
#define BATCH_MAX 64
static struct { cfgstate_t *cs; scase_t k[BATCH_MAX]; int n; int only; } B;
static long g_batchno;

static void batch_child(void *arg)
{
    (void) arg;
    for (int i = 0; i < B.n; i++) { if (B.only >= 0 && i != B.only) continue; run_schedule_case(&B.cs->c, B.k[i].cls, B.k[i].fates, B.k[i].spur, B.cs->sid); }
}
/* Run the batch in one child that buffers its records and publishes them only when the whole batch
 * survived; if the child dies, every case is re-run in its own vf_fork_case child for exact attribution. */
static int batch_run_buffered(void)
{
    fflush(NULL);
    pid_t pid = fork();
    if (pid < 0) return 1;
    if (pid == 0) {
        int efd = open("/dev/null", O_WRONLY); if (efd >= 0) dup2(efd, 2);
        alarm(300); vf_nstats = 0; vf_dn = 0; if (vf_dset) memset(vf_dset, 0, vf_dcap * 8);
        char t[] = "/dev/shm/c16bXXXXXX"; int tfd = mkstemp(t); if (tfd < 0) _exit(9); unlink(t);
        int real = vf_outfd; vf_outfd = tfd;
        batch_child(NULL); vf_flush();
        off_t sz = lseek(tfd, 0, SEEK_END); lseek(tfd, 0, SEEK_SET);
        char *buf = malloc(sz + 1); ssize_t got = read(tfd, buf, sz); vf_outfd = real; if (got > 0) vf_write(buf, got);
        _exit(0);
    }
    int st = 0; while (waitpid(pid, &st, 0) < 0 && errno == EINTR) ;
    return !(WIFEXITED(st) && WEXITSTATUS(st) == 0);
}
static void batch_flush(void)
{
    if (!B.n) return;
    long no = g_batchno++;
    if (vf_mine(no) || vf_case) {
        cfg_prepare(B.cs);
        if (B.cs->usable) {
            cfg_activate(B.cs);
            char spec[600]; cfg_t *c = &B.cs->c;
            /* "$<d><tail>": <tail> starts at the d-th last datagram of this configuration's clean handshake */
            for (int i = 0; i < B.n; i++) if (B.k[i].fates[0] == '$') {
                char t[72]; int lead = B.cs->ndg - (B.k[i].fates[1] - '0'); if (lead < 0) lead = 0; if (lead > 40) lead = 40;
                memset(t, '.', lead); snprintf(t + lead, sizeof t - lead, "%s", B.k[i].fates + 2); memcpy(B.k[i].fates, t, sizeof t);
            }
            B.only = -1;
            /* --case: run in-process so that a sanitizer report reaches the shard's stderr and is keyed by the driver */
            if (vf_case) { for (int i = 0; i < B.n; i++) { B.only = i; batch_child(NULL); } B.n = 0; return; }
            int rc = B.n == 1 ? 1 : batch_run_buffered();
            if (rc) for (int i = 0; i < B.n; i++) {
                B.only = i;
                snprintf(spec, sizeof spec, "S/%s/%04x/%d/%s/%s/%s/%s", vn(c), c->suite, c->pmtu, kindname[c->kind], B.k[i].cls, B.k[i].fates, B.k[i].spur);
                vf_fork_case(batch_child, NULL, "c16-schedule", spec, 60);
            }
        }
    }
    B.n = 0;
}
static int g_batchsize = 16;
static long g_nsamples;
/* options that gen_schedules adds to every case it generates: eager writers (bit 0 client, bit 1 server; the class gets the prefix
 * "eager-") and an entropy variation number */
static int g_eager, g_rep;
static void add_case(cfgstate_t *cs, const char *cls, const char *fates, const char *spur)
{
    if (B.n && (B.cs != cs || B.n >= g_batchsize)) batch_flush();
    B.cs = cs; scase_t *k = &B.k[B.n++];
    char rep[12] = ""; if (g_rep) snprintf(rep, sizeof rep, "N%d,", g_rep);
    if (vf_case) { snprintf(k->cls, sizeof k->cls, "%s", cls); snprintf(k->spur, sizeof k->spur, "%s", spur ? spur : ""); }
    else {
        snprintf(k->cls, sizeof k->cls, "%s%s", g_eager ? "eager-" : "", cls);
        snprintf(k->spur, sizeof k->spur, "%s%s%s%s", g_eager & 1 ? "EC," : "", g_eager & 2 ? "ES," : "", rep, spur ? spur : "");
        int l = (int) strlen(k->spur); if (l && k->spur[l - 1] == ',') k->spur[l - 1] = 0;
    }
    snprintf(k->fates, sizeof k->fates, "%s", fates);
    cls = k->cls; spur = k->spur;
    if (vf_shard == 0 && (g_nsamples++ % 1777) == 400) vf_sample("%s %04x pmtu %d %s %s schedule \"%s\" %s", vn(&cs->c), cs->c.suite, cs->c.pmtu, kindname[cs->c.kind], cls, fates, spur ? spur : "");
}

static int g_L = 16, g_delays = 3, g_spsteps = 16;
/* eager-writer plan of gen_schedules: modes (bit k set = run with eager mode k, 1 = client, 2 = server, 3 = both) for which all drop
 * patterns over the first g_eager_m datagrams are repeated, and whether the single-position and spurious-timeout classes are repeated
 * with both sides eager */
static int g_eager_drop_modes, g_eager_m, g_eager_singles;
static void gen_drop_patterns(cfgstate_t *cs, int m)
{
    char f[72];
    for (long p = 0; p < (1L << m); p++) { for (int i = 0; i < m; i++) f[i] = (p >> i) & 1 ? 'x' : '.'; f[m] = 0; add_case(cs, "drop-pattern", f, ""); }
}
static void gen_singles(cfgstate_t *cs, int L, int delays)
{
    char f[72];
    for (int i = 0; i < L; i++) {
        memset(f, '.', i); f[i + 1] = 0;
        f[i] = 'd'; add_case(cs, "single-duplicate", f, "");
        f[i] = 'D'; add_case(cs, "single-duplicate", f, "");
        f[i] = 's'; add_case(cs, "single-swap", f, "");
        f[i] = 'R'; add_case(cs, "single-duplicate", f, "");
        for (int k = 1; k <= 3; k++) { if (delays == 1 && k != 2) continue; f[i] = '0' + k; add_case(cs, "single-delay", f, ""); }
    }
}
static void gen_spurious1(cfgstate_t *cs, int steps)
{
    for (int st = 1; st <= steps; st++) for (int ep = 0; ep < 2; ep++) { char sp[48]; snprintf(sp, sizeof sp, "T%d%c", st, ep ? 'S' : 'C'); add_case(cs, "spurious-timeout", "", sp); }
}
static void gen_schedules(cfgstate_t *cs, int m, int nrandom, int spurious_depth, vf_rng *g)
{
    char f[72];
    const mx_suite_t *su = mx_suite_by_id(cs->c.suite);
    g_batchsize = su->auth == MX_AUTH_PSK ? 32 : 8;
    g_eager = 0; g_rep = 0;
    /* all 2^m drop patterns over the first m datagrams (pattern 0 = clean run) */
    gen_drop_patterns(cs, m);
    for (int mode = 1; mode <= 3; mode++) if ((g_eager_drop_modes >> mode) & 1) { g_eager = mode; gen_drop_patterns(cs, g_eager_m < m ? g_eager_m : m); }
    g_eager = 0;
    /* single duplicate / late duplicate / swap / delay at every position of the clean handshake and two beyond (application data) */
    /* clean handshakes send 5..20 datagrams; positions beyond hit the data phase */
    gen_singles(cs, g_L, g_delays);
    if (g_eager_singles) { g_eager = 3; gen_singles(cs, g_L, g_delays); g_eager = 0; }
    /* random schedules over the first 28 datagrams, with a random eager-writer mode (none / client / server / both) */
    for (int r = 0; r < nrandom; r++) {
        int len = 6 + vf_below(g, 23), heavy = vf_below(g, 3);
        for (int i = 0; i < len; i++) {
            unsigned x = vf_below(g, 100); unsigned pd = heavy == 2 ? 35 : heavy == 1 ? 20 : 8;
            f[i] = x < pd ? 'x' : x < pd + 10 ? 'd' : x < pd + 13 ? 'D' : x < pd + 16 ? 'R' : x < pd + 26 ? (char) ('1' + vf_below(g, 4)) : x < pd + 34 ? 's' : '.';
        }
        f[len] = 0; g_eager = (int) vf_below(g, 4); add_case(cs, "random", f, ""); g_eager = 0;
    }
    /* spurious timeouts: after every delivery step of the clean handshake, on either endpoint */
    if (spurious_depth >= 1) {
        gen_spurious1(cs, g_spsteps);
        if (g_eager_singles) { g_eager = 3; gen_spurious1(cs, g_spsteps); g_eager = 0; }
    }
    if (spurious_depth >= 2) {
        for (int st = 1; st <= 12; st++) for (int s2 = st; s2 <= 12; s2++) for (int e = 0; e < 4; e++) {
            if (s2 == st && (e & 1) == (e >> 1)) continue;
            char sp[48]; snprintf(sp, sizeof sp, "T%d%c,T%d%c", st, e & 1 ? 'S' : 'C', s2, e & 2 ? 'S' : 'C'); add_case(cs, "spurious-timeout", "", sp);
        }
        for (int st = 1; st <= 12; st++) for (int ep = 0; ep < 2; ep++) for (int d = 0; d < 10; d++) {
            char sp[48]; snprintf(sp, sizeof sp, "T%d%c", st, ep ? 'S' : 'C'); memset(f, '.', d); f[d] = 'x'; f[d + 1] = 0; add_case(cs, "spurious-timeout", f, sp);
        }
    }
    batch_flush();
}
/* Loss of the final handshake flight ("$1x": the last datagram of the configuration's clean handshake is dropped; the datagram right
 * behind it is the eager application datagram of its sender) followed by drop patterns over the next datagrams (the eager datagram,
 * the peer's retransmission, the rebuilt final flight ...), without eager writers, with the sender of the final flight eager
 * (server in full / client-auth / ticket-full handshakes, client in resumed ones), with its peer eager, with both. */
static void gen_final_flight(cfgstate_t *cs, int thorough)
{
    const mx_suite_t *su = mx_suite_by_id(cs->c.suite);
    int last = (cs->c.kind == K_RESUMED || cs->c.kind == K_TKRES) ? 1 : 2;
    char f[72];
    g_batchsize = su->auth == MX_AUTH_PSK ? 32 : 8; g_rep = 0;
    if (!thorough) {
        int psk = su->auth == MX_AUTH_PSK;
        static const char *tails[] = { "x", "xx", "x.x", "x..x" };
        g_eager = 0; add_case(cs, "final-flight-loss", "$1x", "");
        for (int mode = 0; mode < 2; mode++) for (int t = 0; t < 4; t++) {
            if (!psk && !(mode ? t == 0 || t == 2 : t == 1)) continue;     /* certificate suites: three of the eight */
            g_eager = mode ? 3 : last; snprintf(f, sizeof f, "$1%s", tails[t]); add_case(cs, "final-flight-loss", f, "");
        }
    } else {
        for (int mode = 0; mode <= 3; mode++) {
            g_eager = mode;
            for (int p = 0; p < 32; p++) { snprintf(f, sizeof f, "$1x....."); for (int i = 0; i < 5; i++) if ((p >> i) & 1) f[3 + i] = 'x'; add_case(cs, "final-flight-loss", f, ""); }
            for (int p = 0; p < 8; p++) { snprintf(f, sizeof f, "$2xx..."); for (int i = 0; i < 3; i++) if ((p >> i) & 1) f[4 + i] = 'x'; add_case(cs, "final-flight-loss", f, ""); }
        }
    }
    g_eager = 0;
    batch_flush();
}
/* Every single datagram of the handshake lost alone, R times under different entropy (option N<k>): ECDSA signatures vary in length
 * from handshake to handshake, and a flight that carries one (ServerKeyExchange, CertificateVerify) has to be REBUILT around the
 * cached signature when it is retransmitted. */
static void gen_single_drops(cfgstate_t *cs, int L, int R)
{
    char f[72];
    g_batchsize = 8; g_eager = 0;
    for (int r = 1; r <= R; r++) { g_rep = r; for (int i = 0; i < L; i++) { memset(f, '.', i); f[i] = 'x'; f[i + 1] = 0; add_case(cs, "single-drop", f, ""); } }
    g_rep = 0;
    batch_flush();
}

/* ================= replay phase ================= */
typedef struct { int est, mode, rec, rec2, pos, K; } rcase_t;
static const char *estname[] = { "bidir", "client-data-only", "retransmitted-final-flight", "reordered-data" };
#define NEST 4
static const char *modename[] = { "single-replay", "after-finished-replay", "double-replay", "pair-replay", "gap-replay" };

static void inject(const cap_t *c, const char *what)
{
    dg_t g = { c->d, c->n, c->dir, 9000, 0, 1, 0, 0 };
    TRACE("  replay %s: %s record type %d epoch %d seq %llu len %d%s\n", what, c->dir ? "S->C" : "C->S", c->type, c->epoch, c->seq, c->n, c->isdg ? " (whole datagram)" : "");
    deliver(&g);
    sim_settle(10);        /* whatever the replay provoked travels over a clean network */
}
static int find_finished(int dir)
{
    /* the last Finished the peer sent in this direction: handshake record with epoch >= 1 and sequence 0 */
    int best = -1;
    for (int i = 0; i < G.ncap; i++) if (!G.cap[i].isdg && G.cap[i].dir == dir && G.cap[i].type == 22 && G.cap[i].epoch >= 1) best = i;
    return best;
}
static void replay_child(void *arg)
{
    rcase_t *r = arg; const cap_t *c = &G.cap[r->rec];
    int D0 = 300;
    G.forceClean = 1; G.nclauses = 0; G.verbose = vf_verbose;
    TRACE("CASE %s\n", G.spec);
    for (int j = 0; j <= r->K && !G.failed; j++) {
        if (j == r->pos) {
            if (r->mode == 1) { int fi = find_finished(c->dir); if (fi >= 0) inject(&G.cap[fi], "peer Finished"); }
            inject(c, "record");
            if (r->mode == 2) inject(c, "record again");
            if (r->mode == 3) inject(&G.cap[r->rec2], "second record");
        }
        if (j < r->K) { app_send(&G.C, D0 + j); sim_settle(6); app_send(&G.S, D0 + j); sim_settle(6); }
    }
    /* an old record of either direction must still be refused after all of this */
    sim_final_checks(D0, D0 + r->K, "after a replay");
    sim_clean_exchange(600, "after a replay");
    vf_stat("cases", 1); vf_stat("replays", 1); vf_statf(1, "replays_%s", modename[r->mode]);
    vf_distinct("R/%d/%04x/%d/%d/%d/%d/%d.%d.%llu.%d/%d/%d", VERID(&G.cfg), G.cfg.suite, G.cfg.pmtu, G.cfg.kind, r->est, r->mode, c->dir, c->epoch, c->seq, c->isdg, r->mode == 3 ? r->rec2 : -1, r->pos);
}

static long g_scenario;
typedef struct { cfgstate_t *cs; int est, K, pairs; const char *onlyspec; long scn; int gaps; } scn_arg;
/* Forward jump of g record sequence numbers (g application datagrams lost in a row), then replays around the jump:
 * variant 0: replay the post-gap datagram at once; 1..3: after that many newer datagrams; 4: replay the pre-gap datagram and every
 * application record captured earlier after the jump; 5: one of the "lost" datagrams arrives late (fresh, in or out of the window). */
static void gap_child(void *arg)
{
    rcase_t *r = arg; int g = r->rec, variant = r->rec2 / 2, dir = r->rec2 & 1;
    mx_ep *snd = dir ? &G.S : &G.C;
    G.forceClean = 1; G.nclauses = 0; G.verbose = vf_verbose;
    TRACE("CASE %s\n", G.spec);
    cap_t P, Q, L; memset(&P, 0, sizeof P); memset(&Q, 0, sizeof Q); memset(&L, 0, sizeof L);
    #define GRAB(c) do { (c).n = G.lastn; (c).d = malloc(G.lastn); memcpy((c).d, G.lastdg, G.lastn); (c).dir = G.lastdir; (c).type = 23; (c).epoch = (G.lastdg[3] << 8) | G.lastdg[4]; (c).seq = (G.lastdg[9] << 8) | G.lastdg[10]; } while (0)
    app_send(snd, 400); GRAB(P); sim_settle(4);
    G.dropAll = 1;
    for (int i = 0; i < g && !G.failed; i++) { app_send(snd, 401 + i); if (i == g - 1) GRAB(L); G.lost[dir][401 + i] = 1; }
    G.dropAll = 0;
    app_send(snd, 450); GRAB(Q); sim_settle(4);
    if (!G.failed && G.deliv[dir][450] != 1) viol("app-datagram-lost-without-drop", "the datagram after a gap of %d lost datagrams was delivered %d times", g, G.deliv[dir][450]);
    if (variant >= 1 && variant <= 3) for (int i = 0; i < variant && !G.failed; i++) { app_send(snd, 460 + i); sim_settle(4); }
    if (variant <= 3) inject(&Q, "post-gap datagram");
    if (variant == 4) {
        inject(&P, "pre-gap datagram");
        for (int i = 0; i < G.ncap && !G.failed; i++) if (!G.cap[i].isdg && G.cap[i].type == 23 && G.cap[i].dir == dir) inject(&G.cap[i], "older application record");
        inject(&Q, "post-gap datagram");
    }
    if (variant == 5) {
        inject(&L, "late gap datagram"); G.lost[dir][400 + g] = 0;
        inject(&L, "late gap datagram again"); inject(&Q, "post-gap datagram");
        /* the late datagram is fresh: inside the window (distance 1) it must be accepted once */
        if (!G.failed && G.deliv[dir][400 + g] != 1) viol("app-datagram-lost-without-drop", "a fresh datagram arriving one sequence number behind the newest one after a gap of %d was delivered %d times", g, G.deliv[dir][400 + g]);
    }
    sim_clean_exchange(600, "after a sequence-number gap and replays");
    vf_stat("cases", 1); vf_stat("replays", 1); vf_statf(1, "replays_%s", modename[4]);
    vf_distinct("G/%d/%04x/%d/%d/%d/%d/%d", VERID(&G.cfg), G.cfg.suite, G.cfg.pmtu, G.cfg.kind, g, variant, dir);
}

static void replay_scenario(void *argp)
{
    scn_arg *a = argp; cfgstate_t *cs = a->cs; int est = a->est, K = a->K, pairs = a->pairs; const char *onlyspec = a->onlyspec;
    long g_rcase = a->scn * 131;
    alarm(3000);
    cfg_t *c = &cs->c;
    /* establishment with capture */
    const char *fates = "";
    char fbuf[32];
    if (est == 2) { /* lose the last datagram of the clean handshake once: the final flight is retransmitted at a higher epoch */
        memset(fbuf, '.', sizeof fbuf); fbuf[cs->ndg - 1] = 'x'; fbuf[cs->ndg] = 0; fates = fbuf; }
    sim_init(c, "replay", fates, "", cs->sid);
    G.capture = 1;
    if (!sim_handshake()) { if (!G.nclauses) vf_incon("replay establishment failed %s %04x %s est %d", vn(c), c->suite, kindname[c->kind], est); return; }
    G.forceClean = 1;
    if (est == 3) {
        /* four datagrams per direction, delivered in the order 0,2,1,3: records 1 are accepted through the out-of-order branch of the window */
        for (int side = 0; side < 2 && !G.failed; side++) { mx_ep *e = side ? &G.S : &G.C;
            app_send(e, 0); sim_settle(6); app_send(e, 1); if (G.nnet) G.net[G.nnet - 1].swap = 1; app_send(e, 2); sim_settle(6); app_send(e, 3); sim_settle(6); }
        if (!G.failed && (G.deliv[0][1] != 1 || G.deliv[1][1] != 1 || G.deliv[0][2] != 1)) viol("app-datagram-lost-without-drop", "reordered application datagrams were not all delivered once (c->s %d %d, s->c %d %d)", G.deliv[0][1], G.deliv[0][2], G.deliv[1][1], G.deliv[1][2]);
    }
    else for (int j = 0; j < 3 && !G.failed; j++) { app_send(&G.C, j); sim_settle(6); if (est != 1) { app_send(&G.S, j); sim_settle(6); } }
    if (est == 1) { app_send(&G.C, 3); sim_settle(6); }
    G.capture = 0;
    if (G.failed || G.nclauses) { if (!G.nclauses) vf_incon("replay establishment data exchange failed %s %04x %s est %d", vn(c), c->suite, kindname[c->kind], est); return; }
    if (vf_shard == 0 || vf_case) { vf_stat("replay_scenarios", 1); vf_stat("records_captured", G.ncap); }
    for (int mode = 0; mode < (pairs ? 4 : 3); mode++) for (int rec = 0; rec < G.ncap; rec++) {
        int n2 = mode == 3 ? G.ncap : 1;
        for (int rec2 = 0; rec2 < n2; rec2++) for (int pos = 0; pos <= K; pos++) {
            if (mode == 3 && (G.cap[rec2].isdg || G.cap[rec].isdg || rec2 == rec || (pos != 0 && pos != K))) continue;
            if (mode == 2 && pos != 1) continue;
            long no = g_rcase++;
            rcase_t rc = { est, mode, rec, rec2, pos, K };
            snprintf(G.spec, sizeof G.spec, "R/%s/%04x/%d/%s/%s/%s/%d/%d/%d", vn(c), c->suite, c->pmtu, kindname[c->kind], estname[est], modename[mode], rec, rec2, pos);
            if (onlyspec) { if (strcmp(onlyspec, G.spec)) continue; }
            else if (!vf_mine(no)) continue;
            const cap_t *cp = &G.cap[rec];
            const char *what = cp->type == 23 ? "app" : cp->type == 22 ? (cp->epoch ? "finished" : "handshake") : cp->type == 20 ? "ccs" : "other";
            snprintf(G.keytail, sizeof G.keytail, "%s:%s:%s:%s", vn(c), famname(c->suite), kindname[c->kind], modename[mode]);
            if ((no % 2111) == 7) vf_sample("replay %s: %s record (type %d epoch %d seq %llu) of %s at position %d/%d", G.spec, what, cp->type, cp->epoch, cp->seq, cp->dir ? "server" : "client", pos, K);
            if (vf_case) { replay_child(&rc); vf_flush(); fflush(NULL); _exit(0); }
            vf_fork_case(replay_child, &rc, "c16-replay", G.spec, 60);
        }
    }
    if (est == 0 && a->gaps) for (int g = 1; g <= 40; g++) {
        if (a->gaps == 1 && !(g <= 2 || g == 8 || g == 16 || g >= 28)) continue;
        for (int v = 0; v < 12; v++) {
            long no = g_rcase++;
            rcase_t rc = { est, 4, g, v, 0, K };
            snprintf(G.spec, sizeof G.spec, "R/%s/%04x/%d/%s/%s/%s/%d/%d/%d", vn(c), c->suite, c->pmtu, kindname[c->kind], estname[est], modename[4], g, v, 0);
            if (onlyspec) { if (strcmp(onlyspec, G.spec)) continue; }
            else if (!vf_mine(no)) continue;
            snprintf(G.keytail, sizeof G.keytail, "%s:%s:%s:%s", vn(c), famname(c->suite), kindname[c->kind], modename[4]);
            if (g == 33 && v == 0) vf_sample("replay %s: %d application datagrams lost in a row, then the datagram after the gap replayed immediately", G.spec, g);
            if (vf_case) { gap_child(&rc); vf_flush(); fflush(NULL); _exit(0); }
            vf_fork_case(gap_child, &rc, "c16-replay", G.spec, 60);
        }
    }
    sim_free();
    for (int i = 0; i < G.ncap; i++) free(G.cap[i].d);
    G.ncap = 0;
}
static int g_gaps;   /* 0 none, 1 quick subset of gap sizes, 2 all gap sizes 1..40 */
/* the establishment itself runs in a child, so that a library crash there costs one scenario, not the shard */
static void run_replays(cfgstate_t *cs, int est, int K, int pairs, const char *onlyspec)
{
    cfg_prepare(cs); if (!cs->usable) return;
    cfg_activate(cs);
    scn_arg a = { cs, est, K, pairs, onlyspec, g_scenario++, g_gaps };
    char spec[300]; cfg_t *c = &cs->c;
    snprintf(spec, sizeof spec, "S/%s/%04x/%d/%s/replay-establishment-%s/%s/", vn(c), c->suite, c->pmtu, kindname[c->kind], estname[est], est == 2 ? "(last handshake datagram dropped once)" : "");
    if (vf_case) { replay_scenario(&a); return; }
    vf_fork_case(replay_scenario, &a, "c16-replay-establishment", spec, 3000);
}

/* ================= configurations ================= */
static cfgstate_t CS[400]; static int nCS;
static cfgstate_t *cfg_get2(int ver, int sver, uint16_t suite, int pmtu, int kind)
{
    for (int i = 0; i < nCS; i++) if (CS[i].c.ver == ver && CS[i].c.sver == sver && CS[i].c.suite == suite && CS[i].c.pmtu == pmtu && CS[i].c.kind == kind) return &CS[i];
    cfgstate_t *cs = &CS[nCS++]; memset(cs, 0, sizeof *cs); cs->c = (cfg_t) { ver, suite, pmtu, kind, sver };
    return cs;
}
static cfgstate_t *cfg_get(int ver, uint16_t suite, int pmtu, int kind) { return cfg_get2(ver, ver, suite, pmtu, kind); }
static int parse_ver(const char *s) { for (int i = 0; i < MX_NVER; i++) if (!strcmp(s, mx_vername[i])) return i; return -1; }
static int parse_kind(const char *s) { for (int i = 0; i < NKIND; i++) if (!strcmp(s, kindname[i])) return i; return -1; }

static int run_case_spec(const char *spec)
{
    char buf[700]; snprintf(buf, sizeof buf, "%s", spec);
    char *sp = strstr(buf, " (batch"); if (sp) *sp = 0;
    char *tok[12]; int nt = 0; char *p = buf;
    while (nt < 12) { tok[nt++] = p; char *q = strchr(p, '/'); if (!q) break; *q = 0; p = q + 1; }
    if (nt < 6) { fprintf(stderr, "bad case spec\n"); return 2; }
    char *tilde = strchr(tok[1], '~'); if (tilde) *tilde = 0;
    int ver = parse_ver(tok[1]), sver = tilde ? parse_ver(tilde + 1) : ver; uint16_t suite = (uint16_t) strtol(tok[2], NULL, 16); int pmtu = atoi(tok[3]); int kind = parse_kind(tok[4]);
    if (ver < 0 || sver < 0 || kind < 0 || !mx_suite_by_id(suite)) { fprintf(stderr, "bad case spec\n"); return 2; }
    cfgstate_t *cs = cfg_get2(ver, sver, suite, pmtu, kind);
    mx_entropy_seed(vf_seed * 31 + 7);
    if (tok[0][0] == 'S') {
        g_batchsize = 1;
        add_case(cs, tok[5], nt > 6 ? tok[6] : "", nt > 7 ? tok[7] : "");
        batch_flush();
    } else {
        int est = 0; for (int i = 0; i < NEST; i++) if (!strcmp(tok[5], estname[i])) est = i;
        char full[700]; snprintf(full, sizeof full, "%s", spec);
        g_gaps = 2;
        run_replays(cs, est, vf_thorough ? 6 : 3, 1, full);
    }
    return 0;
}

int main(int argc, char **argv)
{
    vf_init(argc, argv); mx_global_init(); mx_keys_load();
    vf_maxsamples = 10;
    if (vf_case) { setvbuf(stdout, NULL, _IONBF, 0); int rc = 0; { char *all = strdup(vf_case), *sv = NULL; for (char *one = strtok_r(all, ";", &sv); one; one = strtok_r(NULL, ";", &sv)) rc = run_case_spec(one); free(all); } sim_free(); for (int i = 0; i < nCS; i++) if (CS[i].sid) matrixSslDeleteSessionId(CS[i].sid); mx_keys_free(); matrixSslClose(); vf_flush(); return rc; }

    static const int pmtus[] = { 1500, 600, 400 };   /* 256 cannot carry a 2048-bit RSA ClientKeyExchange / signature in one datagram */
    int T = vf_thorough;
    /* vf_rng_init(seed) and vf_rng_init(seed+1) give the same splitmix stream shifted by one draw: hash the seed first */
    uint64_t hs = vf_hash(&vf_seed, sizeof vf_seed) ^ (vf_seed << 32);
    vf_rng g; vf_rng_init(&g, hs, 16);
    int ci = 0;
    /* development aid (not used by the driver): "--mixed-only" runs only the mixed-version configurations and their replays */
    if (vf_flag("--mixed-only")) goto mixed_pairs;
    /* --- PSK bulk: exhaustive drop patterns --- */
    static const struct { uint16_t suite; int ver; } psk[] = { { 0x008c, MX_DTLS10 }, { 0x008c, MX_DTLS12 }, { 0x00ae, MX_DTLS12 } };
    g_L = T ? 16 : 12; g_delays = 3; g_spsteps = T ? 16 : 10;
    /* eager writers: all drop patterns again with the client / the server / both writing at their own completion (the final flight is
       datagram 5 of a PSK handshake, 3 of a resumed one), single positions and spurious timers again with both sides eager */
    g_eager_drop_modes = T ? 0xe : 0x8; g_eager_m = T ? 10 : 7; g_eager_singles = 1;
    for (int i = 0; i < 3; i++) for (int kind = K_FULL; kind <= K_RESUMED; kind++) {
        mx_entropy_seed(vf_seed * 31 + ci++);
        int m = T ? 12 : (i == 2 ? 6 : 8);
        cfgstate_t *cs = cfg_get(psk[i].ver, psk[i].suite, 1500, kind);
        gen_schedules(cs, m, T ? 3000 : 24, T ? 2 : 1, &g);
        gen_final_flight(cs, T);
    }
    for (int kind = K_FULL; kind <= K_RESUMED; kind++) { mx_entropy_seed(vf_seed * 31 + ci++); cfgstate_t *cs = cfg_get(MX_DTLS12, 0x00ae, 256, kind); gen_schedules(cs, T ? 10 : 6, T ? 500 : 8, 1, &g); gen_final_flight(cs, T); }
    /* --- certificate suites: RSA key transport and ECDHE-RSA, CBC and GCM, all PMTUs, three handshake kinds --- */
    /* ... and ECDHE-ECDSA (server identity and, with client-auth, client identity from the sample P-256 keys): the DER length of an
       ECDSA signature varies from handshake to handshake, which matters when ServerKeyExchange / CertificateVerify flights are rebuilt */
    static const struct { uint16_t suite; int ver; int quick; } cert[] = { { 0x002f, MX_DTLS10, 1 }, { 0x002f, MX_DTLS12, 1 }, { 0x009c, MX_DTLS12, 1 }, { 0xc013, MX_DTLS10, 1 }, { 0xc013, MX_DTLS12, 1 }, { 0xc02f, MX_DTLS12, 1 },
        { 0xc009, MX_DTLS10, 1 }, { 0xc009, MX_DTLS12, 2 }, { 0xc02b, MX_DTLS12, 1 }, { 0xc023, MX_DTLS12, 0 }, { 0xc02c, MX_DTLS12, 0 } };
    for (int i = 0; i < (int) (sizeof cert / sizeof cert[0]); i++) for (int pi = 0; pi < 3; pi++) for (int kind = 0; kind <= K_CAUTH; kind++) {
        int ecdhe = cert[i].suite >= 0xc000, ecdsa = mx_suite_by_id(cert[i].suite)->auth == MX_AUTH_ECDSA;
        mx_entropy_seed(vf_seed * 31 + ci++);
        cfgstate_t *cs;
        if (!T) {
            /* quick: every (suite, version) x pmtu x kind, but small exhaustive depth; ECDHE only at two PMTUs. ECDSA: the general classes
               at PMTU 1500 for one CBC (DTLS 1.0) and one GCM (DTLS 1.2) suite; elsewhere (PMTU 400, CBC at DTLS 1.2) only the classes aimed
               at rebuilt flights, and no resumption (a resumed handshake carries no signature) */
            if (!cert[i].quick || (ecdhe && pi == 1)) continue;
            int general = !ecdsa || (pi == 0 && cert[i].quick == 1);
            if (!general && (kind == K_RESUMED || (cert[i].quick == 2 && pi != 0))) continue;
            int m = ecdhe ? 3 : (pi == 0 ? 5 : 3);
            g_L = pi == 0 ? 8 : 12; g_delays = 1; g_spsteps = pi == 0 ? 8 : 12;
            g_eager_drop_modes = 0; g_eager_singles = 0;
            cs = cfg_get(cert[i].ver, cert[i].suite, pmtus[pi], kind);
            if (general) gen_schedules(cs, m, ecdhe ? 3 : 5, 1, &g);
            if (ecdsa && kind != K_RESUMED) gen_single_drops(cs, pi == 0 ? 8 : 10, general ? 3 : 2);
        } else {
            int m = ecdhe ? 8 : 10;
            g_L = pi == 0 ? 12 : 24; g_delays = 3; g_spsteps = pi == 0 ? 12 : 24;
            g_eager_drop_modes = 0x8; g_eager_m = m - 2; g_eager_singles = 1;
            cs = cfg_get(cert[i].ver, cert[i].suite, pmtus[pi], kind);
            gen_schedules(cs, m, ecdhe ? 300 : 600, pi == 0 || pi == 2 ? 2 : 1, &g);
            if (ecdsa && kind != K_RESUMED) gen_single_drops(cs, pi == 0 ? 10 : 16, 12);
        }
        gen_final_flight(cs, T);
    }
    /* --- RFC 5077 tickets: the server's last flight carries NewSessionTicket; a resumed handshake presents the ticket in ClientHello --- */
    g_L = T ? 16 : 12; g_delays = T ? 3 : 1; g_spsteps = T ? 16 : 10;
    for (int kind = K_TKFULL; kind <= K_TKRES; kind++) {
        cfgstate_t *cs;
        g_eager_drop_modes = 0xe; g_eager_m = T ? 8 : 6; g_eager_singles = T;
        mx_entropy_seed(vf_seed * 31 + ci++); gen_schedules(cs = cfg_get(MX_DTLS12, 0x00ae, 1500, kind), T ? 10 : 6, T ? 600 : 12, 1, &g); gen_final_flight(cs, T);
        g_eager_drop_modes = T ? 0x8 : 0; g_eager_m = 6; g_eager_singles = 0;
        mx_entropy_seed(vf_seed * 31 + ci++); gen_schedules(cs = cfg_get(MX_DTLS10, 0x002f, 1500, kind), T ? 8 : 4, T ? 300 : 6, 1, &g); gen_final_flight(cs, T);
        if (T) { mx_entropy_seed(vf_seed * 31 + ci++); gen_schedules(cs = cfg_get(MX_DTLS12, 0xc02f, 400, kind), 6, 200, 1, &g); gen_final_flight(cs, T);   /* certificate suites need PMTU >= 400: only Certificate is fragmented (PS_MIN_PMTU comment in dtls.c) */ }
    }
    /* --- mixed-version pairs: the peers enable different version sets and negotiate DTLS 1.0. A client that enables DTLS 1.2 (and with it
       1.0) writes 1.2 into the record header of both ClientHellos, so every further copy of them (network duplicate, timer retransmission
       after a lost ServerHello flight, replay) reaches a server that has meanwhile negotiated 1.0; a client that enables only 1.0 makes a
       1.2-capable server negotiate down. Same schedule classes, oracles and kinds as for peers configured alike; suites that exist in
       DTLS 1.0 (these configurations are generated after all others, so the cases of the alike-configured peers are what they were) --- */
mixed_pairs: ;
    static const struct { int cver, sver; } mixed[] = { { MX_DTLS12, MX_DTLS10 }, { MX_DTLS10, MX_DTLS12 } };
    for (int mi = 0; mi < 2; mi++) {
        int cv = mixed[mi].cver, sv = mixed[mi].sver; cfgstate_t *cs;
        g_L = T ? 16 : 12; g_delays = T ? 3 : 1; g_spsteps = T ? 16 : 10;
        g_eager_drop_modes = T ? 0xe : 0x8; g_eager_m = T ? 10 : 6; g_eager_singles = T;
        for (int kind = K_FULL; kind <= K_RESUMED; kind++) {
            mx_entropy_seed(vf_seed * 31 + ci++);
            gen_schedules(cs = cfg_get2(cv, sv, 0x008c, 1500, kind), T ? 12 : 7, T ? 1500 : 12, T ? 2 : 1, &g); gen_final_flight(cs, T);
        }
        g_eager_drop_modes = 0; g_eager_singles = 0;
        if (T || mi == 0) { mx_entropy_seed(vf_seed * 31 + ci++); gen_schedules(cs = cfg_get2(cv, sv, 0x008c, 256, K_FULL), T ? 10 : 5, T ? 300 : 4, 1, &g); gen_final_flight(cs, T); }
        static const uint16_t msuite[] = { 0x002f, 0xc013, 0xc009 };
        for (int si = 0; si < 3; si++) for (int pi = 0; pi < 3; pi++) for (int kind = 0; kind <= K_CAUTH; kind++) {
            int ecdhe = msuite[si] >= 0xc000, ecdsa = msuite[si] == 0xc009;
            if (!T) {
                /* quick: client 1.2+1.0 / server 1.0: RSA at PMTU 1500 (three kinds) and 400 (full), ECDHE-RSA at 400 (full, client-auth), ECDHE-ECDSA
                   at 1500 (full); client 1.0 / server 1.2+1.0: RSA at 1500 (full, client-auth), ECDHE-RSA at 400 (full) */
                int on = mi == 0 ? (si == 0 ? (pi == 0 || (pi == 2 && kind == K_FULL)) : si == 1 ? (pi == 2 && kind != K_RESUMED) : (pi == 0 && kind == K_FULL))
                                 : (si == 0 ? (pi == 0 && kind != K_RESUMED) : si == 1 ? (pi == 2 && kind == K_FULL) : 0);
                if (!on) continue;
                mx_entropy_seed(vf_seed * 31 + ci++);
                g_L = pi == 0 ? 8 : 12; g_delays = 1; g_spsteps = pi == 0 ? 8 : 12;
                cs = cfg_get2(cv, sv, msuite[si], pmtus[pi], kind);
                gen_schedules(cs, ecdhe ? 3 : 4, 3, 1, &g);
                if (ecdsa) gen_single_drops(cs, 8, 1);
            } else {
                if (pi == 1 && si != 0) continue;
                mx_entropy_seed(vf_seed * 31 + ci++);
                g_L = pi == 0 ? 12 : 24; g_delays = 3; g_spsteps = pi == 0 ? 12 : 24;
                g_eager_drop_modes = 0x8; g_eager_m = 5; g_eager_singles = 0;
                cs = cfg_get2(cv, sv, msuite[si], pmtus[pi], kind);
                gen_schedules(cs, ecdhe ? 6 : 8, ecdhe ? 100 : 200, pi == 0 ? 2 : 1, &g);
                if (ecdsa && kind != K_RESUMED) gen_single_drops(cs, pi == 0 ? 10 : 16, 3);
                g_eager_drop_modes = 0;
            }
            gen_final_flight(cs, T);
        }
        /* RFC 5077 tickets between such peers (the ticket carries the negotiated version) */
        if (T || mi == 0) for (int kind = K_TKFULL; kind <= K_TKRES; kind++) {
            g_L = T ? 16 : 10; g_delays = T ? 3 : 1; g_spsteps = T ? 16 : 8;
            mx_entropy_seed(vf_seed * 31 + ci++); gen_schedules(cs = cfg_get2(cv, sv, 0x002f, 1500, kind), T ? 8 : 3, T ? 200 : 3, 1, &g); gen_final_flight(cs, T);
        }
    }
    g_eager_drop_modes = 0; g_eager_singles = 0;
    batch_flush();

    /* --- replay phase --- */
    int K = T ? 6 : 3;
    for (int i = 0; i < nCS; i++) {
        cfgstate_t *cs = &CS[i];
        const mx_suite_t *su = mx_suite_by_id(cs->c.suite);
        int isPsk = su->auth == MX_AUTH_PSK, ecdhe = cs->c.suite >= 0xc000;
        if (!T) {
            /* quick: PSK CBC at both versions (all kinds, all establishment variants), RSA-GCM and one ECDHE at pmtu 1500 and 256 */
            if (!(isPsk || (cs->c.suite == 0x009c && cs->c.pmtu != 600) || (cs->c.suite == 0x002f && cs->c.ver == MX_DTLS10 && cs->c.pmtu == 1500) || (cs->c.suite == 0xc02f && cs->c.pmtu == 1500 && cs->c.kind == K_FULL))) continue;
            if (cs->c.suite == 0x00ae) continue;
        } else if (ecdhe && cs->c.pmtu == 600) continue;
        /* the record layer of the ECDHE-ECDSA suites is that of their ECDHE-RSA twins: one CBC and one GCM representative in the replay phase */
        else if (su->auth == MX_AUTH_ECDSA && !((cs->c.suite == 0xc009 && cs->c.ver == MX_DTLS10) || cs->c.suite == 0xc02b)) continue;
        /* quick, mixed-version pairs: PSK at PMTU 1500 (client 1.2+1.0 / server 1.0: both kinds, all establishment variants; the other way
           round: full handshake, first variant) and RSA client 1.2+1.0 / server 1.0 full (two variants) */
        int mixedcfg = cs->c.sver != cs->c.ver, c12 = cs->c.ver == MX_DTLS12;
        if (!T && mixedcfg && !(cs->c.pmtu == 1500 && ((isPsk && (c12 || cs->c.kind == K_FULL)) || (cs->c.suite == 0x002f && c12 && cs->c.kind == K_FULL)))) continue;
        /* thorough, mixed-version pairs: PSK everywhere; RSA at PMTU 1500 (client 1.2+1.0 / server 1.0 also 400) incl. tickets; ECDHE-RSA client
           1.2+1.0 / server 1.0 at 1500; pair replays only with PSK */
        if (T && mixedcfg && !(isPsk || (cs->c.suite == 0x002f && (cs->c.pmtu == 1500 || (c12 && cs->c.pmtu == 400))) || (cs->c.suite == 0xc013 && c12 && cs->c.pmtu == 1500))) continue;
        for (int est = 0; est < NEST; est++) {
            if (!T && !isPsk && est >= 2 && cs->c.kind != K_FULL) continue;
            if (!T && mixedcfg && ((!c12 && est != 0) || (!isPsk && est != 0 && est != 2))) continue;
            mx_entropy_seed(vf_seed * 131 + i * 3 + est);
            /* sequence-number gap family: every suite class at least once in quick (full handshakes), everywhere in thorough */
            g_gaps = T ? 2 : (cs->c.kind == K_FULL && cs->c.pmtu == 1500 ? 1 : 0);
            run_replays(cs, est, K, T && (isPsk || (cs->c.pmtu == 1500 && !mixedcfg)), NULL);
        }
    }
    sim_free();
    for (int i = 0; i < nCS; i++) if (CS[i].sid) matrixSslDeleteSessionId(CS[i].sid);
    mx_keys_free(); matrixSslClose();
    vf_flush();
    return 0;
}
