/* C04 - a handshake that calls for certificate authentication completes only if the peer was
 * authenticated or the application's callback accepted that specific failure, and the peer proved
 * possession of the leaf's private key.
 *
 * By-construction monitor at handshake level.  The peer's credentials are minted with gen/certgen.h
 * (own DER writer, libcrypto signs) so that every case carries its ground-truth label; the verifying
 * endpoint runs with no callback / a strict callback (returns the alert) / a permissive callback
 * (returns 0).  Oracle on the verifying side:
 *    complete  =>  label == good
 *               or (label is a validation failure AND a callback was registered, was shown a non-zero
 *                   alert and returned 0);
 *    a wrong-key peer (certificate A, private key B) never completes, whatever the callback says;
 *    with no callback every failure is fatal - for every protocol version alike. */
#include "mx.h"

#include "c04_mint.h"   /* labels + mint_der(): shared with the OpenSSL-prover stage (c04_ossl.c) */
typedef struct { const char *name; int ver; uint16_t suite; int leafType; int verifierIsServer; } scn_t;
static const scn_t scns[] = {
    { "rsa-kx", MX_TLS11, 0x002f, CG_K_RSA2048, 0 }, { "ecdhe-rsa", MX_TLS11, 0xc013, CG_K_RSA2048, 0 },
    { "rsa-kx", MX_TLS12, 0x003c, CG_K_RSA2048, 0 }, { "ecdhe-rsa", MX_TLS12, 0xc02f, CG_K_RSA2048, 0 }, { "ecdhe-ecdsa", MX_TLS12, 0xc02b, CG_K_P256, 0 },
    { "tls13-rsa", MX_TLS13, 0x1301, CG_K_RSA2048, 0 }, { "tls13-ecdsa", MX_TLS13, 0x1302, CG_K_P256, 0 }, { "tls13-ed25519", MX_TLS13, 0x1303, CG_K_ED25519, 0 },
    { "ecdhe-rsa", MX_DTLS12, 0xc027, CG_K_RSA2048, 0 }, { "rsa-kx", MX_DTLS10, 0x002f, CG_K_RSA2048, 0 },
    { "clientauth-rsa", MX_TLS12, 0x009c, CG_K_RSA2048, 1 }, { "clientauth-ecdsa", MX_TLS12, 0xc02b, CG_K_P256, 1 }, { "clientauth-rsa", MX_TLS11, 0x002f, CG_K_RSA2048, 1 },
    { "clientauth-ecdsa", MX_TLS13, 0x1301, CG_K_P256, 1 }, { "clientauth-rsa", MX_TLS13, 0x1301, CG_K_RSA2048, 1 }, { "clientauth-rsa", MX_DTLS12, 0x003c, CG_K_RSA2048, 1 },
};
#define NSCN ((int) (sizeof scns / sizeof scns[0]))

typedef struct { char *chainPem, *keyPem, *caPem; const char *expected; } cred_t;
static void append(char **dst, char *src) { size_t a = *dst ? strlen(*dst) : 0, b = strlen(src); *dst = realloc(*dst, a + b + 1); memcpy(*dst + a, src, b + 1); free(src); }

/* mint the peer's credentials for one label (c04_mint.h) and hand them over as PEM; returns 0 on success */
static int mint(const scn_t *s, int label, int viaInt, cred_t *out)
{
    mint_t m; memset(out, 0, sizeof *out);
    if (mint_der(s->leafType, s->verifierIsServer, label, viaInt, &m) != 0) return -1;
    for (int i = 0; i < m.nchain; i++) append(&out->chainPem, cg_pem("CERTIFICATE", m.chain[i].der, m.chain[i].len));
    out->keyPem = cg_key_priv_pem(m.proverKey, 0);
    out->caPem = cg_pem("CERTIFICATE", m.anchor.der, m.anchor.len);
    out->expected = m.expected;
    mint_free(&m);
    return 0;
}

typedef struct { const scn_t *s; int label, cb, viaInt; int depth; /* verifier's max_verify_depth (0 = unlimited); with a good leaf <- intermediate <- root chain 2 is one too few */ } case_t;
static char cur_desc[200];
static void report(const case_t *c, const char *clause, const char *fmt, ...)
{
    char key[200], msg[600]; va_list ap; va_start(ap, fmt); vsnprintf(msg, sizeof msg, fmt, ap); va_end(ap);
    snprintf(key, sizeof key, "c04:%s:%s:%s:%s%s%s:%s", clause, mx_vername[c->s->ver], c->s->verifierIsServer ? "server-verifies-client" : "client-verifies-server", lname[c->label], c->viaInt ? "+intermediate-sent" : "", c->depth == 2 ? "+verify-depth-exceeded" : c->depth ? "+verify-depth-sufficient" : "", cbname[c->cb]);
    vf_violation(key, cur_desc, "%s | scenario=%s suite=%04x", msg, c->s->name, c->s->suite);
}

static void run_case(void *a_)
{
    case_t *c = a_; const scn_t *s = c->s; cred_t cr;
    vf_stat("cases", 1);
    if (mint(s, c->label, c->viaInt, &cr) != 0) { vf_incon("minting credentials failed (%s %s)", s->name, lname[c->label]); return; }
    /* peer (prover) key set: identity = minted chain + key; verifier key set: trust = minted root (or the other root) */
    sslKeys_t *pk = NULL, *vk = NULL; int rc;
    const char *ownCert = s->leafType == CG_K_P256 || s->leafType == CG_K_ED25519 ? MX_TK "EC/256_EC.pem" : MX_TK "RSA/2048_RSA.pem";
    const char *ownKey = s->leafType == CG_K_P256 || s->leafType == CG_K_ED25519 ? MX_TK "EC/256_EC_KEY.pem" : MX_TK "RSA/2048_RSA_KEY.pem";
    long realNow = mx_now;
    if (c->label == L_EXPIRED_LEAF || c->label == L_EXPIRED_INT) mx_now -= 200L * 86400; if (c->label == L_NOTYET_LEAF) mx_now += 20L * 86400;   /* the prover loads its identity while it is still / already valid */
    MX_ENTER(); matrixSslNewKeys(&pk, NULL); matrixSslNewKeys(&vk, NULL);
    rc = matrixSslLoadKeysMem(pk, (unsigned char *) cr.chainPem, (int32) strlen(cr.chainPem), (unsigned char *) cr.keyPem, (int32) strlen(cr.keyPem),
                              NULL, 0, NULL);   /* the prover itself accepts its peer through a callback (not under test) */
    MX_LEAVE();
    mx_now = realNow;
    if (rc < 0) { if (c->label == L_GOOD) vf_violation("c04:harness:good-credentials-do-not-load", cur_desc, "matrixSslLoadKeysMem rc=%d", rc); else vf_statf(1, "refused_at_load_%s", lname[c->label]); goto out; }
    MX_ENTER();
    if (s->verifierIsServer) rc = matrixSslLoadKeys(vk, ownCert, ownKey, NULL, NULL, NULL);        /* server identity from the sample credentials */
    if (rc >= 0 && c->label != L_NO_TRUST) rc = matrixSslLoadKeysMem(vk, NULL, 0, NULL, 0, (unsigned char *) cr.caPem, (int32) strlen(cr.caPem), NULL);
    MX_LEAVE();
    if (rc < 0) { vf_incon("verifier key set failed to load rc=%d", rc); goto out; }
    {
        mx_cfg cfg = { .ver = s->ver, .suite = s->suite, .clientAuth = s->verifierIsServer, .skeys = s->verifierIsServer ? vk : pk, .ckeys = s->verifierIsServer ? pk : vk,
                       .expectedName = cr.expected }; mx_conn k; sslSessionId_t *sid; matrixSslNewSessionId(&sid, NULL); sslSessOpts_t o;
        memset(&k, 0, sizeof k); k.cfg = cfg; k.dtls = MX_IS_DTLS(s->ver);
        sslCertCb_t vcb = cb_fn(c->cb);
        cb_reset();
        /* sessions are created here (not through mx_new_*) because the callback choice belongs to the verifying side only */
        mx_opts(&o, &cfg, MX_SERVER); if (c->depth && s->verifierIsServer) o.validateCertsOpts.max_verify_depth = c->depth; memset(&k.s, 0, sizeof k.s); k.s.role = MX_SERVER; k.s.ver = s->ver; k.s.id = 1; k.s.name = "S";
        mx_actor = 1; MX_ENTER(); rc = matrixSslNewServerSession(&k.s.ssl, cfg.skeys, s->verifierIsServer ? (vcb ? vcb : NULL) : NULL, &o); MX_LEAVE();
        if (rc < 0) { vf_incon("server session rc=%d", rc); matrixSslDeleteSessionId(sid); goto out; }
        if (s->verifierIsServer && !vcb) { /* a server asks for a client certificate only when told to authenticate: flag set by mx_opts? */ }
        mx_opts(&o, &cfg, MX_CLIENT); if (c->depth && !s->verifierIsServer) o.validateCertsOpts.max_verify_depth = c->depth; memset(&k.c, 0, sizeof k.c); k.c.role = MX_CLIENT; k.c.ver = s->ver; k.c.id = 0; k.c.name = "C"; k.c.wantTake = 1;
        psCipher16_t cs[1] = { s->suite };
        mx_actor = 0; MX_ENTER(); rc = matrixSslNewClientSession(&k.c.ssl, cfg.ckeys, sid, cs, 1, s->verifierIsServer ? mx_cert_cb_accept : vcb, cfg.expectedName, NULL, NULL, &o); MX_LEAVE();
        if (rc < 0) { if (c->label == L_GOOD) vf_incon("client session rc=%d", rc); mx_ep_free(&k.s); matrixSslDeleteSessionId(sid); goto out; }
        mx_conn_run(&k, NULL, NULL, 300);
        mx_ep *V = s->verifierIsServer ? &k.s : &k.c;
        int vdone = (V->hsDone || matrixSslHandshakeIsComplete(V->ssl));
        int both = mx_conn_established(&k);
        vf_distinct("%s|%s|%d|%s|%s|%d|d%d", mx_vername[s->ver], s->name, s->verifierIsServer, lname[c->label], cbname[c->cb], c->viaInt, c->depth);
        vf_statf(1, "outcome_%s%s_%s", lname[c->label], c->depth == 2 ? "+depth-exceeded" : c->depth ? "+depth-ok" : "", vdone ? "complete" : "refused");
        int mustFail = c->label != L_GOOD || c->depth == 2 || CB_REFUSES(c->cb);
        if (CB_REFUSES(c->cb)) vf_statf(1, "cbresult_%s_%s_%s", mx_vername[s->ver], cbname[c->cb] + 9, vdone ? "COMPLETE" : V->ssl->err == SSL_ALERT_INTERNAL_ERROR ? "internal_error" : V->ssl->err == SSL_ALERT_ACCESS_DENIED ? "that-alert" : cb_calls ? "other-alert" : "not-asked");
        if (!mustFail) {
            if (!both) report(c, "good-credentials-refused", "handshake with a correct chain and key did not complete (verifier alert sent %d, callback calls %d last alert %d)", V->ssl->err, cb_calls, cb_last);
            else { unsigned char p[64]; mx_payload(p, 64, 0x0c04, 0, 1); mx_send(&k.c, p, 64); mx_conn_run(&k, NULL, NULL, 20); if (k.s.gotlen != 64) report(c, "good-credentials-refused", "no data after completion"); else vf_stat("positive_controls_ok", 1); }
        } else if (vdone) {
            if (c->label == L_WRONG_KEY) report(c, "completed-without-proof-of-possession", "verifier completed although the peer holds a different private key than the certificate's");
            else if (CB_REFUSES(c->cb)) report(c, "completed-although-callback-refused", "verifier completed although its certificate callback (%s) refused: called %d times, last alert shown %d; sslCertCb_t: < 0 is a fatal internal error, > 0 is the alert to send", cbname[c->cb], cb_calls, cb_last);
            else if (c->cb != CB_PERMISSIVE && c->cb != CB_ANON) report(c, "completed-despite-validation-failure", "verifier completed (callback calls %d, non-zero alerts %d, last %d)", cb_calls, cb_nonzero, cb_last);
            else if (cb_nonzero == 0) report(c, "failure-not-shown-to-callback", "verifier completed with a permissive callback that was never shown a non-zero alert (calls %d)", cb_calls);
            else vf_stat("application_override_honoured", 1);
        } else {
            if (c->cb != CB_NONE && c->label != L_WRONG_KEY && c->label != L_WRONG_NAME && cb_calls == 0) vf_stat("refused_before_callback", 1);
            vf_stat("refused_as_required", 1);
        }
        mx_ep_free(&k.c); mx_ep_free(&k.s); matrixSslDeleteSessionId(sid);
    }
out:
    MX_ENTER(); if (pk) matrixSslDeleteKeys(pk); if (vk) matrixSslDeleteKeys(vk); MX_LEAVE();
    free(cr.chainPem); free(cr.keyPem); free(cr.caPem);
}


/* ================================================================ keyless attacker vs. client session-cache states ====
 * The attacker holds no certificate key, no PSK and no session secret.  It answers the victim's ClientHello with a ServerHello
 * of its own (echoing / replacing / omitting the session id, with or without an empty session_ticket extension), then
 * ChangeCipherSpec and a Finished computed from publicly computable values only: master secret := 48 zero octets, the two
 * hello randoms and the hello bytes as seen on the wire (TLS 1.2 PRF and AES-128-GCM via libcrypto).  Whatever the client
 * has cached (nothing, a session id, a ticket, a session id next to a stale ticket), it must never report completion. */
#include <openssl/evp.h>
#include <openssl/kdf.h>
#include <openssl/core_names.h>
#include <openssl/sha.h>
#include <openssl/x509.h>
#include <openssl/pem.h>
static int tls12_prf(const unsigned char *secret, int sl, const char *label, const unsigned char *seed, int seedl, unsigned char *out, int outl)
{
    EVP_KDF *kdf = EVP_KDF_fetch(NULL, "TLS1-PRF", NULL); if (!kdf) return -1; EVP_KDF_CTX *kc = EVP_KDF_CTX_new(kdf); EVP_KDF_free(kdf);
    OSSL_PARAM pr[5]; pr[0] = OSSL_PARAM_construct_utf8_string(OSSL_KDF_PARAM_DIGEST, "SHA256", 0); pr[1] = OSSL_PARAM_construct_octet_string(OSSL_KDF_PARAM_SECRET, (void *) secret, sl);
    pr[2] = OSSL_PARAM_construct_octet_string(OSSL_KDF_PARAM_SEED, (void *) label, strlen(label)); pr[3] = OSSL_PARAM_construct_octet_string(OSSL_KDF_PARAM_SEED, (void *) seed, seedl); pr[4] = OSSL_PARAM_construct_end();
    int rc = EVP_KDF_derive(kc, out, outl, pr) > 0 ? 0 : -1; EVP_KDF_CTX_free(kc); return rc;
}
enum { ST_FRESH = 0, ST_ID, ST_TICKET, ST_ID_STALE_TICKET, ST_N };
static const char *stname[] = { "fresh", "session-id", "ticket", "id+stale-ticket" };
enum { SI_ECHO = 0, SI_DIFFERENT, SI_EMPTY, SI_N };
static const char *siname[] = { "echo-id", "different-id", "empty-id" };
typedef struct { int st, si, ext; } kcase_t;
static sslKeys_t *kl_noticket;
static int kl_prime(sslSessionId_t *sid, int st)
{
    mx_cfg c1 = { .ver = MX_TLS12, .suite = 0x009c, .useTicket = st == ST_TICKET || st == ST_ID_STALE_TICKET }; mx_conn k;
    if (st == ST_FRESH) return 0;
    if (st == ST_ID) c1.skeys = kl_noticket;
    if (mx_conn_open(&k, &c1, sid) != 0) return -1; mx_conn_run(&k, NULL, NULL, 300); int ok = mx_conn_established(&k); mx_conn_close(&k); if (!ok) return -1;
    if (st == ST_ID_STALE_TICKET) {   /* the same client now meets a server without ticket keys: full handshake, session id issued, the old ticket stays in the client's cache entry */
        mx_cfg c2 = c1; c2.skeys = kl_noticket; if (mx_conn_open(&k, &c2, sid) != 0) return -1; mx_conn_run(&k, NULL, NULL, 300); ok = mx_conn_established(&k); mx_conn_close(&k); if (!ok) return -1;
    }
    return 0;
}
static void run_keyless(void *a_)
{
    kcase_t *kc = a_; vf_stat("cases", 1); vf_stat("keyless_attacker_cases", 1);
    sslSessionId_t *sid; matrixSslNewSessionId(&sid, NULL);
    if (kl_prime(sid, kc->st) != 0) { vf_incon("keyless: priming of client state %s failed", stname[kc->st]); return; }
    if ((kc->st == ST_ID || kc->st == ST_ID_STALE_TICKET) && sid->idLen == 0) { vf_incon("keyless: client state %s holds no session id", stname[kc->st]); return; }
    if ((kc->st == ST_TICKET || kc->st == ST_ID_STALE_TICKET) && sid->sessionTicketLen == 0) { vf_incon("keyless: client state %s holds no ticket", stname[kc->st]); return; }
    mx_cfg cfg = { .ver = MX_TLS12, .suite = 0x009c, .useTicket = 1 }; mx_ep C; if (mx_new_client(&C, &cfg, sid) < 0) { vf_incon("keyless: client session"); return; }
    unsigned char *ch; int chl = mx_take(&C, &ch); if (chl < 5 + 4 + 2 + 32 + 1) { vf_incon("keyless: no ClientHello"); return; }
    const unsigned char *chb = ch + 5; int chbl = chl - 5;                      /* handshake message incl. its 4-byte header */
    const unsigned char *crand = chb + 4 + 2; int cidl = chb[4 + 2 + 32]; const unsigned char *cid = chb + 4 + 2 + 32 + 1;
    vf_distinct("keyless|%s|%s|%d|chid%d", stname[kc->st], siname[kc->si], kc->ext, cidl > 0);
    /* ServerHello */
    unsigned char sh[5 + 4 + 2 + 32 + 1 + 32 + 3 + 2 + 4], srand_[32]; int o = 5 + 4;
    for (int i = 0; i < 32; i++) srand_[i] = (unsigned char) (0xA0 + i);
    sh[o++] = 3; sh[o++] = 3; memcpy(sh + o, srand_, 32); o += 32;
    if (kc->si == SI_ECHO && cidl > 0) { sh[o++] = (unsigned char) cidl; memcpy(sh + o, cid, cidl); o += cidl; }
    else if (kc->si == SI_EMPTY) sh[o++] = 0;
    else { sh[o++] = 32; memset(sh + o, 0x11, 32); o += 32; }
    sh[o++] = 0x00; sh[o++] = 0x9c; sh[o++] = 0;
    if (kc->ext) { sh[o++] = 0; sh[o++] = 4; sh[o++] = 0; sh[o++] = 35; sh[o++] = 0; sh[o++] = 0; }
    int shbl = o - 5; sh[0] = 22; sh[1] = 3; sh[2] = 3; sh[3] = shbl >> 8; sh[4] = shbl; sh[5] = 2; sh[6] = 0; sh[7] = (shbl - 4) >> 8; sh[8] = (shbl - 4);
    mx_feed(&C, sh, o);
    unsigned char ccs[6] = { 20, 3, 3, 0, 1, 1 }; if (!C.dead) mx_feed(&C, ccs, 6);
    /* keys and Finished from public values: master secret = 0^48 */
    unsigned char ms[48], seed[64], kb[40], hh[32], fin[16], vd[12]; memset(ms, 0, 48);
    memcpy(seed, srand_, 32); memcpy(seed + 32, crand, 32);
    SHA256_CTX hx; SHA256_Init(&hx); SHA256_Update(&hx, chb, chbl); SHA256_Update(&hx, sh + 5, shbl); SHA256_Final(hh, &hx);
    if (tls12_prf(ms, 48, "key expansion", seed, 64, kb, 40) || tls12_prf(ms, 48, "server finished", hh, 32, vd, 12)) { vf_incon("keyless: TLS1-PRF unavailable"); return; }
    const unsigned char *swk = kb + 16, *swiv = kb + 36;                        /* client_write_key | server_write_key | client_iv(4) | server_iv(4) */
    fin[0] = 20; fin[1] = 0; fin[2] = 0; fin[3] = 12; memcpy(fin + 4, vd, 12);
    unsigned char rec[5 + 8 + 16 + 16], nonce[12], aad[13]; int l = 0, l2 = 0; memset(aad, 0, 8); aad[8] = 22; aad[9] = 3; aad[10] = 3; aad[11] = 0; aad[12] = 16;
    memcpy(nonce, swiv, 4); memset(nonce + 4, 0, 8); rec[0] = 22; rec[1] = 3; rec[2] = 3; rec[3] = 0; rec[4] = 8 + 16 + 16; memset(rec + 5, 0, 8);
    EVP_CIPHER_CTX *x = EVP_CIPHER_CTX_new(); EVP_EncryptInit_ex(x, EVP_aes_128_gcm(), NULL, NULL, NULL); EVP_CIPHER_CTX_ctrl(x, EVP_CTRL_AEAD_SET_IVLEN, 12, NULL); EVP_EncryptInit_ex(x, NULL, NULL, swk, nonce);
    EVP_EncryptUpdate(x, NULL, &l, aad, 13); EVP_EncryptUpdate(x, rec + 13, &l, fin, 16); EVP_EncryptFinal_ex(x, rec + 13 + l, &l2); EVP_CIPHER_CTX_ctrl(x, EVP_CTRL_AEAD_GET_TAG, 16, rec + 13 + 16); EVP_CIPHER_CTX_free(x);
    if (!C.dead) mx_feed(&C, rec, sizeof rec);
    int done = !C.dead && C.ssl && matrixSslHandshakeIsComplete(C.ssl);
    vf_statf(1, "keyless_%s_%s_ext%d_%s", stname[kc->st], siname[kc->si], kc->ext, done ? "COMPLETE" : "refused");
    if (done || C.gotlen > 0) {
        char key[200]; snprintf(key, sizeof key, "c04:completed-with-keyless-attacker:%s:%s:%s", stname[kc->st], siname[kc->si], kc->ext ? "ticket-ext" : "no-ext");
        vf_violation(key, cur_desc, "a client with cached state '%s' reports a completed handshake (resumed=%d) with a peer that holds no key at all: ServerHello(%s%s), ChangeCipherSpec, Finished under an all-zero master secret",
                     stname[kc->st], !!(C.ssl->flags & SSL_FLAGS_RESUMED), siname[kc->si], kc->ext ? ", empty session_ticket extension" : "");
    } else vf_stat("keyless_attacker_refused", 1);
    free(ch); mx_ep_free(&C); matrixSslDeleteSessionId(sid);
}


/* ================================================================ certificate-less client vs. a server that demands client authentication ====
 * The attacker owns no client certificate.  It has watched an honest, client-authenticated connection (the session id travels in
 * the clear) and now connects itself: without any session id, naming the sniffed id with the same suite (it does not know the
 * master secret), or naming the sniffed id while offering only a different suite.  A server configured for client
 * authentication must never complete with it. */
enum { NA_FRESH = 0, NA_SNIFFED_SAME_SUITE, NA_SNIFFED_OTHER_SUITE, NA_N };
static const char *naname[] = { "no-session-id", "sniffed-id-same-suite", "sniffed-id-other-suite" };
typedef struct { int ver, na; } nacase_t;
static void run_noauth(void *a_)
{
    nacase_t *nc = a_; vf_stat("cases", 1); vf_stat("certless_client_cases", 1);
    uint16_t suite = 0xc02f, other = 0xc030; if (nc->ver == MX_TLS11 || nc->ver == MX_DTLS10) { suite = 0xc013; other = 0xc014; } if (nc->ver == MX_TLS13) { suite = 0x1301; other = 0x1302; }
    /* honest, client-authenticated connection: the server caches the session */
    sslSessionId_t *hsid; matrixSslNewSessionId(&hsid, NULL);
    mx_cfg hc = { .ver = nc->ver, .suite = suite, .clientAuth = 1, .strictCb = 1 }; mx_conn k;
    if (mx_conn_open(&k, &hc, hsid) != 0) { vf_incon("certless: honest open"); return; }
    mx_conn_run(&k, NULL, NULL, 300);
    if (!mx_conn_established(&k)) { vf_incon("certless: honest client-authenticated handshake failed (%s)", mx_vername[nc->ver]); mx_conn_close(&k); return; }
    unsigned char sniffed[32]; int sl = k.s.ssl->sessionIdLen; if (sl > 32) sl = 32; memcpy(sniffed, k.s.ssl->sessionId, sl);
    MX_ENTER(); matrixSslEncodeClosureAlert(k.c.ssl); MX_LEAVE(); k.c.wantTake = 1; mx_conn_run(&k, NULL, NULL, 20);
    mx_conn_close(&k);
    if (sl == 0 && nc->na != NA_FRESH) { vf_stat("certless_no_session_id_issued", 1); matrixSslDeleteSessionId(hsid); return; }
    /* the attacker: MatrixSSL client WITHOUT an identity (trusts the server's CA), crafted cache entry */
    sslKeys_t *ak = NULL; MX_ENTER(); matrixSslNewKeys(&ak, NULL); int lr = matrixSslLoadRsaKeys(ak, NULL, NULL, NULL, MX_TK "RSA/2048_RSA_CA.pem"); MX_LEAVE();
    if (lr < 0) { vf_incon("certless: attacker key set"); return; }
    sslSessionId_t *asid; matrixSslNewSessionId(&asid, NULL);
    if (nc->na != NA_FRESH) { memcpy(asid->id, sniffed, sl); asid->idLen = (psSize_t) sl; for (int i = 0; i < 48; i++) asid->masterSecret[i] = (unsigned char) (0x30 + i); asid->cipherId = nc->na == NA_SNIFFED_SAME_SUITE ? suite : other; }
    mx_cfg ac = { .ver = nc->ver, .suite = nc->na == NA_SNIFFED_OTHER_SUITE ? other : suite, .clientAuth = 1, .strictCb = 1, .ckeys = ak };
    if (mx_conn_open(&k, &ac, asid) != 0) { vf_incon("certless: attacker open"); return; }
    mx_conn_run(&k, NULL, NULL, 300);
    int sdone = !k.s.dead && k.s.ssl && matrixSslHandshakeIsComplete(k.s.ssl);
    vf_distinct("certless|%s|%s", mx_vername[nc->ver], naname[nc->na]);
    vf_statf(1, "certless_%s_%s_%s", mx_vername[nc->ver], naname[nc->na], sdone ? "COMPLETE" : "refused");
    if (sdone) {
        char key[200]; snprintf(key, sizeof key, "c04:client-auth-server-completed-with-certificate-less-client:%s:%s", mx_vername[nc->ver], naname[nc->na]);
        vf_violation(key, cur_desc, "a server configured for client authentication reports a completed handshake (resumed=%d) with a client that has no certificate at all (%s)", matrixSslIsResumedSession(k.s.ssl), naname[nc->na]);
    } else vf_stat("certless_client_refused", 1);
    mx_conn_close(&k); matrixSslDeleteSessionId(asid); matrixSslDeleteSessionId(hsid); MX_ENTER(); matrixSslDeleteKeys(ak); MX_LEAVE();
}

/* ================================================================ client-auth server x client credential x "the ClientHello offers a PSK / ticket / session id" ====
 * A server configured for client authentication completes only with a client that was authenticated by certificate (the server's
 * callback was shown the chain and what it answered allows completion) or by a PSK / ticket / cached session the server actually
 * accepted.  Dimension added here: what the client OFFERS for resumption, against a server that cannot use it -
 *   TLS 1.3   external PSK the server does not know (server without any PSK / with another identity), known identity with another key,
 *             resumption ticket after the server's ticket key was rotated / deleted, ticket with a flipped byte, ticket after its lifetime;
 *   TLS<=1.2  RFC 5077 ticket after key rotation / deletion, tampered ticket, ticket after its lifetime, a session id the server never issued;
 * next to the usable offers (valid ticket, valid external PSK, cached session id) and no offer at all, for a client holding a valid
 * certificate, a certificate from a CA the server does not trust, or no certificate.  The offer is a fact of the case's construction
 * (which key material the server's key set holds), and the ClientHello is parsed to make sure the offer is really on the wire. */
enum { OF_NONE = 0, OF_EXTPSK_UNKNOWN, OF_EXTPSK_OTHER_ID, OF_EXTPSK_WRONG_KEY, OF_TICKET_ROTATED, OF_TICKET_KEY_DELETED, OF_TICKET_TAMPERED, OF_TICKET_EXPIRED, OF_UNKNOWN_SID,
       OF_TICKET_VALID, OF_EXTPSK_VALID, OF_SID_VALID, OF_N };
static const char *ofname[] = { "no-offer", "unknown-external-psk", "unknown-external-psk-server-holds-another", "external-psk-identity-known-key-differs", "ticket-after-key-rotation", "ticket-after-key-deletion", "tampered-ticket", "ticket-after-lifetime",
                                "session-id-never-issued", "valid-ticket", "valid-external-psk", "cached-session-id" };
enum { OC_NONE = 0, OC_UNUSABLE, OC_EITHER, OC_USABLE };                /* by construction: can the server use what is offered? (expired: lifetime policy is not C04's business) */
static int of_class(int of) { return of == OF_NONE ? OC_NONE : of == OF_TICKET_EXPIRED ? OC_EITHER : of >= OF_TICKET_VALID ? OC_USABLE : OC_UNUSABLE; }
static int of_applies(int of, int ver) { int t13 = ver == MX_TLS13; if (of == OF_EXTPSK_UNKNOWN || of == OF_EXTPSK_OTHER_ID || of == OF_EXTPSK_WRONG_KEY || of == OF_EXTPSK_VALID) return t13; if (of == OF_UNKNOWN_SID || of == OF_SID_VALID) return !t13; return 1; }
static int of_is_ticket(int of) { return of == OF_TICKET_ROTATED || of == OF_TICKET_KEY_DELETED || of == OF_TICKET_TAMPERED || of == OF_TICKET_EXPIRED || of == OF_TICKET_VALID; }
enum { CR_NONE = 0, CR_UNTRUSTED, CR_VALID, CR_N };
static const char *crname[] = { "client-without-certificate", "client-with-untrusted-certificate", "client-with-valid-certificate" };
typedef struct { int ver, of, cr, cb; } ofcase_t;
static const unsigned char of_psk_id[] = "c04-offer-psk", of_psk_id2[] = "c04-some-other-psk";
static sslKeys_t *of_skeys(int ticketGen, int psk /* 0 none, 1 the client's, 2 another identity, 3 the client's identity with another key */)
{
    sslKeys_t *k = NULL; unsigned char key[32]; MX_ENTER(); matrixSslNewKeys(&k, NULL);
    int rc = matrixSslLoadKeys(k, MX_TK "RSA/2048_RSA.pem", MX_TK "RSA/2048_RSA_KEY.pem", NULL, MX_TK "RSA/2048_RSA_CA.pem", NULL);
    if (rc >= 0 && ticketGen) { unsigned char tn[16], tk[32], th[32]; memset(tn, 0x40 + ticketGen, 16); memset(tk, 0x10 * ticketGen, 32); memset(th, 0x11 * ticketGen, 32); rc = matrixSslLoadSessionTicketKeys(k, tn, tk, 32, th, 32); }
    if (rc >= 0 && psk) { memset(key, psk == 3 ? 0x77 : 0x5a, 32); rc = psk == 2 ? matrixSslLoadTls13Psk(k, key, 32, of_psk_id2, sizeof of_psk_id2 - 1, NULL) : matrixSslLoadTls13Psk(k, key, 32, of_psk_id, sizeof of_psk_id - 1, NULL); }
    MX_LEAVE(); if (rc < 0) { MX_ENTER(); matrixSslDeleteKeys(k); MX_LEAVE(); return NULL; }
    return k;
}
static sslKeys_t *of_ckeys(int cr, int psk)
{
    sslKeys_t *k = NULL; int rc; unsigned char key[32]; MX_ENTER(); matrixSslNewKeys(&k, NULL); MX_LEAVE();
    if (cr == CR_UNTRUSTED) {   /* a certificate that NAMES the CA the server trusts as its issuer (so that the client picks it for the server's CertificateRequest) but is signed by a key the server has never seen */
        static unsigned char dn[512]; int dnl = 0; FILE *f = fopen(MX_TK "RSA/2048_RSA_CA.pem", "r"); X509 *x = f ? PEM_read_X509(f, NULL, NULL, NULL) : NULL; if (f) fclose(f);
        if (x) { unsigned char *q = dn; int l = i2d_X509_NAME(X509_get_subject_name(x), NULL); if (l > 0 && l <= (int) sizeof dn) dnl = i2d_X509_NAME(X509_get_subject_name(x), &q); X509_free(x); }
        const cg_key *fk = cg_key_get(CG_K_RSA2048, 3), *lk = cg_key_get(CG_K_RSA2048, 2); cg_spec fake, leaf; cg_cert lc = { 0 }; if (dnl <= 0 || !fk || !lk) return NULL;
        cg_spec_ca(&fake, "Verif C04", "c04 impostor CA", fk, NULL, NULL, mx_now, -1); fake.subject.raw = dn; fake.subject.rawlen = dnl;
        cg_spec_leaf(&leaf, "Verif C04", "client.c04.test", lk, &fake, fk, mx_now); if (cg_make_cert(&leaf, &lc)) return NULL;
        char *cp = cg_pem("CERTIFICATE", lc.der, lc.len), *kp = cg_key_priv_pem(lk, 0); cg_cert_free(&lc);
        MX_ENTER(); rc = matrixSslLoadKeysMem(k, (unsigned char *) cp, (int32) strlen(cp), (unsigned char *) kp, (int32) strlen(kp), NULL, 0, NULL);
        if (rc >= 0) rc = matrixSslLoadKeys(k, NULL, NULL, NULL, MX_TK "RSA/2048_RSA_CA.pem", NULL); MX_LEAVE();
        free(cp); free(kp);
    } else { MX_ENTER(); rc = matrixSslLoadKeys(k, cr == CR_VALID ? MX_TK "RSA/2048_RSA.pem" : NULL, cr == CR_VALID ? MX_TK "RSA/2048_RSA_KEY.pem" : NULL, NULL, MX_TK "RSA/2048_RSA_CA.pem", NULL); MX_LEAVE(); }
    if (rc >= 0 && psk) { memset(key, 0x5a, 32); MX_ENTER(); rc = matrixSslLoadTls13Psk(k, key, 32, of_psk_id, sizeof of_psk_id - 1, NULL); MX_LEAVE(); }
    if (rc < 0) { MX_ENTER(); matrixSslDeleteKeys(k); MX_LEAVE(); return NULL; }
    return k;
}
static int of_open(mx_conn *k, int ver, uint16_t suite, int ticket, sslKeys_t *sk, sslKeys_t *ck, sslSessionId_t *sid, sslCertCb_t scb)
{
    mx_cfg cfg = { .ver = ver, .suite = suite, .clientAuth = 1, .useTicket = ticket, .skeys = sk, .ckeys = ck }; sslSessOpts_t o; int rc;
    memset(k, 0, sizeof *k); k->cfg = cfg; k->dtls = MX_IS_DTLS(ver);
    mx_opts(&o, &cfg, MX_SERVER); k->s.role = MX_SERVER; k->s.ver = ver; k->s.id = 1; k->s.name = "S";
    mx_actor = 1; MX_ENTER(); rc = matrixSslNewServerSession(&k->s.ssl, sk, scb, &o); MX_LEAVE(); if (rc < 0) return -1;
    mx_opts(&o, &cfg, MX_CLIENT); k->c.role = MX_CLIENT; k->c.ver = ver; k->c.id = 0; k->c.name = "C"; k->c.wantTake = 1; k->c.sid = sid; psCipher16_t cs[1] = { suite };
    mx_actor = 0; MX_ENTER(); rc = matrixSslNewClientSession(&k->c.ssl, ck, sid, cs, 1, mx_cert_cb_accept, NULL, NULL, NULL, &o); MX_LEAVE(); if (rc < 0) { mx_ep_free(&k->s); return -2; }
    return 0;
}
/* what the ClientHello on the wire offers: bit 0 pre_shared_key extension (TLS 1.3), bit 1 non-empty session_ticket extension, bit 2 non-empty session id */
static int of_on_wire(const unsigned char *w, int n, int dtls)
{
    int h = dtls ? 13 : 5, hh = dtls ? 12 : 4, r = 0; if (n < h + hh + 35) return 0;
    const unsigned char *b = w + h + hh, *e = w + n; int reclen = (w[h - 2] << 8) | w[h - 1]; if (w + h + reclen < e) e = w + h + reclen;
    b += 2 + 32; int l = *b++; if (l > 0 && w[h] == 1) r |= 4; b += l; if (dtls) { if (b >= e) return r; b += 1 + b[0]; }
    if (b + 2 > e) return r; b += 2 + ((b[0] << 8) | b[1]); if (b + 1 > e) return r; b += 1 + b[0]; if (b + 2 > e) return r; b += 2;
    while (b + 4 <= e) { int t = (b[0] << 8) | b[1], el = (b[2] << 8) | b[3]; if (t == 41) r |= 1; if (t == 35 && el > 0) r |= 2; b += 4 + el; }
    return r;
}
static void run_offer(void *a_)
{
    ofcase_t *oc = a_; int ver = oc->ver, of = oc->of, t13 = ver == MX_TLS13, cls = of_class(of); vf_stat("cases", 1); vf_stat("offer_cases", 1);
    uint16_t suite = t13 ? 0x1301 : (ver == MX_TLS11 ? 0xc013 : 0xc02f); mx_conn k; long realNow = mx_now;
    int extpsk = of == OF_EXTPSK_UNKNOWN || of == OF_EXTPSK_OTHER_ID || of == OF_EXTPSK_WRONG_KEY || of == OF_EXTPSK_VALID, ticket = of_is_ticket(of);
    sslSessionId_t *sid; matrixSslNewSessionId(&sid, NULL); sslKeys_t *sk1 = NULL, *ck1 = NULL, *sk2 = NULL, *ck2 = NULL;
    /* 1. honest, client-authenticated priming connection (valid certificate) that leaves the client with a ticket / a session id */
    if (ticket || of == OF_SID_VALID) {
        sk1 = of_skeys(ticket ? 1 : 0, 0); ck1 = of_ckeys(CR_VALID, 0);
        if (!sk1 || !ck1 || of_open(&k, ver, suite, ticket, sk1, ck1, sid, mx_cert_cb_strict) != 0) { vf_incon("offer: priming setup failed (%s)", cur_desc); return; }
        mx_conn_run(&k, NULL, NULL, 300); int ok = mx_conn_established(&k);
        if (ok) { unsigned char p[32]; mx_payload(p, 32, 0x0c04, 1, 7); mx_send(&k.s, p, 32); mx_conn_run(&k, NULL, NULL, 50); ok = k.c.gotlen == 32; }
        if (ok) { MX_ENTER(); matrixSslEncodeClosureAlert(k.c.ssl); MX_LEAVE(); k.c.wantTake = 1; mx_conn_run(&k, NULL, NULL, 20); }
        mx_conn_close(&k);
        int have = t13 ? sid->psk != NULL : ticket ? sid->sessionTicketLen > 0 : sid->idLen > 0;
        if (!ok || !have) { vf_incon("offer: priming connection gave the client nothing to offer (%s, established=%d)", cur_desc, ok); return; }
    }
    /* 2. the world changes / the client edits its own cache */
    if (of == OF_TICKET_TAMPERED) { if (t13) sid->psk->pskId[sid->psk->pskIdLen / 2] ^= 0x20; else sid->sessionTicket[sid->sessionTicketLen / 2] ^= 0x20; }
    if (of == OF_TICKET_EXPIRED) mx_now += 2L * 86400;
    if (of == OF_UNKNOWN_SID) { vf_rng r; vf_rng_init(&r, vf_seed, 0x0c04); vf_fill(&r, sid->id, 32); sid->idLen = 32; vf_fill(&r, sid->masterSecret, 48); sid->cipherId = suite; }
    if (of == OF_TICKET_KEY_DELETED && sk1) { unsigned char tn[16]; memset(tn, 0x41, 16); sk2 = sk1; sk1 = NULL; MX_ENTER(); int dr = matrixSslDeleteSessionTicketKey(sk2, tn); MX_LEAVE(); if (dr < 0) { vf_incon("offer: matrixSslDeleteSessionTicketKey rc=%d", dr); return; } }
    else if (of == OF_TICKET_VALID || of == OF_TICKET_TAMPERED || of == OF_TICKET_EXPIRED || of == OF_SID_VALID) { sk2 = sk1; sk1 = NULL; }
    else sk2 = of_skeys(of == OF_TICKET_ROTATED ? 2 : (of == OF_NONE || extpsk) ? 1 : 0, of == OF_EXTPSK_VALID ? 1 : of == OF_EXTPSK_OTHER_ID ? 2 : of == OF_EXTPSK_WRONG_KEY ? 3 : 0);
    ck2 = of_ckeys(oc->cr, extpsk);
    /* 3. the connection under test */
    sslCertCb_t vcb = cb_fn(oc->cb); cb_reset();
    if (!sk2 || !ck2 || of_open(&k, ver, suite, ticket, sk2, ck2, sid, vcb) != 0) { vf_incon("offer: setup failed (%s)", cur_desc); mx_now = realNow; return; }
    mx_conn_run(&k, NULL, NULL, 300);
    int wire = of_on_wire(k.wire[0], k.wirelen[0], k.dtls) & (t13 ? 3 : 7), want = cls == OC_NONE ? 0 : t13 ? 1 : ticket ? 2 : 4;
    int sdone = !k.s.dead && k.s.ssl && (k.s.hsDone || matrixSslHandshakeIsComplete(k.s.ssl)), both = sdone && mx_conn_established(&k);
    int resumed = k.s.ssl ? (t13 ? (int) k.s.ssl->sec.tls13UsingPsk : !!(k.s.ssl->flags & SSL_FLAGS_RESUMED)) : 0, alert = k.s.ssl ? k.s.ssl->err : 0, delivered = 0;
    if (both) { unsigned char p[64]; mx_payload(p, 64, 0x0c04, 0, 9); mx_send(&k.c, p, 64); mx_conn_run(&k, NULL, NULL, 20); delivered = k.s.gotlen == 64; }
    if (vf_verbose) fprintf(stderr, "c04-offer %s: wire=%d server done=%d resumed=%d alert=%d cb calls=%d nonzero=%d last=%d chain=%d | client done=%d dead=%d | delivered=%d\n", cur_desc, wire, sdone, resumed, alert, cb_calls, cb_nonzero, cb_last, cb_chainlen, k.c.hsDone, k.c.dead, delivered);
    if (of != OF_TICKET_EXPIRED && (wire & (want ? want : 7)) != want) { vf_incon("offer: the ClientHello does not carry what the case is about (%s: wire %d, wanted %d)", cur_desc, wire, want); goto out; }
    vf_distinct("offer|%s|%s|%s|%s", mx_vername[ver], ofname[of], crname[oc->cr], cbname[oc->cb]);
    vf_statf(1, "offer_%s_%s_%s_%s", mx_vername[ver], ofname[of], crname[oc->cr] + 7, sdone ? (resumed ? "RESUMED" : "COMPLETE-by-certificate") : "refused");
    {
        char key[240]; const char *clause = NULL;
        int byPsk = resumed && (cls == OC_USABLE || cls == OC_EITHER);
        if (sdone && resumed && !byPsk) clause = "server-resumed-from-an-offer-it-cannot-verify";
        else if (sdone && !byPsk) {
            if (cb_calls == 0) clause = "client-auth-server-completed-with-unauthenticated-client";                      /* nobody looked at a certificate, no PSK was accepted */
            else if (oc->cr == CR_VALID) { if (cb_nonzero && !CB_OVERRIDES(oc->cb)) clause = "completed-despite-validation-failure"; }
            else if (!CB_OVERRIDES(oc->cb)) clause = "client-auth-server-completed-with-unauthenticated-client";         /* strict callback, and the client has no acceptable certificate */
            else if (cb_nonzero == 0) clause = "failure-not-shown-to-callback";
        }
        if (clause) { snprintf(key, sizeof key, "c04:%s:%s:%s:%s:%s", clause, mx_vername[ver], ofname[of], crname[oc->cr], cbname[oc->cb]);
            vf_violation(key, cur_desc, "a server configured for client authentication reports a completed handshake with a %s whose ClientHello offered: %s (usable by this server: %s). Server resumed=%d, certificate callback calls %d (non-zero alerts %d, last %d, certificates shown %d), client's application data delivered=%d",
                         crname[oc->cr], ofname[of], cls == OC_USABLE ? "yes" : cls == OC_EITHER ? "policy" : "no", resumed, cb_calls, cb_nonzero, cb_last, cb_chainlen, delivered); }
        else if (sdone) vf_stat(byPsk ? "offer_completed_by_accepted_psk" : oc->cr == CR_VALID ? "offer_completed_by_certificate" : "offer_completed_by_application_override", 1);
        else { vf_stat("offer_refused", 1); if (oc->cr == CR_UNTRUSTED && cls != OC_USABLE) vf_stat(cb_chainlen ? "offer_untrusted_certificate_shown_to_callback" : "offer_untrusted_certificate_refused_before_callback", 1); }
        /* toothlessness guards: the holder of a valid certificate completes whatever unusable thing it offers next to it (the fall-back to a full handshake works; offers that fail an integrity check may instead abort), and a usable offer resumes */
        if (oc->cr == CR_VALID && !both && (of == OF_EXTPSK_WRONG_KEY || of == OF_TICKET_TAMPERED)) vf_statf(1, "offer_failing_integrity_check_aborts_%s_%s_alert%d", mx_vername[ver], ofname[of], alert);   /* a binder / ticket MAC that does not verify may end the handshake: refusing is never an authentication failure */
        else if (oc->cr == CR_VALID && !both) { snprintf(key, sizeof key, "c04:good-credentials-refused:%s:%s:%s", mx_vername[ver], ofname[of], cbname[oc->cb]);
            vf_violation(key, cur_desc, "a client with a valid certificate offering %s did not complete with the client-auth server (server alert %d, callback calls %d last %d, resumed=%d)", ofname[of], alert, cb_calls, cb_last, resumed); }
        if (cls == OC_USABLE && !(both && resumed)) { snprintf(key, sizeof key, "c04:harness:usable-offer-not-resumed:%s:%s", mx_vername[ver], ofname[of]);
            if (oc->cr == CR_VALID) vf_violation(key, cur_desc, "control: %s was not accepted for resumption (complete=%d resumed=%d alert %d)", ofname[of], both, resumed, alert); }
    }
out:
    mx_now = realNow; mx_conn_close(&k); matrixSslDeleteSessionId(sid);
    MX_ENTER(); if (sk1) matrixSslDeleteKeys(sk1); if (ck1) matrixSslDeleteKeys(ck1); if (sk2) matrixSslDeleteKeys(sk2); if (ck2) matrixSslDeleteKeys(ck2); MX_LEAVE();
}

int main(int argc, char **argv)
{
    vf_init(argc, argv); mx_global_init();
    /* key pool before fork()ing so that all children share it */
    for (int t = 0; t < 3; t++) for (int i = 0; i < 6; i++) if (!cg_key_get(t == 0 ? CG_K_RSA2048 : t == 1 ? CG_K_P256 : CG_K_ED25519, i)) { fprintf(stderr, "HARNESS: keygen failed\n"); return 2; }
    long idx = 0;
    for (int si = 0; si < NSCN; si++) for (int l = 0; l < L_N; l++) for (int cb = 0; cb < CB_N; cb++) for (int via = 0; via < 2; via++) {
        if (cb == CB_ANON && (!scns[si].verifierIsServer || via)) continue;                 /* SSL_ALLOW_ANON_CONNECTION is a server-side answer */
        if (scns[si].verifierIsServer && (l == L_WRONG_NAME || cb == CB_NONE)) continue;   /* a server asks for a client certificate by registering a callback */
        /* chain shape: the leaf directly under the anchor, or under an intermediate CA that the peer sends along (the defect, if any, sits in a non-last certificate on the wire) */
        if (via && (l == L_ISSUER_NOT_CA || l == L_EXPIRED_INT || l == L_ANCHOR_PATHLEN || l == L_INT_PATHLEN || l == L_SELF_SIGNED || l == L_NO_TRUST)) continue;
        if (!vf_mine(idx++)) continue;
        case_t c = { &scns[si], l, cb, via, 0 };
        snprintf(cur_desc, sizeof cur_desc, "scn=%d(%s/%s) label=%s cb=%s via=%d", si, mx_vername[scns[si].ver], scns[si].name, lname[l], cbname[cb], via);
        if (vf_case && strcmp(vf_case, cur_desc)) continue;
        if (idx % 97 == 0) vf_sample("%s", cur_desc);
        mx_entropy_seed(vf_seed * 31 + idx);
        vf_fork_case(run_case, &c, "c04", cur_desc, 120);
    }
    /* the callback's answer is binding (sslCertCb_t): negative values and positive values other than the alert shown end the handshake for good and bad chains alike, in every version;
       SSL_ALLOW_ANON_CONNECTION from a client's callback accepts like 0 */
    static const int cbl_q[] = { L_GOOD, L_UNTRUSTED, L_EXPIRED_LEAF };
    for (int si = 0; si < NSCN; si++) for (int li = 0; li < (vf_thorough ? L_N : 3); li++) for (int cb = CB_ANON; cb < CB_NALL; cb++) {
        int l = vf_thorough ? li : cbl_q[li];
        if (cb == CB_ANON && scns[si].verifierIsServer) continue;                          /* already in the grid above */
        if (scns[si].verifierIsServer && l == L_WRONG_NAME) continue;
        if (!vf_mine(idx++)) continue;
        case_t c = { &scns[si], l, cb, 0, 0 };
        snprintf(cur_desc, sizeof cur_desc, "scn=%d(%s/%s) label=%s cb=%s via=0", si, mx_vername[scns[si].ver], scns[si].name, lname[l], cbname[cb]);
        if (vf_case && strcmp(vf_case, cur_desc)) continue;
        mx_entropy_seed(vf_seed * 53 + idx);
        vf_fork_case(run_case, &c, "c04", cur_desc, 120);
    }
    /* verifier-side limit on the chain depth (sslSessOpts_t validateCertsOpts.max_verify_depth): good chain leaf <- intermediate <- root, limit 2 (one too few) and 3 */
    for (int si = 0; si < NSCN; si++) for (int cb = 0; cb < CB_N; cb++) for (int depth = 2; depth <= 3; depth++) {
        if (scns[si].verifierIsServer && cb == CB_NONE) continue;
        if (cb == CB_ANON && !scns[si].verifierIsServer) continue;
        if (!vf_mine(idx++)) continue;
        case_t c = { &scns[si], L_GOOD, cb, 1, depth };
        snprintf(cur_desc, sizeof cur_desc, "scn=%d(%s/%s) label=good cb=%s via=1 depth=%d", si, mx_vername[scns[si].ver], scns[si].name, cbname[cb], depth);
        if (vf_case && strcmp(vf_case, cur_desc)) continue;
        mx_entropy_seed(vf_seed * 43 + idx);
        vf_fork_case(run_case, &c, "c04", cur_desc, 120);
    }
    /* keyless attacker x client cache states */
    mx_keys_load();
    MX_ENTER(); matrixSslNewKeys(&kl_noticket, NULL); int lr = matrixSslLoadRsaKeys(kl_noticket, MX_TK "RSA/2048_RSA.pem", MX_TK "RSA/2048_RSA_KEY.pem", NULL, NULL); MX_LEAVE();
    if (lr < 0) { fprintf(stderr, "HARNESS: cannot load ticket-less server keys\n"); return 2; }
    for (int st = 0; st < ST_N; st++) for (int si = 0; si < SI_N; si++) for (int ext = 0; ext < 2; ext++) {
        if (!vf_mine(idx++)) continue;
        kcase_t kc = { st, si, ext };
        snprintf(cur_desc, sizeof cur_desc, "keyless state=%s sid=%s ext=%d", stname[st], siname[si], ext);
        if (vf_case && strcmp(vf_case, cur_desc)) continue;
        mx_entropy_seed(vf_seed * 37 + idx);
        vf_fork_case(run_keyless, &kc, "c04", cur_desc, 120);
    }
    /* certificate-less client vs client-auth server */
    { static const int vers[] = { MX_TLS11, MX_TLS12, MX_DTLS12, MX_TLS13 };
      for (int vi = 0; vi < 4; vi++) for (int na = 0; na < NA_N; na++) {
        if (vers[vi] == MX_TLS13 && na != NA_FRESH) continue;       /* TLS 1.3 resumption is by PSK only */
        if (!vf_mine(idx++)) continue;
        nacase_t nc = { vers[vi], na };
        snprintf(cur_desc, sizeof cur_desc, "certless ver=%s %s", mx_vername[vers[vi]], naname[na]);
        if (vf_case && strcmp(vf_case, cur_desc)) continue;
        mx_entropy_seed(vf_seed * 41 + idx);
        vf_fork_case(run_noauth, &nc, "c04", cur_desc, 120);
      } }
    /* client-auth server x what the ClientHello offers for resumption x client credential x server callback */
    { static const int vers[] = { MX_TLS13, MX_TLS12, MX_TLS11, MX_DTLS12 };
      for (int vi = 0; vi < 4; vi++) for (int of = 0; of < OF_N; of++) for (int cr = 0; cr < CR_N; cr++) for (int cb = CB_STRICT; cb <= CB_ANON; cb++) {
        if (!of_applies(of, vers[vi])) continue;
        if (!vf_mine(idx++)) continue;
        ofcase_t oc = { vers[vi], of, cr, cb };
        snprintf(cur_desc, sizeof cur_desc, "offer ver=%s %s %s cb=%s", mx_vername[vers[vi]], ofname[of], crname[cr], cbname[cb]);
        if (vf_case && strcmp(vf_case, cur_desc)) continue;
        if (idx % 29 == 0) vf_sample("%s", cur_desc);
        mx_entropy_seed(vf_seed * 59 + idx);
        vf_fork_case(run_offer, &oc, "c04", cur_desc, 120);
      } }
    matrixSslClose(); vf_flush();
    return 0;
}
