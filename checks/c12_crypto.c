/* C12 - hashes, MACs, KDFs, ciphers and AEADs are exact for every length and
 * call pattern.  Differential harness: every output of the MatrixSSL crypto
 * API is compared byte for byte with libcrypto (OpenSSL 3 EVP); AEAD open is
 * additionally required to fail for every single-bit change of ciphertext,
 * tag, nonce or AAD and for truncated input.
 *
 * Work is organised as groups -> batches -> items.  A batch runs in a forked
 * child (vf_fork_case) so a sanitizer abort becomes a record.  Every item
 * derives its random values from (seed, group, batch, item) only, so the
 * replay string "g=<group>,b=<batch>,i=<item>,s=<seed>,d=<depth>" re-runs
 * exactly that item.  depth: 0 = quick, 1 = thorough/asan, 2 = thorough/prod.
 *
 * API contracts honoured (see DESIGN.md C12): psHmac*Init / psHmacInit /
 * psHmacSingle only with keyLen <= hash block size; CBC lengths are block
 * multiples; GCM IV is 12 bytes; GCM tag lengths 1..16; HKDF info <= 80;
 * non-NULL pointers even for empty inputs; contexts re-Init'ed after Final.
 */
#include "vf.h"
#include "crypto/cryptoApi.h"
#include <openssl/evp.h>
#include <openssl/hmac.h>
#include <openssl/kdf.h>
#include <openssl/core_names.h>
#include <openssl/params.h>

#if defined(__SANITIZE_ADDRESS__)
# define C12_TAIL 0     /* exact-size heap buffers: ASan sees any over-read/write */
#else
# define C12_TAIL 16    /* no ASan: trailing canary instead */
#endif

static int g_depth;                 /* 0 quick, 1 thorough asan, 2 thorough prod */
static const char *g_group = "?";
static uint64_t g_ghash;
static int g_batch;
static long g_item, g_only = -1;
static vf_rng ir;                   /* per-item rng */
static unsigned char *pool;         /* per-batch random bytes */
#define POOLSZ (192 * 1024)

static void die(const char *m) { vf_incon("harness bug: %s (group %s batch %d item %ld)", m, g_group, g_batch, g_item); vf_flush(); _exit(3); }

/* ---- counters ---- */
static struct { const char *n; long v; } g_cnt[96];
static int g_ncnt;
static long g_total;
static void cntn(const char *prim, long n)
{
    g_total += n;
    for (int i = 0; i < g_ncnt; i++) if (g_cnt[i].n == prim || !strcmp(g_cnt[i].n, prim)) { g_cnt[i].v += n; return; }
    if (g_ncnt < 96) { g_cnt[g_ncnt].n = prim; g_cnt[g_ncnt].v = n; g_ncnt++; }
}
#define cnt(p) cntn(p, 1)
static void cnt_flush(void)
{
    for (int i = 0; i < g_ncnt; i++) vf_statf(g_cnt[i].v, "cmp_%s", g_cnt[i].n);
    vf_stat("cases", g_total);
    g_ncnt = 0; g_total = 0;
}

/* ---- violations ---- */
static struct { char k[96]; int n; } g_vk[64];
static int g_nvk;
static void V(const char *prim, const char *cls, const char *fmt, ...)
{
    char key[128], rp[160], msg[1600];
    snprintf(key, sizeof key, "c12:%s:%s", prim, cls);
    int i;
    for (i = 0; i < g_nvk; i++) if (!strcmp(g_vk[i].k, key)) break;
    if (i == g_nvk) { if (g_nvk < 64) { snprintf(g_vk[i].k, 96, "%s", key); g_vk[i].n = 0; g_nvk++; } else i = 0; }
    if (g_vk[i].n++ >= 2 && !vf_case) return;       /* at most two reports per key per batch */
    snprintf(rp, sizeof rp, "g=%s,b=%d,i=%ld,s=%llu,d=%d", g_group, g_batch, g_item, (unsigned long long) vf_seed, g_depth);
    va_list ap; va_start(ap, fmt); vsnprintf(msg, sizeof msg, fmt, ap); va_end(ap);
    vf_violation(key, rp, "%s", msg);
}
static const char *hx(const unsigned char *p, size_t n)
{
    static char b[4][2 * 40 + 8]; static int w;
    char *o = b[w++ & 3]; size_t m = n > 40 ? 40 : n;
    vf_hex(o, p, m); if (n > m) strcat(o, "..");
    return o;
}

/* ---- items ---- */
static int item_begin(void)
{
    g_item++;
    if (g_only >= 0 && g_only != g_item) return 0;
    vf_rng_init(&ir, vf_seed * 1000003ULL + g_ghash, ((uint64_t) (unsigned) g_batch << 32) ^ (uint64_t) g_item);
    return 1;
}
static void fill(vf_rng *r, unsigned char *p, size_t n)
{
    while (n >= 8) { uint64_t v = vf_next(r); memcpy(p, &v, 8); p += 8; n -= 8; }
    if (n) { uint64_t v = vf_next(r); memcpy(p, &v, n); }
}
static const unsigned char *slice(size_t n) { if (n > POOLSZ / 2) die("slice too long"); return pool + vf_below(&ir, (uint32_t) (POOLSZ - n)); }

/* ---- exact-size buffers with an alignment offset ---- */
typedef struct { unsigned char *base, *p; size_t off, len; } xb_t;
static unsigned char *xb_new(xb_t *b, size_t off, size_t len)
{
    size_t tot = off + len + C12_TAIL;
    b->off = off; b->len = len; b->base = NULL;
    if (tot == 0) b->base = malloc(0);
    else if (posix_memalign((void **) &b->base, 16, tot)) b->base = NULL;
    if (!b->base) die("out of memory");
    memset(b->base, 0xC5, off);
    if (C12_TAIL) memset(b->base + off + len, 0x5C, C12_TAIL);
    b->p = b->base + off;
    return b->p;
}
static unsigned char *xb_dup(xb_t *b, size_t off, const unsigned char *src, size_t len) { xb_new(b, off, len); if (len) memcpy(b->p, src, len); return b->p; }
static int xb_ok(const xb_t *b)
{
    for (size_t i = 0; i < b->off; i++) if (b->base[i] != 0xC5) return 0;
    for (size_t i = 0; i < C12_TAIL; i++) if (b->base[b->off + b->len + i] != 0x5C) return 0;
    return 1;
}
static void xb_free(xb_t *b) { free(b->base); b->base = NULL; }
#define XB_CHECK(b, prim) do { if (!xb_ok(b)) V(prim, "writes-outside-output", "guard bytes around an output buffer of %zu bytes (offset %zu) were modified", (b)->len, (b)->off); } while (0)

/* ================================================================== */
/* libcrypto reference side                                            */
/* ================================================================== */
enum { R_MD5, R_SHA1, R_SHA224, R_SHA256, R_SHA384, R_SHA512, R_N };
static EVP_MD *RMD[R_N];
static EVP_CIPHER *RC_ECB[3], *RC_CBC[3], *RC_GCM[3], *RC_DES3, *RC_CHACHA;
static EVP_KDF *R_HKDF;
static EVP_CIPHER_CTX *rcx;
static EVP_MD_CTX *rmx;

static void ref_setup(void)
{
    static const char *mdn[R_N] = { "MD5", "SHA1", "SHA224", "SHA256", "SHA384", "SHA512" };
    static const char *ecb[3] = { "AES-128-ECB", "AES-192-ECB", "AES-256-ECB" };
    static const char *cbc[3] = { "AES-128-CBC", "AES-192-CBC", "AES-256-CBC" };
    static const char *gcm[3] = { "AES-128-GCM", "AES-192-GCM", "AES-256-GCM" };
    int ok = 1;
    for (int i = 0; i < R_N; i++) ok &= (RMD[i] = EVP_MD_fetch(NULL, mdn[i], NULL)) != NULL;
    for (int i = 0; i < 3; i++) {
        ok &= (RC_ECB[i] = EVP_CIPHER_fetch(NULL, ecb[i], NULL)) != NULL;
        ok &= (RC_CBC[i] = EVP_CIPHER_fetch(NULL, cbc[i], NULL)) != NULL;
        ok &= (RC_GCM[i] = EVP_CIPHER_fetch(NULL, gcm[i], NULL)) != NULL;
    }
    ok &= (RC_DES3 = EVP_CIPHER_fetch(NULL, "DES-EDE3-CBC", NULL)) != NULL;
    ok &= (RC_CHACHA = EVP_CIPHER_fetch(NULL, "ChaCha20-Poly1305", NULL)) != NULL;
    ok &= (R_HKDF = EVP_KDF_fetch(NULL, "HKDF", NULL)) != NULL;
    ok &= (rcx = EVP_CIPHER_CTX_new()) != NULL;
    ok &= (rmx = EVP_MD_CTX_new()) != NULL;
    if (!ok) { vf_incon("libcrypto reference algorithms unavailable"); vf_flush(); exit(2); }
}
static void ref_md(int r, const unsigned char *d, size_t n, unsigned char *out)
{
    unsigned int l = 0;
    if (!EVP_DigestInit_ex(rmx, RMD[r], NULL) || !EVP_DigestUpdate(rmx, d, n) || !EVP_DigestFinal_ex(rmx, out, &l)) die("EVP digest failed");
}
static void ref_hmac(int r, const unsigned char *k, size_t kl, const unsigned char *d, size_t n, unsigned char *out)
{
    unsigned int l = 0; static const unsigned char z = 0;
    if (!HMAC(RMD[r], kl ? k : &z, (int) kl, n ? d : &z, n, out, &l)) die("HMAC() failed");
}
/* RFC 5869 expand built on libcrypto HMAC (used for length 0 and as a cross-check of EVP_KDF) */
static void ref_hkdf_expand_manual(int r, int hl, const unsigned char *prk, size_t pl, const unsigned char *info, size_t il, unsigned char *out, size_t ol)
{
    unsigned char t[64], in[64 + 512 + 1]; size_t done = 0, tl = 0; unsigned char ctr = 1;
    while (done < ol) {
        memcpy(in, t, tl); if (il) memcpy(in + tl, info, il); in[tl + il] = ctr++;
        ref_hmac(r, prk, pl, in, tl + il + 1, t); tl = hl;
        size_t c = ol - done < (size_t) hl ? ol - done : (size_t) hl;
        memcpy(out + done, t, c); done += c;
    }
}
static void ref_hkdf_expand(int r, int hl, const unsigned char *prk, size_t pl, const unsigned char *info, size_t il, unsigned char *out, size_t ol)
{
    if (il > 512) die("info too long");
    ref_hkdf_expand_manual(r, hl, prk, pl, info, il, out, ol);
    if (ol == 0) return;
    unsigned char *o2 = malloc(ol);
    EVP_KDF_CTX *k = EVP_KDF_CTX_new(R_HKDF); OSSL_PARAM p[6]; int mode = EVP_KDF_HKDF_MODE_EXPAND_ONLY, i = 0;
    p[i++] = OSSL_PARAM_construct_int(OSSL_KDF_PARAM_MODE, &mode);
    p[i++] = OSSL_PARAM_construct_utf8_string(OSSL_KDF_PARAM_DIGEST, (char *) EVP_MD_get0_name(RMD[r]), 0);
    p[i++] = OSSL_PARAM_construct_octet_string(OSSL_KDF_PARAM_KEY, (void *) prk, pl);
    if (il) p[i++] = OSSL_PARAM_construct_octet_string(OSSL_KDF_PARAM_INFO, (void *) info, il);
    p[i] = OSSL_PARAM_construct_end();
    if (k && EVP_KDF_derive(k, o2, ol, p) > 0 && memcmp(o2, out, ol)) die("libcrypto HKDF disagrees with RFC 5869 construction");
    EVP_KDF_CTX_free(k); free(o2);
}
static void ref_cipher(EVP_CIPHER *c, int enc, const unsigned char *key, const unsigned char *iv, const unsigned char *in, size_t n, unsigned char *out)
{
    int l1 = 0, l2 = 0;
    if (!EVP_CipherInit_ex(rcx, c, NULL, key, iv, enc)) die("EVP_CipherInit_ex");
    EVP_CIPHER_CTX_set_padding(rcx, 0);
    if (n && !EVP_CipherUpdate(rcx, out, &l1, in, (int) n)) die("EVP_CipherUpdate");
    if (!EVP_CipherFinal_ex(rcx, out + l1, &l2) || (size_t) (l1 + l2) != n) die("EVP_CipherFinal_ex");
}
static void ref_aead(EVP_CIPHER *c, const unsigned char *key, const unsigned char *iv, const unsigned char *aad, size_t al, const unsigned char *pt, size_t n, unsigned char *ct, unsigned char *tag)
{
    int l = 0, l2 = 0; unsigned char dummy[16];
    if (!EVP_EncryptInit_ex(rcx, c, NULL, NULL, NULL)) die("aead init");
    if (!EVP_CIPHER_CTX_ctrl(rcx, EVP_CTRL_AEAD_SET_IVLEN, 12, NULL)) die("aead ivlen");
    if (!EVP_EncryptInit_ex(rcx, NULL, NULL, key, iv)) die("aead key");
    if (al && !EVP_EncryptUpdate(rcx, NULL, &l, aad, (int) al)) die("aead aad");
    l = 0;
    if (n && !EVP_EncryptUpdate(rcx, ct, &l, pt, (int) n)) die("aead data");
    if (!EVP_EncryptFinal_ex(rcx, n ? ct + l : dummy, &l2)) die("aead final");
    if (!EVP_CIPHER_CTX_ctrl(rcx, EVP_CTRL_AEAD_GET_TAG, 16, tag)) die("aead tag");
}

/* ================================================================== */
/* streaming functions: digests and HMACs                              */
/* ================================================================== */
enum { K_DIGEST, K_HMAC, K_HMACG };
enum { A_MD5, A_SHA1, A_SHA224, A_SHA256, A_SHA384, A_SHA512, A_MD5SHA1, A_G256, A_G384, A_G512 };
typedef struct { const char *name; int kind, alg, blk, lf, out, ref, thin; size_t ctxsz; } sf_t;
static const sf_t SF[] = {
    { "md5",           K_DIGEST, A_MD5,     64,  8, 16, R_MD5,    0, sizeof(psMd5_t) },
    { "sha1",          K_DIGEST, A_SHA1,    64,  8, 20, R_SHA1,   0, sizeof(psSha1_t) },
    { "sha256",        K_DIGEST, A_SHA256,  64,  8, 32, R_SHA256, 0, sizeof(psSha256_t) },
    { "sha384",        K_DIGEST, A_SHA384, 128, 16, 48, R_SHA384, 0, sizeof(psSha384_t) },
    { "sha512",        K_DIGEST, A_SHA512, 128, 16, 64, R_SHA512, 0, sizeof(psSha512_t) },
    { "md5sha1",       K_DIGEST, A_MD5SHA1, 64,  8, 36, -1,       0, sizeof(psMd5Sha1_t) },
    { "hmac-md5",      K_HMAC,   A_MD5,     64,  8, 16, R_MD5,    0, sizeof(psHmacMd5_t) },
    { "hmac-sha1",     K_HMAC,   A_SHA1,    64,  8, 20, R_SHA1,   0, sizeof(psHmacSha1_t) },
    { "hmac-sha256",   K_HMAC,   A_SHA256,  64,  8, 32, R_SHA256, 0, sizeof(psHmacSha256_t) },
    { "hmac-sha384",   K_HMAC,   A_SHA384, 128, 16, 48, R_SHA384, 0, sizeof(psHmacSha384_t) },
#ifdef USE_SHA224
    { "sha224",        K_DIGEST, A_SHA224,  64,  8, 28, R_SHA224, 0, sizeof(psSha256_t) },
#endif
    { "pshash-sha256", K_DIGEST, A_G256,    64,  8, 32, R_SHA256, 1, sizeof(psDigestContext_t) },
    { "pshash-sha384", K_DIGEST, A_G384,   128, 16, 48, R_SHA384, 1, sizeof(psDigestContext_t) },
    { "pshash-sha512", K_DIGEST, A_G512,   128, 16, 64, R_SHA512, 1, sizeof(psDigestContext_t) },
    { "pshmac-md5",    K_HMACG,  A_MD5,     64,  8, 16, R_MD5,    1, sizeof(psHmac_t) },
    { "pshmac-sha1",   K_HMACG,  A_SHA1,    64,  8, 20, R_SHA1,   1, sizeof(psHmac_t) },
    { "pshmac-sha256", K_HMACG,  A_SHA256,  64,  8, 32, R_SHA256, 1, sizeof(psHmac_t) },
    { "pshmac-sha384", K_HMACG,  A_SHA384, 128, 16, 48, R_SHA384, 1, sizeof(psHmac_t) },
};
#define NSF ((int) (sizeof SF / sizeof SF[0]))

static psCipherType_e hm_type(int alg)
{
    switch (alg) { case A_MD5: return HMAC_MD5; case A_SHA1: return HMAC_SHA1; case A_SHA256: return HMAC_SHA256; default: return HMAC_SHA384; }
}
static int sf_init(const sf_t *f, void *c, const unsigned char *k, size_t kl)
{
    if (f->kind != K_DIGEST && kl > (size_t) f->blk) die("streaming HMAC init with key longer than the block (API precondition)");
    if (f->kind == K_DIGEST) switch (f->alg) {
        case A_MD5: return psMd5Init(c);
        case A_SHA1: return psSha1Init(c);
        case A_SHA256: return psSha256Init(c);
        case A_SHA384: return psSha384Init(c);
        case A_SHA512: return psSha512Init(c);
        case A_MD5SHA1: return psMd5Sha1Init(c);
#ifdef USE_SHA224
        case A_SHA224: psSha224Init(c); return 0;
#endif
        case A_G256: return psHashInit(c, OID_SHA256_ALG, NULL);
        case A_G384: return psHashInit(c, OID_SHA384_ALG, NULL);
        case A_G512: return psHashInit(c, OID_SHA512_ALG, NULL);
    }
    if (f->kind == K_HMAC) switch (f->alg) {
        case A_MD5: return psHmacMd5Init(c, k, (psSize_t) kl);
        case A_SHA1: return psHmacSha1Init(c, k, (psSize_t) kl);
        case A_SHA256: return psHmacSha256Init(c, k, (psSize_t) kl);
        case A_SHA384: return psHmacSha384Init(c, k, (psSize_t) kl);
    }
    if (f->kind == K_HMACG) return psHmacInit(c, hm_type(f->alg), k, (psSize_t) kl);
    die("sf_init"); return -1;
}
static void sf_upd(const sf_t *f, void *c, const unsigned char *p, uint32_t n)
{
    if (f->kind == K_DIGEST) switch (f->alg) {
        case A_MD5: psMd5Update(c, p, n); return;
        case A_SHA1: psSha1Update(c, p, n); return;
        case A_SHA256: psSha256Update(c, p, n); return;
        case A_SHA384: psSha384Update(c, p, n); return;
        case A_SHA512: psSha512Update(c, p, n); return;
        case A_MD5SHA1: psMd5Sha1Update(c, p, n); return;
#ifdef USE_SHA224
        case A_SHA224: psSha224Update(c, p, n); return;
#endif
        default: if (psHashUpdate(c, p, n) < 0) V(f->name, "update-failed", "psHashUpdate returned an error for %u bytes", n); return;
    }
    if (f->kind == K_HMAC) switch (f->alg) {
        case A_MD5: psHmacMd5Update(c, p, n); return;
        case A_SHA1: psHmacSha1Update(c, p, n); return;
        case A_SHA256: psHmacSha256Update(c, p, n); return;
        case A_SHA384: psHmacSha384Update(c, p, n); return;
    }
    psHmacUpdate(c, p, n);
}
static void sf_fin(const sf_t *f, void *c, unsigned char *out)
{
    if (f->kind == K_DIGEST) switch (f->alg) {
        case A_MD5: psMd5Final(c, out); return;
        case A_SHA1: psSha1Final(c, out); return;
        case A_SHA256: psSha256Final(c, out); return;
        case A_SHA384: psSha384Final(c, out); return;
        case A_SHA512: psSha512Final(c, out); return;
        case A_MD5SHA1: psMd5Sha1Final(c, out); return;
#ifdef USE_SHA224
        case A_SHA224: psSha224Final(c, out); return;
#endif
        default: if (psHashFinal(c, out) < 0) V(f->name, "final-failed", "psHashFinal returned an error"); return;
    }
    if (f->kind == K_HMAC) switch (f->alg) {
        case A_MD5: psHmacMd5Final(c, out); return;
        case A_SHA1: psHmacSha1Final(c, out); return;
        case A_SHA256: psHmacSha256Final(c, out); return;
        case A_SHA384: psHmacSha384Final(c, out); return;
    }
    psHmacFinal(c, out);
}
static void sf_ref(const sf_t *f, const unsigned char *k, size_t kl, const unsigned char *m, size_t n, unsigned char *out)
{
    if (f->kind == K_DIGEST) {
        if (f->alg == A_MD5SHA1) { ref_md(R_MD5, m, n, out); ref_md(R_SHA1, m, n, out + 16); }
        else ref_md(f->ref, m, n, out);
    } else ref_hmac(f->ref, k, kl, m, n, out);
}
static const char *sf_cls(const sf_t *f, const char *suffix)
{
    static char b[64];
    snprintf(b, sizeof b, "%s%s", f->kind == K_DIGEST ? "wrong-digest" : "wrong-mac", suffix);
    return b;
}
/* one streaming computation with sorted cut positions; noupd: Init -> Final with no Update at all (n == 0 only) */
static void sf_run(const sf_t *f, void *c, const unsigned char *k, size_t kl, const unsigned char *m, size_t n, const uint32_t *cut, int nc, int noupd, unsigned char *out)
{
    if (sf_init(f, c, k, kl) < 0) { V(f->name, "init-failed", "Init returned an error (key length %zu)", kl); return; }
    size_t p = 0;
    for (int i = 0; i < nc; i++) { sf_upd(f, c, m + p, (uint32_t) (cut[i] - p)); p = cut[i]; }
    if (!noupd) sf_upd(f, c, m + p, (uint32_t) (n - p));
    sf_fin(f, c, out);
}
static int sf_cmp(const sf_t *f, const char *suffix, const unsigned char *got, const unsigned char *ref, size_t n, size_t kl, const char *pat)
{
    cnt(f->name);
    if (!memcmp(got, ref, f->out)) return 0;
    V(f->name, sf_cls(f, suffix), "message length %zu key length %zu pattern %s: got %s want %s", n, kl, pat, hx(got, f->out), hx(ref, f->out));
    return 1;
}
/* key for an item of a keyed sf: lengths cycle over the interesting values <= block size */
static size_t sf_keylen(const sf_t *f, long sel)
{
    if (f->kind == K_DIGEST) return 0;
    size_t c[6] = { (size_t) f->out, 0, 1, (size_t) f->blk - 1, (size_t) f->blk, (size_t) f->out + 1 };
    return c[sel % 6];
}
static int len_class(const sf_t *f, size_t n) /* coarse class for the distinct set of random cases */
{
    int B = f->blk, r = (int) (n % B), pb = B - f->lf;
    int bnd = (r == 0) ? 1 : (r == 1) ? 2 : (r == B - 1) ? 3 : (r == pb - 1) ? 4 : (r == pb) ? 5 : (r == pb + 1) ? 6 : 0;
    int mag = 0; while ((n >> mag) > 1) mag++;
    return (n <= (size_t) 4 * B + 1 ? (int) (n / 8) : 1000 + mag) * 8 + bnd;
}
/* the lengths around padding and block boundaries of the first four blocks */
static int sf_bl(const sf_t *f, int *bl)
{
    int n = 0, B = f->blk, pb = B - f->lf;
    bl[n++] = 0; bl[n++] = 1; bl[n++] = 2;
    for (int k = 0; k < 4; k++) for (int d = -1; d <= 1; d++) { bl[n++] = k * B + pb + d; bl[n++] = k * B + B + d; }
    return n;
}

/* all compositions of the trailing n bytes of a (q+n)-byte message.
 * variant 0: the q-byte prefix is its own Update; variant 1: glued to the first piece */
static void sf_part_comp(const sf_t *f, void *c, int n, int q, int variant)
{
    if (!item_begin()) return;
    size_t kl = sf_keylen(f, g_item), L = (size_t) q + n;
    int a = (int) ((n + q) % 16);
    xb_t xm, xk, xo; unsigned char ref[64];
    xb_dup(&xm, a, slice(L), L); xb_dup(&xk, (a + 5) % 16, slice(kl), kl); xb_new(&xo, (a * 7 + 3) % 16, f->out);
    sf_ref(f, xk.p, kl, xm.p, L, ref);
    vf_distinct("%s|comp|n=%d|q=%d|v=%d|kl=%zu", f->name, n, q, variant, kl);
    if ((q == 0 && n == 12) || g_only >= 0) vf_sample("%s: all %u compositions of the last %d bytes of a %zu-byte message (prefix %d, variant %d, key %zu bytes, src align %d)", f->name, 1u << (n - 1), n, L, q, variant, kl, a);
    long bad = 0;
    for (uint32_t mask = 0; mask < (1u << (n - 1)); mask++) {
        if (sf_init(f, c, xk.p, kl) < 0) { V(f->name, "init-failed", "Init returned an error"); break; }
        size_t p = 0;
        if (q && !variant) { sf_upd(f, c, xm.p, (uint32_t) q); p = q; }
        for (int i = 0; i < n - 1; i++) if (mask >> i & 1) { size_t e = (size_t) q + i + 1; sf_upd(f, c, xm.p + p, (uint32_t) (e - p)); p = e; }
        sf_upd(f, c, xm.p + p, (uint32_t) (L - p));
        sf_fin(f, c, xo.p);
        if (memcmp(xo.p, ref, f->out) && bad++ < 2)
            V(f->name, sf_cls(f, mask || q ? "-split" : ""), "message length %zu key length %zu prefix %d variant %d composition mask 0x%x of last %d bytes: got %s want %s", L, kl, q, variant, mask, n, hx(xo.p, f->out), hx(ref, f->out));
    }
    cntn(f->name, 1L << (n - 1));
    XB_CHECK(&xo, f->name);
    xb_free(&xm); xb_free(&xk); xb_free(&xo);
}

/* one message, explicit cut list, alignment a */
static void sf_one(const sf_t *f, void *c, size_t n, const uint32_t *cut, int nc, int noupd, int a, const char *suffix, const char *tag)
{
    if (!item_begin()) return;
    size_t kl = sf_keylen(f, g_item + n);
    xb_t xm, xk, xo; unsigned char ref[64]; char pat[96];
    xb_dup(&xm, a, slice(n), n); xb_dup(&xk, (a + 5) % 16, slice(kl), kl); xb_new(&xo, (a * 7 + 3) % 16, f->out);
    sf_ref(f, xk.p, kl, xm.p, n, ref);
    sf_run(f, c, xk.p, kl, xm.p, n, cut, nc, noupd, xo.p);
    snprintf(pat, sizeof pat, "%s cuts=%d[%u,%u,..] align=%d%s", tag, nc, nc > 0 ? cut[0] : 0, nc > 1 ? cut[1] : 0, a, noupd ? " no-update" : "");
    sf_cmp(f, suffix, xo.p, ref, n, kl, pat);
    XB_CHECK(&xo, f->name);
    if (nc <= 3) vf_distinct("%s|%s|n=%zu|nc=%d|c0=%d|c1=%d|a=%d|kl=%zu", f->name, tag, n, nc, nc > 0 ? (int) cut[0] : -1, nc > 1 ? (int) cut[1] : -1, a, kl);
    else vf_distinct("%s|%s|lc=%d|nc=%d|a=%d|kl=%zu", f->name, tag, len_class(f, n), nc, a, kl);
    xb_free(&xm); xb_free(&xk); xb_free(&xo);
}
static size_t rand_len(const sf_t *f, vf_rng *r)
{
    int B = f ? f->blk : 64;
    switch (vf_below(r, 8)) {
    case 0: return vf_below(r, 65537);
    case 1: case 2: return (size_t) (1 + vf_below(r, 40)) * B + vf_below(r, 5) - 2;
    case 3: return (size_t) (1 + vf_below(r, 40)) * B - (f ? f->lf : 8) + vf_below(r, 3) - 1;
    case 4: return vf_below(r, 8192);
    default: return vf_below(r, 1024);
    }
}
static int rand_cuts(vf_rng *r, size_t n, uint32_t *cut, int maxc)
{
    int nc = (int) vf_below(r, maxc + 1);
    for (int i = 0; i < nc; i++) cut[i] = vf_below(r, (uint32_t) n + 1);
    for (int i = 0; i < nc; i++) for (int j = i + 1; j < nc; j++) if (cut[j] < cut[i]) { uint32_t t = cut[i]; cut[i] = cut[j]; cut[j] = t; }
    return nc;
}
/* two contexts fed alternately */
static void sf_inter(const sf_t *f, const sf_t *g)
{
    if (!item_begin()) return;
    const sf_t *F[2] = { f, g }; void *c[2]; xb_t xm[2], xk[2], xo[2]; unsigned char ref[2][64]; size_t n[2], kl[2]; uint32_t cut[2][8]; int nc[2];
    for (int i = 0; i < 2; i++) {
        c[i] = malloc(F[i]->ctxsz);
        n[i] = vf_below(&ir, 4) ? vf_below(&ir, 5 * F[i]->blk) : rand_len(F[i], &ir);
        kl[i] = sf_keylen(F[i], vf_below(&ir, 6));
        xb_dup(&xm[i], vf_below(&ir, 16), slice(n[i]), n[i]); xb_dup(&xk[i], vf_below(&ir, 16), slice(kl[i]), kl[i]); xb_new(&xo[i], vf_below(&ir, 16), F[i]->out);
        nc[i] = rand_cuts(&ir, n[i], cut[i], 6);
        sf_ref(F[i], xk[i].p, kl[i], xm[i].p, n[i], ref[i]);
    }
    if (sf_init(f, c[0], xk[0].p, kl[0]) < 0 || sf_init(g, c[1], xk[1].p, kl[1]) < 0) V(f->name, "init-failed", "Init returned an error");
    else {
        size_t p[2] = { 0, 0 };
        for (int s = 0; s <= 6; s++) for (int i = 0; i < 2; i++) {
            if (s < nc[i]) { sf_upd(F[i], c[i], xm[i].p + p[i], (uint32_t) (cut[i][s] - p[i])); p[i] = cut[i][s]; }
            else if (s == nc[i]) sf_upd(F[i], c[i], xm[i].p + p[i], (uint32_t) (n[i] - p[i]));
        }
        int first = (int) vf_below(&ir, 2);
        sf_fin(F[first], c[first], xo[first].p); sf_fin(F[!first], c[!first], xo[!first].p);
        for (int i = 0; i < 2; i++) { sf_cmp(F[i], "-interleaved", xo[i].p, ref[i], n[i], kl[i], "two contexts fed alternately"); XB_CHECK(&xo[i], F[i]->name); }
        vf_distinct("%s|inter|%s|lc=%d|lc=%d|nc=%d|%d", f->name, g->name, len_class(f, n[0]), len_class(g, n[1]), nc[0], nc[1]);
    }
    for (int i = 0; i < 2; i++) { free(c[i]); xb_free(&xm[i]); xb_free(&xk[i]); xb_free(&xo[i]); }
}

/* batch layout of group "stream": per sf, parts 0..7, part 0 split in sub-batches per n above 12 */
static const int NC0[3] = { 12, 17, 21 }, NC1[3] = { 9, 12, 16 }, RN[3] = { 24, 1000, 8000 }, IN[3] = { 16, 500, 5000 };
#define SF_SUB (8 + 10)  /* parts 0..7 (part 0: n<=12) + sub-batches for n = 13..22 */
static int stream_nbatches(void) { return NSF * SF_SUB; }
static void stream_run(int batch)
{
    const sf_t *f = &SF[batch / SF_SUB]; int part = batch % SF_SUB, B = f->blk, pb = B - f->lf, d = g_depth;
    void *c = malloc(f->ctxsz);
    int bl[32], nbl = sf_bl(f, bl);
    if (part >= 8) {                                    /* compositions, one n per batch */
        int n = 13 + (part - 8);
        if (n <= NC0[d] && !f->thin) sf_part_comp(f, c, n, 0, 0);
    } else switch (part) {
    case 0:
        for (int n = 1; n <= (f->thin ? 8 : 12); n++) sf_part_comp(f, c, n, 0, 0);
        break;
    case 1: {
        int n = f->thin ? 6 : NC1[d], h = n / 2, q[4] = { pb - h, B - h, B + pb - h, 2 * B - h };
        for (int i = 0; i < 4; i++) for (int v = 0; v < 2; v++) sf_part_comp(f, c, n, q[i], v);
        break; }
    case 2:
        sf_one(f, c, 0, NULL, 0, 1, 0, "", "len");
        for (int n = 0; n <= 4 * B + 1; n++) {
            if (d == 0 || f->thin) sf_one(f, c, n, NULL, 0, 0, n % 16, "", "len");
            else for (int a = 0; a < 16; a++) sf_one(f, c, n, NULL, 0, 0, a, a ? "-unaligned" : "", "len");
        }
        break;
    case 3:
        if (!f->thin || d) for (int i = 0; i < nbl; i++) for (int a = 0; a < 16; a++) sf_one(f, c, bl[i], NULL, 0, 0, a, a ? "-unaligned" : "", "align");
        break;
    case 4:
        for (int i = 0; i < nbl; i++) {
            if ((d == 0 || f->thin) && bl[i] > 2 * B + 1) continue;
            if (f->thin && d == 0 && (i & 1)) continue;
            for (uint32_t cp = 0; cp <= (uint32_t) bl[i]; cp++) sf_one(f, c, bl[i], &cp, 1, 0, (int) ((cp + bl[i]) % 16), "-split", "split2");
        }
        break;
    case 5: {
        if (f->thin && d == 0) break;
        int Ls[4] = { pb + 1, B + 1, B + pb + 1, 2 * B + 1 };
        for (int li = 0; li < 4; li++) {
            int L = Ls[li], nb[40], nn = 0, cand[] = { 0, 1, 2, pb - 1, pb, pb + 1, B - 1, B, B + 1, B + pb - 1, B + pb, B + pb + 1, 2 * B - 1, 2 * B, 2 * B + 1, L - 1, L };
            for (unsigned i = 0; i < sizeof cand / sizeof cand[0]; i++) { int ok = cand[i] >= 0 && cand[i] <= L; for (int j = 0; j < nn; j++) if (nb[j] == cand[i]) ok = 0; if (ok) nb[nn++] = cand[i]; }
            if (d == 2 && L <= B + 1) {
                for (int c1 = 0; c1 <= L; c1++) for (int c2 = c1; c2 <= L; c2++) { uint32_t cu[2] = { (uint32_t) c1, (uint32_t) c2 }; sf_one(f, c, L, cu, 2, 0, (c1 + c2) % 16, "-split", "split3"); }
            } else
                for (int i = 0; i < nn; i++) for (int j = 0; j < nn; j++) if (nb[i] <= nb[j]) { uint32_t cu[2] = { (uint32_t) nb[i], (uint32_t) nb[j] }; sf_one(f, c, L, cu, 2, 0, (nb[i] + nb[j]) % 16, "-split", "split3"); }
        }
        break; }
    case 6:
        for (int i = 0; i < RN[d] / (f->thin ? 4 : 1); i++) {
            vf_rng r; vf_rng_init(&r, vf_seed + g_ghash, ((uint64_t) batch << 24) + i);
            uint32_t cu[8]; size_t n = rand_len(f, &r); int nc = rand_cuts(&r, n, cu, 8);
            sf_one(f, c, n, cu, nc, 0, (int) vf_below(&r, 16), nc ? "-split" : "", "rand");
        }
        break;
    case 7:
        for (int i = 0; i < IN[d] / (f->thin ? 4 : 1); i++) sf_inter(f, (i & 1) ? &SF[(batch / SF_SUB + 1 + i / 2) % NSF] : f);
        break;
    }
    free(c);
}

/* ================================================================== */
/* HMAC one-shot forms, all key lengths 0..3 blocks                    */
/* ================================================================== */
typedef struct { const char *name, *gname, *sname; int alg, blk, lf, out, ref; } hm_t;
static const hm_t HM[4] = {
    { "hmac-md5-oneshot",    "pshmac-md5-oneshot",    "pshmacsingle-md5",    A_MD5,     64,  8, 16, R_MD5 },
    { "hmac-sha1-oneshot",   "pshmac-sha1-oneshot",   "pshmacsingle-sha1",   A_SHA1,    64,  8, 20, R_SHA1 },
    { "hmac-sha256-oneshot", "pshmac-sha256-oneshot", "pshmacsingle-sha256", A_SHA256,  64,  8, 32, R_SHA256 },
    { "hmac-sha384-oneshot", "pshmac-sha384-oneshot", "pshmacsingle-sha384", A_SHA384, 128, 16, 48, R_SHA384 },
};
static int32_t hm_oneshot(const hm_t *h, const unsigned char *k, psSize_t kl, const unsigned char *m, uint32_t n, unsigned char *out, unsigned char *hk, psSize_t *hkl)
{
    switch (h->alg) {
    case A_MD5: return psHmacMd5(k, kl, m, n, out, hk, hkl);
    case A_SHA1: return psHmacSha1(k, kl, m, n, out, hk, hkl);
    case A_SHA256: return psHmacSha256(k, kl, m, n, out, hk, hkl);
    default: return psHmacSha384(k, kl, m, n, out, hk, hkl);
    }
}
/* form 0: psHmacMd5/Sha1/Sha256/Sha384; 1: psHmac(type); 2: psHmacSingle (key <= block only) */
static void hm_item(const hm_t *h, int form, size_t kl, size_t n, int a)
{
    if (!item_begin()) return;
    if (form == 2 && kl > (size_t) h->blk) die("psHmacSingle with key longer than block");
    const char *nm = form == 0 ? h->name : form == 1 ? h->gname : h->sname;
    xb_t xm, xk, xo, xh; unsigned char ref[64]; int32_t rc; psSize_t hkl = 0xffff;
    xb_dup(&xm, a, slice(n), n); xb_dup(&xk, (a + 9) % 16, slice(kl), kl); xb_new(&xo, (a * 3 + 1) % 16, h->out); xb_new(&xh, (a + 2) % 16, h->out);
    ref_hmac(h->ref, xk.p, kl, xm.p, n, ref);
    if (form == 0) rc = hm_oneshot(h, xk.p, (psSize_t) kl, xm.p, (uint32_t) n, xo.p, xh.p, &hkl);
    else if (form == 1) rc = psHmac(hm_type(h->alg), xk.p, (psSize_t) kl, xm.p, (uint32_t) n, xo.p);
    else { psHmac_t *c = malloc(sizeof *c); rc = psHmacSingle(c, hm_type(h->alg), xk.p, (psSize_t) kl, xm.p, n, xo.p); free(c); }
    cnt(nm);
    if (rc < 0) V(nm, "unexpected-failure", "returned %d for key length %zu message length %zu", rc, kl, n);
    else if (memcmp(xo.p, ref, h->out)) V(nm, kl > (size_t) h->blk ? "wrong-mac-long-key" : "wrong-mac", "key length %zu message length %zu align %d: got %s want %s", kl, n, a, hx(xo.p, h->out), hx(ref, h->out));
    else if (form == 0) {                   /* the key actually used is reported back to the caller */
        unsigned char kh[64];
        if (kl > (size_t) h->blk) { ref_md(h->ref, xk.p, kl, kh); if (hkl != h->out || memcmp(xh.p, kh, h->out)) V(nm, "wrong-hmackey-out", "key length %zu: reported key length %u, key %s want H(key)=%s", kl, hkl, hx(xh.p, h->out), hx(kh, h->out)); }
        else if (hkl != kl) V(nm, "wrong-hmackey-out", "key length %zu: reported key length %u", kl, hkl);
    }
    XB_CHECK(&xo, nm); XB_CHECK(&xh, nm);
    vf_distinct("%s|kl=%zu|n=%d|a=%d", nm, kl, n <= 4u * h->blk + 1 ? (int) n : -1, a);
    xb_free(&xm); xb_free(&xk); xb_free(&xo); xb_free(&xh);
}
static int hmac_nbatches(void) { return 4 * 4; }
static void hmac_run(int batch)
{
    const hm_t *h = &HM[batch / 4]; int part = batch % 4, B = h->blk, pb = B - h->lf, d = g_depth;
    size_t ms[10] = { 0, 1, (size_t) pb - 1, (size_t) pb, (size_t) pb + 1, (size_t) B - 1, (size_t) B, (size_t) B + 1, (size_t) B + pb, (size_t) 2 * B + 1 };
    switch (part) {
    case 0: for (size_t kl = 0; kl <= (size_t) 3 * B + 1; kl++) for (int j = 0; j < (d ? 10 : 3); j++) hm_item(h, 0, kl, d ? ms[j] : ms[(kl + 3 * j) % 10], (int) ((kl + j) % 16)); break;
    case 1: for (size_t kl = 0; kl <= (size_t) 3 * B + 1; kl++) for (int j = 0; j < (d ? 6 : 2); j++) hm_item(h, 1, kl, ms[(kl + 5 * j + 1) % 10], (int) ((kl + 3 * j) % 16)); break;
    case 2: for (size_t kl = 0; kl <= (size_t) B; kl++) for (int j = 0; j < (d ? 10 : 3); j++) hm_item(h, 2, kl, d ? ms[j] : ms[(kl + 3 * j + 2) % 10], (int) ((kl + 7 * j) % 16)); break;
    case 3:
        for (int i = 0; i < RN[d]; i++) {
            vf_rng r; vf_rng_init(&r, vf_seed + g_ghash, ((uint64_t) batch << 24) + i);
            int form = (int) vf_below(&r, 3); size_t kl = vf_below(&r, form == 2 ? B + 1 : 4 * B), n = rand_len(NULL, &r);
            hm_item(h, form, kl, n, (int) vf_below(&r, 16));
        }
        break;
    }
}

/* ================================================================== */
/* HKDF                                                                */
/* ================================================================== */
static void hkdf_extract_item(const hm_t *h, size_t sl, size_t il, int a)
{
    if (!item_begin()) return;
    xb_t xs, xi, xo; unsigned char ref[64]; psSize_t pl = 0xffff;
    xb_dup(&xs, a, slice(sl), sl); xb_dup(&xi, (a + 3) % 16, slice(il), il); xb_new(&xo, (a + 6) % 16, h->out);
    ref_hmac(h->ref, xs.p, sl, xi.p, il, ref);
    int32_t rc = psHkdfExtract(hm_type(h->alg), xs.p, (psSize_t) sl, xi.p, (psSize_t) il, xo.p, &pl);
    cnt("hkdf-extract");
    if (rc < 0) V("hkdf-extract", "unexpected-failure", "%s salt %zu ikm %zu: returned %d", h->name, sl, il, rc);
    else if (pl != h->out || memcmp(xo.p, ref, h->out)) V("hkdf-extract", sl > (size_t) h->blk ? "wrong-prk-long-salt" : "wrong-prk", "%s salt %zu ikm %zu: prkLen %u got %s want %s", h->name, sl, il, pl, hx(xo.p, h->out), hx(ref, h->out));
    XB_CHECK(&xo, "hkdf-extract");
    vf_distinct("hkdfx|%d|%zu|%zu", h->alg, sl, il);
    xb_free(&xs); xb_free(&xi); xb_free(&xo);
}
static void hkdf_expand_item(const hm_t *h, size_t pl, size_t il, size_t ol, int a)
{
    if (!item_begin()) return;
    xb_t xp, xi, xo; 
    xb_dup(&xp, a, slice(pl), pl); xb_dup(&xi, (a + 3) % 16, slice(il), il); xb_new(&xo, (a + 6) % 16, ol);
    memset(xo.p, 0xEE, ol);
    int within = il <= 80 && pl >= (size_t) h->out && ol <= (size_t) 255 * h->out;
    int32_t rc = psHkdfExpand(hm_type(h->alg), xp.p, (psSize_t) pl, xi.p, (psSize_t) il, xo.p, (psSize_t) ol);
    cnt("hkdf-expand");
    if (rc < 0) { if (within) V("hkdf-expand", "unexpected-failure", "%s prk %zu info %zu okm %zu: returned %d", h->name, pl, il, ol, rc); }
    else if (!within && ol > (size_t) 255 * h->out) V("hkdf-expand", "accepts-overlong-output", "%s okm length %zu > 255*HashLen accepted", h->name, ol);
    else {
        unsigned char *ref = malloc(ol + 1);
        ref_hkdf_expand(h->ref, h->out, xp.p, pl, xi.p, il, ref, ol);
        if (memcmp(xo.p, ref, ol)) { size_t i = 0; while (xo.p[i] == ref[i]) i++; V("hkdf-expand", "wrong-okm", "%s prk %zu info %zu okm %zu: first difference at byte %zu: got %s want %s", h->name, pl, il, ol, i, hx(xo.p + i, ol - i), hx(ref + i, ol - i)); }
        free(ref);
    }
    XB_CHECK(&xo, "hkdf-expand");
    vf_distinct("hkdfe|%d|%zu|%zu|%zu", h->alg, pl, il, ol <= 4u * h->out ? ol : 1000 + ol % h->out);
    xb_free(&xp); xb_free(&xi); xb_free(&xo);
}
static void hkdf_label_item(const hm_t *h, size_t ll, size_t cl, size_t ol, int a)
{
    if (!item_begin()) return;
    xb_t xs, xl, xc, xo; unsigned char info[600]; size_t il = 0;
    xb_dup(&xs, a, slice(h->out), h->out); xb_dup(&xl, (a + 1) % 16, slice(ll), ll); xb_dup(&xc, (a + 2) % 16, slice(cl), cl); xb_new(&xo, (a + 5) % 16, ol);
    for (size_t i = 0; i < ll; i++) xl.p[i] = (unsigned char) ('a' + xl.p[i] % 26);      /* labels are text */
    info[il++] = (unsigned char) (ol >> 8); info[il++] = (unsigned char) ol;
    info[il++] = (unsigned char) (6 + ll); memcpy(info + il, "tls13 ", 6); il += 6; memcpy(info + il, xl.p, ll); il += ll;
    info[il++] = (unsigned char) cl; memcpy(info + il, xc.p, cl); il += cl;
    int within = ll >= 1 && il <= 80 && ol <= (size_t) 255 * h->out;
    int32_t rc = psHkdfExpandLabel(NULL, hm_type(h->alg), xs.p, (psSize_t) h->out, (const char *) xl.p, (psSize_t) ll, xc.p, (psSize_t) cl, (psSize_t) ol, xo.p);
    cnt("hkdf-expand-label");
    if (rc < 0) { if (within) V("hkdf-expand-label", "unexpected-failure", "%s label %zu context %zu length %zu: returned %d", h->name, ll, cl, ol, rc); }
    else if (ll + 6 >= 7 && il <= 80) {
        unsigned char *ref = malloc(ol + 1);
        ref_hkdf_expand(h->ref, h->out, xs.p, h->out, info, il, ref, ol);
        if (memcmp(xo.p, ref, ol)) V("hkdf-expand-label", "wrong-okm", "%s label %zu context %zu length %zu: got %s want %s", h->name, ll, cl, ol, hx(xo.p, ol), hx(ref, ol));
        free(ref);
    }
    XB_CHECK(&xo, "hkdf-expand-label");
    vf_distinct("hkdfl|%d|%zu|%zu|%zu", h->alg, ll, cl, ol);
    xb_free(&xs); xb_free(&xl); xb_free(&xc); xb_free(&xo);
}
static int hkdf_nbatches(void) { return 4 * 3; }
static void hkdf_run(int batch)
{
    const hm_t *h = &HM[batch / 3]; int part = batch % 3, B = h->blk, H = h->out, d = g_depth;
    if (part == 0) {
        size_t ik[6] = { 0, 1, (size_t) H, 100, (size_t) B + 1, 300 };
        for (size_t sl = 0; sl <= (size_t) 3 * B + 1; sl++) for (int j = 0; j < (d ? 6 : 2); j++) hkdf_extract_item(h, sl, ik[(sl + j) % 6], (int) ((sl + j) % 16));
    } else if (part == 1) {
        size_t infos[6] = { 0, 1, (size_t) H, 13, 79, 80 }, prks[5] = { (size_t) H, (size_t) H + 1, (size_t) B, (size_t) B + 1, (size_t) 2 * B + 3 };
        for (size_t ol = 0; ol <= (size_t) 3 * H + 1; ol++) for (int j = 0; j < (d ? 6 : 3); j++) hkdf_expand_item(h, prks[(ol + j) % 5], infos[(ol + 2 * j) % 6], ol, (int) ((ol + j) % 16));
        for (int j = 0; j < 6; j++) { hkdf_expand_item(h, H, infos[j], (size_t) 255 * H, j); hkdf_expand_item(h, H, infos[j], (size_t) 255 * H - 1, j + 3); hkdf_expand_item(h, H, infos[j], (size_t) 254 * H + 1, j + 6); }
        hkdf_expand_item(h, H, 0, (size_t) 255 * H + 1, 0);      /* must be refused */
        hkdf_expand_item(h, H, 81, 10, 0);                        /* implementation limit: only "no wrong output" is asserted */
        hkdf_expand_item(h, H - 1, 0, 10, 0);
        for (int i = 0; i < RN[d]; i++) { vf_rng r; vf_rng_init(&r, vf_seed + g_ghash, ((uint64_t) batch << 24) + i); size_t pl = H + vf_below(&r, 3 * B), il = vf_below(&r, 81), ol = vf_below(&r, 6) ? vf_below(&r, 8 * H) : vf_below(&r, 255 * H + 1); hkdf_expand_item(h, pl, il, ol, (int) vf_below(&r, 16)); }
    } else {
        if (h->alg == A_MD5 || h->alg == A_SHA1) {                /* TLS 1.3 uses SHA-256/384 only; keep a light sweep */
            for (size_t ll = 1; ll <= 12; ll++) hkdf_label_item(h, ll, H, H, (int) ll);
            return;
        }
        size_t cls[4] = { 0, (size_t) H, 1, 17 }, ols[8] = { 0, 1, 12, 16, 32, (size_t) H, (size_t) H + 1, 100 };
        for (size_t ll = 0; ll <= 22; ll++) for (int ci = 0; ci < 4; ci++) for (int oi = 0; oi < (d ? 8 : 4); oi++) hkdf_label_item(h, ll, cls[ci], ols[(ll + ci + (d ? oi : 2 * oi)) % 8], (int) ((ll + ci + oi) % 16));
        for (size_t ll = 60; ll <= 72; ll += 3) hkdf_label_item(h, ll, 0, 32, 0);     /* around the 80-byte info limit */
        for (int i = 0; i < RN[d]; i++) { vf_rng r; vf_rng_init(&r, vf_seed + g_ghash, ((uint64_t) batch << 24) + i); size_t ll = 1 + vf_below(&r, 24), cl = vf_below(&r, 2) ? H : vf_below(&r, 40), ol = vf_below(&r, 3 * H + 2); hkdf_label_item(h, ll, cl, ol, (int) vf_below(&r, 16)); }
    }
}

/* ================================================================== */
/* PBKDF2 (HMAC-SHA1)                                                  */
/* ================================================================== */
static void pbkdf2_item(size_t pl, size_t sl, int rounds, size_t kl, int a)
{
    if (!item_begin()) return;
    xb_t xp, xs, xo; unsigned char *ref = malloc(kl);
    xb_dup(&xp, a, slice(pl), pl); xb_dup(&xs, (a + 3) % 16, slice(sl), sl); xb_new(&xo, (a + 6) % 16, kl);
    if (!PKCS5_PBKDF2_HMAC((const char *) xp.p, (int) pl, xs.p, (int) sl, rounds, RMD[R_SHA1], (int) kl, ref)) die("PKCS5_PBKDF2_HMAC failed");
    if (g_batch == 0 && g_item == 50) vf_sample("pbkdf2: password %zu bytes, salt %zu, %d rounds, %zu output bytes", pl, sl, rounds, kl);
    psPkcs5Pbkdf2(xp.p, (uint32) pl, xs.p, (uint32) sl, rounds, xo.p, (uint32) kl);
    cnt(pl > 64 ? "pbkdf2-long-password" : "pbkdf2");
    if (memcmp(xo.p, ref, kl)) V("pbkdf2", pl > 64 ? "wrong-output-long-password" : "wrong-output", "password %zu bytes salt %zu rounds %d key %zu: got %s want %s", pl, sl, rounds, kl, hx(xo.p, kl), hx(ref, kl));
    XB_CHECK(&xo, "pbkdf2");
    vf_distinct("pbkdf2|%zu|%zu|%d|%zu", pl, sl, rounds, kl);
    xb_free(&xp); xb_free(&xs); xb_free(&xo); free(ref);
}
/* batches 0..3: passwords 1..64 (clean); batches 4..20: passwords 65..200 in runs of 8 (known defect
 * F-C12-a aborts the batch under ASan at its first item, so the runs are kept short) */
static int pbkdf2_nbatches(void) { return 4 + 17; }
static void pbkdf2_run(int batch)
{
    static const size_t sls[6] = { 8, 0, 1, 16, 20, 40 }, kls[8] = { 20, 1, 19, 21, 24, 32, 40, 100 }; static const int rds[5] = { 1, 2, 3, 5, 17 };
    int d = g_depth;
    if (batch < 4) {
        for (size_t pl = 1 + batch * 16; pl <= (size_t) 16 + batch * 16; pl++) for (int j = 0; j < (d ? 24 : 6); j++) pbkdf2_item(pl, sls[(pl + j) % 6], rds[(pl + j / 2) % 5], kls[(pl + 3 * j) % 8], (int) ((pl + j) % 16));
        if (d) pbkdf2_item(8 + batch, 8, 2048, 32, 0);
    } else {
        for (size_t pl = 65 + (batch - 4) * 8; pl < (size_t) 65 + (batch - 3) * 8 && pl <= 200; pl++) for (int j = 0; j < (d ? 4 : 1); j++) pbkdf2_item(pl, sls[(pl + j) % 6], rds[(pl + j) % 3], kls[(pl + j) % 8], (int) (pl % 16));
    }
}

/* ================================================================== */
/* AES block, AES-CBC, 3DES-CBC                                        */
/* ================================================================== */
typedef struct { const char *name, *bname; int bs, ks, ki, des; size_t ctxsz; } cbc_t;
static const cbc_t CB[4] = {
    { "aes128cbc", "aes128", 16, 16, 0, 0, sizeof(psAesCbc_t) },
    { "aes192cbc", "aes192", 16, 24, 1, 0, sizeof(psAesCbc_t) },
    { "aes256cbc", "aes256", 16, 32, 2, 0, sizeof(psAesCbc_t) },
    { "des3cbc",   "des3",    8, 24, 0, 1, sizeof(psDes3_t) },
};
static EVP_CIPHER *cbc_ref(const cbc_t *c) { return c->des ? RC_DES3 : RC_CBC[c->ki]; }
static int cbc_init(const cbc_t *c, void *x, const unsigned char *iv, const unsigned char *key, int enc)
{
    return c->des ? psDes3Init(x, iv, key) : psAesInitCBC(x, iv, key, (uint8_t) c->ks, enc ? PS_AES_ENCRYPT : PS_AES_DECRYPT);
}
static void cbc_crypt(const cbc_t *c, void *x, int enc, const unsigned char *in, unsigned char *out, uint32_t n)
{
    if (n % c->bs) die("CBC length not a block multiple");
    if (c->des) { if (enc) psDes3Encrypt(x, in, out, n); else psDes3Decrypt(x, in, out, n); }
    else { if (enc) psAesEncryptCBC(x, in, out, n); else psAesDecryptCBC(x, in, out, n); }
}
static void aes_block_item(const cbc_t *c, int enc, int sa, int da, int inplace)
{
    if (!item_begin()) return;
    xb_t xk, xi, xo; unsigned char ref[16]; psAesKey_t *k = malloc(sizeof *k);
    xb_dup(&xk, (sa + 7) % 16, slice(c->ks), c->ks); xb_dup(&xi, sa, slice(16), 16); xb_new(&xo, da, 16);
    ref_cipher(RC_ECB[c->ki], enc, xk.p, NULL, xi.p, 16, ref);
    int32_t rc = psAesInitBlockKey(k, xk.p, (uint8_t) c->ks, enc ? PS_AES_ENCRYPT : PS_AES_DECRYPT);
    unsigned char *dst = inplace ? xi.p : xo.p;
    cnt(c->bname);
    if (rc < 0) V(c->bname, "init-failed", "psAesInitBlockKey returned %d", rc);
    else {
        if (enc) psAesEncryptBlock(k, xi.p, dst); else psAesDecryptBlock(k, xi.p, dst);
        if (memcmp(dst, ref, 16)) V(c->bname, enc ? (inplace ? "wrong-block-enc-inplace" : "wrong-block-enc") : (inplace ? "wrong-block-dec-inplace" : "wrong-block-dec"), "src align %d dst align %d: got %s want %s", sa, da, hx(dst, 16), hx(ref, 16));
        psAesClearBlockKey(k);
    }
    XB_CHECK(&xo, c->bname); XB_CHECK(&xi, c->bname);
    vf_distinct("%s|%d|%d|%d|%d", c->bname, enc, sa, da, inplace);
    xb_free(&xk); xb_free(&xi); xb_free(&xo); free(k);
}
/* nb blocks; cuts are in blocks (sorted); inplace: src == dst */
static void cbc_item(const cbc_t *c, int enc, size_t nb, const uint32_t *cut, int nc, int sa, int da, int inplace, const char *tag)
{
    if (!item_begin()) return;
    size_t n = nb * c->bs; xb_t xk, xv, xi, xo; unsigned char *ref = malloc(n + 1); void *x = malloc(c->ctxsz);
    xb_dup(&xk, (sa + 7) % 16, slice(c->ks), c->ks); xb_dup(&xv, (sa + 11) % 16, slice(c->bs), c->bs); xb_dup(&xi, sa, slice(n), n); xb_new(&xo, da, inplace ? 0 : n);
    ref_cipher(cbc_ref(c), enc, xk.p, xv.p, xi.p, n, ref);
    unsigned char *dst = inplace ? xi.p : xo.p;
    if (g_item & 1) { unsigned char scratch[32]; if (cbc_init(c, x, xk.p, xk.p, !enc) >= 0) cbc_crypt(c, x, !enc, xk.p, scratch, (uint32_t) c->bs); }   /* dirty the context: reuse through re-Init */
    int32_t rc = cbc_init(c, x, xv.p, xk.p, enc);
    if (g_batch % 6 == 3 && g_item == 300) vf_sample("%s: %s %zu bytes in %d calls, src align %d dst align %d%s", c->name, enc ? "encrypt" : "decrypt", n, nc + 1, sa, da, inplace ? " in place" : "");
    cnt(c->name);
    if (rc < 0) V(c->name, "init-failed", "Init returned %d", rc);
    else {
        size_t p = 0;
        for (int i = 0; i < nc; i++) { size_t e = (size_t) cut[i] * c->bs; cbc_crypt(c, x, enc, xi.p + p, dst + p, (uint32_t) (e - p)); p = e; }
        cbc_crypt(c, x, enc, xi.p + p, dst + p, (uint32_t) (n - p));
        if (memcmp(dst, ref, n)) {
            char cls[64]; size_t i = 0; while (dst[i] == ref[i]) i++;
            snprintf(cls, sizeof cls, "wrong-%s%s", enc ? "ciphertext" : "plaintext", inplace ? "-inplace" : nc ? "-split" : "");
            V(c->name, cls, "%s %zu bytes calls %d src align %d dst align %d inplace %d: first difference at byte %zu: got %s want %s", tag, n, nc + 1, sa, da, inplace, i, hx(dst + i, n - i), hx(ref + i, n - i));
        }
        if (c->des) psDes3Clear(x); else psAesClearCBC(x);
    }
    XB_CHECK(&xo, c->name); XB_CHECK(&xi, c->name);
    vf_distinct("%s|%s|%d|nb=%d|nc=%d|%d|%d|%d", c->name, tag, enc, nb <= 40 ? (int) nb : 1000 + (int) (nb % 4), nc > 8 ? 8 : nc, sa, da, inplace);
    xb_free(&xk); xb_free(&xv); xb_free(&xi); xb_free(&xo); free(ref); free(x);
}
/* two contexts (one encrypting, one decrypting, different keys) used alternately, block by block groups */
static void cbc_inter_item(const cbc_t *c, const cbc_t *c2)
{
    if (!item_begin()) return;
    const cbc_t *C[2] = { c, c2 }; void *x[2]; xb_t xk[2], xv[2], xi[2], xo[2]; unsigned char *ref[2]; size_t n[2], p[2] = { 0, 0 }; int enc[2]; int ok = 1;
    for (int i = 0; i < 2; i++) {
        enc[i] = (int) vf_below(&ir, 2); n[i] = (size_t) vf_below(&ir, 40) * C[i]->bs; x[i] = malloc(C[i]->ctxsz); ref[i] = malloc(n[i] + 1);
        xb_dup(&xk[i], vf_below(&ir, 16), slice(C[i]->ks), C[i]->ks); xb_dup(&xv[i], vf_below(&ir, 16), slice(C[i]->bs), C[i]->bs); xb_dup(&xi[i], vf_below(&ir, 16), slice(n[i]), n[i]); xb_new(&xo[i], vf_below(&ir, 16), n[i]);
        ref_cipher(cbc_ref(C[i]), enc[i], xk[i].p, xv[i].p, xi[i].p, n[i], ref[i]);
        if (cbc_init(C[i], x[i], xv[i].p, xk[i].p, enc[i]) < 0) ok = 0;
    }
    while (ok && (p[0] < n[0] || p[1] < n[1])) for (int i = 0; i < 2; i++) if (p[i] < n[i]) {
        size_t left = (n[i] - p[i]) / C[i]->bs, take = (1 + vf_below(&ir, (uint32_t) (left < 5 ? left : 5))) * C[i]->bs;
        cbc_crypt(C[i], x[i], enc[i], xi[i].p + p[i], xo[i].p + p[i], (uint32_t) take); p[i] += take;
    }
    for (int i = 0; i < 2; i++) {
        cnt(C[i]->name);
        if (!ok) V(C[i]->name, "init-failed", "Init failed");
        else if (memcmp(xo[i].p, ref[i], n[i])) V(C[i]->name, enc[i] ? "wrong-ciphertext-interleaved" : "wrong-plaintext-interleaved", "%zu bytes with a second live context: got %s want %s", n[i], hx(xo[i].p, n[i]), hx(ref[i], n[i]));
        XB_CHECK(&xo[i], C[i]->name);
        xb_free(&xk[i]); xb_free(&xv[i]); xb_free(&xi[i]); xb_free(&xo[i]); free(ref[i]); free(x[i]);
    }
    vf_distinct("%s|inter|%s|%d%d|%d|%d", c->name, c2->name, enc[0], enc[1], (int) (n[0] / c->bs) / 4, (int) (n[1] / c2->bs) / 4);
}
static int cbc_nbatches(void) { return 4 * 6; }
static void cbc_run(int batch)
{
    const cbc_t *c = &CB[batch / 6]; int part = batch % 6, d = g_depth;
    switch (part) {
    case 0:
        if (c->des) break;
        for (int enc = 0; enc < 2; enc++) { for (int sa = 0; sa < 16; sa++) for (int da = 0; da < 16; da++) aes_block_item(c, enc, sa, da, 0); for (int sa = 0; sa < 16; sa++) aes_block_item(c, enc, sa, 0, 1); }
        break;
    case 1:     /* every length 0..(17 blocks), in and out of place, rotating alignments (all pairs when deeper) */
        for (int enc = 0; enc < 2; enc++) for (size_t nb = 0; nb <= 17; nb++) for (int ip = 0; ip < 2; ip++)
            for (int k = 0; k < (d ? 64 : 4); k++) cbc_item(c, enc, nb, NULL, 0, (int) ((nb + 5 * k) % 16), (int) ((3 * nb + 7 * k + k / 16) % 16), ip, "len");
        break;
    case 2:     /* all 16x16 alignments on a 3-block message */
        for (int enc = 0; enc < 2; enc++) { for (int sa = 0; sa < 16; sa++) for (int da = 0; da < 16; da++) cbc_item(c, enc, 3, NULL, 0, sa, da, 0, "align"); for (int sa = 0; sa < 16; sa++) cbc_item(c, enc, 3, NULL, 0, sa, 0, 1, "align"); }
        break;
    case 3: {   /* all compositions of n blocks */
        int maxn = d == 0 ? 8 : d == 1 ? 10 : 12;
        for (int enc = 0; enc < 2; enc++) for (int n = 1; n <= maxn; n++) for (uint32_t m = 0; m < (1u << (n - 1)); m++) {
            uint32_t cu[16]; int nc = 0; for (int i = 0; i < n - 1; i++) if (m >> i & 1) cu[nc++] = i + 1;
            cbc_item(c, enc, n, cu, nc, (int) (m % 16), (int) ((m / 16 + n) % 16), (int) ((m >> 3) & 1), "comp");
        }
        break; }
    case 4:
        for (int i = 0; i < RN[d]; i++) {
            vf_rng r; vf_rng_init(&r, vf_seed + g_ghash, ((uint64_t) batch << 24) + i);
            size_t nb = rand_len(NULL, &r) / c->bs; uint32_t cu[8]; int nc = rand_cuts(&r, nb, cu, 6);
            cbc_item(c, (int) vf_below(&r, 2), nb, cu, nc, (int) vf_below(&r, 16), (int) vf_below(&r, 16), (int) vf_below(&r, 2), "rand");
        }
        break;
    case 5:
        for (int i = 0; i < IN[d]; i++) cbc_inter_item(c, (i & 1) ? &CB[(batch / 6 + 1 + i / 2) % 4] : c);
        break;
    }
}

/* ================================================================== */
/* AES-GCM                                                             */
/* ================================================================== */
static const char *GN[3] = { "aes128gcm", "aes192gcm", "aes256gcm" };
static const int GKS[3] = { 16, 24, 32 };
typedef struct { xb_t k, iv, aad, pt; unsigned char *ct; unsigned char tag[16]; size_t n, al; int ki; } gcase_t;
static void gcase_new(gcase_t *g, int ki, size_t n, size_t al, int a)
{
    g->ki = ki; g->n = n; g->al = al;
    xb_dup(&g->k, (a + 1) % 16, slice(GKS[ki]), GKS[ki]); xb_dup(&g->iv, (a + 2) % 16, slice(12), 12); xb_dup(&g->aad, (a + 3) % 16, slice(al), al); xb_dup(&g->pt, a, slice(n), n);
    g->ct = malloc(n + 1);
    ref_aead(RC_GCM[ki], g->k.p, g->iv.p, g->aad.p, al, g->pt.p, n, g->ct, g->tag);
}
static void gcase_free(gcase_t *g) { xb_free(&g->k); xb_free(&g->iv); xb_free(&g->aad); xb_free(&g->pt); free(g->ct); }
static int gcm_ready(psAesGcm_t *x, int ki, const unsigned char *k, const unsigned char *iv, const unsigned char *aad, size_t al)
{
    int32_t rc = psAesInitGCM(x, k, (uint8_t) GKS[ki]);
    if (rc < 0) { V(GN[ki], "init-failed", "psAesInitGCM returned %d", rc); return -1; }
    psAesReadyGCM(x, iv, aad, (psSize_t) al);
    return 0;
}
/* Re-arm a context for another message.  After a 16-byte tag the TLS pattern (psAesReadyGCM on the
 * same context) is used; after a shorter tag the context is fully re-initialised here, and the
 * reuse-after-short-tag pattern is judged separately by gcm_reuse_item. */
static void gcm_again(psAesGcm_t *x, int ki, const unsigned char *k, const unsigned char *iv, const unsigned char *aad, size_t al, int tb)
{
    if (tb == 16) psAesReadyGCM(x, iv, aad, (psSize_t) al);
    else (void) gcm_ready(x, ki, k, iv, aad, al);
}
/* seal with cuts, tag of tb bytes; open through the three decrypt entry points */
static void gcm_item(int ki, size_t n, size_t al, const uint32_t *cut, int nc, int a, int inplace, int tb, const char *tag)
{
    if (!item_begin()) return;
    gcase_t g; gcase_new(&g, ki, n, al, a);
    psAesGcm_t *x = malloc(sizeof *x); xb_t xo, xt, xw; const char *nm = GN[ki];
    if (g_batch % 6 == 0 && g_item == 700) vf_sample("%s: seal+open %zu bytes, aad %zu, %d encrypt calls, tag %d bytes, align %d%s", nm, n, al, nc + 1, tb, a, inplace ? " in place" : "");
    /* --- seal --- */
    xb_dup(&xw, (a + 5) % 16, g.pt.p, n); xb_new(&xo, (a + 9) % 16, inplace ? 0 : n); xb_new(&xt, (a + 4) % 16, tb);
    unsigned char *dst = inplace ? xw.p : xo.p;
    if (gcm_ready(x, ki, g.k.p, g.iv.p, g.aad.p, al) == 0) {
        size_t p = 0;
        for (int i = 0; i < nc; i++) { psAesEncryptGCM(x, xw.p + p, dst + p, (uint32_t) (cut[i] - p)); p = cut[i]; }
        psAesEncryptGCM(x, xw.p + p, dst + p, (uint32_t) (n - p));
        psAesGetGCMTag(x, (uint8_t) tb, xt.p);
        cnt(nm);
        if (memcmp(dst, g.ct, n)) { size_t i = 0; while (dst[i] == g.ct[i]) i++; V(nm, inplace ? "wrong-ciphertext-inplace" : nc ? "wrong-ciphertext-split" : "wrong-ciphertext", "%s n=%zu aad=%zu calls=%d align=%d: first difference at byte %zu: got %s want %s", tag, n, al, nc + 1, a, i, hx(dst + i, n - i), hx(g.ct + i, n - i)); }
        else if (memcmp(xt.p, g.tag, tb)) V(nm, nc ? "wrong-tag-split" : "wrong-tag", "%s n=%zu aad=%zu calls=%d tagbytes=%d: got %s want %s", tag, n, al, nc + 1, tb, hx(xt.p, tb), hx(g.tag, tb));
        XB_CHECK(&xo, nm); XB_CHECK(&xt, nm); XB_CHECK(&xw, nm);
    }
    xb_free(&xo); xb_free(&xt); xb_free(&xw);
    /* --- open, combined buffer ct || tag[0..tb) --- */
    xb_new(&xw, (a + 6) % 16, n + tb); memcpy(xw.p, g.ct, n); memcpy(xw.p + n, g.tag, tb); xb_new(&xo, (a + 10) % 16, inplace ? 0 : n);
    dst = inplace ? xw.p : xo.p;
    gcm_again(x, ki, g.k.p, g.iv.p, g.aad.p, al, tb);               /* context reuse: Ready again on the same key schedule */
    int32_t rc = psAesDecryptGCM(x, xw.p, (uint32_t) (n + tb), dst, (uint32_t) n);
    cnt(nm);
    if (rc < 0) V(nm, tb == 16 ? "rejects-valid" : "rejects-valid-short-tag", "psAesDecryptGCM returned %d for unmodified input n=%zu aad=%zu tagbytes=%d", rc, n, al, tb);
    else if (memcmp(dst, g.pt.p, n)) V(nm, inplace ? "wrong-plaintext-inplace" : "wrong-plaintext", "psAesDecryptGCM n=%zu aad=%zu: got %s want %s", n, al, hx(dst, n), hx(g.pt.p, n));
    XB_CHECK(&xo, nm); XB_CHECK(&xw, nm);
    xb_free(&xo); xb_free(&xw);
    /* --- open, tagless with cuts + psAesGetGCMTag --- */
    xb_dup(&xw, (a + 7) % 16, g.ct, n); xb_new(&xo, (a + 11) % 16, n); xb_new(&xt, (a + 12) % 16, 16);
    gcm_again(x, ki, g.k.p, g.iv.p, g.aad.p, al, tb);
    { size_t p = 0;
      for (int i = 0; i < nc; i++) { psAesDecryptGCMtagless(x, xw.p + p, xo.p + p, (uint32_t) (cut[i] - p)); p = cut[i]; }
      psAesDecryptGCMtagless(x, xw.p + p, xo.p + p, (uint32_t) (n - p)); }
    psAesGetGCMTag(x, 16, xt.p);
    cnt(nm);
    if (memcmp(xo.p, g.pt.p, n)) V(nm, nc ? "wrong-plaintext-tagless-split" : "wrong-plaintext-tagless", "n=%zu aad=%zu calls=%d: got %s want %s", n, al, nc + 1, hx(xo.p, n), hx(g.pt.p, n));
    else if (memcmp(xt.p, g.tag, 16)) V(nm, nc ? "wrong-tag-tagless-split" : "wrong-tag-tagless", "n=%zu aad=%zu calls=%d: got %s want %s", n, al, nc + 1, hx(xt.p, 16), hx(g.tag, 16));
    XB_CHECK(&xo, nm); XB_CHECK(&xt, nm);
    /* --- open, psAesDecryptGCM2 with detached tag --- */
    { xb_t xg; xb_dup(&xg, (a + 13) % 16, g.tag, tb);
      psAesReadyGCM(x, g.iv.p, g.aad.p, (psSize_t) al);
      rc = psAesDecryptGCM2(x, xw.p, xo.p, (uint32_t) n, xg.p, (uint32_t) tb);
      cnt(nm);
      if (rc < 0) V(nm, "rejects-valid-gcm2", "psAesDecryptGCM2 returned %d for unmodified input n=%zu aad=%zu tagbytes=%d", rc, n, al, tb);
      else if (memcmp(xo.p, g.pt.p, n)) V(nm, "wrong-plaintext-gcm2", "n=%zu aad=%zu", n, al);
      XB_CHECK(&xo, nm); xb_free(&xg); }
    xb_free(&xo); xb_free(&xt); xb_free(&xw);
    psAesClearGCM(x);
    if (nc <= 2) vf_distinct("%s|%s|n=%d|al=%zu|nc=%d|c=%d,%d|a=%d|ip=%d|tb=%d", nm, tag, n <= 260 ? (int) n : 1000 + (int) (n % 16), al, nc, nc > 0 ? (int) cut[0] : -1, nc > 1 ? (int) cut[1] : -1, a, inplace, tb);
    else vf_distinct("%s|%s|n=%d|al=%zu|nc=%d|a=%d|ip=%d|tb=%d", nm, tag, n <= 260 ? (int) n : 1000 + (int) (n % 16), al, nc, a, inplace, tb);
    free(x); gcase_free(&g);
}
/* all compositions of the encrypt calls over the last n bytes of a (q+n)-byte plaintext */
static void gcm_comp_item(int ki, int n, int q, size_t al)
{
    if (!item_begin()) return;
    gcase_t g; size_t L = (size_t) q + n; gcase_new(&g, ki, L, al, (int) (L % 16));
    psAesGcm_t *x = malloc(sizeof *x); xb_t xo, xt; const char *nm = GN[ki]; long bad = 0;
    xb_new(&xo, 3, L); xb_new(&xt, 5, 16);
    if (gcm_ready(x, ki, g.k.p, g.iv.p, g.aad.p, al) == 0) for (uint32_t mask = 0; mask < (1u << (n - 1)); mask++) {
        int decrypt = (int) (mask & 1) ^ (n & 1);
        const unsigned char *src = decrypt ? g.ct : g.pt.p, *want = decrypt ? g.pt.p : g.ct;
        psAesReadyGCM(x, g.iv.p, g.aad.p, (psSize_t) al);
        size_t p = 0;
        if (q) { if (decrypt) psAesDecryptGCMtagless(x, src, xo.p, q); else psAesEncryptGCM(x, src, xo.p, q); p = q; }
        for (int i = 0; i < n - 1; i++) if (mask >> i & 1) { size_t e = (size_t) q + i + 1; if (decrypt) psAesDecryptGCMtagless(x, src + p, xo.p + p, (uint32_t) (e - p)); else psAesEncryptGCM(x, src + p, xo.p + p, (uint32_t) (e - p)); p = e; }
        if (decrypt) psAesDecryptGCMtagless(x, src + p, xo.p + p, (uint32_t) (L - p)); else psAesEncryptGCM(x, src + p, xo.p + p, (uint32_t) (L - p));
        psAesGetGCMTag(x, 16, xt.p);
        if ((memcmp(xo.p, want, L) || memcmp(xt.p, g.tag, 16)) && bad++ < 2)
            V(nm, memcmp(xo.p, want, L) ? (decrypt ? "wrong-plaintext-tagless-split" : "wrong-ciphertext-split") : "wrong-tag-split", "%s of %zu bytes (aad %zu), call composition mask 0x%x over the last %d bytes after a %d-byte first call: tag got %s want %s", decrypt ? "tagless decrypt" : "encrypt", L, al, mask, n, q, hx(xt.p, 16), hx(g.tag, 16));
    }
    cntn(nm, 1L << (n - 1));
    XB_CHECK(&xo, nm); XB_CHECK(&xt, nm);
    vf_distinct("%s|comp|n=%d|q=%d|al=%zu", nm, n, q, al);
    xb_free(&xo); xb_free(&xt); psAesClearGCM(x); free(x); gcase_free(&g);
}
/* every single-bit change of ciphertext, tag, nonce, AAD must be rejected; so must truncations */
static void gcm_neg_item(int ki, size_t n, size_t al, int tb, int use2)
{
    if (!item_begin()) return;
    gcase_t g; gcase_new(&g, ki, n, al, (int) ((n + al) % 16));
    psAesGcm_t *x = malloc(sizeof *x); const char *nm = GN[ki]; xb_t xw, xo, xiv, xa; int32_t rc; long nchk = 0; int bad[5] = { 0, 0, 0, 0, 0 };
    xb_new(&xw, 1, n + tb); memcpy(xw.p, g.ct, n); memcpy(xw.p + n, g.tag, tb); xb_new(&xo, 2, n); xb_dup(&xiv, 3, g.iv.p, 12); xb_dup(&xa, 4, g.aad.p, al);
    if (g_batch % 6 == 3 && g_item == 5) vf_sample("%s: all %zu single-bit changes of ct(%zu)/tag(%d)/nonce/aad(%zu) + truncations must be rejected (%s)", nm, 8 * (n + tb + 12 + al), n, tb, al, use2 ? "psAesDecryptGCM2" : "psAesDecryptGCM");
    if (gcm_ready(x, ki, g.k.p, g.iv.p, g.aad.p, al) == 0) {
#define GCM_OPEN() (gcm_again(x, ki, g.k.p, xiv.p, xa.p, al, use2 ? 16 : tb), nchk++, use2 ? psAesDecryptGCM2(x, xw.p, xo.p, (uint32_t) n, xw.p + n, (uint32_t) tb) : psAesDecryptGCM(x, xw.p, (uint32_t) (n + tb), xo.p, (uint32_t) n))
        rc = GCM_OPEN();
        if (rc < 0) V(nm, tb == 16 ? "rejects-valid" : "rejects-valid-short-tag", "unmodified input rejected (%d) n=%zu aad=%zu tagbytes=%d gcm2=%d", rc, n, al, tb, use2);
        else {
            /* A tb-byte tag is forged by chance with probability 2^-8tb: changes that do not touch the tag itself are
             * only required to be rejected when that chance is negligible (tb >= 8); tag-bit flips are deterministic. */
            int strong = tb >= 8;
            for (size_t b = strong ? 0 : 8 * n; b < 8 * (n + tb); b++) {
                xw.p[b / 8] ^= (unsigned char) (1 << (b % 8)); rc = GCM_OPEN(); xw.p[b / 8] ^= (unsigned char) (1 << (b % 8));
                if (rc >= 0 && bad[b / 8 < n ? 0 : 1]++ < 1) V(nm, b / 8 < n ? "accepts-modified-ciphertext" : "accepts-modified-tag", "bit %zu of byte %zu of %s flipped, n=%zu aad=%zu tagbytes=%d gcm2=%d: accepted", b % 8, b / 8 < n ? b / 8 : b / 8 - n, b / 8 < n ? "ciphertext" : "tag", n, al, tb, use2);
            }
            for (size_t b = 0; strong && b < 96; b++) {
                xiv.p[b / 8] ^= (unsigned char) (1 << (b % 8)); rc = GCM_OPEN(); xiv.p[b / 8] ^= (unsigned char) (1 << (b % 8));
                if (rc >= 0 && bad[2]++ < 1) V(nm, "accepts-modified-nonce", "nonce bit %zu flipped, n=%zu aad=%zu tagbytes=%d: accepted", b, n, al, tb);
            }
            for (size_t b = 0; strong && b < 8 * al; b++) {
                xa.p[b / 8] ^= (unsigned char) (1 << (b % 8)); rc = GCM_OPEN(); xa.p[b / 8] ^= (unsigned char) (1 << (b % 8));
                if (rc >= 0 && bad[3]++ < 1) V(nm, "accepts-modified-aad", "aad bit %zu flipped, n=%zu aad=%zu tagbytes=%d: accepted", b, n, al, tb);
            }
            if (!use2) {
                /* the record is cut short by k bytes but the caller still expects a tb-byte tag */
                for (size_t k = 1; strong && k <= (size_t) tb && k <= n; k++) {
                    gcm_again(x, ki, g.k.p, xiv.p, xa.p, al, tb); nchk++;
                    rc = psAesDecryptGCM(x, xw.p, (uint32_t) (n + tb - k), xo.p, (uint32_t) (n - k));
                    if (rc >= 0 && bad[4]++ < 1) V(nm, "accepts-truncated", "input truncated by %zu bytes (n=%zu aad=%zu tagbytes=%d) accepted", k, n, al, tb);
                }
                /* no tag at all / shorter than the plaintext length: must be refused */
                gcm_again(x, ki, g.k.p, xiv.p, xa.p, al, tb); nchk++;
                if (psAesDecryptGCM(x, xw.p, (uint32_t) n, xo.p, (uint32_t) n) >= 0) V(nm, "accepts-missing-tag", "ctLen == ptLen (%zu) accepted", n);
                if (n) { gcm_again(x, ki, g.k.p, xiv.p, xa.p, al, tb); nchk++; if (psAesDecryptGCM(x, xw.p, (uint32_t) (n - 1), xo.p, (uint32_t) n) >= 0) V(nm, "accepts-missing-tag", "ctLen < ptLen accepted"); }
            }
        }
    }
    cntn(nm, nchk);
    XB_CHECK(&xo, nm);
    vf_distinct("%s|neg|n=%zu|al=%zu|tb=%d|%d", nm, n, al, tb, use2);
    xb_free(&xw); xb_free(&xo); xb_free(&xiv); xb_free(&xa); psAesClearGCM(x); free(x); gcase_free(&g);
}
/* context reuse: message 1 sealed with a tb-byte tag, then psAesReadyGCM + message 2 on the same context */
static void gcm_reuse_item(int ki, size_t n1, size_t n2, int tb)
{
    if (!item_begin()) return;
    gcase_t g1, g2; gcase_new(&g1, ki, n1, 13, 1); gcase_new(&g2, ki, n2, 5, 2);
    psAesGcm_t *x = malloc(sizeof *x); xb_t xo, xt; const char *nm = GN[ki];
    xb_new(&xo, 3, n1 > n2 ? n1 : n2); xb_new(&xt, 4, 16);
    if (gcm_ready(x, ki, g1.k.p, g1.iv.p, g1.aad.p, g1.al) == 0) {
        psAesEncryptGCM(x, g1.pt.p, xo.p, (uint32_t) n1); psAesGetGCMTag(x, (uint8_t) tb, xt.p);
        ref_aead(RC_GCM[ki], g1.k.p, g2.iv.p, g2.aad.p, g2.al, g2.pt.p, n2, g2.ct, g2.tag);   /* message 2 under key 1 */
        psAesReadyGCM(x, g2.iv.p, g2.aad.p, (psSize_t) g2.al);
        psAesEncryptGCM(x, g2.pt.p, xo.p, (uint32_t) n2); psAesGetGCMTag(x, 16, xt.p);
        cnt(nm);
        if (memcmp(xo.p, g2.ct, n2) || memcmp(xt.p, g2.tag, 16))
            V(nm, tb == 16 ? "wrong-output-reused-context" : "wrong-output-reused-context-after-short-tag", "second message (%zu bytes) on a context whose first message (%zu bytes) fetched a %d-byte tag: ct got %s want %s", n2, n1, tb, hx(xo.p, n2), hx(g2.ct, n2));
    }
    XB_CHECK(&xo, nm); XB_CHECK(&xt, nm);
    vf_distinct("%s|reuse|%zu|%zu|%d", nm, n1, n2, tb);
    xb_free(&xo); xb_free(&xt); psAesClearGCM(x); free(x); gcase_free(&g1); gcase_free(&g2);
}
/* two live contexts sealing alternately */
static void gcm_inter_item(int ki, int ki2)
{
    if (!item_begin()) return;
    int K[2] = { ki, ki2 }; gcase_t g[2]; psAesGcm_t *x[2]; xb_t xo[2]; size_t p[2] = { 0, 0 }; unsigned char tg[2][16]; int ok = 1;
    for (int i = 0; i < 2; i++) { gcase_new(&g[i], K[i], vf_below(&ir, 300), vf_below(&ir, 65), (int) vf_below(&ir, 16)); x[i] = malloc(sizeof(psAesGcm_t)); xb_new(&xo[i], vf_below(&ir, 16), g[i].n); if (gcm_ready(x[i], K[i], g[i].k.p, g[i].iv.p, g[i].aad.p, g[i].al) < 0) ok = 0; }
    while (ok && (p[0] < g[0].n || p[1] < g[1].n)) for (int i = 0; i < 2; i++) if (p[i] < g[i].n) {
        size_t left = g[i].n - p[i], take = 1 + vf_below(&ir, (uint32_t) (left < 40 ? left : 40));
        psAesEncryptGCM(x[i], g[i].pt.p + p[i], xo[i].p + p[i], (uint32_t) take); p[i] += take;
    }
    for (int i = 1; ok && i >= 0; i--) psAesGetGCMTag(x[i], 16, tg[i]);
    for (int i = 0; i < 2; i++) {
        cnt(GN[K[i]]);
        if (ok && (memcmp(xo[i].p, g[i].ct, g[i].n) || memcmp(tg[i], g[i].tag, 16))) V(GN[K[i]], "wrong-output-interleaved", "n=%zu aad=%zu sealed while a second context was live: tag got %s want %s", g[i].n, g[i].al, hx(tg[i], 16), hx(g[i].tag, 16));
        XB_CHECK(&xo[i], GN[K[i]]); xb_free(&xo[i]); psAesClearGCM(x[i]); free(x[i]); gcase_free(&g[i]);
    }
    vf_distinct("gcm|inter|%d|%d", ki, ki2);
}
static const int GNEG[3] = { 1, 30, 300 };
static int gcm_nbatches(void) { return 3 * 6; }
static void gcm_run(int batch)
{
    int ki = batch / 6, part = batch % 6, d = g_depth;
    static const size_t pls[10] = { 0, 1, 15, 16, 17, 31, 32, 33, 64, 65 };
    switch (part) {
    case 0:     /* plaintext 0..65 x AAD 0..64 */
        for (size_t al = 0; al <= 64; al++) {
            if (ki == 0 || d) for (size_t n = 0; n <= 65; n++) gcm_item(ki, n, al, NULL, 0, (int) ((n + al) % 16), (int) ((n + al) & 1), 16, "len");
            else for (int j = 0; j < 10; j++) gcm_item(ki, pls[j], al, NULL, 0, (int) ((j + al) % 16), (int) ((j + al) & 1), 16, "len");
        }
        break;
    case 1:     /* lengths 0..260 (GHASH buffers 128 bytes internally), all tag lengths */
        for (size_t n = 0; n <= 260; n++) { gcm_item(ki, n, (n * 5) % 65, NULL, 0, (int) (n % 16), 0, 16, "len"); if (d) gcm_item(ki, n, 13, NULL, 0, (int) ((n + 8) % 16), 1, 16, "len"); }
        for (int tb = 1; tb <= 16; tb++) for (int j = 0; j < 10; j++) gcm_item(ki, pls[j], (size_t) (tb * 3 + j) % 65, NULL, 0, (tb + j) % 16, j & 1, tb, "taglen");
        for (int a = 0; a < 16; a++) for (int ip = 0; ip < 2; ip++) { gcm_item(ki, 33, 13, NULL, 0, a, ip, 16, "align"); gcm_item(ki, 129, 5, NULL, 0, a, ip, 16, "align"); }
        break;
    case 2: {   /* call partitions */
        int nmax = d == 0 ? 10 : d == 1 ? 12 : 14, n2 = d == 0 ? 7 : d == 1 ? 9 : 11;
        for (int n = 1; n <= nmax; n++) gcm_comp_item(ki, n, 0, (size_t) n % 3 ? 13 : 0);
        { int qs[5] = { 16 - n2 / 2, 32 - n2 / 2, 128 - n2 / 2, 144 - n2 / 2, 256 - n2 / 2 }; for (int i = 0; i < 5; i++) gcm_comp_item(ki, n2, qs[i], i & 1 ? 20 : 0); }
        { size_t Ls[5] = { 17, 33, 129, 145, 257 }; for (int i = 0; i < (d ? 5 : 3); i++) for (uint32_t c = 0; c <= Ls[i]; c++) gcm_item(ki, Ls[i], 13, &c, 1, (int) (c % 16), (int) (c & 1), 16, "split2"); }
        { int cand[12] = { 0, 1, 15, 16, 17, 127, 128, 129, 143, 144, 145, 161 }; for (int i = 0; i < 12; i++) for (int j = i; j < 12; j++) { uint32_t cu[2] = { (uint32_t) cand[i], (uint32_t) cand[j] }; gcm_item(ki, 161, 7, cu, 2, (i + j) % 16, 0, 16, "split3"); } }
        break; }
    case 3: {   /* negative: exhaustive bit flips */
        static const size_t ns[8] = { 0, 1, 16, 17, 40, 15, 33, 64 }, als[8] = { 0, 13, 1, 20, 5, 64, 0, 16 };
        for (int j = 0; j < (d ? 8 : 6); j++) gcm_neg_item(ki, ns[j], als[j], 16, j == 2 || j == 5);
        for (int tb = 1; tb < 16; tb++) gcm_neg_item(ki, ns[tb % 5], als[(tb + 1) % 5], tb, tb & 1);
        for (int i = 0; i < GNEG[d] * 4; i++) { vf_rng r; vf_rng_init(&r, vf_seed + g_ghash, ((uint64_t) batch << 24) + i); size_t n = vf_below(&r, 80), al = vf_below(&r, 65); gcm_neg_item(ki, n, al, vf_below(&r, 4) ? 16 : 1 + (int) vf_below(&r, 16), (int) vf_below(&r, 2)); }
        break; }
    case 4:
        for (int i = 0; i < RN[d]; i++) {
            vf_rng r; vf_rng_init(&r, vf_seed + g_ghash, ((uint64_t) batch << 24) + i);
            size_t n = rand_len(NULL, &r); uint32_t cu[8]; int nc = rand_cuts(&r, n, cu, 6);
            gcm_item(ki, n, vf_below(&r, 65), cu, nc, (int) vf_below(&r, 16), (int) vf_below(&r, 2), 16, "rand");
        }
        break;
    case 5:
        for (int i = 0; i < IN[d]; i++) gcm_inter_item(ki, (i & 1) ? (ki + 1 + i / 2) % 3 : ki);
        for (int tb = 1; tb <= 16; tb++) { gcm_reuse_item(ki, 20, 40, tb); gcm_reuse_item(ki, 0, 17, tb); gcm_reuse_item(ki, 33, 5, tb); }
        break;
    }
}

/* ================================================================== */
/* ChaCha20-Poly1305 (IETF)                                            */
/* ================================================================== */
#define CN "chacha20poly1305"
typedef struct { xb_t k, iv, aad, pt; unsigned char *ct; size_t n, al; } ccase_t;    /* ct holds n + 16 bytes (ct || tag) */
static void ccase_new(ccase_t *g, size_t n, size_t al, int a)
{
    g->n = n; g->al = al;
    xb_dup(&g->k, (a + 1) % 16, slice(32), 32); xb_dup(&g->iv, (a + 2) % 16, slice(12), 12); xb_dup(&g->aad, (a + 3) % 16, slice(al), al); xb_dup(&g->pt, a, slice(n), n);
    g->ct = malloc(n + 16);
    ref_aead(RC_CHACHA, g->k.p, g->iv.p, g->aad.p, al, g->pt.p, n, g->ct, g->ct + n);
}
static void ccase_free(ccase_t *g) { xb_free(&g->k); xb_free(&g->iv); xb_free(&g->aad); xb_free(&g->pt); free(g->ct); }
static void chacha_item(size_t n, size_t al, int a, int inplace, const char *tag)
{
    if (!item_begin()) return;
    ccase_t g; ccase_new(&g, n, al, a);
    psChacha20Poly1305Ietf_t *x = malloc(sizeof *x); xb_t xo, xt, xw; psResSize_t rc;
    if (g_batch == 0 && g_item == 131) vf_sample(CN ": seal+open %zu bytes, aad %zu, align %d%s", n, al, a, inplace ? " in place" : "");
    if (psChacha20Poly1305IetfInit(x, g.k.p) < 0) { V(CN, "init-failed", "Init failed"); goto out; }
    /* combined seal */
    xb_new(&xo, (a + 5) % 16, n + 16); if (inplace) memcpy(xo.p, g.pt.p, n);
    rc = psChacha20Poly1305IetfEncrypt(x, inplace ? xo.p : g.pt.p, n, g.iv.p, g.aad.p, al, xo.p);
    cnt(CN);
    if (rc != (psResSize_t) (n + 16)) V(CN, "wrong-return-encrypt", "Encrypt returned %d for %zu bytes", rc, n);
    else if (memcmp(xo.p, g.ct, n)) V(CN, inplace ? "wrong-ciphertext-inplace" : "wrong-ciphertext", "%s n=%zu aad=%zu align=%d: got %s want %s", tag, n, al, a, hx(xo.p, n), hx(g.ct, n));
    else if (memcmp(xo.p + n, g.ct + n, 16)) V(CN, "wrong-tag", "%s n=%zu aad=%zu align=%d: got %s want %s", tag, n, al, a, hx(xo.p + n, 16), hx(g.ct + n, 16));
    XB_CHECK(&xo, CN); xb_free(&xo);
    /* detached seal */
    xb_new(&xo, (a + 6) % 16, n); xb_new(&xt, (a + 7) % 16, 16); if (inplace) memcpy(xo.p, g.pt.p, n);
    rc = psChacha20Poly1305IetfEncryptDetached(x, inplace ? xo.p : g.pt.p, n, g.iv.p, g.aad.p, (psSize_t) al, xo.p, xt.p);
    cnt(CN);
    if (rc != (psResSize_t) n) V(CN, "wrong-return-encrypt", "EncryptDetached returned %d for %zu bytes", rc, n);
    else if (memcmp(xo.p, g.ct, n)) V(CN, inplace ? "wrong-ciphertext-inplace" : "wrong-ciphertext", "detached %s n=%zu aad=%zu: got %s want %s", tag, n, al, hx(xo.p, n), hx(g.ct, n));
    else if (memcmp(xt.p, g.ct + n, 16)) V(CN, "wrong-tag", "detached %s n=%zu aad=%zu: got %s want %s", tag, n, al, hx(xt.p, 16), hx(g.ct + n, 16));
    XB_CHECK(&xo, CN); XB_CHECK(&xt, CN); xb_free(&xo); xb_free(&xt);
    /* combined open */
    xb_dup(&xw, (a + 8) % 16, g.ct, n + 16); xb_new(&xo, (a + 9) % 16, inplace ? 0 : n);
    rc = psChacha20Poly1305IetfDecrypt(x, xw.p, n + 16, g.iv.p, g.aad.p, al, inplace ? xw.p : xo.p);
    cnt(CN);
    if (rc < 0) V(CN, "rejects-valid", "Decrypt returned %d for unmodified input n=%zu aad=%zu", rc, n, al);
    else if (rc != (psResSize_t) n) V(CN, "wrong-return-decrypt", "Decrypt returned %d for %zu plaintext bytes", rc, n);
    else if (memcmp(inplace ? xw.p : xo.p, g.pt.p, n)) V(CN, inplace ? "wrong-plaintext-inplace" : "wrong-plaintext", "n=%zu aad=%zu", n, al);
    XB_CHECK(&xo, CN); XB_CHECK(&xw, CN); xb_free(&xo); xb_free(&xw);
    /* detached open */
    xb_dup(&xw, (a + 10) % 16, g.ct, n); xb_dup(&xt, (a + 11) % 16, g.ct + n, 16); xb_new(&xo, (a + 12) % 16, inplace ? 0 : n);
    rc = psChacha20Poly1305IetfDecryptDetached(x, xw.p, n, g.iv.p, g.aad.p, al, xt.p, inplace ? xw.p : xo.p);
    cnt(CN);
    if (rc < 0) V(CN, "rejects-valid", "DecryptDetached returned %d for unmodified input n=%zu aad=%zu", rc, n, al);
    else if (rc != (psResSize_t) n) V(CN, "wrong-return-decrypt", "DecryptDetached returned %d for %zu bytes", rc, n);
    else if (memcmp(inplace ? xw.p : xo.p, g.pt.p, n)) V(CN, inplace ? "wrong-plaintext-inplace" : "wrong-plaintext", "detached n=%zu aad=%zu", n, al);
    XB_CHECK(&xo, CN); XB_CHECK(&xw, CN); xb_free(&xo); xb_free(&xw); xb_free(&xt);
    psChacha20Poly1305IetfClear(x);
    vf_distinct(CN "|%s|n=%d|al=%zu|a=%d|ip=%d", tag, n <= 260 ? (int) n : 1000 + (int) (n % 64), al, a, inplace);
out:
    free(x); ccase_free(&g);
}
static void chacha_neg_item(size_t n, size_t al, int detached)
{
    if (!item_begin()) return;
    ccase_t g; ccase_new(&g, n, al, (int) ((n + al) % 16));
    psChacha20Poly1305Ietf_t *x = malloc(sizeof *x); xb_t xw, xo, xiv, xa; psResSize_t rc; long nchk = 0; int bad[5] = { 0, 0, 0, 0, 0 };
    xb_dup(&xw, 1, g.ct, n + 16); xb_new(&xo, 2, n); xb_dup(&xiv, 3, g.iv.p, 12); xb_dup(&xa, 4, g.aad.p, al);
    if (g_batch == 2 && g_item == 6) vf_sample(CN ": all %zu single-bit changes of ct(%zu)/tag/nonce/aad(%zu) + truncations must be rejected", 8 * (n + 16 + 12 + al), n, al);
    if (psChacha20Poly1305IetfInit(x, g.k.p) < 0) { V(CN, "init-failed", "Init failed"); goto out; }
#define CC_OPEN() (nchk++, detached ? psChacha20Poly1305IetfDecryptDetached(x, xw.p, n, xiv.p, xa.p, al, xw.p + n, xo.p) : psChacha20Poly1305IetfDecrypt(x, xw.p, n + 16, xiv.p, xa.p, al, xo.p))
    rc = CC_OPEN();
    if (rc < 0) { V(CN, "rejects-valid", "unmodified input rejected (%d) n=%zu aad=%zu", rc, n, al); goto out; }
    for (size_t b = 0; b < 8 * (n + 16); b++) {
        xw.p[b / 8] ^= (unsigned char) (1 << (b % 8)); rc = CC_OPEN(); xw.p[b / 8] ^= (unsigned char) (1 << (b % 8));
        if (rc >= 0 && bad[b / 8 < n ? 0 : 1]++ < 1) V(CN, b / 8 < n ? "accepts-modified-ciphertext" : "accepts-modified-tag", "bit %zu of byte %zu of %s flipped, n=%zu aad=%zu: accepted", b % 8, b / 8 < n ? b / 8 : b / 8 - n, b / 8 < n ? "ciphertext" : "tag", n, al);
    }
    for (size_t b = 0; b < 96; b++) {
        xiv.p[b / 8] ^= (unsigned char) (1 << (b % 8)); rc = CC_OPEN(); xiv.p[b / 8] ^= (unsigned char) (1 << (b % 8));
        if (rc >= 0 && bad[2]++ < 1) V(CN, "accepts-modified-nonce", "nonce bit %zu flipped, n=%zu aad=%zu: accepted", b, n, al);
    }
    for (size_t b = 0; b < 8 * al; b++) {
        xa.p[b / 8] ^= (unsigned char) (1 << (b % 8)); rc = CC_OPEN(); xa.p[b / 8] ^= (unsigned char) (1 << (b % 8));
        if (rc >= 0 && bad[3]++ < 1) V(CN, "accepts-modified-aad", "aad bit %zu flipped, n=%zu aad=%zu: accepted", b, n, al);
    }
    if (!detached) for (size_t k = 1; k <= n + 16 && k <= 24; k++) {       /* input cut short, including below the tag size */
        nchk++;
        rc = psChacha20Poly1305IetfDecrypt(x, xw.p, n + 16 - k, xiv.p, xa.p, al, xo.p);
        if (rc >= 0 && bad[4]++ < 1) V(CN, "accepts-truncated", "input truncated by %zu bytes (n=%zu aad=%zu) accepted", k, n, al);
    }
    /* AAD length is authenticated too: one byte fewer */
    if (al) { nchk++; rc = detached ? psChacha20Poly1305IetfDecryptDetached(x, xw.p, n, xiv.p, xa.p, al - 1, xw.p + n, xo.p) : psChacha20Poly1305IetfDecrypt(x, xw.p, n + 16, xiv.p, xa.p, al - 1, xo.p); if (rc >= 0) V(CN, "accepts-modified-aad", "aad shortened by one byte accepted (n=%zu aad=%zu)", n, al); }
out:
    cntn(CN, nchk);
    XB_CHECK(&xo, CN);
    vf_distinct(CN "|neg|n=%zu|al=%zu|%d", n, al, detached);
    xb_free(&xw); xb_free(&xo); xb_free(&xiv); xb_free(&xa); free(x); ccase_free(&g);
}
static int chacha_nbatches(void) { return 4; }
static void chacha_run(int batch)
{
    int d = g_depth;
    static const size_t pls[10] = { 0, 1, 15, 16, 17, 63, 64, 65, 128, 257 };
    switch (batch) {
    case 0: for (size_t n = 0; n <= 257; n++) for (int k = 0; k < (d ? 8 : 1); k++) chacha_item(n, (n * 5 + 11 * k) % 65, (int) ((n + 3 * k) % 16), (int) ((n + k) & 1), "len"); break;
    case 1:
        for (size_t al = 0; al <= 64; al++) for (int j = 0; j < 10; j++) chacha_item(pls[j], al, (int) ((al + j) % 16), (int) ((al + j) & 1), "aad");
        for (int a = 0; a < 16; a++) for (int ip = 0; ip < 2; ip++) { chacha_item(65, 13, a, ip, "align"); chacha_item(16, 0, a, ip, "align"); }
        break;
    case 2: {
        static const size_t ns[8] = { 0, 1, 16, 17, 64, 65, 33, 130 }, als[8] = { 0, 13, 1, 20, 5, 64, 0, 16 };
        for (int j = 0; j < (d ? 8 : 6); j++) chacha_neg_item(ns[j], als[j], j & 1);
        for (int i = 0; i < GNEG[d] * 8; i++) { vf_rng r; vf_rng_init(&r, vf_seed + g_ghash, ((uint64_t) batch << 24) + i); size_t n = vf_below(&r, 140), al = vf_below(&r, 65); chacha_neg_item(n, al, (int) vf_below(&r, 2)); }
        break; }
    case 3:
        for (int i = 0; i < RN[d] * 2; i++) { vf_rng r; vf_rng_init(&r, vf_seed + g_ghash, ((uint64_t) batch << 24) + i); chacha_item(rand_len(NULL, &r), vf_below(&r, 65), (int) vf_below(&r, 16), (int) vf_below(&r, 2), "rand"); }
        break;
    }
}

/* ================================================================== */
/* driver                                                              */
/* ================================================================== */

/* ---- huge single updates: 2^29 + 200 octets in ONE Update call (2^32 bits and more: length counters kept in 32-bit pieces overflow here), compared with the same
 *      message fed in 1 MiB pieces and with the reference.  One batch per plain digest function. ---- */
static int huge_nbatches(void) { int n = 0; for (int i = 0; i < NSF; i++) if (SF[i].kind == K_DIGEST) n++; return n; }
static void huge_run(int batch)
{
    const sf_t *f = NULL; int n = 0; for (int i = 0; i < NSF; i++) if (SF[i].kind == K_DIGEST && n++ == batch) f = &SF[i];
    if (!f) return;
    size_t len = ((size_t) 1 << 29) + 200; unsigned char *m = malloc(len); if (!m) { vf_incon("cannot allocate %zu bytes for the huge-update case", len); return; }
    for (size_t i = 0; i < len; i += 8) { uint64_t v = (uint64_t) i * 0x9e3779b97f4a7c15ULL + batch; memcpy(m + i, &v, len - i >= 8 ? 8 : len - i); }
    unsigned char one[64], pieces[64], ref[64]; void *c = malloc(f->ctxsz);
    if (sf_init(f, c, NULL, 0) < 0) { V(f->name, "init-failed", "Init failed"); goto out; }
    sf_upd(f, c, m, (uint32_t) len); sf_fin(f, c, one);
    if (sf_init(f, c, NULL, 0) < 0) { V(f->name, "init-failed", "Init failed"); goto out; }
    for (size_t o = 0; o < len; o += 1 << 20) sf_upd(f, c, m + o, (uint32_t) (len - o < (1 << 20) ? len - o : (1 << 20)));
    sf_fin(f, c, pieces);
    sf_ref(f, NULL, 0, m, len, ref);
    g_item++; vf_stat("cases", 1); vf_stat("huge_single_updates", 1); vf_distinct("huge|%s", f->name);
    if (memcmp(one, ref, f->out)) V(f->name, "wrong-digest-huge-single-update", "digest of %zu octets given in one Update call differs from the standard's (same message in 1 MiB pieces: %s)", len, memcmp(pieces, ref, f->out) ? "also wrong" : "correct");
    else if (memcmp(pieces, ref, f->out)) V(f->name, "wrong-digest-huge-message", "digest of %zu octets fed in 1 MiB pieces differs from the standard's", len);
out:
    free(c); free(m);
}
typedef struct { const char *name; int (*nb)(void); void (*run)(int); } group_t;
static const group_t GROUPS[] = {
    { "stream", stream_nbatches, stream_run },
    { "hmac",   hmac_nbatches,   hmac_run },
    { "hkdf",   hkdf_nbatches,   hkdf_run },
    { "pbkdf2", pbkdf2_nbatches, pbkdf2_run },
    { "cbc",    cbc_nbatches,    cbc_run },
    { "gcm",    gcm_nbatches,    gcm_run },
    { "chacha", chacha_nbatches, chacha_run },
    { "huge",   huge_nbatches,   huge_run },
};
#define NGROUPS ((int) (sizeof GROUPS / sizeof GROUPS[0]))
typedef struct { const group_t *g; int batch; } job_t;
static void run_job(void *arg)
{
    job_t *j = arg; vf_rng br;
    g_group = j->g->name; g_ghash = vf_hash(g_group, strlen(g_group)); g_batch = j->batch; g_item = 0;
    vf_nsamples = 0; vf_maxsamples = 1;
    vf_rng_init(&br, vf_seed ^ g_ghash, (uint64_t) j->batch + 0x5151);
    fill(&br, pool, POOLSZ);
    j->g->run(j->batch);
    cnt_flush();
}
int main(int argc, char **argv)
{
    vf_init(argc, argv);
    g_depth = (int) vf_argl("--depth", vf_thorough ? 1 : 0);
    const group_t *only_g = NULL; int only_b = -1;
    if (vf_case) {
        char gn[32] = ""; unsigned long long s = vf_seed; long it = -1; int b = -1, d = g_depth;
        const char *p = vf_case;
        while (*p) {
            if (!strncmp(p, "g=", 2)) sscanf(p + 2, "%31[^,]", gn);
            else if (!strncmp(p, "b=", 2)) b = atoi(p + 2);
            else if (!strncmp(p, "i=", 2)) it = atol(p + 2);
            else if (!strncmp(p, "s=", 2)) s = strtoull(p + 2, NULL, 0);
            else if (!strncmp(p, "d=", 2)) d = atoi(p + 2);
            p = strchr(p, ','); if (!p) break; p++;
        }
        for (int i = 0; i < NGROUPS; i++) if (!strcmp(GROUPS[i].name, gn)) only_g = &GROUPS[i];
        if (!only_g || b < 0 || d < 0 || d > 2) { vf_incon("unparsable replay spec '%s' (want g=<group>,b=<batch>[,i=<item>],s=<seed>,d=<depth>)", vf_case); vf_flush(); return 2; }
        vf_seed = s; g_depth = d; only_b = b; g_only = it;
    }
    if (g_depth < 0 || g_depth > 2) g_depth = 0;
    if (psCryptoOpen(PSCRYPTO_CONFIG) < 0) { vf_incon("psCryptoOpen failed"); vf_flush(); return 2; }
    ref_setup();
    pool = malloc(POOLSZ);
    long idx = 0, nb_total = 0;
    const char *only = vf_arg("--only", NULL);      /* restrict a stage to one group */
    for (int gi = 0; gi < NGROUPS; gi++) {
        int nb = GROUPS[gi].nb();
        if (only && !vf_case && strcmp(only, GROUPS[gi].name)) continue;
        for (int b = 0; b < nb; b++, idx++) {
            job_t j = { &GROUPS[gi], b };
            if (vf_case) {
                if (only_g != &GROUPS[gi] || only_b != b) continue;
                /* sanitizer build: in-process, so a report ends the replay with the real report on stderr (the driver keys
                 * it); plain build: forked, so a crash still becomes a crash record */
                if (C12_TAIL) { char cls[48]; snprintf(cls, sizeof cls, "c12-%s", GROUPS[gi].name); vf_fork_case(run_job, &j, cls, vf_case, 1500); } else run_job(&j);
                continue;
            }
            if (!vf_mine(idx)) continue;
            char cs[96], cls[48];
            snprintf(cs, sizeof cs, "g=%s,b=%d,s=%llu,d=%d", GROUPS[gi].name, b, (unsigned long long) vf_seed, g_depth);
            snprintf(cls, sizeof cls, "c12-%s", GROUPS[gi].name);
            vf_fork_case(run_job, &j, cls, cs, g_depth ? 1500 : 240);
            nb_total++;
        }
    }
    vf_stat("batches", nb_total);
    vf_flush();
    free(pool);
    return 0;
}
