/* c09_seedgen.c - writes the generated part of the C09 fuzz corpus (corpus/c09/<group>/gen-*).
 *
 *   cc -O1 -I/verif/gen -o /tmp/c09_seedgen /verif/gen/c09_seedgen.c -lcrypto && /tmp/c09_seedgen /verif/corpus/c09
 *
 * The files are committed; this program documents how they were made (keys and serial numbers
 * are random, so a re-run gives different but equivalent files).  Three classes:
 *
 *  long names   certificates / CRLs whose subject, issuer or authorityKeyIdentifier
 *               authorityCertIssuer directoryName repeat organizationalUnitName and
 *               domainComponent far beyond DN_NUM_ATTRIBUTES_MAX (32) - legal names the parser
 *               keeps as lists while its attributeOrder[] array saturates - and the boundary
 *               cases with exactly 32 and 33 stored attributes;
 *  gentime      GeneralizedTime (tag 0x18) in certificate validity, CRL thisUpdate / nextUpdate /
 *               revocationDate (the sample CRLs use UTCTime only);
 *  edge-trunc   inputs that END right behind a time value that is 1-2 characters too short, every
 *               enclosing length consistent with the truncated size: a parser that reads its
 *               fixed number of digits without looking at the length reads past the input.
 */
#include "certgen.h"

static const char *g_root;
static long g_total;

static void save(const char *group, const char *name, const unsigned char *p, size_t n)
{
    char path[512];
    FILE *f;
    snprintf(path, sizeof path, "%s/%s/%s", g_root, group, name);
    f = fopen(path, "wb");
    if (!f) { perror(path); exit(2); }
    fwrite(p, 1, n, f);
    fclose(f);
    g_total += (long) n;
    printf("%-60s %5zu\n", path, n);
}

/* ---- names ---- */
static const unsigned char oid_dc[] = { 0x09, 0x92, 0x26, 0x89, 0x93, 0xf2, 0x2c, 0x64, 0x01, 0x19 };

static void atv(cg_buf *set, int attr, int tag, const char *v)
{
    cg_buf a = { 0 };
    if (attr == 25) cg_oid(&a, oid_dc, sizeof oid_dc);
    else { unsigned char o[3] = { 0x55, 0x04, (unsigned char) attr }; cg_oid(&a, o, 3); }
    cg_tlv(&a, tag, v, strlen(v));
    cg_wrap(set, 0x30, &a);
}
static void rdn(cg_buf *seq, int attr, int tag, const char *v)
{
    cg_buf set = { 0 };
    atv(&set, attr, tag, v);
    cg_wrap(seq, 0x31, &set);
}
/* Name: optional C / ST / O head, CN, then nou OU and ndc DC RDNs (interleaved when both), optionally one
   multi-valued RDN { OU, DC } at the end */
static cg_dn long_name(const char *cn, int head, int nou, int ndc, int multi)
{
    static cg_buf keep[32];
    static int nkeep;
    cg_buf seq = { 0 }, out = { 0 };
    cg_dn d;
    char v[40];
    int i, n = nou > ndc ? nou : ndc;
    if (head) { rdn(&seq, 6, 0x13, "FI"); rdn(&seq, 8, 0x0c, "Uusimaa"); rdn(&seq, 10, 0x0c, "Verif C09"); }
    rdn(&seq, 3, 0x0c, cn);
    for (i = 0; i < n; i++) {
        if (i < nou) { snprintf(v, sizeof v, "unit-%02d", i); rdn(&seq, 11, (i & 1) ? 0x13 : 0x0c, v); }
        if (i < ndc) { snprintf(v, sizeof v, "dc%02d", i); rdn(&seq, 25, 0x16, v); }
    }
    if (multi) { cg_buf set = { 0 }; atv(&set, 11, 0x0c, "multi-ou"); atv(&set, 25, 0x16, "multidc"); cg_wrap(&seq, 0x31, &set); }
    cg_wrap(&out, 0x30, &seq);
    memset(&d, 0, sizeof d);
    keep[nkeep] = out;
    d.raw = keep[nkeep].p; d.rawlen = (int) keep[nkeep].n;
    nkeep++;
    return d;
}
/* Extension: authorityKeyIdentifier { [0] keyid (optional), [1] { [4] name }, [2] serial } */
static void aki_issuer_ext(cg_buf *exts, const cg_dn *name, const unsigned char *keyid, int with_serial)
{
    static const unsigned char o_aki[] = { 0x55, 0x1d, 0x23 }, ser[] = { 0x41, 0x42, 0x43, 0x44, 0x45 };
    cg_buf v = { 0 }, q = { 0 }, gns = { 0 };
    if (keyid) cg_tlv(&q, 0x80, keyid, 20);
    cg_tlv(&gns, 0xa4, name->raw, name->rawlen);
    cg_wrap(&q, 0xa1, &gns);
    if (with_serial) cg_tlv(&q, 0x82, ser, sizeof ser);
    cg_wrap(&v, 0x30, &q);
    cg_ext(exts, o_aki, 3, 0, &v);
}

/* ---- CRLs (own writer: time form, version, extensions under control) ---- */
typedef struct {
    cg_dn issuer; int v2, gentime, nrev, nonext; const cg_dn *aki_name; int aki_keyid, crlnum;
    /* truncation: stop right behind time value number `cut_time` (1 thisUpdate, 2 nextUpdate, 3 first revocationDate) shortened by cut_k */
    int cut_time, cut_k;
} crlspec;

static void put_time(cg_buf *b, long t, int gen, int shorten)
{
    cg_buf x = { 0 };
    cg_time(&x, t, gen);
    /* x = tag len value; drop the last `shorten` characters */
    cg_tlv(b, x.p[0], x.p + 2, x.n - 2 - (size_t) shorten);
    cg_buf_free(&x);
}

static void make_crl(const crlspec *c, const cg_key *signer, long now, unsigned char **der, size_t *len)
{
    static const unsigned char o_num[] = { 0x55, 0x1d, 0x14 };
    int alg = cg_sig_default(signer), done = 0, i;
    cg_buf t = { 0 }, tbs = { 0 }, body = { 0 }, all = { 0 };
    if (c->v2) cg_int(&t, 1);
    cg_sig_algid(&t, alg);
    cg_dn_encode(&t, &c->issuer);
    put_time(&t, now - 86400, c->gentime, c->cut_time == 1 ? c->cut_k : 0);
    if (c->cut_time == 1) done = 1;
    if (!done && !c->nonext) {
        put_time(&t, now + 3650L * 86400, c->gentime, c->cut_time == 2 ? c->cut_k : 0);
        if (c->cut_time == 2) done = 1;
    }
    if (!done && c->nrev) {
        cg_buf list = { 0 };
        for (i = 0; i < c->nrev && !done; i++) {
            cg_buf e = { 0 }; unsigned char sn[6] = { 0x10, 0x20, 0x30, 0x40, 0x50, (unsigned char) i };
            cg_int_bytes(&e, sn, 6);
            put_time(&e, now - 7200 - i, c->gentime, c->cut_time == 3 ? c->cut_k : 0);
            if (c->cut_time == 3) done = 1;
            cg_wrap(&list, 0x30, &e);
        }
        cg_wrap(&t, 0x30, &list);
    }
    if (!done && (c->aki_name || c->aki_keyid || c->crlnum)) {
        cg_buf exts = { 0 }, w = { 0 };
        if (c->aki_name) aki_issuer_ext(&exts, c->aki_name, c->aki_keyid ? signer->skid : NULL, 1);
        else if (c->aki_keyid) { static const unsigned char o_aki[] = { 0x55, 0x1d, 0x23 }; cg_buf v = { 0 }, q = { 0 }; cg_tlv(&q, 0x80, signer->skid, 20); cg_wrap(&v, 0x30, &q); cg_ext(&exts, o_aki, 3, 0, &v); }
        if (c->crlnum) { cg_buf v = { 0 }; cg_int(&v, c->crlnum); cg_ext(&exts, o_num, 3, 0, &v); }
        cg_wrap(&w, 0x30, &exts); cg_wrap(&t, 0xa0, &w);
    }
    cg_wrap(&tbs, 0x30, &t);
    if (done) {
        /* truncated object: CertificateList { TBSCertList { ... time } } and nothing else */
        cg_tlv(&all, 0x30, tbs.p, tbs.n);
    } else {
        unsigned char *sig = NULL; size_t siglen = 0;
        if (cg_sign(signer, alg, tbs.p, tbs.n, &sig, &siglen) < 0) { fprintf(stderr, "sign failed\n"); exit(2); }
        cg_put(&body, tbs.p, tbs.n); cg_sig_algid(&body, alg); cg_bitstring(&body, sig, siglen, 0);
        cg_tlv(&all, 0x30, body.p, body.n);
        free(sig);
    }
    *der = all.p; *len = all.n;
    cg_buf_free(&tbs); cg_buf_free(&body);
}

/* ---- OCSP response that ends behind a shortened producedAt ---- */
static void make_ocsp_trunc(int byname, int k, unsigned char **der, size_t *len)
{
    static const unsigned char o_basic[] = { 0x2b, 0x06, 0x01, 0x05, 0x05, 0x07, 0x30, 0x01, 0x01 };
    cg_buf rd = { 0 }, rdseq = { 0 }, basic = { 0 }, rb = { 0 }, rbw = { 0 }, all = { 0 }, body = { 0 };
    unsigned char kh[20], st = 0;
    int i;
    for (i = 0; i < 20; i++) kh[i] = (unsigned char) (0xa0 + i);
    if (byname) { cg_dn d = long_name("OCSP responder", 1, 1, 0, 0); cg_tlv(&rd, 0xa1, d.raw, d.rawlen); }
    else { cg_buf o = { 0 }; cg_tlv(&o, 0x04, kh, 20); cg_wrap(&rd, 0xa2, &o); }
    put_time(&rd, 1790000000L, 1, k);
    cg_wrap(&rdseq, 0x30, &rd);             /* ResponseData */
    cg_wrap(&basic, 0x30, &rdseq);          /* BasicOCSPResponse */
    cg_oid(&rb, o_basic, sizeof o_basic);
    cg_wrap(&rb, 0x04, &basic);
    cg_wrap(&rbw, 0x30, &rb);               /* ResponseBytes */
    cg_tlv(&body, 0x0a, &st, 1);
    cg_wrap(&body, 0xa0, &rbw);
    cg_wrap(&all, 0x30, &body);
    *der = all.p; *len = all.n;
}

int main(int argc, char **argv)
{
    long now = 1790000000L;                 /* 2026-09-21 */
    cg_key *ca, *leaf;
    cg_spec root, s;
    cg_cert c;
    cg_dn d;
    unsigned char *der;
    size_t len;
    crlspec cs;
    char *pem;

    if (argc < 2) { fprintf(stderr, "usage: %s <corpus root>\n", argv[0]); return 2; }
    g_root = argv[1];
    ca = cg_key_get(CG_K_P256, 0);
    leaf = cg_key_get(CG_K_P256, 1);
    cg_spec_ca(&root, "Verif C09", "Long DN CA", ca, NULL, NULL, now, -1);
    root.not_after = now + 7300L * 86400;

#define LEAF(cn) do { cg_spec_leaf(&s, "Verif C09", cn, leaf, &root, ca, now); s.not_after = now + 7000L * 86400; } while (0)
#define EMIT(group, name) do { if (cg_make_cert(&s, &c) < 0) { fprintf(stderr, "make %s failed\n", name); return 2; } save(group, name, c.der, (size_t) c.len); } while (0)

    /* long subject */
    LEAF("ou48.example"); s.subject = long_name("ou48.example", 1, 48, 0, 0); EMIT("cert_der", "gen-longdn-subject-ou48.der");
    pem = cg_pem("CERTIFICATE", c.der, c.len); save("cert_pem", "gen-longdn-subject-ou48.pem", (unsigned char *) pem, strlen(pem));
    /* long issuer */
    LEAF("dc56.example"); s.issuer = long_name("Long DC issuer", 0, 0, 56, 0); EMIT("cert_der", "gen-longdn-issuer-dc56.der");
    /* both, mixed types */
    LEAF("both.example"); s.subject = long_name("both.example", 1, 40, 4, 0); s.issuer = long_name("Both issuer", 0, 6, 44, 1); EMIT("cert_der", "gen-longdn-both-ou40-dc44.der");
    /* interleaved OU / DC and a multi-valued RDN, self-issued */
    LEAF("mixed.example"); d = long_name("mixed.example", 1, 30, 30, 1); s.subject = d; s.issuer = d; s.signer = leaf; s.aki = 0; EMIT("cert_der", "gen-longdn-mixed-60.der");
    /* boundary: exactly 32, 33 and 34 stored attributes (C ST O CN + 28 / 29 OU; CN + 17 OU + 16 DC). 33 is one entry
       behind the array, which on LP64 is still the struct's tail padding; 34 is the first that reaches the next member */
    LEAF("n32.example"); s.subject = long_name("n32.example", 1, 28, 0, 0); EMIT("cert_der", "gen-longdn-subject-n32.der");
    LEAF("n33.example"); s.subject = long_name("n33.example", 1, 29, 0, 0); s.issuer = long_name("n34 issuer", 0, 17, 16, 0); EMIT("cert_der", "gen-longdn-subject-n33-issuer-n34.der");
    /* AKI authorityCertIssuer with 48 DCs (+ keyid + serial), and without keyid / serial */
    { cg_buf e = { 0 }; LEAF("aki48.example"); d = long_name("Other CA", 0, 0, 48, 0); s.aki = 0; aki_issuer_ext(&e, &d, ca->skid, 1); s.rawext = e.p; s.rawextlen = (int) e.n; EMIT("cert_der", "gen-aki-issuer-dc48.der"); }
    { cg_buf e = { 0 }; LEAF("aki40.example"); d = long_name("Other CA", 1, 40, 0, 0); s.aki = 0; aki_issuer_ext(&e, &d, NULL, 0); s.rawext = e.p; s.rawextlen = (int) e.n; EMIT("cert_der", "gen-aki-issuer-ou40-only.der"); }
    /* GeneralizedTime validity */
    LEAF("gentime.example"); s.gen_time = 1; EMIT("cert_der", "gen-gentime-validity.der");

    /* CRLs */
    memset(&cs, 0, sizeof cs); cs.issuer = root.subject; cs.v2 = 1; cs.gentime = 1; cs.nrev = 3; cs.aki_keyid = 1; cs.crlnum = 7;
    make_crl(&cs, ca, now, &der, &len); save("crl", "gen-crl-gentime.der", der, len);
    memset(&cs, 0, sizeof cs); cs.issuer = root.subject; cs.gentime = 1;
    make_crl(&cs, ca, now, &der, &len); save("crl", "gen-crl-gentime-v1-min.der", der, len);
    memset(&cs, 0, sizeof cs); cs.issuer = root.subject; cs.v2 = 1; cs.gentime = 1; cs.nonext = 1; cs.nrev = 1;
    make_crl(&cs, ca, now, &der, &len); save("crl", "gen-crl-gentime-nonext.der", der, len);
    memset(&cs, 0, sizeof cs); cs.issuer = long_name("Demo CA", 0, 48, 0, 0); cs.v2 = 1;
    make_crl(&cs, ca, now, &der, &len); save("crl", "gen-crl-issuer-ou48-noext.der", der, len);
    memset(&cs, 0, sizeof cs); cs.issuer = long_name("Demo CA", 1, 20, 40, 1); cs.v2 = 1; cs.nrev = 2; cs.aki_keyid = 1; cs.crlnum = 3; cs.gentime = 1;
    make_crl(&cs, ca, now, &der, &len); save("crl", "gen-crl-issuer-ou20-dc40-ext.der", der, len);
    memset(&cs, 0, sizeof cs); cs.issuer = long_name("n33 CRL issuer", 1, 29, 0, 0); cs.v2 = 1;
    make_crl(&cs, ca, now, &der, &len); save("crl", "gen-crl-issuer-n33-noext.der", der, len);
    memset(&cs, 0, sizeof cs); cs.issuer = long_name("n34 CRL issuer", 1, 30, 0, 0); cs.v2 = 1;
    make_crl(&cs, ca, now, &der, &len); save("crl", "gen-crl-issuer-n34-noext.der", der, len);
    d = long_name("Other CA", 0, 0, 48, 0);
    memset(&cs, 0, sizeof cs); cs.issuer = root.subject; cs.v2 = 1; cs.aki_name = &d;
    make_crl(&cs, ca, now, &der, &len); save("crl", "gen-crl-aki-issuer-dc48.der", der, len);
    d = long_name("Other CA", 1, 24, 24, 0);
    memset(&cs, 0, sizeof cs); cs.issuer = root.subject; cs.v2 = 1; cs.aki_name = &d; cs.aki_keyid = 1; cs.crlnum = 9; cs.nrev = 1;
    make_crl(&cs, ca, now, &der, &len); save("crl", "gen-crl-aki-issuer-ou24-dc24-keyid.der", der, len);

    /* inputs ending behind a short time value */
    {
        static const struct { int gen, which, k; const char *name; } e[] = {
            { 1, 1, 1, "edge-trunc-thisupdate-gt14.bin" }, { 1, 1, 2, "edge-trunc-thisupdate-gt13.bin" }, { 1, 1, 3, "edge-trunc-thisupdate-gt12.bin" },
            { 1, 2, 2, "edge-trunc-nextupdate-gt13.bin" }, { 1, 2, 3, "edge-trunc-nextupdate-gt12.bin" },
            { 1, 3, 2, "edge-trunc-revocationdate-gt13.bin" }, { 1, 3, 3, "edge-trunc-revocationdate-gt12.bin" },
            { 0, 1, 2, "edge-trunc-thisupdate-utc11.bin" }, { 0, 2, 3, "edge-trunc-nextupdate-utc10.bin" }, { 0, 3, 2, "edge-trunc-revocationdate-utc11.bin" },
        };
        size_t i;
        for (i = 0; i < sizeof e / sizeof e[0]; i++) {
            memset(&cs, 0, sizeof cs); cs.issuer = root.subject; cs.v2 = 1; cs.gentime = e[i].gen; cs.nrev = 2; cs.cut_time = e[i].which; cs.cut_k = e[i].k;
            make_crl(&cs, ca, now, &der, &len); save("crl", e[i].name, der, len);
        }
        make_ocsp_trunc(0, 1, &der, &len); save("ocsp", "edge-trunc-producedat-gt14.bin", der, len);
        make_ocsp_trunc(0, 2, &der, &len); save("ocsp", "edge-trunc-producedat-gt13.bin", der, len);
        make_ocsp_trunc(0, 3, &der, &len); save("ocsp", "edge-trunc-producedat-gt12.bin", der, len);
        make_ocsp_trunc(1, 3, &der, &len); save("ocsp", "edge-trunc-producedat-gt12-byname.bin", der, len);
    }
    printf("total %ld bytes\n", g_total);
    return 0;
}
