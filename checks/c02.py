import vflib
WRAPS = ("psGetEntropy", "gettimeofday", "time")
def run(ctx):
    st = [dict(variant="asan", name="c02", sources=["checks/c02_prefix.c", "harness/mx_wraps.c"], wraps=WRAPS,
               shards=vflib.NCPU, timeout=10800 if ctx.thorough else 1500)]
    rule = ("Each case = one edit script applied to the captured ciphertext of a 13-record burst (payload lengths 1,15,16,17,31,32,33,255,256,random,max-1,max,24) on a fork()ed clone "
            "of the established receiver, per (version, suite, direction): single-bit flips (record headers exhaustively; body bits sampled in quick, every bit of records <= 96 bytes and every "
            "byte of the large ones in thorough), byte sets, truncation at/inside records, inserted garbage, length/type/version rewrites, swap/drop/duplicate, replay of an old record, "
            "reflection of the other direction, splice from another connection, all XOR deltas on the CBC padding-length byte, every bit of AEAD tags and explicit nonces. "
            "distinct_nontrivial = distinct (version, suite, direction, edit kind, record, position, value) executed.")
    level = "fault_enumeration" if ctx.thorough else "exploration"
    return vflib.std_run(ctx, st, "fault_enumeration", rule,
        ["timing side channels are out of reach; only the single-alert-type clause is checked", "the attacker does not know any key"], min_nontrivial=2000)
