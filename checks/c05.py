import hashlib, os, vflib
WRAPS = ("psGetEntropy", "gettimeofday", "time")
def run(ctx):
    gen = os.path.join(vflib.VERIF, "gen", "certgen.h")
    gh = hashlib.sha256(open(gen, "rb").read()).hexdigest()[:12]   # the generator is part of the harness: rebuild when it changes
    st = [dict(variant="asan", name="c05", sources=["checks/c05_names.c", "harness/mx_wraps.c"], wraps=WRAPS, libs=["-lcrypto"],
               cflags=["-I" + os.path.join(vflib.VERIF, "gen"), "-DCERTGEN_REV=\"%s\"" % gh], shards=vflib.NCPU, timeout=7200 if ctx.thorough else 1200)]
    rule = ("evaluations = calls of matrixValidateCerts/matrixValidateCertsExt with an expected name on a freshly minted two-certificate chain (own Ed25519 root + leaf). Each certificate case = "
            "(expected name E, relation class, subject CN with its ASN.1 string type, subjectAltName list); the grammar derives the certificate names from E: exact / other case / *.label wildcard, "
            "multi-label, non-left-most, partial-label, bare and doubled wildcards, proper suffixes and prefixes on and off label boundaries, parent/child domains, trailing and leading dot, embedded / "
            "trailing / doubled NUL, control and non-ASCII octets at start, middle and end, entries of the wrong GeneralName kind carrying the right text, non-GeneralName tags, e-mail (host and local-part "
            "case, wildcards), IPv4 literals of every textual length 7-15, 16/5/8-octet iPAddress entries, textual truncations, CN-only certificates in five string types, CN next to every kind of SAN; "
            "names of somebody else: GeneralNames (dNSName exact / wildcard / other case, rfc822Name, iPAddress, URI, alone and mixed) spelling E in the issuerAltName extension (emitted behind and before the subjectAltName) and / or in a "
            "cRLDistributionPoints fullName of a leaf with no SAN and no CN / a foreign CN / a foreign dNSName SAN / a URI-only SAN / e-mail + IP SANs (must not match), and unrelated issuer names of every kind next to a CN = E without SAN or a SAN = E (must still match). "
            "Near misses: for EVERY name a certificate carries, of every kind (dNSName, *.wildcard dNSName, rfc822Name, URI, the dotted text of an iPAddress, CN without SAN and next to a URI-only SAN; alone, among fillers of other kinds, "
            "and one certificate carrying DNS + e-mail (+ URI) + IP + CN at once), expected names of the same length that differ in exactly one octet, at each position: separators . @ : / - * replaced by each other, by letters / digits and by the octet with bit 5 / bit 7 flipped, "
            "ordinary characters by a rotating candidate (thorough: every printable octet at the separators, 16 candidates elsewhere); evaluated through matrixValidateCerts, matrixValidateCertsExt with and without VALIDATE_EXPECTED_GENERAL_NAME, "
            "every nameType and both e-mail mFlags, and the near miss in other case (classes near-miss-<kind of the name it derives from>). "
            "Client-session path: matrixSslNewClientSession(expectedName, validateCertsOpts{nameType, mFlags}) without certificate callback against an in-process server presenting the minted leaf (TLS 1.3 with the Ed25519 leaf, TLS 1.2 ECDHE-ECDSA with a P-256 twin under a P-256 root): "
            "near misses that pass the session API's name syntax filter at the separators (quick: one handshake each, default options 2/3 of the time, else a rotating nameType; thorough: all 16 combinations) must not complete; "
            "a sample of the plain positive forms on single-name certificates must complete (positive control). "
            "Every SAN list (1-4 entries, fillers of all kinds incl. a NUL-terminated dNSName) is evaluated in EVERY order; each with nameType ANY and the specific types, both e-mail mFlags, and E in other case. "
            "distinct_nontrivial = distinct (relation class, kind of E, list shape, kinds present, |E|).")
    return vflib.std_run(ctx, st, "exploration", rule,
        ["a single trailing NUL on a dNSName/rfc822Name entry is stripped by the library by documented design (DISABLE_X509_GENERAL_NAME_SUPPORT_C_NULL undefined): granted, counted as lenient:*",
         "nameType ANY is documented as matching every kind; type-correctness is asserted through the specific nameTypes",
         "local-part case, wildcard CNs and multiple CNs are recorded, not asserted; VCERTS_MFLAG_ALWAYS_CHECK_SUBJECT_CN (an explicit opt-out of the SAN-before-CN rule) is not used",
         "handshake-level outcome of a name mismatch in general is C04's; here a handshake is only the second way of asking the name question (session evaluations are counted in `cases`, first SAN order only)",
         "a near miss that only changes the case of a letter is a legitimate match (reference is case-insensitive); near misses the reference accepts but the library refuses (local-part case, '@' as wildcard label) are recorded as strict:near-miss-*, not asserted"], min_nontrivial=150)
