import vflib
WRAPS = ("psGetEntropy", "gettimeofday", "time", "malloc", "calloc", "realloc")
def run(ctx):
    st = [dict(variant="asan", name="c19", sources=["checks/c19_allocfail.c", "harness/mx_wraps.c", "harness/mx_failpoint.c"], wraps=WRAPS,
               shards=vflib.NCPU, timeout=14400 if ctx.thorough else 1500)]
    rule = ("Each case = one whole scenario (load keys/CAs from PEM, create sessions with expected name, full/resumed/client-auth handshake per version, data both ways, closure, "
            "delete) executed in a fork()ed child with the k-th allocation made inside library API calls failing (link-time --wrap of malloc/calloc/realloc). quick: the first "
            "occurrence of every distinct allocation site (return-address pair) plus 120 seeded k per scenario plus 60 seeded double/triple faults; thorough: every k of every "
            "scenario plus 3000 multi-fault runs per scenario. 25 scenarios: TLS 1.1/1.2/1.3 and DTLS 1.2, RSA and ECDSA identities, resumption by session id, TLS 1.2 ticket, TLS 1.3 ticket (NewSessionTicket written, parsed and "
            "redeemed) and PSK, client auth, and (TLS 1.2 and DTLS 1.2) a stale RFC 5077 ticket: a priming connection that is neither counted nor faulted leaves a ticket in the "
            "client's session id, the server's ticket key is rotated, and the fault-injected connection presents the old ticket, gets a full handshake and a replacement ticket; "
            "the session id is deleted at the end of every scenario; 15 good-credential and 10 must-fail (untrusted CA, wrong key, wrong name) scenarios. distinct_nontrivial = distinct "
            "(scenario, fault ordinals) whose fault was actually reached.")
    return vflib.std_run(ctx, st, "fault_enumeration", rule,
        ["allocations inside libc (fopen, getaddrinfo) are not failed", "LeakSanitizer decides the no-leak clause at the end of each child"], min_nontrivial=500)
