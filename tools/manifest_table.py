HOOK_COMMITS = []
NOTES = "Runtime monitoring and sanitizers only. See DESIGN.md; known_findings.json lists open findings and fixed: records."
NA = {}
check("C01", "exploration",
      "Held on every executed (scenario, role, cut point, injection) case: no APP_DATA before completion, no foreign bytes delivered, no encode before completion. Exploration, not proof: reach is the scenario grid x record-granular cut points x injection catalogue, run on fork()ed clones of the real library under ASan+UBSan.",
      "Trusts the harness's tagged-payload provenance check and libcrypto for sealing attacker records with keys read from ssl_t; states outside the default configuration (rehandshake) are not reached.",
      "runtime assertion monitor at the API boundary over fork-cloned cut-point injections, ASan+UBSan build", "3/C01")
check("C02", "fault_enumeration",
      "Enumerates edit scripts over the captured ciphertext of a 13-record burst per (version, suite, direction): header bits exhaustively, body bits sampled (quick) or every bit of short records and every byte of 16 KiB records (thorough), plus structural edits; each on a fork()ed clone of the real receiver with a prefix/no-data-from-modified-record/must-die oracle.",
      "Attacker holds no keys; timing channels out of reach; burst shape fixed (lengths around block boundaries).",
      "prefix/provenance monitor over fork-cloned ciphertext edit enumeration, ASan+UBSan build", "3/C02")
check("C15", "exploration",
      "Held on every executed (scenario, role, cut point, error event, continuation): after the event no APP_DATA, encode fails, no further output, receive calls report error/close.",
      "Events the endpoint does not treat as errors are counted, not judged; local close_notify is not treated as death.",
      "runtime assertion monitor (stays-dead oracle) over fork-cloned event x continuation cases, ASan+UBSan build", "3/C15")
check("C12", "exploration",
      "Differential against libcrypto EVP over ~195k (quick) / 32M (thorough) structured cases: all update-call compositions of short messages, every length around block/padding boundaries, alignments 0..15, in-place, all key sizes, AAD 0..64, context reuse; AEAD negatives for every single-bit change of ciphertext/tag/nonce/AAD and truncated tags. ASan+UBSan build (quick) plus the repository's default -O3 build (thorough).",
      "Trusts OpenSSL 3.0 libcrypto as reference; AES-NI path is not part of this configuration; API preconditions (HMAC Init key <= block, CBC block multiples, 12-byte GCM IV) are respected.",
      "reference-model (differential) monitor vs libcrypto on sanitizer and production builds", "3/C12")
check("C13", "exploration",
      "Differential against GMP for 35 pstm functions over ~280k (quick) / 84M (thorough) operand tuples: all digit-count pairs 1..64, structured values (0,1,2^k,2^k+-1,all-ones, top/bottom-digit differences, sparse/dense random), both signs, output aliasing and stale output objects, with internal invariants (clamped, used<=alloc, zero positive) asserted after every call. ASan+UBSan build (quick) plus the default -O3/inline-asm build (thorough).",
      "Trusts GMP; respects per-function preconditions read from the library's own callers (odd modulus for Montgomery exptmod, |a|>=|b| for pstm_sub_s).",
      "reference-model (differential) monitor vs GMP with invariant assertions, sanitizer and production builds", "3/C13")
check("C18", "exploration",
      "Metamorphic equality of normalised traces (events, delivered plaintext, emitted bytes) between a flight-at-a-time reference and ~900 (quick) re-runs per seed of each endpoint alone under different partitions of the same input stream and partial-send patterns; all runs fork from one parent snapshot with pinned entropy and virtual clock, causality preserved.",
      "Application actions are pinned to fixed positions of the input stream; input presented after the session failed is C15's subject; DTLS out of scope.",
      "metamorphic trace-equality monitor over fork-cloned deterministic re-runs, ASan+UBSan build", "3/C18")
check("C11", "exploration",
      "By-construction and differential monitor: arbitrary encoded messages are turned into real RSA signatures with libcrypto BN (so every EM variant is a genuine signature), ECDSA/Ed25519/PSS verdicts are compared with an independent range check + libcrypto, sign/verify, encrypt/decrypt and ECDH/DH/X25519 are cross-checked both ways, invalid public values must be refused; ~28k (quick) / 3M (thorough) cases on ASan+UBSan and production builds, every input in an exact-size heap block.",
      "Trusts OpenSSL 3.0 libcrypto; (r, n-s) malleability and absent-NULL DigestInfo are recorded, not asserted; key sizes limited to those pstm_exptmod supports.",
      "by-construction oracle + differential monitor vs libcrypto, sanitizer and production builds", "3/C11")
check("C07", "exploration",
      "Reference-model monitor over ~1.7k (quick) configuration pairs and hello rewrites per seed: exhaustive TLS/DTLS version-set pairs, every single suite per version (enabled / disabled on the server), random suite lists, TLS 1.3 group and sigalg subsets, EMS pairs, fallback SCSV for every version pair, and man-in-the-middle rewrites of every ClientHello/ServerHello field; both endpoints must agree, negotiate the highest common version, stay inside both configurations, exchange data, and never complete after tampering.",
      "Completeness asserted only for default lists; DTLS version sets limited to those the API can express ({1.0}, {1.0,1.2}).",
      "reference-model monitor (negotiation function) + MITM rewrite oracle on fork-cloned handshakes, ASan+UBSan build", "3/C07")
check("C09", "exploration",
      "Coverage-guided libFuzzer (clang ASan+UBSan+LSan) over 38 parser entry points with an ASN.1/PEM structure-aware mutator, exact-size input buffers and a consistency walker over every successfully parsed object; quick replays the committed corpus and adds ~15k mutations per target (475k executions), thorough ~1M per target plus a valgrind memcheck replay of the corpus on the production build.",
      "Coverage-guided, not exhaustive; the PBE iteration cap (100000) is a policy choice of fix commit 'bound the PBE iteration count'.",
      "sanitizer-instrumented coverage-guided fuzzing + structural consistency walker", "3/C09")
check("C10", "exploration",
      "In-process interoperability with OpenSSL 3.0 (both role assignments) over memory/datagram BIOs: ~400 (quick) / 20k (thorough) mutually supported configurations of version, suite, group (incl. HelloRetryRequest), certificate type, client auth, PSK, EMS, session-id / ticket / TLS 1.3 PSK resumption, payload sizes 1..200000 with re-chunked delivery; both stacks must complete, agree on parameters, round-trip data bit-exactly and resume.",
      "Conformance = agreement with one independent implementation; OpenSSL policy knobs opened (security level 0, legacy server connect); combinations OpenSSL cannot do are counted as not mutually supported.",
      "differential monitor against an independent TLS stack (OpenSSL) in one process, ASan+UBSan build", "3/C10")
check("C14", "exploration",
      "Sequential-model history checker: 466 (quick) / 20k (thorough) seeded histories of full / resumed (id, ticket, TLS 1.3 PSK) handshakes, clock advances around both lifetimes, fatal alerts, closes, cache overflow, ticket-key rotation and forged / truncated / edited / foreign / replayed / in-progress credentials; the server's resumption decision is observed at ServerHello and must be justified by the model (issued, unexpired, not invalidated, same version/suite/EMS, same secret).",
      "The converse (valid credential must resume) only in quiet positive controls; stateless tickets are not invalidated by alerts.",
      "offline history checker against a sequential session-store model, fork-per-history, ASan+UBSan build", "3/C14")
check("C03", "exploration",
      "By-construction oracle: an own DER generator signs chains with libcrypto so that every generated chain carries the set of rule violations it contains; ~3.2k (quick) / 38k (thorough) chains over key types x lengths 1..5 x every single mutation operator at every position (thorough: operator pairs, order permutations, anchor sets); success with a non-empty label set is a violation, good chains must be accepted and are cross-checked with OpenSSL X509_verify_cert.",
      "Success is read leniently (all indicators positive); name constraints / policies are not enabled in this configuration; Ed25519-signed CRLs cannot be parsed by the library, so revocation under Ed25519 issuers is not generated.",
      "by-construction labelled-input monitor with an independent cross-check (OpenSSL), ASan+UBSan build", "3/C03")
check("C05", "exploration",
      "Reference matcher transcribed from the statement vs the library over ~108k (quick) / 2M (thorough) grammar-generated (expected name, certificate name set) pairs: soundness (library accepts => reference accepts), invariance under every permutation of the SAN list, acceptance of the canonical positive forms; ASan on exact-size buffers decides the C-string clause.",
      "Non-canonical positives are recorded, not asserted; punycode names with '--' are refused by the library.",
      "reference-model monitor + permutation metamorphic oracle, ASan+UBSan build", "3/C05")
check("C06", "exploration",
      "Per mode, role and flight every single-step deviation (delete, duplicate, swap, inject each of 16 message types at every position, premature CCS) of the one-message-per-record re-framed flight is fed message by message on a fork()ed clone; a reference grammar locates the first illegal message; the final Finished is replaced by the value the receiver expects over ITS transcript (computed with the library's snapshot function, sealed with the sender's keys), so a lax state machine shows up as a COMPLETED deviant handshake; ~2.4k cases per seed (quick).",
      "The reference grammar is a reading of the RFCs restricted to messages this build emits; DTLS judged on deleted messages only; deviations in non-final flights cannot be continued by a consistent peer (the honest peer stops).",
      "reference-grammar monitor with a transcript-consistent deviant peer on fork-cloned handshakes, ASan+UBSan build", "3/C06")
check("C16", "fault_enumeration",
      "Datagram simulator in logical rounds following the reference applications' discipline: all 2^m drop patterns over the first m datagrams, every single duplicate / swap / delay position, seeded random schedules and spurious timeouts for full / resumed / client-auth handshakes x DTLS 1.0/1.2 x CBC/GCM x PMTU {1500,600,400,256}; replay phase re-delivers every captured record (incl. the peer's Finished, previous-epoch records, sequence gaps 1..40) at later positions; ~5.4k schedules + 8.7k replays (quick), ~320k cases (thorough). Oracle: each sent datagram delivered at most once, no error under a benign network, completion within 12 timeout rounds after the last fault.",
      "Unbounded liveness restated as bounded progress in logical rounds; forging datagrams is outside this property's transport model; PMTU 256 only with PSK suites (2048-bit RSA messages do not fit).",
      "schedule enumeration with an exactly-once / bounded-progress history oracle on fork-cloned runs, ASan+UBSan build", "3/C16")
check("C17", "exploration",
      "Link-time wrappers feed every AEAD key setup and seal, every CBC encryption and every PRNG output block to an online monitor while ~80 scenarios per seed (every AEAD and CBC suite x version x full/resumed/ticket/client-auth/0-RTT; DTLS with a lost flight and timeout-driven retransmissions) run handshakes, 22 sends of sizes 0..16384 in undrained bursts, error and closure alerts: no (key, nonce) pair seals two different (AAD||plaintext); the write sequence number moves by exactly the number of records sealed per API call; every CBC record starts with a PRNG block drawn after the previous record and never used before; protected DTLS (epoch,seq) pairs repeat only byte-identically.",
      "Observation at the crypto-library boundary; HelloRetryRequest flights are not generated by this workload.",
      "online trace monitor over hooked crypto primitives (link-time interposition), ASan+UBSan build", "3/C17")
check("C04", "exploration",
      "By-construction monitor at handshake level: ~450 handshakes per seed between a verifying endpoint (client over TLS 1.1/1.2/1.3/DTLS with RSA transport, ECDHE-RSA, ECDHE-ECDSA, TLS 1.3 RSA/ECDSA/Ed25519; server with client authentication) and a peer whose chain and key were minted for one ground-truth label, under no / strict / permissive callback; completion on the verifying side must be justified by the label or by an explicit callback override, never for a wrong-key peer.",
      "issuer-not-CA and unknown-critical-extension chains cannot be presented by a MatrixSSL peer (it validates its own identity at load time): those labels are decided at API level by C03; a server requests client authentication by registering a callback, so 'no callback' exists for clients only.",
      "by-construction labelled-credential monitor on fork-cloned handshakes, ASan+UBSan build", "3/C04")
check("C20", "exploration",
      "Held on every executed schedule: 40 (quick) / 1008 + 20 helgrind (thorough) process runs of 2-16 worker threads sharing one sslKeys_t (identities, CA list, ticket keys, ECDHE cache), the global session cache, the PRNG and the CRL cache, with a ticket-key rotator and a CRL churn thread and injected yields between API calls; ThreadSanitizer (and helgrind) reports, crashes and watchdog-detected deadlocks are violations, and the recorded per-operation history must have a sequential explanation per credential (issuer started earlier, same master secret, refusals justified by a deletion/invalidations/eviction that overlapped).",
      "TSan judges only code that ran concurrently in some run; one ssl_t is never shared between threads; real clock and /dev/urandom (schedules are not replayable bit-for-bit, a replay repeats the run 12 times); eviction is accepted as a reason for refusal only when enough cache users overlapped.",
      "ThreadSanitizer / helgrind race detection plus offline sequential-explanation checker over recorded operation histories, randomized schedules with injected yields", "3/C20")
check("C19", "fault_enumeration",
      "Single-fault enumeration per scenario (load keys and CAs, full / resumed / client-auth handshakes per version incl. DTLS and TLS 1.3, data exchange, teardown): quick fails the first occurrence of every allocation site (return address) plus seeded ordinals and seeded multi-fault sequences (~3.2k faults), thorough fails every allocation ordinal of every scenario (~150k faults). Each fault runs in a fork()ed child of the ASan+UBSan build with LeakSanitizer at exit; oracle: the API call reports an error or the connection ends with an alert, no sanitizer report, nothing leaked after the application deleted its objects, and must-fail scenarios (bad peer credentials) never complete.",
      "Allocation failures are injected only while a library API call is on the stack (malloc/calloc/realloc via link-time --wrap); allocations inside libc (stdio) are not failed; leak keys name the allocation site, so one key may cover several error paths.",
      "allocation-failure injection (link-time malloc wrappers) with sanitizer + leak oracles over fork-cloned scenarios", "3/C19")
