/* C05 - the expected-name check accepts only certificates issued for that name.
 *
 * Every case is a leaf certificate minted by gen/certgen.h (Ed25519 leaf under our own Ed25519 root: signing and
 * MatrixSSL's verification are both fast, so the run is dominated by the code under test) whose subject CN and
 * subjectAltName list are chosen by a grammar RELATIVE to an expected name E, together with a relation class.
 * matrixValidateCertsExt(leaf, root, E, options{nameType, VALIDATE_EXPECTED_GENERAL_NAME}) is called for several
 * nameTypes / expected-name variants and for EVERY permutation of the SAN list.
 *
 * Oracle: ref_match() below, transcribed from the property statement:
 *    - a SAN entry matches only if it is of the kind selected by nameType (ANY = any of the three kinds),
 *      dNSName / rfc822Name: case-insensitive equality of the complete entry with E, all octets printable ASCII
 *      dNSName "*.rest": stands for exactly one non-empty left-most label of E, no other '*' anywhere
 *      iPAddress: exactly 4 octets equal to the four decimal fields of E
 *    - the subject CN (DNS rules) only when the certificate has no dNSName / rfc822Name / iPAddress entry at all and
 *      nameType is ANY, HOSTNAME or CN
 *    - nothing else matches; in particular the GeneralNames of OTHER extensions (issuerAltName: names of the issuer; cRLDistributionPoints
 *      fullName: where a CRL lives) never count, whatever kind they are, and do not switch the CN fallback off.
 * Asserted: soundness   library accepts => reference accepts            else c05:accepts:<class>
 *           order       same verdict for every permutation of the list  else c05:order-dependent
 *           completeness the plain positive forms of the statement (exact, other case, *.label wildcard, IPv4, e-mail,
 *                        CN without SAN) are accepted (in all permutations) else c05:rejects-canonical:<class>
 * "Accepts" is read in the library's favour: rc >= 0 AND authStatus == PASS AND no authFailFlags.
 * One documented leniency is granted: a single trailing NUL on a dNSName/rfc822Name entry is stripped (x509.c
 * DISABLE_X509_GENERAL_NAME_SUPPORT_C_NULL is not defined) - recorded as lenient:*, not asserted.
 * Near misses (near_from): expected names that differ in ONE octet from a name the certificate carries (every kind of name, every position, separators
 * first), evaluated with every nameType / e-mail mFlag through matrixValidateCerts, matrixValidateCertsExt (with and without the expected-name syntax
 * filter) and - sess_case - through matrixSslNewClientSession handshakes against an in-process server presenting the minted leaf (TLS 1.3 / TLS 1.2, no
 * certificate callback); plain positive forms are the positive control of that path.  Same reference, same keys (c05:accepts:near-miss-<kind>).
 * DER blobs and expected names live in exact-size heap blocks, so ASan reports any walk over an unterminated name. */
#include "vf.h"
#include "mx.h"
#include "matrixsslApi.h"
#include "certgen.h"

extern long mx_now;
static long NOW;
static cg_key *RK, *LK, *RK2; static cg_spec RS, RS2; static cg_cert RC, RC2; static psX509Cert_t *ROOT;

typedef struct { int kind, len; unsigned char v[100]; } ent;
typedef struct {
    char cls[40];            /* relation class of the focus name w.r.t. E */
    char E[64];              /* expected name */
    int kindE;               /* 0 host name, 1 e-mail, 2 IPv4 literal: decides the specific nameType to use */
    int canonical;           /* 1: plain positive form named in the statement, must be accepted */
    int ncn; struct { int tag, len; unsigned char v[100]; } cn[2];
    int nsan; ent san[4];
    /* names that describe somebody else: GeneralNames of the issuerAltName extension (carrier bit 1; bit 4: emitted BEFORE the subjectAltName)
       and / or of a cRLDistributionPoints fullName (bit 2). The reference never looks at them. */
    int carrier, nian; ent ian[6];
    int sess;                /* workload only (not part of the replay spec; a replay runs every combination): 0 = no handshake, else the set of SESSCOMBO entries (bit j) to run for the first SAN order */
} ccase;
static int is_near(const ccase *c) { return !strncmp(c->cls, "near-miss", 9); }

/* ------------------------------------------------------------------ reference --- */
static int ieq(const unsigned char *a, int alen, const char *b, int blen)
{
    if (alen != blen) return 0;
    for (int i = 0; i < alen; i++) { int x = a[i], y = (unsigned char) b[i]; if (x >= 'A' && x <= 'Z') x += 32; if (y >= 'A' && y <= 'Z') y += 32; if (x != y) return 0; }
    return 1;
}
static int printable(const unsigned char *a, int n) { for (int i = 0; i < n; i++) if (a[i] < 0x20 || a[i] > 0x7e) return 0; return n > 0; }
static int ref_dns(const unsigned char *e, int n, const char *x)
{
    int xl = (int) strlen(x);
    if (!printable(e, n)) return 0;
    if (n >= 2 && e[0] == '*' && e[1] == '.') {
        if (memchr(e + 1, '*', n - 1)) return 0;
        const char *dot = strchr(x, '.');
        if (!dot || dot == x) return 0;                       /* exactly one, non-empty, left-most label */
        return ieq(e + 1, n - 1, dot, xl - (int) (dot - x));
    }
    if (memchr(e, '*', n)) return 0;
    return ieq(e, n, x, xl);
}
static int ref_email(const unsigned char *e, int n, const char *x) { return printable(e, n) && !memchr(e, '*', n) && ieq(e, n, x, (int) strlen(x)); }
static int parse_ipv4(const char *x, unsigned char o[4])
{
    for (int i = 0; i < 4; i++) {
        int v = 0, d = 0; while (*x >= '0' && *x <= '9' && d < 3) { v = v * 10 + (*x - '0'); x++; d++; }
        if (!d || v > 255) return 0; o[i] = (unsigned char) v;
        if (i < 3) { if (*x != '.') return 0; x++; }
    }
    return *x == 0;
}
static int ref_ip(const unsigned char *e, int n, const char *x) { unsigned char o[4]; return n == 4 && parse_ipv4(x, o) && !memcmp(o, e, 4); }
/* lenient != 0: strip one trailing NUL from dNSName / rfc822Name entries first (documented library behaviour) */
static int ref_match(const ccase *c, const ent *san, int nsan, const char *x, int nt, int lenient)
{
    int supported = 0;
    for (int i = 0; i < nsan; i++) {
        const unsigned char *v = san[i].v; int n = san[i].len;
        if (san[i].kind != CG_GN_DNS && san[i].kind != CG_GN_EMAIL && san[i].kind != CG_GN_IP) continue;
        supported = 1;
        if (lenient && san[i].kind != CG_GN_IP && n >= 2 && v[n - 1] == 0) n--;
        if (san[i].kind == CG_GN_DNS && (nt == NAME_TYPE_ANY || nt == NAME_TYPE_HOSTNAME || nt == NAME_TYPE_SAN_DNS) && ref_dns(v, n, x)) return 1;
        if (san[i].kind == CG_GN_EMAIL && (nt == NAME_TYPE_ANY || nt == NAME_TYPE_SAN_EMAIL) && ref_email(v, n, x)) return 1;
        if (san[i].kind == CG_GN_IP && (nt == NAME_TYPE_ANY || nt == NAME_TYPE_SAN_IP_ADDRESS) && ref_ip(v, n, x)) return 1;
    }
    /* several CNs: the statement says "the subject common name"; any of them is granted (the library keeps the last one) */
    if (!supported && (nt == NAME_TYPE_ANY || nt == NAME_TYPE_HOSTNAME || nt == NAME_TYPE_CN)) for (int i = 0; i < c->ncn; i++) if (ref_dns(c->cn[i].v, c->cn[i].len, x)) return 1;
    return 0;
}

/* ------------------------------------------------------------------ replay spec --- */
static void spec_str(const ccase *c, char *o, size_t n)
{
    char h[210]; size_t k = 0;
    vf_hex(h, (const unsigned char *) c->E, strlen(c->E));
    k += snprintf(o + k, n - k, "cls=%s kind=%d canon=%d E=%s cn=", c->cls, c->kindE, c->canonical, h);
    if (!c->ncn) k += snprintf(o + k, n - k, "-");
    for (int i = 0; i < c->ncn; i++) { vf_hex(h, c->cn[i].v, c->cn[i].len); k += snprintf(o + k, n - k, "%s%d:%s", i ? "," : "", c->cn[i].tag, h); }
    k += snprintf(o + k, n - k, " san=");
    if (!c->nsan) k += snprintf(o + k, n - k, "-");
    for (int i = 0; i < c->nsan; i++) { vf_hex(h, c->san[i].v, c->san[i].len); k += snprintf(o + k, n - k, "%s%d:%s", i ? "," : "", c->san[i].kind, h); }
    if (c->nian) { k += snprintf(o + k, n - k, " ian=%d/", c->carrier); for (int i = 0; i < c->nian; i++) { vf_hex(h, c->ian[i].v, c->ian[i].len); k += snprintf(o + k, n - k, "%s%d:%s", i ? "," : "", c->ian[i].kind, h); } }
}
static int spec_parse(const char *s, ccase *c)
{
    char eh[160], cn[500], san[1000], ian[1500] = ""; memset(c, 0, sizeof *c);
    if (sscanf(s, "cls=%39s kind=%d canon=%d E=%159s cn=%499s san=%999s ian=%d/%1499s", c->cls, &c->kindE, &c->canonical, eh, cn, san, &c->carrier, ian) < 6) return -1;
    int n = vf_unhex((unsigned char *) c->E, eh); c->E[n] = 0;
    if (strcmp(cn, "-")) for (char *t = strtok(cn, ","); t && c->ncn < 2; t = strtok(NULL, ",")) { char *col = strchr(t, ':'); if (!col) return -1; c->cn[c->ncn].tag = atoi(t); c->cn[c->ncn].len = vf_unhex(c->cn[c->ncn].v, col + 1); c->ncn++; }
    if (strcmp(san, "-")) for (char *t = strtok(san, ","); t && c->nsan < 4; t = strtok(NULL, ",")) { char *col = strchr(t, ':'); if (!col) return -1; c->san[c->nsan].kind = atoi(t); c->san[c->nsan].len = vf_unhex(c->san[c->nsan].v, col + 1); c->nsan++; }
    if (ian[0]) for (char *t = strtok(ian, ","); t && c->nian < 6; t = strtok(NULL, ",")) { char *col = strchr(t, ':'); if (!col) return -1; c->ian[c->nian].kind = atoi(t); c->ian[c->nian].len = vf_unhex(c->ian[c->nian].v, col + 1); c->nian++; }
    return 0;
}
static void pretty(const unsigned char *v, int n, char *o, size_t cap)
{
    size_t k = 0; for (int i = 0; i < n && k + 6 < cap; i++) { if (v[i] >= 0x20 && v[i] < 0x7f && v[i] != '\\') o[k++] = (char) v[i]; else k += snprintf(o + k, cap - k, "\\x%02x", v[i]); } o[k] = 0;
}
static void case_text(const ccase *c, const int *perm, char *o, size_t n)
{
    static const char *kn[] = { "other", "email", "DNS", "x400", "dir", "edi", "URI", "IP", "rid" }; char b[420]; size_t k = 0;
    k += snprintf(o + k, n - k, "expected=\"%s\" class=%s CN=", c->E, c->cls);
    if (!c->ncn) k += snprintf(o + k, n - k, "(none)");
    for (int i = 0; i < c->ncn; i++) { pretty(c->cn[i].v, c->cn[i].len, b, sizeof b); k += snprintf(o + k, n - k, "%s\"%s\"(tag 0x%02x)", i ? "," : "", b, c->cn[i].tag); }
    k += snprintf(o + k, n - k, " SAN=[");
    for (int i = 0; i < c->nsan && k < n; i++) {
        const ent *e = &c->san[perm ? perm[i] : i];
        if (e->kind == CG_GN_IP) { b[0] = 0; for (int j = 0; j < e->len && j < 16; j++) sprintf(b + strlen(b), "%s%u", j ? "." : "", e->v[j]); } else pretty(e->v, e->len, b, sizeof b);
        k += snprintf(o + k, n - k, "%s%s:%s", i ? ", " : "", e->kind >= 0 && e->kind <= 8 ? kn[e->kind] : "tag?", b);
    }
    k += snprintf(o + k, n - k, "]");
    if (c->nian) {
        k += snprintf(o + k, n - k, " %s%s%s=[", (c->carrier & 1) ? ((c->carrier & 4) ? "issuerAltName(before SAN)" : "issuerAltName") : "", (c->carrier & 3) == 3 ? "+" : "", (c->carrier & 2) ? "cRLDistributionPoints.fullName" : "");
        for (int i = 0; i < c->nian && k < n; i++) {
            const ent *e = &c->ian[i];
            if (e->kind == CG_GN_IP) { b[0] = 0; for (int j = 0; j < e->len && j < 16; j++) sprintf(b + strlen(b), "%s%u", j ? "." : "", e->v[j]); } else pretty(e->v, e->len, b, sizeof b);
            k += snprintf(o + k, n - k, "%s%s:%s", i ? ", " : "", e->kind >= 0 && e->kind <= 8 ? kn[e->kind] : "tag?", b);
        }
        k += snprintf(o + k, n - k, "]");
    }
}

/* ------------------------------------------------------------------ one case --- */
static const char *ntname[] = { "ANY", "HOSTNAME", "CN", "SAN_DNS", "SAN_EMAIL", "SAN_IP" };
/* ------------------------------------------------------------------ minting --- */
static int mint_leaf(const ccase *c, const int *perm, const cg_key *key, const cg_spec *iss, const cg_key *isskey, cg_cert *lc)
{
    cg_spec s; cg_spec_leaf(&s, "Verif C05", NULL, key, iss, isskey, NOW);
    s.subject.n = 0; cg_dn_add(&s.subject, CG_AT_O, CG_T_UTF8, "Verif C05", 9);
    for (int i = 0; i < c->ncn; i++) cg_dn_add(&s.subject, CG_AT_CN, c->cn[i].tag, c->cn[i].v, c->cn[i].len);
    s.nsan = 0; for (int i = 0; i < c->nsan; i++) cg_san_add(&s, c->san[perm[i]].kind, c->san[perm[i]].v, c->san[perm[i]].len);
    cg_buf dpx = { 0 };
    if (c->nian && (c->carrier & 1)) { for (int i = 0; i < c->nian; i++) cg_ian_add(&s, c->ian[i].kind, c->ian[i].v, c->ian[i].len); s.ian_first = !!(c->carrier & 4); }
    if (c->nian && (c->carrier & 2)) {   /* cRLDistributionPoints: one DistributionPoint whose fullName holds the names */
        static const unsigned char o_cdp[] = { 0x55, 0x1d, 0x1f }; cg_buf v = { 0 }, dps = { 0 }, dp = { 0 }, dpn = { 0 }, full = { 0 };
        for (int i = 0; i < c->nian; i++) cg_tlv(&full, 0x80 | (c->ian[i].kind & 0x1f) | (c->ian[i].kind == CG_GN_DIR || c->ian[i].kind == CG_GN_OTHER ? 0x20 : 0), c->ian[i].v, c->ian[i].len);
        cg_wrap(&dpn, 0xa0, &full); cg_wrap(&dp, 0xa0, &dpn); cg_wrap(&dps, 0x30, &dp); cg_wrap(&v, 0x30, &dps); cg_ext(&dpx, o_cdp, 3, 0, &v);
        s.rawext = dpx.p; s.rawextlen = (int) dpx.n;
    }
    int mk = cg_make_cert(&s, lc); cg_buf_free(&dpx);
    return mk;
}

/* ------------------------------------------------------------------ client-session path --- */
/* The same question asked the way an application asks it: matrixSslNewClientSession(expectedName, options.validateCertsOpts{nameType, mFlags}),
 * no certificate callback (the library's own verdict is final), against a server that presents the minted leaf (Ed25519 leaf for TLS 1.3, a P-256
 * leaf with the same names under a P-256 root for TLS 1.2 ECDHE-ECDSA).  "Accepts" = the client reports the handshake complete. */
static const struct { int ver; uint16_t suite; int nt; unsigned mflags; } SESSCOMBO[16] = {
    { MX_TLS13, 0x1301, NAME_TYPE_ANY, 0 }, { MX_TLS13, 0x1301, NAME_TYPE_HOSTNAME, 0 }, { MX_TLS13, 0x1301, NAME_TYPE_CN, 0 }, { MX_TLS13, 0x1301, NAME_TYPE_SAN_DNS, 0 },
    { MX_TLS13, 0x1301, NAME_TYPE_SAN_EMAIL, 0 }, { MX_TLS13, 0x1301, NAME_TYPE_SAN_IP_ADDRESS, 0 }, { MX_TLS13, 0x1301, NAME_TYPE_SAN_EMAIL, VCERTS_MFLAG_SAN_EMAIL_CASE_INSENSITIVE_LOCAL_PART }, { MX_TLS13, 0x1301, NAME_TYPE_ANY, VCERTS_MFLAG_SAN_EMAIL_CASE_INSENSITIVE_LOCAL_PART },
    { MX_TLS12, 0xc02b, NAME_TYPE_ANY, 0 }, { MX_TLS12, 0xc02b, NAME_TYPE_HOSTNAME, 0 }, { MX_TLS12, 0xc02b, NAME_TYPE_CN, 0 }, { MX_TLS12, 0xc02b, NAME_TYPE_SAN_DNS, 0 },
    { MX_TLS12, 0xc02b, NAME_TYPE_SAN_EMAIL, 0 }, { MX_TLS12, 0xc02b, NAME_TYPE_SAN_IP_ADDRESS, 0 }, { MX_TLS12, 0xc02b, NAME_TYPE_SAN_EMAIL, VCERTS_MFLAG_SAN_EMAIL_CASE_INSENSITIVE_LOCAL_PART }, { MX_TLS12, 0xc02b, NAME_TYPE_ANY, VCERTS_MFLAG_SAN_EMAIL_CASE_INSENSITIVE_LOCAL_PART },
};
static sslKeys_t *TRUST; static cg_key *LK2; static int g_replay;
static sslKeys_t *sess_server_keys(const cg_cert *lc, cg_key *key)
{
    sslKeys_t *pk = NULL; char *cp = cg_pem("CERTIFICATE", lc->der, lc->len), *kp = cg_key_priv_pem(key, 0); int rc = -1;
    MX_ENTER(); if (cp && kp && matrixSslNewKeys(&pk, NULL) >= 0) rc = matrixSslLoadKeysMem(pk, (unsigned char *) cp, (int32) strlen(cp), (unsigned char *) kp, (int32) strlen(kp), NULL, 0, NULL);
    if (rc < 0 && pk) { matrixSslDeleteKeys(pk); pk = NULL; } MX_LEAVE();
    free(cp); free(kp); return pk;
}
/* 1 client completed, 0 it did not, -1 harness trouble; *newrc = return of matrixSslNewClientSession */
static int sess_one(sslKeys_t *pk, int combo, const char *name, int *newrc)
{
    mx_cfg cfg = { .ver = SESSCOMBO[combo].ver, .suite = SESSCOMBO[combo].suite, .skeys = pk, .ckeys = TRUST, .expectedName = name, .noCallback = 1 };
    mx_conn k; memset(&k, 0, sizeof k); k.cfg = cfg; sslSessOpts_t o; psCipher16_t cs[1] = { cfg.suite };
    if (mx_new_server(&k.s, &cfg) < 0) { k.s.ssl = NULL; mx_conn_close(&k); return -1; }
    mx_opts(&o, &cfg, MX_CLIENT); o.validateCertsOpts.nameType = SESSCOMBO[combo].nt; o.validateCertsOpts.mFlags = SESSCOMBO[combo].mflags;
    k.c.role = MX_CLIENT; k.c.ver = cfg.ver; k.c.id = 0; k.c.name = "C"; k.c.wantTake = 1;
    size_t L = strlen(name); char *x = malloc(L + 1); memcpy(x, name, L + 1);   /* exact-size block */
    mx_actor = 0; MX_ENTER(); int rc = matrixSslNewClientSession(&k.c.ssl, TRUST, NULL, cs, 1, NULL, x, NULL, NULL, &o); MX_LEAVE();
    *newrc = rc;
    if (rc < 0) { k.c.ssl = NULL; free(x); mx_conn_close(&k); return 0; }
    mx_conn_run(&k, NULL, NULL, 300);
    int acc = k.c.hsDone && !k.c.dead && matrixSslHandshakeIsComplete(k.c.ssl);
    free(x); mx_conn_close(&k);
    return acc;
}
/* all session evaluations of one case (first SAN order only); lc = the Ed25519 leaf already minted for that order */
static void sess_case(const ccase *c, const int *perm, const cg_cert *lc, unsigned combos, const char *spec, const char *text)
{
    sslKeys_t *pk[2] = { NULL, NULL }; int tried[2] = { 0, 0 }, reported = 0;
    for (int j = 0; j < 16; j++) if (combos & (1u << j)) {
        int v = j >= 8;
        if (!tried[v]) {
            tried[v] = 1;
            if (!v) pk[0] = sess_server_keys(lc, LK);
            else { cg_cert l2; if (mint_leaf(c, perm, LK2, &RS2, RK2, &l2) >= 0) { pk[1] = sess_server_keys(&l2, LK2); cg_cert_free(&l2); } }
            if (!pk[v]) vf_stat("session_server_refuses_to_load_leaf", 1);
        }
        if (!pk[v]) continue;
        int newrc = 0, acc = sess_one(pk[v], j, c->E, &newrc), nt = SESSCOMBO[j].nt;
        if (acc < 0) { vf_incon("server session could not be created (%s)", mx_vername[SESSCOMBO[j].ver]); continue; }
        int rs = ref_match(c, c->san, c->nsan, c->E, nt, 0), rl = rs || ref_match(c, c->san, c->nsan, c->E, nt, 1);
        vf_stat("cases", 1); vf_stat("session_evals", 1); vf_stat(acc ? "session_completes" : newrc < 0 ? "session_name_refused_at_creation" : "session_refused", 1);
        if (g_replay) fprintf(stderr, "  session %s suite %04x name=\"%s\" nt=%s mflags=%u new=%d lib=%d ref=%d/%d\n", mx_vername[SESSCOMBO[j].ver], SESSCOMBO[j].suite, c->E, ntname[nt], SESSCOMBO[j].mflags, newrc, acc, rs, rl);
        if (acc && !rl && !reported) {
            char key[100]; snprintf(key, sizeof key, "c05:accepts:%s", c->cls);
            vf_violation(key, spec, "client session with expected name \"%s\" (%s, validateCertsOpts.nameType %s, mFlags %u, no certificate callback) completes the handshake with a server whose certificate does not carry that name | %s",
                         c->E, mx_vername[SESSCOMBO[j].ver], ntname[nt], SESSCOMBO[j].mflags, text);
            reported = 1;
        }
        if (acc && rl) vf_stat("session_ref_and_lib_accept", 1);
        if (!acc && rs && c->canonical && newrc >= 0 && !reported) {
            char key[100]; snprintf(key, sizeof key, "c05:rejects-canonical:%s", c->cls);
            vf_violation(key, spec, "client session with expected name \"%s\" (%s, validateCertsOpts.nameType %s, mFlags %u) refuses a server certificate that carries the name in plain positive form | %s",
                         c->E, mx_vername[SESSCOMBO[j].ver], ntname[nt], SESSCOMBO[j].mflags, text);
            reported = 1;
        }
    }
    MX_ENTER(); for (int v = 0; v < 2; v++) if (pk[v]) matrixSslDeleteKeys(pk[v]); MX_LEAVE();
}

static int g_sample;
static int next_perm(int *p, int n)   /* lexicographic successor */
{
    int i = n - 2; while (i >= 0 && p[i] > p[i + 1]) i--; if (i < 0) return 0;
    int j = n - 1; while (p[j] < p[i]) j--; int t = p[i]; p[i] = p[j]; p[j] = t;
    for (int a = i + 1, b = n - 1; a < b; a++, b--) { t = p[a]; p[a] = p[b]; p[b] = t; }
    return 1;
}
typedef struct { char name[64]; int nt; unsigned mflags; int api; int focus; int unrel; } evalspec;
static int build_evals(const ccase *c, evalspec *ev)
{
    int n = 0; char alt[64]; size_t L = strlen(c->E);
    for (size_t i = 0; i <= L; i++) { char ch = c->E[i]; alt[i] = (ch >= 'a' && ch <= 'z') ? ch - 32 : (ch >= 'A' && ch <= 'Z') ? ch + 32 : ch; }
    if (is_near(c)) {
        /* near-miss expected names: default flags through both entry points, then EVERY nameType and both e-mail modes without the
           expected-name syntax filter in front of the matcher (api 2), and the near miss in other case */
        { evalspec e = { "", NAME_TYPE_ANY, 0, 0, 1 }; strcpy(e.name, c->E); ev[n++] = e; }
        { evalspec e = { "", NAME_TYPE_ANY, 0, 1, 1 }; strcpy(e.name, c->E); ev[n++] = e; }
        static const int every[] = { NAME_TYPE_ANY, NAME_TYPE_HOSTNAME, NAME_TYPE_CN, NAME_TYPE_SAN_DNS, NAME_TYPE_SAN_EMAIL, NAME_TYPE_SAN_IP_ADDRESS };
        for (int i = 0; i < 6; i++) { evalspec e = { "", every[i], 0, 2, 1 }; strcpy(e.name, c->E); ev[n++] = e; }
        { evalspec e = { "", NAME_TYPE_SAN_EMAIL, VCERTS_MFLAG_SAN_EMAIL_CASE_INSENSITIVE_LOCAL_PART, 2, 1 }; strcpy(e.name, c->E); ev[n++] = e; e.nt = NAME_TYPE_ANY; ev[n++] = e; }
        if (strcmp(alt, c->E)) { evalspec e = { "", NAME_TYPE_ANY, 0, 2, 0 }; strcpy(e.name, alt); ev[n++] = e; }
        return n;
    }
    static const int nts[3][3] = { { NAME_TYPE_ANY, NAME_TYPE_HOSTNAME, NAME_TYPE_SAN_DNS }, { NAME_TYPE_ANY, NAME_TYPE_SAN_EMAIL, -1 }, { NAME_TYPE_ANY, NAME_TYPE_SAN_IP_ADDRESS, -1 } };
    for (int i = 0; i < 3; i++) if (nts[c->kindE][i] >= 0) { evalspec e = { "", nts[c->kindE][i], 0, 1, 1 }; strcpy(e.name, c->E); ev[n++] = e; }
    if (c->kindE == 1) { evalspec e = { "", NAME_TYPE_SAN_EMAIL, VCERTS_MFLAG_SAN_EMAIL_CASE_INSENSITIVE_LOCAL_PART, 1, 1 }; strcpy(e.name, c->E); ev[n++] = e; }
    if (c->ncn) { evalspec e = { "", NAME_TYPE_CN, 0, 1, 1 }; strcpy(e.name, c->E); ev[n++] = e; }
    { evalspec e = { "", NAME_TYPE_ANY, 0, 0, 1 }; strcpy(e.name, c->E); ev[n++] = e; }                       /* matrixValidateCerts(): no nameType, no expected-name validation */
    if (strcmp(alt, c->E)) { evalspec e = { "", nts[c->kindE][1], 0, 1, 0 }; strcpy(e.name, alt); ev[n++] = e; if (c->kindE == 1) { e.mflags = VCERTS_MFLAG_SAN_EMAIL_CASE_INSENSITIVE_LOCAL_PART; ev[n++] = e; } }
    /* the other specific types: an entry of one kind must never satisfy another kind */
    static const int all[] = { NAME_TYPE_HOSTNAME, NAME_TYPE_CN, NAME_TYPE_SAN_DNS, NAME_TYPE_SAN_EMAIL, NAME_TYPE_SAN_IP_ADDRESS };
    for (int i = 0; i < 5; i++) { int dup = 0; for (int j = 0; j < n; j++) if (ev[j].nt == all[i] && !strcmp(ev[j].name, c->E) && !ev[j].mflags) dup = 1; if (!dup && (vf_thorough || ((i + (int) L) % 2 == 0))) { evalspec e = { "", all[i], 0, 1, 0 }; strcpy(e.name, c->E); ev[n++] = e; } }
    { evalspec e = { "unrelated.invalid", NAME_TYPE_ANY, 0, 1, 0, 1 }; if (c->kindE == 1) strcpy(e.name, "nobody@unrelated.invalid"); if (c->kindE == 2) strcpy(e.name, "203.0.113.77"); ev[n++] = e; }
    return n;
}
static void run_case(const ccase *c)
{
    char spec[1400], text[1200]; spec_str(c, spec, sizeof spec);
    evalspec ev[16]; int nev = build_evals(c, ev);
    int perm[4] = { 0, 1, 2, 3 }, nperm = 0, first_verdict[16], differs[16] = { 0 }, any_reject[16] = { 0 }, all_reject[16], reported_acc = 0;
    for (int k = 0; k < nev; k++) all_reject[k] = 1;
    case_text(c, NULL, text, sizeof text);
    if (g_sample) vf_sample("%s", text);
    do {
        cg_cert lc; if (mint_leaf(c, perm, LK, &RS, RK, &lc) < 0) { vf_incon("certgen failed"); return; }
        psX509Cert_t *leaf = NULL; int prc = psX509ParseCert(NULL, lc.der, lc.len, &leaf, 0);
        uint32 flags0 = prc >= 0 ? leaf->authFailFlags : 0;
        vf_stat(prc >= 0 ? "certs_parsed" : "certs_rejected_by_parser", 1);
        for (int k = 0; k < nev; k++) {
            int acc = 0, rc = prc;
            if (prc >= 0) {
                size_t L = strlen(ev[k].name); char *x = malloc(L + 1); memcpy(x, ev[k].name, L + 1);   /* exact-size block */
                psX509Cert_t *found = NULL; leaf->authStatus = 0; leaf->authFailFlags = flags0; ROOT->authStatus = 0;
                if (ev[k].api == 0) rc = matrixValidateCerts(NULL, leaf, ROOT, x, &found, NULL, NULL);
                else { matrixValidateCertsOptions_t o; memset(&o, 0, sizeof o); o.nameType = ev[k].nt; o.mFlags = ev[k].mflags; o.flags = ev[k].api == 1 ? VCERTS_FLAG_VALIDATE_EXPECTED_GENERAL_NAME : 0;
                       rc = matrixValidateCertsExt(NULL, leaf, ROOT, x, &found, NULL, NULL, &o); }
                acc = rc >= 0 && leaf->authStatus == PS_CERT_AUTH_PASS && leaf->authFailFlags == 0;
                free(x);
            }
            vf_stat("cases", 1); vf_stat(acc ? "lib_accepts" : "lib_rejects", 1);
            int rs = ref_match(c, c->san, c->nsan, ev[k].name, ev[k].nt, 0), rl = rs || ref_match(c, c->san, c->nsan, ev[k].name, ev[k].nt, 1);
            if (nperm == 0) first_verdict[k] = acc; else if (first_verdict[k] != acc) differs[k] = 1;
            if (!acc) any_reject[k] = 1; else all_reject[k] = 0;
            if (acc && !rl && !reported_acc) {
                char key[100], pt[1200]; case_text(c, perm, pt, sizeof pt);
                snprintf(key, sizeof key, "c05:accepts:%s", ev[k].unrel ? "unrelated" : c->cls);
                vf_violation(key, spec, "library accepts expected name \"%s\" (nameType %s, mFlags %u, %s) for a certificate that does not carry it | %s | rc=%d", ev[k].name, ntname[ev[k].nt], ev[k].mflags,
                             ev[k].api == 1 ? "matrixValidateCertsExt+VALIDATE_EXPECTED_GENERAL_NAME" : ev[k].api ? "matrixValidateCertsExt" : "matrixValidateCerts", pt, rc);
                reported_acc = 1;
            }
            if (acc && rl && !rs) vf_stat("lenient:trailing-nul-san-entry-accepted", 1);
            if (acc && rl) vf_stat("ref_and_lib_accept", 1);
            if (!acc && rl && !(c->canonical && ev[k].focus)) vf_statf(1, "strict:%s", c->cls);
            if (vf_case) { char pt[1200]; case_text(c, perm, pt, sizeof pt); fprintf(stderr, "  perm#%d name=\"%s\" nt=%s mflags=%u api=%d parse=%d rc=%d lib=%d ref=%d/%d | %s\n", nperm, ev[k].name, ntname[ev[k].nt], ev[k].mflags, ev[k].api, prc, rc, acc, rs, rl, pt); }
        }
        if (leaf) psX509FreeCert(leaf);
        if (nperm == 0 && prc >= 0) { unsigned combos = g_replay ? (is_near(c) || (c->canonical && !c->nian) ? 0xffffu : 0) : (unsigned) c->sess; if (combos) sess_case(c, perm, &lc, combos, spec, text); }
        cg_cert_free(&lc);
        nperm++;
    } while (c->nsan > 1 && next_perm(perm, c->nsan));
    vf_stat("cert_cases", 1); vf_stat("permutations", nperm); if (is_near(c)) vf_statf(1, "cert_cases:%s", c->cls);
    for (int k = 0; k < nev; k++) if (differs[k]) {
        vf_violation("c05:order-dependent", spec, "verdict for expected name \"%s\" (nameType %s) depends on the order of the subjectAltName entries | %s", ev[k].name, ntname[ev[k].nt], text);
        break;
    }
    if (c->canonical && psX509ValidateGeneralName(c->E) < 0) vf_stat("strict:expected-name-refused-by-psX509ValidateGeneralName", 1);
    if (c->canonical) for (int k = 0; k < nev; k++) if (ev[k].focus && all_reject[k] && ref_match(c, c->san, c->nsan, ev[k].name, ev[k].nt, 0) && !(ev[k].api == 1 && psX509ValidateGeneralName(ev[k].name) < 0)) {
        char key[100]; snprintf(key, sizeof key, "c05:rejects-canonical:%s", c->cls);
        vf_violation(key, spec, "plain positive form rejected in every SAN order: expected \"%s\" nameType %s mFlags %u | %s", ev[k].name, ntname[ev[k].nt], ev[k].mflags, text);
        break;
    }
    int shape = c->nsan * 10 + c->ncn, kinds = 0; for (int i = 0; i < c->nsan; i++) kinds |= 1 << (c->san[i].kind & 15);
    int fkinds = 0; for (int i = 0; i < c->nian; i++) fkinds |= 1 << (c->ian[i].kind & 15);
    if (c->nian) { vf_stat("cert_cases_with_foreign_general_names", 1); vf_distinct("%s|%d|%d|%x|%d|f%d|%x", c->cls, c->kindE, shape, kinds, (int) strlen(c->E), c->carrier, fkinds); }
    else vf_distinct("%s|%d|%d|%x|%d", c->cls, c->kindE, shape, kinds, (int) strlen(c->E));
}

/* ------------------------------------------------------------------ grammar --- */
static ccase *CASES; static long ncases, capcases;
static void push(const ccase *c) { if (ncases == capcases) { capcases = capcases ? capcases * 2 : 8192; CASES = realloc(CASES, capcases * sizeof *CASES); } CASES[ncases++] = *c; }
static void set_ent(ent *e, int kind, const void *v, int len) { e->kind = kind; e->len = len > 100 ? 100 : len; memcpy(e->v, v, e->len); }
static void ent_str(ent *e, int kind, const char *s) { set_ent(e, kind, s, (int) strlen(s)); }

/* filler shapes: where the focus entry F sits among unrelated entries (all permutations are run anyway) */
enum { NSHAPE = 8 };
static void with_shape(const ccase *base, const ent *F, int shape)
{
    ccase c = *base; ent d, nul, em, ip, uri, ip16; unsigned char ipb[4] = { 10, 9, 8, 7 }, ip16b[16] = { 0x20, 0x01, 0x0d, 0xb8, 0, 0, 0, 0, 0, 0, 0, 0, 0, 0, 0, 1 };
    ent_str(&d, CG_GN_DNS, "filler.one.test"); set_ent(&nul, CG_GN_DNS, "nul.filler.test\0", 16); ent_str(&em, CG_GN_EMAIL, "someone@filler.test");
    set_ent(&ip, CG_GN_IP, ipb, 4); ent_str(&uri, CG_GN_URI, "http://filler.test/"); set_ent(&ip16, CG_GN_IP, ip16b, 16);
    c.nsan = 0;
#define ADD(x) c.san[c.nsan++] = (x)
    switch (shape) {
    case 0: ADD(*F); break;
    case 1: ADD(*F); ADD(d); break;
    case 2: ADD(nul); ADD(*F); break;
    case 3: ADD(em); ADD(*F); ADD(ip); break;
    case 4: ADD(uri); ADD(*F); break;
    case 5: ADD(d); ADD(nul); ADD(*F); ADD(em); break;
    case 6: ADD(ip16); ADD(*F); break;
    case 7: ADD(uri); ADD(nul); ADD(*F); break;
    }
#undef ADD
    push(&c);
}
static vf_rng G;
static int shape_budget;    /* how many filler shapes beyond the single-entry one each focus gets (rotating) */
static long focus_serial;
static void focus(const char *cls, const char *E, int kindE, int canonical, int kind, const void *v, int len)
{
    ccase c; memset(&c, 0, sizeof c); snprintf(c.cls, sizeof c.cls, "%s", cls); snprintf(c.E, sizeof c.E, "%s", E); c.kindE = kindE; c.canonical = canonical;
    ent F; set_ent(&F, kind, v, len);
    with_shape(&c, &F, 0);
    for (int i = 0; i < shape_budget; i++) with_shape(&c, &F, 1 + (int) ((focus_serial + i * 3) % (NSHAPE - 1)));
    focus_serial++;
}
static void focus_s(const char *cls, const char *E, int kindE, int canonical, int kind, const char *x) { focus(cls, E, kindE, canonical, kind, x, (int) strlen(x)); }
static void cn_case(const char *cls, const char *E, int canonical, int tag, const void *cn, int cnlen, int sanshape)
{
    ccase c; memset(&c, 0, sizeof c); snprintf(c.cls, sizeof c.cls, "%s", cls); snprintf(c.E, sizeof c.E, "%s", E); c.kindE = 0; c.canonical = canonical;
    c.ncn = 1; c.cn[0].tag = tag; c.cn[0].len = cnlen; memcpy(c.cn[0].v, cn, cnlen);
    unsigned char ipb[4] = { 10, 9, 8, 7 };
    switch (sanshape) {
    case 0: break;
    case 1: ent_str(&c.san[c.nsan++], CG_GN_URI, "http://filler.test/"); break;                 /* no SUPPORTED entry: CN may still be consulted */
    case 2: ent_str(&c.san[c.nsan++], CG_GN_DNS, "other.filler.test"); break;                   /* cn-despite-san */
    case 3: ent_str(&c.san[c.nsan++], CG_GN_EMAIL, "someone@filler.test"); break;
    case 4: set_ent(&c.san[c.nsan++], CG_GN_IP, ipb, 4); break;
    case 5: ent_str(&c.san[c.nsan++], CG_GN_URI, "http://filler.test/"); set_ent(&c.san[c.nsan++], CG_GN_DNS, "nul.filler.test\0", 16); break;
    }
    push(&c);
}

/* Names of somebody else.  `names` sit in the issuerAltName and / or a cRLDistributionPoints fullName of a leaf whose own names are given by `subj`:
 *   0 no SAN, no CN   1 no SAN, CN of another host   2 SAN = dNSName of another host   3 SAN = URI only, CN of another host   4 SAN = rfc822Name + iPAddress fillers
 *   5 no SAN, CN = E (canonical: the CN fallback must survive)   6 SAN = the entry `own` (canonical: E itself) */
static const int foreign_carriers[4] = { 1, 5, 2, 3 };
static const char *carrier_name(int carrier) { return (carrier & 3) == 3 ? "issuer-alt+crl-dp" : (carrier & 2) ? "crl-dp-name" : "issuer-alt-name"; }
static void foreign_case(const char *E, int kindE, int carrier, const ent *names, int nnames, int subj, const ent *own)
{
    ccase c; memset(&c, 0, sizeof c); snprintf(c.E, sizeof c.E, "%s", E); c.kindE = kindE; c.canonical = subj >= 5; c.carrier = carrier;
    snprintf(c.cls, sizeof c.cls, "%s%s", subj == 5 ? "cn-exact:" : subj == 6 ? "san-exact:" : "", carrier_name(carrier));
    c.nian = nnames > 6 ? 6 : nnames; memcpy(c.ian, names, c.nian * sizeof *names);
    unsigned char ipb[4] = { 10, 9, 8, 7 };
    if (subj == 1 || subj == 3) { c.ncn = 1; c.cn[0].tag = CG_T_UTF8; c.cn[0].len = 17; memcpy(c.cn[0].v, "someone.else.test", 17); }
    if (subj == 5) { c.ncn = 1; c.cn[0].tag = CG_T_UTF8; c.cn[0].len = (int) strlen(E); memcpy(c.cn[0].v, E, c.cn[0].len); }
    if (subj == 2) ent_str(&c.san[c.nsan++], CG_GN_DNS, "other.filler.test");
    if (subj == 3) ent_str(&c.san[c.nsan++], CG_GN_URI, "http://filler.test/");
    if (subj == 4) { ent_str(&c.san[c.nsan++], CG_GN_EMAIL, "someone@filler.test"); set_ent(&c.san[c.nsan++], CG_GN_IP, ipb, 4); }
    if (subj == 6) c.san[c.nsan++] = *own;
    push(&c);
}
static long foreign_serial;
static void foreign_cases(const char *E, int kindE, const ent *own, ent lists[][6], const int *nlist, int nlists)
{
    /* names of the issuer that have nothing to do with E, of every kind: a certificate that is good for E on its own stays good */
    ent U[6]; unsigned char ipb[4] = { 10, 9, 8, 7 };
    ent_str(&U[0], CG_GN_DNS, "ca.issuer.test"); ent_str(&U[1], CG_GN_DNS, "*.issuer.test"); ent_str(&U[2], CG_GN_EMAIL, "pki@issuer.test"); set_ent(&U[3], CG_GN_IP, ipb, 4); ent_str(&U[4], CG_GN_URI, "http://ca.issuer.test/");
    for (int ci = 0; ci < 4; ci++) { if (kindE == 0) foreign_case(E, kindE, foreign_carriers[ci], U, 5, 5, own); foreign_case(E, kindE, foreign_carriers[ci], U, 5, 6, own); }
    /* names of the issuer that spell E (exactly, as wildcard, among names of all kinds): never good for E */
    for (int l = 0; l < nlists; l++) for (int subj = 0; subj < 5; subj++) for (int ci = 0; ci < 4; ci++) {
        if (!vf_thorough && ci >= 2 && (foreign_serial++ % 3)) continue;             /* quick: issuerAltName in both positions always, the cRLDistributionPoints carriers rotate */
        foreign_case(E, kindE, foreign_carriers[ci], lists[l], nlist[l], subj, own);
    }
}
static void host_cases(const char *E)
{
    char lab[4][24], rest[64], rest2[64], x[128], up[64]; int n = 0; const char *p = E;
    while (*p && n < 4) { int k = 0; while (*p && *p != '.') lab[n][k++] = *p++; lab[n][k] = 0; n++; if (*p == '.') p++; }
    const char *d1 = strchr(E, '.'); snprintf(rest, sizeof rest, "%s", d1 ? d1 : "");            /* ".example.com" */
    const char *d2 = d1 ? strchr(d1 + 1, '.') : NULL; snprintf(rest2, sizeof rest2, "%s", d2 ? d2 : "");
    size_t L = strlen(E); for (size_t i = 0; i <= L; i++) up[i] = (E[i] >= 'a' && E[i] <= 'z') ? E[i] - 32 : E[i];
    /* positives named in the statement */
    focus_s("dns-exact", E, 0, 1, CG_GN_DNS, E);
    focus_s("dns-case", E, 0, 1, CG_GN_DNS, up);
    { snprintf(x, sizeof x, "%s", E); for (size_t i = 0; i < L; i += 2) if (x[i] >= 'a' && x[i] <= 'z') x[i] -= 32; focus_s("dns-case", E, 0, 1, CG_GN_DNS, x); }
    if (n >= 2) { snprintf(x, sizeof x, "*%s", rest); focus_s("dns-wildcard", E, 0, 1, CG_GN_DNS, x);
                  snprintf(x, sizeof x, "*%s", rest); for (char *q = x; *q; q++) if (*q >= 'a' && *q <= 'z') *q -= 32; focus_s("dns-wildcard-case", E, 0, 1, CG_GN_DNS, x); }
    /* wildcards that must not match */
    if (n >= 3) { snprintf(x, sizeof x, "*%s", rest2); focus_s("multi-label-wildcard", E, 0, 0, CG_GN_DNS, x);
                  snprintf(x, sizeof x, "%s.*%s", lab[0], rest2); focus_s("wildcard-non-leftmost", E, 0, 0, CG_GN_DNS, x);
                  snprintf(x, sizeof x, "*.*%s", rest2); focus_s("double-wildcard", E, 0, 0, CG_GN_DNS, x); }
    if (n >= 2) { snprintf(x, sizeof x, "%c*%s", lab[0][0], rest); focus_s("partial-wildcard", E, 0, 0, CG_GN_DNS, x);
                  snprintf(x, sizeof x, "*%c%s", lab[0][strlen(lab[0]) - 1], rest); focus_s("partial-wildcard", E, 0, 0, CG_GN_DNS, x);
                  snprintf(x, sizeof x, "*%s", rest + 1); focus_s("wildcard-without-dot", E, 0, 0, CG_GN_DNS, x);
                  snprintf(x, sizeof x, "%.*s*", (int) (L - strlen(lab[n - 1])), E); focus_s("wildcard-rightmost", E, 0, 0, CG_GN_DNS, x);
                  snprintf(x, sizeof x, "*.%s", E); focus_s("wildcard-vs-parent", E, 0, 0, CG_GN_DNS, x); }
    focus_s("bare-star", E, 0, 0, CG_GN_DNS, "*");
    focus_s("bare-star", E, 0, 0, CG_GN_DNS, "*.");
    snprintf(x, sizeof x, "*.%s", lab[n - 1]); if (n != 2) focus_s("wildcard-wrong-depth", E, 0, 0, CG_GN_DNS, x);
    /* partial / suffix / prefix relations */
    snprintf(x, sizeof x, "%s", E + 1); focus_s("partial-suffix", E, 0, 0, CG_GN_DNS, x);                     /* certificate name is a proper suffix of E, not on a label boundary */
    snprintf(x, sizeof x, "not%s", E); focus_s("partial-suffix", E, 0, 0, CG_GN_DNS, x);                      /* E is a proper suffix of the certificate name */
    if (n >= 2) { focus_s("parent-domain", E, 0, 0, CG_GN_DNS, rest + 1); }
    snprintf(x, sizeof x, "sub.%s", E); focus_s("child-domain", E, 0, 0, CG_GN_DNS, x);
    snprintf(x, sizeof x, "%s.evil.org", E); focus_s("prefix", E, 0, 0, CG_GN_DNS, x);
    snprintf(x, sizeof x, "%sx", E); focus_s("prefix", E, 0, 0, CG_GN_DNS, x);
    snprintf(x, sizeof x, "%.*s", (int) L - 1, E); focus_s("prefix", E, 0, 0, CG_GN_DNS, x);                   /* certificate name is a proper prefix of E */
    snprintf(x, sizeof x, "%s.", E); focus_s("trailing-dot", E, 0, 0, CG_GN_DNS, x);
    snprintf(x, sizeof x, ".%s", E); focus_s("leading-dot", E, 0, 0, CG_GN_DNS, x);
    if (n >= 2) focus_s("leading-dot", E, 0, 0, CG_GN_DNS, rest);
    focus_s("unrelated", E, 0, 0, CG_GN_DNS, "entirely.different.example");
    /* NUL and non-printable octets */
    { int k = snprintf(x, sizeof x, "%s", E); memcpy(x + k, "\0.evil.org", 10); focus("embedded-nul", E, 0, 0, CG_GN_DNS, x, k + 10); }
    { int k = snprintf(x, sizeof x, "%s", E); x[k] = 0; x[k + 1] = 'x'; focus("embedded-nul", E, 0, 0, CG_GN_DNS, x, k + 2); }
    { int k = snprintf(x, sizeof x, "%s", E); x[k] = 0; focus("trailing-nul", E, 0, 0, CG_GN_DNS, x, k + 1); }
    { int k = snprintf(x, sizeof x, "%s", E); x[k] = 0; x[k + 1] = 0; focus("double-trailing-nul", E, 0, 0, CG_GN_DNS, x, k + 2); }
    { int k = snprintf(x, sizeof x, "*%s", rest); if (n >= 2) { x[k] = 0; focus("trailing-nul-wildcard", E, 0, 0, CG_GN_DNS, x, k + 1); } }
    static const unsigned char ctl[] = { 0x01, 0x09, 0x0a, 0x0d, 0x1f, 0x20, 0x7f, 0x80, 0xc3, 0xff };
    for (size_t i = 0; i < sizeof ctl; i++) {
        int k = snprintf(x, sizeof x, "%s", E); x[k] = (char) ctl[i]; focus("non-printable", E, 0, 0, CG_GN_DNS, x, k + 1);
        if (vf_thorough || i % 3 == (L % 3)) { x[0] = (char) ctl[i]; memcpy(x + 1, E, L); focus("non-printable", E, 0, 0, CG_GN_DNS, x, (int) L + 1);
                                               memcpy(x, E, L); x[L / 2] = (char) ctl[i]; focus("non-printable", E, 0, 0, CG_GN_DNS, x, (int) L); }
    }
    /* wrong kind of entry carrying the right text */
    focus_s("wrong-type", E, 0, 0, CG_GN_EMAIL, E);            /* rfc822Name carrying the host name: only ANY / SAN_EMAIL readers may take it, and then only as e-mail */
    focus_s("wrong-type", E, 0, 0, CG_GN_URI, E);
    focus("wrong-type", E, 0, 0, CG_GN_RID, E, (int) L);
    focus("wrong-type", E, 0, 0, CG_GN_IP, E, (int) L);        /* iPAddress octets spelling the host name */
    focus("tag-alias", E, 0, 0, 18, E, (int) L);               /* context tag [18] is no GeneralName at all; 18 & 0x0f == 2 */
    focus("tag-alias", E, 0, 0, 17, E, (int) L);
    /* subject CN */
    cn_case("cn-exact", E, 1, CG_T_UTF8, E, (int) L, 0);
    cn_case("cn-exact", E, 1, CG_T_PRINTABLE, E, (int) L, 0);
    cn_case("cn-case", E, 1, CG_T_UTF8, up, (int) L, 0);
    cn_case("cn-no-supported-san", E, 0, CG_T_UTF8, E, (int) L, 1);
    for (int sh = 2; sh <= 5; sh++) cn_case("cn-despite-san", E, 0, CG_T_UTF8, E, (int) L, sh);
    if (n >= 2) { snprintf(x, sizeof x, "*%s", rest); cn_case("cn-wildcard", E, 0, CG_T_UTF8, x, (int) strlen(x), 0); }
    if (n >= 3) { snprintf(x, sizeof x, "*%s", rest2); cn_case("multi-label-wildcard", E, 0, CG_T_UTF8, x, (int) strlen(x), 0); }
    snprintf(x, sizeof x, "%s.evil.org", E); cn_case("prefix", E, 0, CG_T_UTF8, x, (int) strlen(x), 0);
    snprintf(x, sizeof x, "not%s", E); cn_case("partial-suffix", E, 0, CG_T_UTF8, x, (int) strlen(x), 0);
    static const int tags[] = { CG_T_UTF8, CG_T_PRINTABLE, CG_T_IA5, CG_T_T61, CG_T_BITSTRING };
    for (int t = 0; t < 5; t++) {
        int k = snprintf(x, sizeof x, "%s", E); memcpy(x + k, "\0.evil.org", 10); cn_case("embedded-nul", E, 0, tags[t], x, k + 10, 0);
        x[k] = 0; cn_case("trailing-nul-cn", E, 0, tags[t], x, k + 1, 0);
        x[k] = 0x01; cn_case("non-printable", E, 0, tags[t], x, k + 1, 0);
    }
    { ccase c; memset(&c, 0, sizeof c); strcpy(c.cls, "multi-cn"); snprintf(c.E, sizeof c.E, "%s", E); c.ncn = 2; c.cn[0].tag = c.cn[1].tag = CG_T_UTF8;
      c.cn[0].len = (int) L; memcpy(c.cn[0].v, E, L); c.cn[1].len = 10; memcpy(c.cn[1].v, "other.test", 10); push(&c);
      ccase e = c; e.cn[0] = c.cn[1]; e.cn[1] = c.cn[0]; push(&e); }
    /* issuerAltName / cRLDistributionPoints names */
    { ent own, L[4][6]; int nl[4], k = 0; unsigned char ipb[4] = { 10, 9, 8, 7 }; ent_str(&own, CG_GN_DNS, E);
      ent_str(&L[k][0], CG_GN_DNS, E); nl[k++] = 1;
      if (n >= 2) { snprintf(x, sizeof x, "*%s", rest); ent_str(&L[k][0], CG_GN_DNS, x); nl[k++] = 1; }
      ent_str(&L[k][0], CG_GN_EMAIL, "pki@issuer.test"); ent_str(&L[k][1], CG_GN_DNS, E); set_ent(&L[k][2], CG_GN_IP, ipb, 4); snprintf(x, sizeof x, "https://%s/", E); ent_str(&L[k][3], CG_GN_URI, x); nl[k++] = 4;
      ent_str(&L[k][0], CG_GN_URI, E); ent_str(&L[k][1], CG_GN_DNS, up); ent_str(&L[k][2], CG_GN_DNS, "ca.issuer.test"); nl[k++] = 3;
      foreign_cases(E, 0, &own, L, nl, k); }
}
static void email_cases(const char *E)
{
    char x[128], local[40], host[64]; const char *at = strchr(E, '@'); size_t L = strlen(E);
    snprintf(local, sizeof local, "%.*s", (int) (at - E), E); snprintf(host, sizeof host, "%s", at + 1);
    focus_s("email-exact", E, 1, 1, CG_GN_EMAIL, E);
    { snprintf(x, sizeof x, "%s@%s", local, host); for (char *q = strchr(x, '@'); *q; q++) if (*q >= 'a' && *q <= 'z') *q -= 32; focus_s("email-host-case", E, 1, 1, CG_GN_EMAIL, x); }
    { snprintf(x, sizeof x, "%s", E); for (char *q = x; *q != '@'; q++) if (*q >= 'a' && *q <= 'z') *q -= 32; focus_s("email-local-case", E, 1, 0, CG_GN_EMAIL, x); }
    snprintf(x, sizeof x, "%s.evil.org", E); focus_s("prefix", E, 1, 0, CG_GN_EMAIL, x);
    snprintf(x, sizeof x, "x%s", E); focus_s("partial-suffix", E, 1, 0, CG_GN_EMAIL, x);
    snprintf(x, sizeof x, "%s", E + 1); focus_s("partial-suffix", E, 1, 0, CG_GN_EMAIL, x);
    snprintf(x, sizeof x, "%s@sub.%s", local, host); focus_s("child-domain", E, 1, 0, CG_GN_EMAIL, x);
    snprintf(x, sizeof x, "*@%s", host); focus_s("email-wildcard", E, 1, 0, CG_GN_EMAIL, x);
    { const char *d = strchr(host, '.'); if (d) { snprintf(x, sizeof x, "%s@*%s", local, d); focus_s("email-wildcard", E, 1, 0, CG_GN_EMAIL, x); } }
    snprintf(x, sizeof x, "other@%s", host); focus_s("unrelated", E, 1, 0, CG_GN_EMAIL, x);
    { int k = snprintf(x, sizeof x, "%s", E); memcpy(x + k, "\0.evil.org", 10); focus("embedded-nul", E, 1, 0, CG_GN_EMAIL, x, k + 10); x[k] = 0; focus("trailing-nul", E, 1, 0, CG_GN_EMAIL, x, k + 1); x[k] = 0x07; focus("non-printable", E, 1, 0, CG_GN_EMAIL, x, k + 1); }
    focus_s("wrong-type", E, 1, 0, CG_GN_DNS, E);              /* dNSName carrying the address */
    focus_s("wrong-type", E, 1, 0, CG_GN_URI, E);
    snprintf(x, sizeof x, "mailto:%s", E); focus_s("wrong-type", E, 1, 0, CG_GN_URI, x);
    cn_case("email-in-cn", E, 0, CG_T_UTF8, E, (int) L, 0); CASES[ncases - 1].kindE = 1;
    { ent own, Ls[2][6]; int nl[2]; unsigned char ipb[4] = { 10, 9, 8, 7 }; ent_str(&own, CG_GN_EMAIL, E);
      ent_str(&Ls[0][0], CG_GN_EMAIL, E); nl[0] = 1;
      ent_str(&Ls[1][0], CG_GN_DNS, "ca.issuer.test"); ent_str(&Ls[1][1], CG_GN_EMAIL, E); set_ent(&Ls[1][2], CG_GN_IP, ipb, 4); snprintf(x, sizeof x, "mailto:%s", E); ent_str(&Ls[1][3], CG_GN_URI, x); nl[1] = 4;
      foreign_cases(E, 1, &own, Ls, nl, 2); }
}
static void ip_cases(const unsigned char o[4])
{
    char E[32], x[64]; snprintf(E, sizeof E, "%u.%u.%u.%u", o[0], o[1], o[2], o[3]);
    focus("ip-exact", E, 2, 1, CG_GN_IP, o, 4);
    unsigned char b[20]; memset(b, 0, sizeof b); memcpy(b, o, 4);
    focus("ip-length", E, 2, 0, CG_GN_IP, b, 16);               /* IPv6-sized entry whose first four octets equal E */
    b[15] = 1; focus("ip-length", E, 2, 0, CG_GN_IP, b, 16);
    focus("ip-length", E, 2, 0, CG_GN_IP, b, 5); focus("ip-length", E, 2, 0, CG_GN_IP, b, 8);
    { unsigned char m[16] = { 0, 0, 0, 0, 0, 0, 0, 0, 0, 0, 0xff, 0xff }; memcpy(m + 12, o, 4); focus("ip-length", E, 2, 0, CG_GN_IP, m, 16); /* ::ffff:a.b.c.d */ }
    unsigned char q[4]; memcpy(q, o, 4); q[3] ^= 1; focus("unrelated", E, 2, 0, CG_GN_IP, q, 4);
    memcpy(q, o, 4); q[0] ^= 0x80; focus("unrelated", E, 2, 0, CG_GN_IP, q, 4);
    /* textual truncation: an address whose text has E as a proper prefix (and vice versa) */
    if (o[3] < 25) { memcpy(q, o, 4); q[3] = (unsigned char) (o[3] * 10 + 3); focus("ip-truncation", E, 2, 0, CG_GN_IP, q, 4); }
    if (o[3] >= 10) { memcpy(q, o, 4); q[3] = o[3] / 10; focus("ip-truncation", E, 2, 0, CG_GN_IP, q, 4); }
    focus_s("wrong-type", E, 2, 0, CG_GN_DNS, E);               /* dNSName spelling the address */
    focus("wrong-type", E, 2, 0, CG_GN_IP, E, (int) strlen(E)); /* iPAddress holding the TEXT */
    snprintf(x, sizeof x, "%s", E); cn_case("ip-in-cn", E, 0, CG_T_UTF8, x, (int) strlen(x), 0); CASES[ncases - 1].kindE = 2;
    { ent own, Ls[2][6]; int nl[2]; set_ent(&own, CG_GN_IP, o, 4);
      set_ent(&Ls[0][0], CG_GN_IP, o, 4); nl[0] = 1;
      ent_str(&Ls[1][0], CG_GN_DNS, E); ent_str(&Ls[1][1], CG_GN_EMAIL, "pki@issuer.test"); set_ent(&Ls[1][2], CG_GN_IP, o, 4); snprintf(x, sizeof x, "https://%s/", E); ent_str(&Ls[1][3], CG_GN_URI, x); nl[1] = 4;
      foreign_cases(E, 2, &own, Ls, nl, 2); }
}
static void rand_label(char *o, int minl, int maxl)
{
    static const char al[] = "abcdefghijklmnopqrstuvwxyz0123456789"; int n = minl + (int) vf_below(&G, maxl - minl + 1);
    for (int i = 0; i < n; i++) o[i] = al[vf_below(&G, i == 0 ? 26 : 36)];
    if (n >= 4 && vf_below(&G, 3) == 0) o[1 + vf_below(&G, n - 2)] = '-';
    o[n] = 0;
}
/* ------------------------------------------------------------------ near misses --- */
/* Expected names that differ from a name the certificate DOES carry in exactly one octet (same length): every position of every carried name of every kind
 * (dNSName, wildcard dNSName, rfc822Name, URI, the text of an iPAddress, CN).  Separators ('.', '@', ':', '/', '-', '*') are replaced by each other and by
 * ordinary characters, ordinary characters by their neighbour, by separators, by themselves with bit 5 / bit 7 flipped (what a home-made case fold or a
 * 7-bit comparison would equate).  A letter in other case is a legitimate match and the reference says so.  The certificate is `base` (E is filled in here). */
static long near_serial, near_sess_serial;
static int is_sep(int ch) { return ch == '.' || ch == '@' || ch == ':' || ch == '/' || ch == '-' || ch == '*'; }
static void near_from(const ccase *base, const char *kind, int kindE, const char *N, int sess_ok, int seps_only)
{
    size_t L = strlen(N); if (L < 2 || L >= sizeof base->E) return;
    for (size_t i = 0; i < L; i++) {
        unsigned char ch = (unsigned char) N[i], subs[160]; int ns = 0, sep = is_sep(ch);
        if (seps_only && !sep) continue;
        unsigned char succ = (ch >= '0' && ch < '9') || (ch >= 'a' && ch < 'z') || (ch >= 'A' && ch < 'Z') ? ch + 1 : ch == '9' ? '0' : ch == 'z' ? 'a' : ch == 'Z' ? 'A' : 'x';
        const unsigned char cand[] = { '.', '@', '-', ':', '/', '_', '*', 'x', '0', ' ', (unsigned char) (ch ^ 0x20), (unsigned char) (ch ^ 0x80), succ, '%', '\\', 0x01 };
        const int ncand = (int) sizeof cand;
        if (vf_thorough && sep && !seps_only) { for (int x = 0x20; x < 0x7f; x++) subs[ns++] = (unsigned char) x; subs[ns++] = ch ^ 0x80; subs[ns++] = 0x01; subs[ns++] = 0xff; }
        else if (vf_thorough) for (int j = 0; j < ncand; j++) subs[ns++] = cand[j];
        else if (sep && !seps_only) { for (int j = 0; j < 6; j++) subs[ns++] = cand[j == 5 ? 7 : j]; subs[ns++] = cand[10]; subs[ns++] = cand[11]; }   /* quick: the other separators, a letter, bit 5, bit 7 */
        else if (sep) { for (int j = 0; j < 3; j++) subs[ns++] = cand[(near_serial + i + j * 5) % 9]; }                       /* certificates with several names, quick: three other separators / plain characters */
        else subs[ns++] = (near_serial + i) % 3 ? cand[(near_serial + i) % ncand] : succ;                                     /* ordinary position, quick: one rotating candidate */
        for (int j = 0; j < ns; j++) {
            if (!subs[j] || subs[j] == ch) continue;
            int dup = 0; for (int q = 0; q < j; q++) if (subs[q] == subs[j]) dup = 1; if (dup) continue;
            ccase c = *base; snprintf(c.cls, sizeof c.cls, "near-miss-%s", kind); memcpy(c.E, N, L + 1); c.E[i] = (char) subs[j]; c.kindE = kindE; c.canonical = 0;
            /* handshakes: names the session API takes, at the separators (thorough: also a sample of the other positions). quick: one handshake per case, default options two times out of three (alternating protocol version), else a rotating nameType / mFlags; thorough: default options in both versions + a rotating one, every combination for the candidate substitutes at the separators */
            int incand = 0; for (int q = 0; q < ncand; q++) if (cand[q] == subs[j]) incand = 1;
            if (sess_ok && psX509ValidateGeneralName(c.E) >= 0 && ((sep && (incand || subs[j] % 3 == 0)) || (vf_thorough && (near_serial + i) % 4 == 0))) {
                long q = near_sess_serial++;
                c.sess = (q % 3) != 2 ? (1 << ((q & 1) * 8)) : (1 << ((((q >> 1) & 1) * 8) + 1 + (int) ((q / 3) % 7)));
                if (vf_thorough) c.sess |= (1 << 0) | (1 << 8) | (sep && !seps_only && incand ? 0xffff : 0);
            }
            push(&c);
        }
    }
    near_serial++;
}
static void near_single(const char *kind, int kindE, int gk, const void *v, int len, const char *N, int nshapes)
{
    ccase b; memset(&b, 0, sizeof b); ent F; set_ent(&F, gk, v, len);
    b.nsan = 1; b.san[0] = F; near_from(&b, kind, kindE, N, 1, 0);
    /* the same entry among fillers of other kinds (all SAN orders): separators only */
    for (int k = 0; k < nshapes; k++) { long at = ncases; with_shape(&b, &F, 1 + (int) ((near_serial + k * 3) % (NSHAPE - 1))); ccase sh = CASES[at]; ncases = at; near_from(&sh, kind, kindE, N, 0, 1); }
}
static void near_host(const char *H, int uri)
{
    char x[100]; size_t L = strlen(H); const char *d1 = strchr(H, '.');
    near_single("dns", 0, CG_GN_DNS, H, (int) L, H, vf_thorough ? 3 : 1);
    if (d1) { snprintf(x, sizeof x, "*%s", d1); near_single("wildcard", 0, CG_GN_DNS, x, (int) strlen(x), x, vf_thorough ? 2 : 0); }
    { ccase b; memset(&b, 0, sizeof b); b.ncn = 1; b.cn[0].tag = CG_T_UTF8; b.cn[0].len = (int) L; memcpy(b.cn[0].v, H, L); near_from(&b, "cn", 0, H, 1, 0);
      /* CN next to a SAN without any supported entry: the CN is still the name */
      ent_str(&b.san[b.nsan++], CG_GN_URI, "http://filler.test/"); near_from(&b, "cn", 0, H, 0, 1); }
    if (uri) { snprintf(x, sizeof x, "https://%s/", H); if (strlen(x) < 60) near_single("uri", 0, CG_GN_URI, x, (int) strlen(x), x, 0); }
}
static void near_mail(const char *M) { near_single("email", 1, CG_GN_EMAIL, M, (int) strlen(M), M, vf_thorough ? 3 : 1); }
static void near_ip(const unsigned char o[4]) { char t[32]; snprintf(t, sizeof t, "%u.%u.%u.%u", o[0], o[1], o[2], o[3]); near_single("ip", 2, CG_GN_IP, o, 4, t, vf_thorough ? 2 : 0); }
/* one certificate carrying a name of every kind at once: near misses of each of them (separator positions), every SAN order */
static void near_mixed(const char *H, const char *M, const unsigned char o[4], const char *CN)
{
    ccase b; memset(&b, 0, sizeof b); char u[100], t[32]; snprintf(u, sizeof u, "https://%s/", H); snprintf(t, sizeof t, "%u.%u.%u.%u", o[0], o[1], o[2], o[3]);
    b.ncn = 1; b.cn[0].tag = CG_T_UTF8; b.cn[0].len = (int) strlen(CN); memcpy(b.cn[0].v, CN, b.cn[0].len);
    int with_uri = vf_thorough && strlen(u) < 60;      /* quick: three entries (6 orders), thorough: four (24 orders) */
    ent_str(&b.san[b.nsan++], CG_GN_DNS, H); ent_str(&b.san[b.nsan++], CG_GN_EMAIL, M); if (with_uri) ent_str(&b.san[b.nsan++], CG_GN_URI, u); set_ent(&b.san[b.nsan++], CG_GN_IP, o, 4);
    near_from(&b, "dns", 0, H, 1, 1); near_from(&b, "email", 1, M, 1, 1); if (with_uri) near_from(&b, "uri", 0, u, 0, 1); near_from(&b, "ip", 2, t, 1, 1); near_from(&b, "cn", 0, CN, 0, 1);
}
static void build_workload(void)
{
    /* fixed grid (identical for every seed): hosts of 1-4 labels with digits and hyphens, e-mail, IPv4 of every textual length 7..15 */
    static const char *hosts[] = { "localhost", "example.com", "www.example.com", "a.b.example.com", "xn--bcher-kva.example", "host-7.sub.example.org", "www2.example.co.uk", "s3.eu.cloud.example.net" };
    static const char *mails[] = { "user@example.com", "First.Last@mail.example.org", "a@b.example" };
    static const unsigned char ips[][4] = { { 1, 1, 1, 1 }, { 10, 1, 1, 1 }, { 10, 10, 1, 1 }, { 10, 10, 10, 1 }, { 10, 10, 10, 10 }, { 192, 10, 10, 10 }, { 192, 168, 10, 12 }, { 192, 168, 100, 12 }, { 192, 168, 100, 123 },
                                            { 8, 8, 8, 8 }, { 127, 0, 0, 1 }, { 255, 255, 255, 255 }, { 0, 0, 0, 0 }, { 172, 16, 254, 1 }, { 100, 100, 100, 100 }, { 203, 0, 113, 9 } };
    shape_budget = vf_thorough ? NSHAPE - 1 : 2;
    for (size_t i = 0; i < sizeof hosts / sizeof *hosts; i++) host_cases(hosts[i]);
    for (size_t i = 0; i < sizeof mails / sizeof *mails; i++) email_cases(mails[i]);
    for (size_t i = 0; i < sizeof ips / sizeof *ips; i++) ip_cases(ips[i]);
    /* seeded part: same classes, names drawn from the grammar */
    int extra_hosts = vf_thorough ? 40 : 6, extra_mails = vf_thorough ? 20 : 2, extra_ips = vf_thorough ? 150 : 6;
    vf_rng_init(&G, vf_seed, 0xc05);
    for (int i = 0; i < extra_hosts; i++) { char E[64], l[24]; int n = 1 + (i % 4); E[0] = 0; for (int j = 0; j < n; j++) { rand_label(l, j == n - 1 ? 2 : 1, 10); if (j) strcat(E, "."); strcat(E, l); }
                                           if (E[strlen(E) - 1] == '-' ) E[strlen(E) - 1] = 'z'; host_cases(E); if (i < (vf_thorough ? 16 : 4)) near_host(E, vf_thorough); }
    for (int i = 0; i < extra_mails; i++) { char E[64], a[24], b[24], c[24]; rand_label(a, 1, 8); rand_label(b, 2, 8); rand_label(c, 2, 4); if (a[0] >= '0' && a[0] <= '9') a[0] = 'm'; snprintf(E, sizeof E, "%s@%s.%s", a, b, c); email_cases(E); if (i < (vf_thorough ? 8 : 2)) near_mail(E); }
    for (int i = 0; i < extra_ips; i++) { unsigned char o[4]; for (int j = 0; j < 4; j++) { int d = 1 + (int) vf_below(&G, 3); o[j] = (unsigned char) (d == 1 ? vf_below(&G, 10) : d == 2 ? 10 + vf_below(&G, 90) : 100 + vf_below(&G, 156)); } ip_cases(o);
                                          if (i < (vf_thorough ? 24 : 4)) near_ip(o); }
    /* near misses of the same names (fixed grid + the seeded ones above) */
    for (size_t i = 0; i < sizeof hosts / sizeof *hosts; i++) near_host(hosts[i], vf_thorough || i % 3 == 1);
    for (size_t i = 0; i < sizeof mails / sizeof *mails; i++) near_mail(mails[i]);
    for (size_t i = 0; i < sizeof ips / sizeof *ips; i++) if (vf_thorough || i < 9) near_ip(ips[i]);          /* textual lengths 7..15 */
    for (size_t i = 0; i < (vf_thorough ? 8 : 2); i++) near_mixed(hosts[(i + 1) % 8], mails[i % 3], ips[(i * 5 + 6) % 16], hosts[(i + 4) % 8]);
    /* positive controls of the client-session path: plain positive forms on single-entry / CN-only certificates must complete (default options in both versions + the specific type) */
    { long q = 0; for (long i = 0; i < ncases; i++) { ccase *c = &CASES[i];
        if (!c->canonical || c->nian || c->nsan > 1 || (c->nsan == 1 && c->ncn)) continue;
        if (!vf_thorough && (q++ % 6)) continue;
        c->sess = (1 << 0) | (1 << 8) | (1 << (((q >> 1) & 1) * 8 + (c->kindE == 1 ? 4 : c->kindE == 2 ? 5 : c->nsan ? 3 : 2))); } }
}

typedef struct { long from, to; const long *idx; int sample; } batch_t;
static void run_batch(void *arg) { batch_t *b = arg; for (long i = b->from; i < b->to; i++) { g_sample = b->sample && (i - b->from) % 13 == 5; run_case(&CASES[b->idx[i]]); } }
static void run_one(void *arg) { run_case((const ccase *) arg); }

/* --case: vf_fork_case leaves the child's stderr alone in replay mode, so a sanitizer report would not reach the crash record and the key would degrade to
 * crash:<cls>:exit-N.  Run the case once with stderr captured (records, correct keys), then - with -v - once more uncaptured and unrecorded for the human reader. */
static void replay_one(void *c, const char *cls)
{
    const char *spec = vf_case; vf_case = NULL;
    vf_fork_case(run_one, c, cls, spec, 120);
    vf_case = spec;
    if (vf_flag("-v")) { int out = vf_outfd; vf_outfd = open("/dev/null", O_WRONLY); vf_fork_case(run_one, c, cls, spec, 120); close(vf_outfd); vf_outfd = out; }
}

int main(int argc, char **argv)
{
    vf_init(argc, argv);
    if (matrixSslOpen() < 0) { fprintf(stderr, "matrixSslOpen failed\n"); return 2; }
    NOW = mx_now;
    RK = cg_key_get(CG_K_ED25519, 0); LK = cg_key_get(CG_K_ED25519, 1);
    cg_spec_ca(&RS, "Verif C05", "C05 Root", RK, NULL, NULL, NOW, -1);
    if (cg_make_cert(&RS, &RC) < 0) return 2;
    { char *pem = cg_pem("CERTIFICATE", RC.der, RC.len); if (psX509ParseCertData(NULL, (unsigned char *) pem, strlen(pem), &ROOT, CERT_STORE_DN_BUFFER | CERT_ALLOW_BUNDLE_PARTIAL_PARSE) <= 0 || !ROOT) { fprintf(stderr, "root does not load\n"); return 2; } free(pem); }
    LK2 = cg_key_get(CG_K_P256, 0); RK2 = cg_key_get(CG_K_P256, 1); mx_entropy_seed(vf_seed);
    cg_spec_ca(&RS2, "Verif C05", "C05 Root P-256", RK2, NULL, NULL, NOW, -1);
    if (cg_make_cert(&RS2, &RC2) < 0) return 2;
    { char *p1 = cg_pem("CERTIFICATE", RC.der, RC.len), *p2 = cg_pem("CERTIFICATE", RC2.der, RC2.len); size_t a = strlen(p1), b = strlen(p2); char *pem = malloc(a + b + 1); memcpy(pem, p1, a); memcpy(pem + a, p2, b + 1);
      if (matrixSslNewKeys(&TRUST, NULL) < 0 || matrixSslLoadKeysMem(TRUST, NULL, 0, NULL, 0, (unsigned char *) pem, (int32) (a + b), NULL) < 0) { fprintf(stderr, "trust anchors do not load\n"); return 2; } free(pem); free(p1); free(p2); }
    if (vf_case) {
        g_replay = 1;
        ccase c; if (spec_parse(vf_case, &c) < 0) { vf_incon("unparsable case spec: %s", vf_case); vf_flush(); return 2; }
        replay_one(&c, "c05");
    } else {
        build_workload();
        long *mine = malloc((ncases + 1) * sizeof *mine), nm = 0;
        for (long i = 0; i < ncases; i++) if (vf_mine(i)) mine[nm++] = i;
        if (vf_shard == 0) vf_stat("workload_cert_cases_total", ncases);
        const long B = 48; char spec[1400];
        for (long j = 0; j < nm; j += B) {
            batch_t b = { j, j + B < nm ? j + B : nm, mine, (vf_shard == 2 || vf_shard == 11 || vf_nshards == 1) && (j / B) % 5 == 1 && j / B < 20 };
            spec_str(&CASES[mine[j]], spec, sizeof spec);
            int out = vf_outfd; char tmpl[] = "/dev/shm/c05bXXXXXX"; int tfd = mkstemp(tmpl);
            if (tfd < 0) { vf_incon("mkstemp failed"); break; }
            unlink(tmpl);
            /* records of the batch go to a scratch file; when the child dies the batch is re-run one case per child so that the crash is attributed to exactly one case */
            vf_outfd = tfd; int rcb = vf_fork_case(run_batch, &b, "c05-batch", spec, 600); vf_outfd = out;
            if (rcb == 0) { char buf[65536]; ssize_t n; lseek(tfd, 0, SEEK_SET); while ((n = read(tfd, buf, sizeof buf)) > 0) vf_write(buf, n); }
            close(tfd);
            if (rcb != 0) for (long i = b.from; i < b.to; i++) { spec_str(&CASES[mine[i]], spec, sizeof spec); vf_fork_case(run_one, &CASES[mine[i]], "c05", spec, 120); }
        }
        free(mine); free(CASES);
    }
    matrixSslDeleteKeys(TRUST); psX509FreeCert(ROOT); cg_cert_free(&RC); cg_cert_free(&RC2);
    vf_flush(); matrixSslClose();
    return 0;
}
