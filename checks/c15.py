import vflib
WRAPS = ("psGetEntropy", "gettimeofday", "time", "clock_gettime")
def run(ctx):
    st = [dict(variant="asan", name="c15", sources=["checks/c15_dead.c", "harness/mx_wraps.c"], wraps=WRAPS, libs=["-lcrypto"],
               shards=vflib.NCPU, timeout=7200 if ctx.thorough else 1200, replay_filter=lambda c: c.startswith("scn=")),
          dict(variant="asan", name="c15f", sources=["checks/c15_fields.c", "harness/mx_wraps.c"], wraps=WRAPS, libs=["-lcrypto"],
               shards=vflib.NCPU, timeout=3600 if ctx.thorough else 900, replay_filter=lambda c: c.startswith("fld=") or c.startswith("skip="))]
    rule = ("Each case = (scenario, role, cut point, error event, continuation) on a fork()ed clone of the live connection. Events: inbound alerts - plaintext, and authentic ones "
            "sealed with the peer's keys where the connection is protected - for every description at level fatal AND level warning (quick: 10/20/40/47/80 at both levels, "
            "user_canceled, no_renegotiation and an unassigned description at warning level, close_notify at both levels; thorough: every assigned description at both levels "
            "plus level bytes 0/3/255), judged against a per-version reference table of what must end the session (TLS 1.3: every alert except user_canceled, whatever the level "
            "byte, RFC 8446 6; TLS <= 1.2 and DTLS: level fatal, and close_notify at any level); corrupted / oversize / wrong-version records, illegal handshake message, a genuine "
            "protected fatal alert or close_notify from the peer, authentic illegal handshake messages / content types; DTLS datagrams that end before the record they announce does "
            "(inside the header, right behind the header, mid-body, one byte short, second record of a datagram cut short); send-side calls that must fail (oversize for the PMTU, "
            "EncodeWritebuf beyond the reserved space / with a negative length, NULL buffer). Continuations: the peer's next honest records, the original of the damaged record, an "
            "older record, garbage, a fresh ClientHello, an application encode, full honest pumping (the peer keeps sending valid records, also behind its close_notify), drain loops. "
            "After a recognised event: no APP_DATA, encode fails, no output beyond the alert, receive calls report error/close. Events that must be fatal but were not recognised "
            "are reported at the event (protocol-error-not-fatal; library-fatal-error-not-fatal for the DTLS truncation entry). "
            "Second stage (c15_fields.c, TLS 1.3, 'no error path reports success' at field level): (a) the genuine ClientHello / ServerHello - in HelloRetryRequest handshakes ClientHello1, HelloRetryRequest, ClientHello2 and ServerHello - of 11 key-exchange group "
            "configurations (matrixSslSessOptsSetKeyExGroups: secp256r1, secp384r1, secp521r1, x25519, ffdhe2048, two shares, server using the second share, library default, "
            "x25519 -> secp256r1 and secp256r1 -> x25519 retries; thorough: 17 configurations, all three suites) with ONE field edited and every enclosing length kept consistent: each key_share entry one byte short / long, empty, one byte, half, doubled, "
            "of another group's length, all-zero, all-ones, declared length +-1, client_shares length +-1, the extension cut by one byte / in half / emptied, and every other extension cut "
            "by one byte / in half / emptied; a by-construction table says which edits cannot be anything but an error (wrong size of the share the receiver has to use, vectors below "
            "their minimum, lengths running past the extension, truncated supported_versions / supported_groups / signature_algorithms): those must be answered by a fatal error "
            "(protocol-error-not-fatal otherwise), and after any recognised error the genuine original, honest pumping with application data, an application encode and a fresh "
            "ClientHello must all be refused. (b) early-data skip budget: servers with tls13SessionMaxEarlyData L in {0, 1, 40, 100, 1000, 16383, 16384} (thorough: 17 limits, 3 suites) "
            "that reject the announced early data (external PSK unknown to the server with crafted undecryptable records or the client's genuine early data; early_data extension "
            "appended to a PSK-less hello; none announced = no budget) x 14 record-length sequences (total == L then one more byte, L + 1 at once, L - 1 + 1 + 1, empty payloads, thirds, "
            "seeded random sizes, a full 16 KiB record, records of 1..17 bytes that cannot hold a tag between full-budget records): reference model 'a record of length n counts "
            "max(0, n - 17); skipped only while the total stays <= L' - a skipped record beyond L is reported (skip-budget-exceeded), the first refused record must be followed by "
            "refusal of a further record, of the client's genuine Finished flight, of honest pumping and of an encode; sequences within the budget must let the genuine handshake "
            "complete (control, inconclusive otherwise). "
            "distinct_nontrivial counts distinct (version, scenario, role, cut, state, event, continuation) tuples whose event the endpoint recognised as an error, plus the distinct field / skip cases.")
    return vflib.std_run(ctx, st, "exploration", rule,
        ["events the endpoint does not treat as errors (DTLS silently dropping a bad datagram, warning-level alerts in TLS <= 1.2, a DTLS datagram shorter than a record header, "
         "send-side argument / limit errors that leave the session usable) are counted but not judged here (C02 / C16 judge modified and lost records)",
         "DTLS truncated datagram with a complete record header: RFC 6347 4.1.2.7 allows silent discard as well as a fatal alert; the library defines it as fatal (illegal_parameter) in "
         "every state, like every other damaged DTLS record, and the property statement tolerates undecryptable records only while a TLS 1.3 server skips rejected early data - so the "
         "check asserts that this library-defined fatal error stays fatal (key c15:library-fatal-error-not-fatal:*); a deliberate move to silent discard must change this table entry",
         "received user_canceled (TLS 1.3) and warning-level alerts other than close_notify (TLS <= 1.2, DTLS) may be ignored or may end the session: not asserted either way",
         "sending close_notify locally is not treated as death (the statement lists received close_notify only)",
         "field stage: edits outside the must-fail table (finite-field shares shorter than the prime - a left-padded integer read as the same number -, a share of a group the server does "
         "not use, client_shares one byte shorter than its content, extensions the endpoint need not parse) are exercised; the stays-dead clauses apply when the library fails on them, "
         "accepting them is not judged here",
         "skip budget: a record counts its length minus tag and content-type byte (what the server can know without the key); records of length <= 17 count 0, so an unlimited number of them "
         "is within any budget; whether a record too short to carry a tag is refused at once is not asserted (only that it never refunds budget)"], min_nontrivial=500)
