/* C04, stage 2 - keyless TLS 1.3 attacker grid.
 *
 * The attacker plays the server against a real MatrixSSL TLS 1.3 client.  It holds NO certificate private key, NO PSK
 * and NO session secret; everything it sends is computed from public values with libcrypto only: (EC)DHE against the
 * client's own key share (x25519 / P-256 / P-384), the RFC 8446 key schedule with PSK input = 0 (HKDF-SHA256),
 * AES-128-GCM record protection (suite 0x1301).  Every Finished is correct for the transcript the client saw.
 *
 *   victim states   fresh (no PSK) | resumption ticket from an honest priming connection | the same with early data
 *                   enabled (client writes 0-RTT data) | external TLS 1.3 PSK unknown to the attacker
 *                   x {no certificate callback, strict callback}
 *   script          first flight {none, HelloRetryRequest for the same / another group with {nothing, a bogus
 *                   pre_shared_key extension, a cookie}}
 *                   x ServerHello pre_shared_key {absent, selected_identity 0, 1, 65535}
 *                   x ServerHello key_share {present, absent (psk_ke: the (EC)DHE input becomes 0 as well)}
 *                   x EncryptedExtensions {empty, early_data (early state only)}
 *                   x tail {Finished | Certificate+Finished | Certificate+CertificateVerify(random / zero signature)+
 *                     Finished | CertificateRequest+Finished | ...}
 *                   then one application_data record "INJECTED" under the attacker's application traffic keys.
 *   oracle          the client never reports handshake completion and never delivers application data.
 *   controls        per state the 'attacker' is handed the real server key and sends the legal flight (with and without a
 *                   legal HelloRetryRequest, RSA-PSS and ECDSA CertificateVerify): that MUST complete and deliver the
 *                   record, otherwise the attacker's own crypto is off and silence would mean nothing. */
#include "mx.h"
#include <openssl/evp.h>
#include <openssl/hmac.h>
#include <openssl/ec.h>
#include <openssl/ecdh.h>
#include <openssl/bn.h>
#include <openssl/pem.h>
#include <openssl/x509.h>
#include <openssl/rsa.h>

typedef unsigned char u8;

/* ------------------------------------------------------------------ independent TLS 1.3 primitives (RFC 8446 7.1, 5.2, 5.3) */
typedef struct { int id; const char *name; int hl, kl, chacha; } suite_t;
static const suite_t suites[] = { { 0x1301, "aes128gcm-sha256", 32, 16, 0 }, { 0x1302, "aes256gcm-sha384", 48, 32, 0 }, { 0x1303, "chacha20poly1305-sha256", 32, 32, 1 } };
#define NSUITES 3
static const suite_t *SU = &suites[0];                        /* the suite the attacker's ServerHello selects: fixes hash and AEAD of everything below */
#define HL (SU->hl)
#define HMAX 48
static const EVP_MD *md_of(int hl) { return hl == 48 ? EVP_sha384() : EVP_sha256(); }
static void thash(const u8 *d, size_t n, u8 *out) { unsigned int l = HMAX; EVP_Digest(d, n, out, &l, md_of(HL), NULL); }
static void hmac_md(int hl, const u8 *k, size_t kl, const u8 *d, size_t dl, u8 *out) { unsigned int l = HMAX; HMAC(md_of(hl), k, (int) kl, d, dl, out, &l); }
static void thmac(const u8 *k, size_t kl, const u8 *d, size_t dl, u8 *out) { hmac_md(HL, k, kl, d, dl, out); }
static void hkdf_label(const u8 *secret, const char *label, const u8 *ctx, size_t ctxl, u8 *out, size_t outl)
{
    u8 info[160], t[HMAX]; size_t n = 0, ll = strlen(label);
    info[n++] = (u8) (outl >> 8); info[n++] = (u8) outl; info[n++] = (u8) (6 + ll); memcpy(info + n, "tls13 ", 6); n += 6; memcpy(info + n, label, ll); n += ll;
    info[n++] = (u8) ctxl; if (ctxl) { memcpy(info + n, ctx, ctxl); n += ctxl; }
    info[n++] = 1;                                            /* one HKDF-Expand block: outl <= hash length */
    thmac(secret, HL, info, n, t); memcpy(out, t, outl);
}
static void derive_secret(const u8 *secret, const char *label, const u8 *msgs, size_t ml, u8 *out) { u8 h[HMAX]; thash(msgs, ml, h); hkdf_label(secret, label, h, HL, out, HL); }
typedef struct { u8 key[32], iv[12]; unsigned long long seq; } tkeys_t;
static void traffic_keys(const u8 *secret, tkeys_t *k) { hkdf_label(secret, "key", NULL, 0, k->key, SU->kl); hkdf_label(secret, "iv", NULL, 0, k->iv, 12); k->seq = 0; }
/* protect one TLSInnerPlaintext; returns the record length */
static int protect(tkeys_t *k, u8 innerType, const u8 *pt, int ptl, u8 *out)
{
    EVP_CIPHER_CTX *c = EVP_CIPHER_CTX_new(); u8 nonce[12]; static u8 inner[20000]; int l, total = ptl + 1 + 16;
    memcpy(inner, pt, ptl); inner[ptl] = innerType; memcpy(nonce, k->iv, 12);
    for (int i = 0; i < 8; i++) nonce[11 - i] ^= (u8) (k->seq >> (8 * i));
    k->seq++;
    out[0] = 23; out[1] = 3; out[2] = 3; out[3] = (u8) (total >> 8); out[4] = (u8) total;
    EVP_EncryptInit_ex(c, SU->chacha ? EVP_chacha20_poly1305() : SU->kl == 32 ? EVP_aes_256_gcm() : EVP_aes_128_gcm(), NULL, NULL, NULL); EVP_CIPHER_CTX_ctrl(c, EVP_CTRL_AEAD_SET_IVLEN, 12, NULL); EVP_EncryptInit_ex(c, NULL, NULL, k->key, nonce);
    EVP_EncryptUpdate(c, NULL, &l, out, 5); EVP_EncryptUpdate(c, out + 5, &l, inner, ptl + 1); EVP_EncryptFinal_ex(c, out + 5 + l, &l);
    EVP_CIPHER_CTX_ctrl(c, EVP_CTRL_AEAD_GET_TAG, 16, out + 5 + ptl + 1); EVP_CIPHER_CTX_free(c);
    return 5 + total;
}

/* (EC)DHE against the client's share with an ephemeral key derived from the case PRNG; returns 0 on success */
static int ecdhe(int group, const u8 *peer, int peerl, vf_rng *r, u8 *mypub, int *mypubl, u8 *shared, int *sharedl)
{
    if (group == 0x001d) {
        u8 priv[32]; size_t sl = 32; int ok = 0; vf_fill(r, priv, 32); if (peerl != 32) return -1;
        EVP_PKEY *me = EVP_PKEY_new_raw_private_key(EVP_PKEY_X25519, NULL, priv, 32), *pk = EVP_PKEY_new_raw_public_key(EVP_PKEY_X25519, NULL, peer, 32);
        EVP_PKEY_CTX *px = me ? EVP_PKEY_CTX_new(me, NULL) : NULL;
        if (me && pk && px && EVP_PKEY_get_raw_public_key(me, mypub, &sl) > 0 && EVP_PKEY_derive_init(px) > 0 && EVP_PKEY_derive_set_peer(px, pk) > 0) {
            *mypubl = 32; sl = 32; ok = EVP_PKEY_derive(px, shared, &sl) > 0 && sl == 32; *sharedl = 32; }
        EVP_PKEY_CTX_free(px); EVP_PKEY_free(me); EVP_PKEY_free(pk);
        return ok ? 0 : -1;
    }
    int nid = group == 0x0017 ? NID_X9_62_prime256v1 : group == 0x0018 ? NID_secp384r1 : 0, fl = group == 0x0017 ? 32 : 48; if (!nid) return -1;
    u8 d[48]; vf_fill(r, d, fl); d[0] = 0; d[fl - 1] |= 1;                      /* below the group order, non-zero */
    EC_KEY *k = EC_KEY_new_by_curve_name(nid); const EC_GROUP *g = EC_KEY_get0_group(k); BIGNUM *bn = BN_bin2bn(d, fl, NULL);
    EC_POINT *P = EC_POINT_new(g), *Q = EC_POINT_new(g); int ok = 0;
    if (EC_POINT_mul(g, P, bn, NULL, NULL, NULL) && EC_KEY_set_private_key(k, bn) && EC_KEY_set_public_key(k, P) && EC_POINT_oct2point(g, Q, peer, peerl, NULL)) {
        *mypubl = (int) EC_POINT_point2oct(g, P, POINT_CONVERSION_UNCOMPRESSED, mypub, 200, NULL);
        *sharedl = ECDH_compute_key(shared, fl, Q, k, NULL); ok = *sharedl == fl && *mypubl == 1 + 2 * fl;
    }
    EC_POINT_free(P); EC_POINT_free(Q); BN_free(bn); EC_KEY_free(k);
    return ok ? 0 : -1;
}

/* ------------------------------------------------------------------ the grid */
enum { ST_FRESH = 0, ST_TICKET, ST_EARLY, ST_EXTPSK, ST_N /* states of the main grid */, ST_TICKET384 = ST_N, ST_EXTPSK384, ST_NALL };
static const char *stname[] = { "fresh", "ticket", "ticket+early-data", "external-psk", "ticket-issued-under-sha384-suite", "external-psk-sha384" };
/* what the attacker guesses the client's Early Secret to be (it only has to guess what the client computed) */
enum { SC_STD = 0,        /* RFC 8446 with PSK = 0: HKDF-Extract(0, 0^Hash.length) */
       SC_ZERO_EARLY,     /* an Early Secret buffer that was never derived: all zero, used directly */
       SC_OTHER_HASH,     /* HKDF-Extract(0, 0) computed under the OTHER hash family, truncated / zero-padded to the negotiated length */
       SC_N };
static const char *scname[] = { "standard-psk0", "zero-early-secret", "other-hash-early-secret" };
static const char *cbn[] = { "no-callback", "strict-callback", "callback-returns-minus-1", "callback-returns-minus-2", "callback-returns-int32-min", "callback-returns-another-alert", "callback-returns-255", "allow-anon-callback", "permissive-callback" };
/* certificate callback results (sslCertCb_t: 0 accept, SSL_ALLOW_ANON_CONNECTION accept as anonymous, > 0 alert to send, < 0 internal error); modes 2..6 say "do not continue" */
static int kcb_calls;
static int32 kcb_neg1(ssl_t *s, psX509Cert_t *c, int32 a) { (void) s; (void) c; (void) a; kcb_calls++; return -1; }
static int32 kcb_neg2(ssl_t *s, psX509Cert_t *c, int32 a) { (void) s; (void) c; (void) a; kcb_calls++; return -2; }
static int32 kcb_min(ssl_t *s, psX509Cert_t *c, int32 a) { (void) s; (void) c; (void) a; kcb_calls++; return (int32) (-2147483647 - 1); }
static int32 kcb_alert(ssl_t *s, psX509Cert_t *c, int32 a) { (void) s; (void) c; kcb_calls++; return a == SSL_ALERT_ACCESS_DENIED ? SSL_ALERT_INSUFFICIENT_SECURITY : SSL_ALERT_ACCESS_DENIED; }
static int32 kcb_255(ssl_t *s, psX509Cert_t *c, int32 a) { (void) s; (void) c; (void) a; kcb_calls++; return 255; }
static int32 kcb_anon(ssl_t *s, psX509Cert_t *c, int32 a) { (void) s; (void) c; (void) a; kcb_calls++; return SSL_ALLOW_ANON_CONNECTION; }
static const sslCertCb_t kcb[] = { NULL, mx_cert_cb_strict, kcb_neg1, kcb_neg2, kcb_min, kcb_alert, kcb_255, kcb_anon, mx_cert_cb_accept };
#define KCB_N 9
#define KCB_REFUSES(m) ((m) >= 2 && (m) <= 6)
enum { CL_DEFAULT = 0, CL_X25519, CL_P256, CL_TWO, CL_N };                      /* which key shares the client offers */
static const char *clname[] = { "default-groups", "x25519-share", "p256-share", "two-shares" };
enum { FF_NONE = 0, FF_SAME, FF_SAME_PSK0, FF_SAME_COOKIE, FF_OTHER, FF_OTHER_PSK0, FF_OTHER_COOKIE,
       FF_QUICK_N, FF_OTHER_PSK1 = FF_QUICK_N, FF_OTHER_PSK65535, FF_OTHER_COOKIE_PSK0, FF_SAME_COOKIE_PSK0, FF_N };
static const char *ffname[] = { "no-hrr", "hrr-same-group", "hrr-same-group+psk0", "hrr-same-group+cookie", "hrr-other-group", "hrr-other-group+psk0", "hrr-other-group+cookie",
                                "hrr-other-group+psk1", "hrr-other-group+psk65535", "hrr-other-group+cookie+psk0", "hrr-same-group+cookie+psk0" };
#define FF_IS_HRR(f) ((f) != FF_NONE)
#define FF_IS_SAME(f) ((f) == FF_SAME || (f) == FF_SAME_PSK0 || (f) == FF_SAME_COOKIE || (f) == FF_SAME_COOKIE_PSK0)
static int ff_psk(int f) { return f == FF_SAME_PSK0 || f == FF_OTHER_PSK0 || f == FF_OTHER_COOKIE_PSK0 || f == FF_SAME_COOKIE_PSK0 ? 0 : f == FF_OTHER_PSK1 ? 1 : f == FF_OTHER_PSK65535 ? 65535 : -1; }
static int ff_cookie(int f) { return f == FF_SAME_COOKIE || f == FF_OTHER_COOKIE || f == FF_OTHER_COOKIE_PSK0 || f == FF_SAME_COOKIE_PSK0; }
static const int shpsk_val[] = { -1, 0, 1, 65535, 2, 255, 256 };                 /* -1: extension absent; the first four in the quick tier */
#define SHPSK_QUICK_N 4
#define SHPSK_N 7
enum { T_FIN = 0, T_CERT_FIN, T_CERT_CVRAND_FIN, T_CERT_CVZERO_FIN, T_CR_FIN,
       T_QUICK_N, T_CV_FIN = T_QUICK_N, T_CR_CERT_FIN, T_ECCERT_CVECDSA_FIN, T_EMPTYCERT_FIN, T_CERT_CVEMPTY_FIN, T_N, T_LEGAL_RSA, T_LEGAL_EC };
static const char *tname[] = { "finished", "cert+finished", "cert+cv-random+finished", "cert+cv-zero+finished", "certreq+finished",
                               "cv-random+finished", "certreq+cert+finished", "ec-cert+cv-random-ecdsa+finished", "empty-cert+finished", "cert+cv-empty+finished", "?",
                               "legal:cert+cv-rsa-pss+finished", "legal:ec-cert+cv-ecdsa+finished" };
typedef struct { int st, cb, cl, ff, shpsk /* value or -1 */, ks /* ServerHello key_share present */, ee /* 1: early_data in EncryptedExtensions */, tail, control;
                 int su /* index of the suite the attacker selects */, multi /* 1: the client offers 0x1301, 0x1302 and 0x1303 */, sched; } k13_t;

static u8 certRsa[4096], certEc[4096]; static int certRsaL, certEcL; static EVP_PKEY *keyRsa, *keyEc;
static sslSessionId_t *sids[ST_NALL]; static sslKeys_t *extpskKeys, *extpsk384Keys;
static char cur_desc[400];
static const char INJECT[] = "INJECTED";

static int load_der(const char *path, u8 *out, int cap) { FILE *f = fopen(path, "r"); if (!f) return -1; X509 *x = PEM_read_X509(f, NULL, NULL, NULL); fclose(f); if (!x) return -1;
    int l = i2d_X509(x, NULL); if (l <= 0 || l > cap) { X509_free(x); return -1; } u8 *p = out; i2d_X509(x, &p); X509_free(x); return l; }
static EVP_PKEY *load_key(const char *path) { FILE *f = fopen(path, "r"); if (!f) return NULL; EVP_PKEY *k = PEM_read_PrivateKey(f, NULL, NULL, NULL); fclose(f); return k; }

/* honest priming connection: the client obtains a TLS 1.3 resumption PSK (NewSessionTicket) from the real MatrixSSL server */
static int prime(sslSessionId_t *sid, int early, int suite)
{
    mx_cfg c = { .ver = MX_TLS13, .suite = (uint16_t) suite, .earlyData = early ? 16384 : 0 }; mx_conn k;
    if (mx_conn_open(&k, &c, sid) != 0) return -1;
    mx_conn_run(&k, NULL, NULL, 300); int ok = mx_conn_established(&k);
    if (ok) { u8 p[32]; mx_payload(p, 32, 0x0c04, 1, 1); mx_send(&k.s, p, 32); mx_conn_run(&k, NULL, NULL, 50); ok = k.c.gotlen == 32; }
    mx_conn_close(&k);
    return ok && sid->psk ? 0 : -1;
}

/* ---- ClientHello reader ---- */
typedef struct { const u8 *msg; int len; const u8 *sid; int sidl; int nshares; struct { int group; const u8 *pub; int publ; } sh[6]; int groups[24], ngroups; int npsk, early, cookie; } ch_t;
static const u8 *find_hs(const u8 *f, int n, u8 type, int *hl)
{
    int off = 0;
    while (off + 5 <= n) { int rl = (f[off + 3] << 8) | f[off + 4]; if (off + 5 + rl > n) return NULL;
        if (f[off] == 22 && rl >= 4 && f[off + 5] == type) { *hl = 4 + ((f[off + 6] << 16) | (f[off + 7] << 8) | f[off + 8]); return *hl <= rl ? f + off + 5 : NULL; }
        off += 5 + rl; }
    return NULL;
}
static int ch_parse(const u8 *flight, int n, ch_t *c)
{
    memset(c, 0, sizeof *c); c->msg = find_hs(flight, n, 1, &c->len); if (!c->msg || c->len < 4 + 2 + 32 + 1) return -1;
    const u8 *m = c->msg; int o = 4 + 2 + 32, end;
    c->sidl = m[o]; c->sid = m + o + 1; o += 1 + c->sidl; if (o + 2 > c->len) return -1;
    o += 2 + ((m[o] << 8) | m[o + 1]); if (o + 1 > c->len) return -1;
    o += 1 + m[o]; if (o + 2 > c->len) return -1;
    end = o + 2 + ((m[o] << 8) | m[o + 1]); o += 2; if (end > c->len) return -1;
    while (o + 4 <= end) {
        int t = (m[o] << 8) | m[o + 1], l = (m[o + 2] << 8) | m[o + 3]; const u8 *e = m + o + 4; if (o + 4 + l > end) return -1;
        if (t == 51 && l >= 2) { int p = 2, ll = (e[0] << 8) | e[1]; while (p + 4 <= 2 + ll && p + 4 <= l && c->nshares < 6) { int g = (e[p] << 8) | e[p + 1], kl = (e[p + 2] << 8) | e[p + 3]; if (p + 4 + kl > l) break;
                c->sh[c->nshares].group = g; c->sh[c->nshares].pub = e + p + 4; c->sh[c->nshares].publ = kl; c->nshares++; p += 4 + kl; } }
        else if (t == 10 && l >= 2) { int ll = (e[0] << 8) | e[1]; for (int p = 2; p + 2 <= 2 + ll && p + 2 <= l && c->ngroups < 24; p += 2) c->groups[c->ngroups++] = (e[p] << 8) | e[p + 1]; }
        else if (t == 41 && l >= 2) { int p = 2, ll = (e[0] << 8) | e[1]; while (p + 2 <= 2 + ll && p + 2 <= l) { int il = (e[p] << 8) | e[p + 1]; p += 2 + il + 4; c->npsk++; } }
        else if (t == 42) c->early = 1;
        else if (t == 44) c->cookie = 1;
        o += 4 + l;
    }
    return 0;
}
static int atk_supports(int g) { return g == 0x001d || g == 0x0017 || g == 0x0018; }
static const char *gname(int g) { return g == 0x001d ? "x25519" : g == 0x0017 ? "p256" : g == 0x0018 ? "p384" : "other"; }

static const u8 HRR_RANDOM[32] = { 0xCF, 0x21, 0xAD, 0x74, 0xE5, 0x9A, 0x61, 0x11, 0xBE, 0x1D, 0x8C, 0x02, 0x1E, 0x65, 0xB8, 0x91, 0xC2, 0xA2, 0x11, 0x16, 0x7A, 0xBB, 0x8C, 0x5E, 0x07, 0x9E, 0x09, 0xE2, 0xC8, 0xA8, 0x33, 0x9C };
static int build_hello(u8 *m, const u8 rnd[32], const u8 *sid, int sidl, const u8 *exts, int el)
{
    int n = 4; m[n++] = 3; m[n++] = 3; memcpy(m + n, rnd, 32); n += 32; m[n++] = (u8) sidl; memcpy(m + n, sid, sidl); n += sidl;
    m[n++] = (u8) (SU->id >> 8); m[n++] = (u8) SU->id; m[n++] = 0; m[n++] = (u8) (el >> 8); m[n++] = (u8) el; memcpy(m + n, exts, el); n += el;
    m[0] = 2; m[1] = 0; m[2] = (u8) ((n - 4) >> 8); m[3] = (u8) (n - 4);
    return n;
}
static int hs_hdr(u8 *m, int type, int bodyl) { m[0] = (u8) type; m[1] = (u8) (bodyl >> 16); m[2] = (u8) (bodyl >> 8); m[3] = (u8) bodyl; return 4 + bodyl; }
static int build_cert(u8 *m, const u8 *der, int derl)
{   /* certificate_request_context<0>, CertificateEntry list: cert_data<1..2^24-1>, extensions<0> */
    int n = 4; m[n++] = 0; int ll = der ? 3 + derl + 2 : 0; m[n++] = (u8) (ll >> 16); m[n++] = (u8) (ll >> 8); m[n++] = (u8) ll;
    if (der) { m[n++] = (u8) (derl >> 16); m[n++] = (u8) (derl >> 8); m[n++] = (u8) derl; memcpy(m + n, der, derl); n += derl; m[n++] = 0; m[n++] = 0; }
    return hs_hdr(m, 11, n - 4);
}
static int build_cv(u8 *m, int alg, const u8 *sig, int sl) { int n = 4; m[n++] = (u8) (alg >> 8); m[n++] = (u8) alg; m[n++] = (u8) (sl >> 8); m[n++] = (u8) sl; if (sl) memcpy(m + n, sig, sl); n += sl; return hs_hdr(m, 15, n - 4); }
static int build_cr(u8 *m) { static const u8 b[] = { 0, 0, 12, 0, 13, 0, 8, 0, 6, 0x08, 0x04, 0x04, 0x03, 0x04, 0x01 }; memcpy(m + 4, b, sizeof b); return hs_hdr(m, 13, sizeof b); }
/* a genuine CertificateVerify signature (controls only: this needs the private key the attacker does not have) */
static int sign_cv(EVP_PKEY *key, int pss, const u8 *tr, int trl, u8 *sig)
{
    u8 content[64 + 33 + 1 + HMAX]; memset(content, 0x20, 64); memcpy(content + 64, "TLS 1.3, server CertificateVerify", 33); content[97] = 0; thash(tr, trl, content + 98);
    EVP_MD_CTX *x = EVP_MD_CTX_new(); EVP_PKEY_CTX *px = NULL; size_t sl = 600; int ok = EVP_DigestSignInit(x, &px, EVP_sha256(), NULL, key) > 0;
    if (ok && pss) ok = EVP_PKEY_CTX_set_rsa_padding(px, RSA_PKCS1_PSS_PADDING) > 0 && EVP_PKEY_CTX_set_rsa_pss_saltlen(px, 32) > 0;
    ok = ok && EVP_DigestSign(x, sig, &sl, content, 98 + HL) > 0; EVP_MD_CTX_free(x);
    return ok ? (int) sl : -1;
}

static int wire_alert(const u8 *f, int n) { int off = 0, a = -1; while (off + 5 <= n) { int rl = (f[off + 3] << 8) | f[off + 4]; if (f[off] == 21 && rl == 2 && off + 7 <= n) a = f[off + 6]; off += 5 + rl; } return a; }

static int k13_client(mx_ep *e, const k13_t *k, sslSessionId_t *sid)
{
    mx_cfg cfg = { .ver = MX_TLS13, .suite = 0x1301 }; sslSessOpts_t o; mx_opts(&o, &cfg, MX_CLIENT);
    uint16_t gx[3] = { 0x001d, 0x0017, 0x0018 }, gp[3] = { 0x0017, 0x001d, 0x0018 };
    if (k->cl == CL_X25519) matrixSslSessOptsSetKeyExGroups(&o, gx, 3, 1); else if (k->cl == CL_P256) matrixSslSessOptsSetKeyExGroups(&o, gp, 3, 1); else if (k->cl == CL_TWO) matrixSslSessOptsSetKeyExGroups(&o, gx, 3, 2);
    memset(e, 0, sizeof *e); e->role = MX_CLIENT; e->ver = MX_TLS13; e->id = 0; e->name = "C"; e->sid = sid; psCipher16_t cs[3] = { 0x1301, 0x1302, 0x1303 };
    mx_actor = 0; MX_ENTER();
    int rc = matrixSslNewClientSession(&e->ssl, k->st == ST_EXTPSK ? extpskKeys : k->st == ST_EXTPSK384 ? extpsk384Keys : mx_keys.cli, sid, cs, k->multi ? 3 : 1, kcb[k->cb], NULL, NULL, NULL, &o);
    MX_LEAVE(); e->wantTake = 1;
    return rc < 0 ? rc : 0;
}

static void script_name(const k13_t *k, char *out, size_t cap)
{
    char p[24]; if (k->shpsk < 0) snprintf(p, sizeof p, "absent"); else snprintf(p, sizeof p, "%d", k->shpsk);
    char pre[80] = "", post[48] = ""; if (k->multi) snprintf(pre, sizeof pre, "client-offers-3-suites/attacker-picks-%s/", suites[k->su].name); if (k->sched) snprintf(post, sizeof post, "/guess-%s", scname[k->sched]);
    snprintf(out, cap, "%s%s/%s/sh-psk-%s%s%s/%s%s", pre, clname[k->cl], ffname[k->ff], p, k->ks ? "" : "+no-key-share", k->ee ? "/ee-early-data" : "", tname[k->tail], post);
}

/* the script is played to its end unless the client stops taking input; `stage` is the message after which the client first raised an error */
#define STOPPED() (C.dead || (C.ssl->flags & (SSL_FLAGS_ERROR | SSL_FLAGS_CLOSED)))
#define AT(name) do { if (!STOPPED()) stage = (name); } while (0)
static void run_k13(void *a_)
{
    const k13_t *k = a_; char scr[240]; script_name(k, scr, sizeof scr); SU = &suites[k->su];
    static u8 tr[24000], rec[24000], hs[8000]; int trl = 0, n, o, el; u8 exts[400], srnd[32], h[HMAX], zeros[HMAX] = { 0 };
    u8 early[HMAX], derived[HMAX], hsSecret[HMAX], sHs[HMAX], master[HMAX], sAp[HMAX], finKey[HMAX], verify[HMAX], mypub[200], shared[64]; int mypubl = 0, sharedl = 0;
    tkeys_t kHs, kAp; ch_t ch; mx_ep C; unsigned char *out = NULL; const char *stage = "client-hello"; int alert = -1, crypto_known = 0;
    vf_rng R; vf_rng_init(&R, vf_seed, vf_hash(cur_desc, strlen(cur_desc)));
    vf_stat("cases", 1); vf_stat(k->control == 1 ? "keyless13_controls" : k->control == 3 ? "keyless13_callback_result_cases" : k->control ? "keyless13_probes" : "keyless13_attack_cases", 1);
    if (k13_client(&C, k, k->st == ST_FRESH || k->st == ST_EXTPSK || k->st == ST_EXTPSK384 ? NULL : sids[k->st]) < 0) { vf_incon("keyless13: client session (%s)", cur_desc); return; }
    if (k->st == ST_EARLY) { if (matrixSslGetMaxEarlyData(C.ssl) <= 0) { vf_incon("keyless13: early data not available to the client"); return; } u8 p[48]; mx_payload(p, 48, 0x0c04, 0, 7); if (mx_send(&C, p, 48) < 0) { vf_incon("keyless13: early data refused"); return; } }
    n = mx_take(&C, &out);
    if (ch_parse(out, n, &ch) != 0 || ch.nshares < 1) { vf_incon("keyless13: no parsable ClientHello (%d bytes)", n); return; }
    if ((k->st == ST_FRESH) != (ch.npsk == 0) || (k->st == ST_EARLY) != (ch.early != 0)) { vf_incon("keyless13: client state %s but ClientHello offers %d PSKs, early_data=%d", stname[k->st], ch.npsk, ch.early); return; }
    vf_statf(1, "k13_client_offers_%dpsk_%s%s", ch.npsk, gname(ch.sh[0].group), ch.nshares > 1 ? "+more" : "");
    u8 csid[32]; int csidl = ch.sidl; memcpy(csid, ch.sid, csidl);

    if (FF_IS_HRR(k->ff)) {
        int grp = 0;
        if (FF_IS_SAME(k->ff)) grp = ch.sh[0].group;
        else { static const int pref[3] = { 0x001d, 0x0017, 0x0018 };           /* a group the client supports but sent no share for: x25519, else P-256, else P-384 */
            for (int p = 0; p < 3 && !grp; p++) { int sup = 0, have = 0; for (int i = 0; i < ch.ngroups; i++) sup |= ch.groups[i] == pref[p]; for (int j = 0; j < ch.nshares; j++) have |= ch.sh[j].group == pref[p]; if (sup && !have) grp = pref[p]; } }
        if (!grp) { vf_incon("keyless13: no group to ask for in a HelloRetryRequest"); return; }
        vf_statf(1, "k13_hrr_%s_asks_%s", FF_IS_SAME(k->ff) ? "same" : "other", gname(grp));
        tr[0] = 254; tr[1] = 0; tr[2] = 0; tr[3] = (u8) HL; thash(ch.msg, ch.len, tr + 4); trl = 4 + HL;          /* message_hash(ClientHello1), RFC 8446 4.4.1 */
        el = 0; memcpy(exts + el, "\x00\x2b\x00\x02\x03\x04", 6); el += 6;
        memcpy(exts + el, "\x00\x33\x00\x02", 4); el += 4; exts[el++] = (u8) (grp >> 8); exts[el++] = (u8) grp;
        if (ff_cookie(k->ff)) { memcpy(exts + el, "\x00\x2c\x00\x12\x00\x10", 6); el += 6; vf_fill(&R, exts + el, 16); el += 16; }
        if (ff_psk(k->ff) >= 0) { memcpy(exts + el, "\x00\x29\x00\x02", 4); el += 4; exts[el++] = (u8) (ff_psk(k->ff) >> 8); exts[el++] = (u8) ff_psk(k->ff); }
        o = build_hello(hs, HRR_RANDOM, csid, csidl, exts, el); memcpy(tr + trl, hs, o); trl += o;
        rec[0] = 22; rec[1] = 3; rec[2] = 3; rec[3] = (u8) (o >> 8); rec[4] = (u8) o; memcpy(rec + 5, hs, o);
        AT("hello-retry-request"); mx_feed(&C, rec, 5 + o);
        free(out); out = NULL; n = mx_take(&C, &out); if (wire_alert(out, n) >= 0) alert = wire_alert(out, n);
        if (C.dead || ch_parse(out, n, &ch) != 0 || ch.nshares < 1) goto verdict;                          /* the client refused the HelloRetryRequest */
        if (ff_cookie(k->ff) && !ch.cookie) vf_stat("k13_cookie_not_echoed", 1);
        memcpy(tr + trl, ch.msg, ch.len); trl += ch.len; csidl = ch.sidl; memcpy(csid, ch.sid, csidl);
        AT("client-hello-2");
    } else { memcpy(tr, ch.msg, ch.len); trl = ch.len; }

    /* ServerHello */
    if (!atk_supports(ch.sh[0].group) || ecdhe(ch.sh[0].group, ch.sh[0].pub, ch.sh[0].publ, &R, mypub, &mypubl, shared, &sharedl) != 0) { vf_statf(1, "k13_unusable_client_share_%s", gname(ch.sh[0].group)); goto verdict; }
    vf_fill(&R, srnd, 32); srnd[31] |= 1;
    el = 0; memcpy(exts + el, "\x00\x2b\x00\x02\x03\x04", 6); el += 6;
    if (k->ks) { exts[el++] = 0; exts[el++] = 0x33; exts[el++] = 0; exts[el++] = (u8) (4 + mypubl); exts[el++] = (u8) (ch.sh[0].group >> 8); exts[el++] = (u8) ch.sh[0].group; exts[el++] = 0; exts[el++] = (u8) mypubl; memcpy(exts + el, mypub, mypubl); el += mypubl; }
    if (k->shpsk >= 0) { memcpy(exts + el, "\x00\x29\x00\x02", 4); el += 4; exts[el++] = (u8) (k->shpsk >> 8); exts[el++] = (u8) k->shpsk; }
    o = build_hello(hs, srnd, csid, csidl, exts, el); memcpy(tr + trl, hs, o); trl += o;
    rec[0] = 22; rec[1] = 3; rec[2] = 3; rec[3] = (u8) (o >> 8); rec[4] = (u8) o; memcpy(rec + 5, hs, o);
    AT("server-hello"); mx_feed(&C, rec, 5 + o); if (C.dead) goto verdict;

    /* key schedule with PSK = 0 (and (EC)DHE = 0 when the ServerHello carries no key_share): nothing secret is needed */
    if (k->sched == SC_ZERO_EARLY) memset(early, 0, HMAX);
    else if (k->sched == SC_OTHER_HASH) { int ol = HL == 48 ? 32 : 48; memset(early, 0, HMAX); u8 t[HMAX]; hmac_md(ol, zeros, ol, zeros, ol, t); memcpy(early, t, ol < HL ? ol : HL); }
    else thmac(zeros, HL, zeros, HL, early);
    derive_secret(early, "derived", NULL, 0, derived);
    if (k->ks) thmac(derived, HL, shared, sharedl, hsSecret); else thmac(derived, HL, zeros, HL, hsSecret);
    derive_secret(hsSecret, "s hs traffic", tr, trl, sHs); traffic_keys(sHs, &kHs);
    /* the client derived the same secrets iff it did not mix in a PSK of its own: known by construction for a client without any PSK */
    crypto_known = k->st == ST_FRESH && k->ks && k->sched == SC_STD;

#define SEND_HS(len, name) do { memcpy(tr + trl, hs, (len)); trl += (len); n = protect(&kHs, 22, hs, (len), rec); AT(name); mx_feed(&C, rec, n); if (C.dead) goto verdict; } while (0)
    if (k->ee) { memcpy(hs, "\x08\x00\x00\x06\x00\x04\x00\x2a\x00\x00", 10); SEND_HS(10, "encrypted-extensions"); } else { memcpy(hs, "\x08\x00\x00\x02\x00\x00", 6); SEND_HS(6, "encrypted-extensions"); }
    {
        const u8 *cder = k->tail == T_ECCERT_CVECDSA_FIN || k->tail == T_LEGAL_EC ? certEc : certRsa; int cderl = cder == certEc ? certEcL : certRsaL; u8 sig[600]; int sl;
        if (k->tail == T_CR_FIN || k->tail == T_CR_CERT_FIN) { o = build_cr(hs); SEND_HS(o, "certificate-request"); }
        if (k->tail == T_CERT_FIN || k->tail == T_CERT_CVRAND_FIN || k->tail == T_CERT_CVZERO_FIN || k->tail == T_CR_CERT_FIN || k->tail == T_ECCERT_CVECDSA_FIN || k->tail == T_CERT_CVEMPTY_FIN || k->tail >= T_LEGAL_RSA) { o = build_cert(hs, cder, cderl); SEND_HS(o, "certificate"); }
        if (k->tail == T_EMPTYCERT_FIN) { o = build_cert(hs, NULL, 0); SEND_HS(o, "certificate"); }
        switch (k->tail) {
        case T_CERT_CVRAND_FIN: case T_CV_FIN: vf_fill(&R, sig, 256); sig[0] &= 0x7f; o = build_cv(hs, 0x0804, sig, 256); SEND_HS(o, "certificate-verify"); break;
        case T_CERT_CVZERO_FIN: memset(sig, 0, 256); o = build_cv(hs, 0x0804, sig, 256); SEND_HS(o, "certificate-verify"); break;
        case T_CERT_CVEMPTY_FIN: o = build_cv(hs, 0x0804, sig, 0); SEND_HS(o, "certificate-verify"); break;
        case T_ECCERT_CVECDSA_FIN: { u8 d[72] = { 0x30, 0x44, 0x02, 0x20 }; vf_fill(&R, d + 4, 32); d[4] = (d[4] & 0x7f) | 1; d[36] = 0x02; d[37] = 0x20; vf_fill(&R, d + 38, 32); d[38] = (d[38] & 0x7f) | 1; o = build_cv(hs, 0x0403, d, 70); SEND_HS(o, "certificate-verify"); break; }
        case T_LEGAL_RSA: sl = sign_cv(keyRsa, 1, tr, trl, sig); if (sl < 0) { vf_incon("keyless13: RSA-PSS signing failed"); return; } o = build_cv(hs, 0x0804, sig, sl); SEND_HS(o, "certificate-verify"); break;
        case T_LEGAL_EC: sl = sign_cv(keyEc, 0, tr, trl, sig); if (sl < 0) { vf_incon("keyless13: ECDSA signing failed"); return; } o = build_cv(hs, 0x0403, sig, sl); SEND_HS(o, "certificate-verify"); break;
        default: break; }
    }
    /* Finished: correct for the transcript the client saw, under the attacker's own (PSK = 0) server handshake traffic secret */
    hkdf_label(sHs, "finished", NULL, 0, finKey, HL); thash(tr, trl, h); thmac(finKey, HL, h, HL, verify);
    memcpy(hs + 4, verify, HL); hs_hdr(hs, 20, HL); SEND_HS(4 + HL, "finished");
    free(out); out = NULL; n = mx_take(&C, &out); if (wire_alert(out, n) >= 0) alert = wire_alert(out, n);
    /* application data under the attacker's server application traffic secret (transcript ClientHello..server Finished) */
    derive_secret(hsSecret, "derived", NULL, 0, derived); thmac(derived, HL, zeros, HL, master); derive_secret(master, "s ap traffic", tr, trl, sAp); traffic_keys(sAp, &kAp);
    if (!C.dead) { n = protect(&kAp, 23, (const u8 *) INJECT, sizeof INJECT - 1, rec); AT("application-data"); mx_feed(&C, rec, n); AT("accepted-everything"); }

verdict:
    free(out); out = NULL; if (C.ssl) { n = mx_take(&C, &out); if (alert < 0) alert = wire_alert(out, n); }
    if (alert < 0 && C.ssl && C.ssl->err != SSL_ALERT_NONE) alert = C.ssl->err;
    int done = C.hsDone || (C.ssl && matrixSslHandshakeIsComplete(C.ssl)), data = C.gotlen > 0 || C.nApp > 0;
    if (vf_verbose) fprintf(stderr, "k13 %s: stopped at %s alert=%d done=%d data=%zu psk-offered=%d usingPsk=%d\n", cur_desc, stage, alert, done, C.gotlen, ch.npsk, C.ssl ? (int) C.ssl->sec.tls13UsingPsk : -1);
    if (k->control) {
        int ok = done && C.gotlen == sizeof INJECT - 1 && !memcmp(C.got, INJECT, sizeof INJECT - 1);
        vf_distinct("k13ctl|%s|%s|%s", stname[k->st], cbn[k->cb], scr);
        if (k->control == 3) {   /* the legal flight with the real key, but the client's certificate callback refuses */
            vf_statf(1, "k13_cbresult_%s_%s", cbn[k->cb] + 9, done ? "COMPLETE" : alert == SSL_ALERT_INTERNAL_ERROR ? "internal_error" : alert == SSL_ALERT_ACCESS_DENIED ? "that-alert" : "other-alert");
            if (done || data) { char key[200]; snprintf(key, sizeof key, "c04:completed-although-callback-refused:tls1.3:client-verifies-server:good:%s:real-key-flight", cbn[k->cb]);
                vf_violation(key, cur_desc, "a TLS 1.3 client completed%s although its certificate callback (%s, called %d times) refused; sslCertCb_t: < 0 is a fatal internal error, > 0 is the alert to send", data ? " and delivered data" : "", cbn[k->cb], kcb_calls); }
            else vf_stat("keyless13_callback_refusals_honoured", 1);
        }
        else if (k->control == 2) vf_stat(ok ? "k13_probe_legal_fallback_to_other_hash_family_ok" : "k13_probe_legal_fallback_to_other_hash_family_failed", 1);   /* not C04's business: see main() */
        else if (ok) vf_stat("keyless13_controls_ok", 1);
        else vf_violation("c04:harness:keyless13-control-failed", cur_desc, "the control (same attacker code, but holding the real server key and sending the legal flight %s) did not complete against a %s client with %s: stopped at %s, alert %d, complete=%d, delivered %zu bytes - the attacker's key schedule / record protection is off, the attack cases prove nothing",
                          scr, stname[k->st], cbn[k->cb], stage, alert, done, C.gotlen);
    } else {
        vf_distinct("k13|%s|%s|%s", stname[k->st], cbn[k->cb], scr);
        /* what the client answered, per script class */
        vf_statf(1, "k13_answer_%s_%s_alert%d", k->st == ST_FRESH ? "nopsk" : "psk", tname[k->tail], alert);
        vf_statf(1, "k13_answer_%s_alert%d", ffname[k->ff], alert);
        { char p[40]; if (k->shpsk < 0) snprintf(p, sizeof p, "absent"); else snprintf(p, sizeof p, "%d", k->shpsk); vf_statf(1, "k13_answer_%s_sh-psk-%s%s_alert%d", k->st == ST_FRESH ? "nopsk" : "psk", p, k->ks ? "" : "+no-ks", alert); }
        vf_statf(1, "k13_client_stopped_at_%s", stage);
        if (k->multi) { static const char *sst[] = { "nopsk", "t256", "early", "x256", "t384", "x384" };
            vf_statf(1, "k13_mm_%s_picks-%04x_psk-%s_alert%d", sst[k->st], SU->id, k->shpsk < 0 ? "none" : k->shpsk == 0 ? "0" : "other", alert); }
        if (done || data) {
            char key[400]; snprintf(key, sizeof key, "c04:completed-with-keyless-attacker:tls1.3:%s+%s:%s", stname[k->st], cbn[k->cb], scr);
            vf_violation(key, cur_desc, "a TLS 1.3 client (state %s, %s) %s%s%s with a peer that holds no certificate key, no PSK and no session secret. Script: %s; suite %04x, Early Secret guessed as %s, everything else from public values and the attacker's own (EC)DHE share. ClientHello offered %d PSK identities; client tls13UsingPsk=%d negotiated suite %04x, last alert %d",
                         stname[k->st], cbn[k->cb], done ? "reports a completed handshake" : "", done && data ? " and " : "", data ? "delivered the attacker's application data" : "", scr, SU->id, scname[k->sched], ch.npsk, (int) C.ssl->sec.tls13UsingPsk, C.ssl->cipher ? C.ssl->cipher->ident : 0, alert);
        } else {
            vf_stat("keyless13_refused", 1);
            /* a client that holds no PSK at all must have derived exactly the attacker's secrets: bad_record_mac there means the attacker's crypto is wrong */
            if (crypto_known && alert == SSL_ALERT_BAD_RECORD_MAC)
                vf_violation("c04:harness:keyless13-crypto-mismatch", cur_desc, "a client without any PSK answered the attacker's records with bad_record_mac (stopped at %s): the attacker's key schedule does not match the client's although both are computed from public values", stage);
        }
    }
    free(out); mx_ep_free(&C);
}

static long idx;
static void one(const k13_t *k)
{
    long my = idx++; if (!vf_mine(my)) return;
    char scr[240]; script_name(k, scr, sizeof scr);
    snprintf(cur_desc, sizeof cur_desc, "k13 %s state=%s cb=%s script=%s", k->control == 1 ? "control" : k->control == 3 ? "callback-result" : k->control ? "probe" : "attack", stname[k->st], cbn[k->cb], scr);
    if (vf_case && strcmp(vf_case, cur_desc)) return;
    if (!k->control && my % 211 == 0) vf_sample("%s", cur_desc);
    mx_entropy_seed(vf_seed * 41 + (uint64_t) my);
    vf_fork_case(run_k13, (void *) k, "c04", cur_desc, 120);
}

int main(int argc, char **argv)
{
    vf_init(argc, argv);
    if (vf_case && strncmp(vf_case, "k13 ", 4)) return 0;                        /* a replay of one of stage 1's cases */
    mx_global_init(); mx_keys_load();
    certRsaL = load_der(MX_TK "RSA/2048_RSA.pem", certRsa, sizeof certRsa); certEcL = load_der(MX_TK "EC/256_EC.pem", certEc, sizeof certEc);
    keyRsa = load_key(MX_TK "RSA/2048_RSA_KEY.pem"); keyEc = load_key(MX_TK "EC/256_EC_KEY.pem");
    if (certRsaL < 0 || certEcL < 0 || !keyRsa || !keyEc) { fprintf(stderr, "HARNESS: cannot read the sample certificates\n"); return 2; }
    /* client states, produced once by honest connections before fork()ing (every case starts from a copy of them) */
    mx_entropy_seed(vf_seed * 43 + 5);
    for (int st = ST_TICKET; st <= ST_EARLY; st++) { matrixSslNewSessionId(&sids[st], NULL); if (prime(sids[st], st == ST_EARLY, 0x1301) != 0) { fprintf(stderr, "HARNESS: priming of client state %s failed\n", stname[st]); return 2; } }
    if (sids[ST_EARLY]->psk->params == NULL || sids[ST_EARLY]->psk->params->maxEarlyData == 0) { fprintf(stderr, "HARNESS: the ticket does not allow early data\n"); return 2; }
    mx_load_tls13_psk = 1; extpskKeys = mx_mkkeys(NULL, NULL, mx_ca_both); mx_load_tls13_psk = 0;
    /* PSKs bound to the other hash family: a ticket issued in a TLS_AES_256_GCM_SHA384 session, an external 48-byte PSK (the library takes the length as SHA-384) */
    matrixSslNewSessionId(&sids[ST_TICKET384], NULL); if (prime(sids[ST_TICKET384], 0, 0x1302) != 0) { fprintf(stderr, "HARNESS: priming of client state %s failed\n", stname[ST_TICKET384]); return 2; }
    if (tls13GetPskHashLen(sids[ST_TICKET384]->psk) != 48 || tls13GetPskHashLen(sids[ST_TICKET]->psk) != 32) { fprintf(stderr, "HARNESS: tickets are not bound to the expected hash\n"); return 2; }
    { static const unsigned char id384[] = "mypsksha384"; unsigned char k48[48]; for (int i = 0; i < 48; i++) k48[i] = (unsigned char) (0x51 + 3 * i);
      extpsk384Keys = mx_mkkeys(NULL, NULL, mx_ca_both); if (matrixSslLoadTls13Psk(extpsk384Keys, k48, 48, id384, sizeof id384 - 1, NULL) < 0) { fprintf(stderr, "HARNESS: cannot load a 48-byte external PSK\n"); return 2; } }

    int nff = vf_thorough ? FF_N : FF_QUICK_N, nsp = vf_thorough ? SHPSK_N : SHPSK_QUICK_N, nt = vf_thorough ? T_N : T_QUICK_N, ncl = vf_thorough ? CL_N : 2;
    static const int clq[CL_N] = { CL_DEFAULT, CL_TWO, CL_X25519, CL_P256 };   /* quick: the default share (P-256) and a client offering x25519 + P-256 */
    for (int st = 0; st < ST_N; st++) for (int cb = 0; cb < 2; cb++) {
        /* controls: the legal flight with the real key, with and without a legal HelloRetryRequest */
        for (int cl = 0; cl < ncl; cl++) for (int c = 0; c < 4; c++) { k13_t k = { st, cb, clq[cl], (c & 1) ? FF_OTHER_COOKIE : FF_NONE, -1, 1, 0, (c & 2) ? T_LEGAL_EC : T_LEGAL_RSA, 1 }; one(&k); }
        for (int cl = 0; cl < ncl; cl++) for (int ff = 0; ff < nff; ff++) for (int sp = 0; sp < nsp; sp++) for (int ks = 1; ks >= 0; ks--) for (int ee = 0; ee < (st == ST_EARLY ? 2 : 1); ee++) for (int t = 0; t < nt; t++) {
            if (ee && FF_IS_HRR(ff) && !vf_thorough) continue;                   /* early data is off after a HelloRetryRequest */
            k13_t k = { st, cb, clq[cl], ff, shpsk_val[sp], ks, ee, t, 0 }; one(&k);
        }
    }
    /* the legal flight with the real key against clients whose certificate callback answers outside {0, the alert shown}: refusing values must end the handshake, SSL_ALLOW_ANON_CONNECTION and 0 accept */
    for (int st = ST_FRESH; st <= ST_TICKET; st++) for (int cb = 2; cb < KCB_N; cb++) for (int t = T_LEGAL_RSA; t <= T_LEGAL_EC; t++) { k13_t k = { st, cb, CL_DEFAULT, FF_NONE, -1, 1, 0, t, KCB_REFUSES(cb) ? 3 : 1 }; one(&k); }
    /* PSK hash vs. suite hash: the client offers all three TLS 1.3 suites and holds a PSK bound to SHA-256 or SHA-384 (or none); the attacker's ServerHello picks a suite of
       either hash family, selects identity 0 (or none), and guesses the client's Early Secret three ways.  RFC 8446 4.2.11: the client must abort when the selected PSK's hash is not the suite's. */
    static const int mst[] = { ST_TICKET384, ST_TICKET, ST_EXTPSK384, ST_EXTPSK, ST_FRESH };
    static const int mff_q[] = { FF_NONE }, mff_t[] = { FF_NONE, FF_OTHER, FF_OTHER_PSK0, FF_OTHER_COOKIE }, msp_q[] = { 0, -1 }, msp_t[] = { 0, -1, 1, 65535 }, mt_q[] = { T_FIN, T_CERT_CVRAND_FIN };
    int nmff = vf_thorough ? 4 : 1, nmsp = vf_thorough ? 4 : 2, nmt = vf_thorough ? T_N : 2;
    for (int i = 0; i < 5; i++) for (int cb = 0; cb < (vf_thorough ? 2 : 1); cb++) {
        int st = mst[i];
        /* controls with the real key under each suite.  A client that holds a TICKET of one hash family and meets a (legal) server that declines it and picks a suite of the other family is only probed:
           the unchanged library fails that handshake with bad_record_mac (the client presets ssl->cipher from the session and then keeps a transcript hash for that family only) - an interoperability defect, not an authentication one */
        for (int su = 0; su < NSUITES; su++) for (int h = 0; h < (st == ST_FRESH ? 2 : 1); h++) {
            int probe = (st == ST_TICKET && suites[su].hl != 32) || (st == ST_TICKET384 && suites[su].hl != 48);
            k13_t k = { st, cb, CL_DEFAULT, h ? FF_OTHER_COOKIE : FF_NONE, -1, 1, 0, T_LEGAL_RSA, probe ? 2 : 1, su, 1, SC_STD }; one(&k); }
        for (int su = 0; su < NSUITES; su++) for (int f = 0; f < nmff; f++) for (int sp = 0; sp < nmsp; sp++) for (int ks = 1; ks >= 0; ks--) for (int sc = 0; sc < SC_N; sc++) for (int t = 0; t < nmt; t++) {
            k13_t k = { st, cb, CL_DEFAULT, vf_thorough ? mff_t[f] : mff_q[f], vf_thorough ? msp_t[sp] : msp_q[sp], ks, 0, vf_thorough ? t : mt_q[t], 0, su, 1, sc }; one(&k);
        }
    }
    matrixSslClose(); vf_flush();
    return 0;
}
