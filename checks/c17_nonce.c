/* C17 - no AEAD nonce reuse under a key; CBC IVs fresh per record.
 *
 * Link-time wrappers (--wrap) observe every AEAD key setup and seal (psAesInitGCM / ReadyGCM /
 * ReadyGCMRandomIV / EncryptGCM, psChacha20Poly1305IetfInit / Encrypt), every CBC key setup and
 * encryption (psAesInitCBC / psAesEncryptCBC) and every byte the PRNG hands out.  Online monitor:
 *   - per key (digest of the key bytes) no nonce is used for two different (AAD || plaintext);
 *   - the write sequence number of a TLS endpoint advances by exactly the number of records it
 *     sealed during each API call (never skipped/stalled), and goes back only together with a new
 *     key in the write context (a rewind under the same key makes the next record repeat a nonce);
 *   - the first plaintext block of every CBC record (TLS >= 1.1 explicit IV), or the IV given to
 *     psAesInitCBC for one-shot uses (tickets), is PRNG output drawn after the previous CBC record
 *     of that context and never used before - hence not a function of earlier ciphertext;
 *   - on the wire, a DTLS (epoch, sequence) pair or a TLS 1.2 explicit GCM nonce is either fresh or
 *     the whole record is byte-identical to the earlier one (retransmission). */
#include "mx.h"
#include "crypto/cryptoApi.h"

/* ------------------------------------------------------------------ monitor state ---- */
typedef struct { void *ctx; uint64_t keyid; unsigned char nonce[12]; uint64_t aadh; int ready; long seals, calls; int isenc; uint64_t lastIvSerial; } cx_t;
static cx_t cxs[256]; static int ncx;
typedef struct { uint64_t keyid; unsigned char nonce[12]; uint64_t dig; } seal_t;
static seal_t *seals; static long nseals, capseals;
static long n_aead_seals, n_cbc_records, n_cbc_oneshot, n_reuse_same, n_keys;
static int cur_ver = -1; static const char *cur_suite = "?"; static char cur_desc[200];
/* PRNG taint: every 16-byte block handed out by psGetEntropy, with a serial */
typedef struct { unsigned char b[16]; uint64_t serial; int used; } ent_t;
static ent_t *ents; static long nents, capents; static uint64_t ent_serial;
extern void (*mx_entropy_observer)(const unsigned char *bytes, uint32_t size);

static void report(const char *clause, const char *cipher, const char *fmt, ...)
{
    char key[200], msg[600]; va_list ap; va_start(ap, fmt); vsnprintf(msg, sizeof msg, fmt, ap); va_end(ap);
    snprintf(key, sizeof key, "c17:%s:%s:%s", clause, cipher, cur_ver >= 0 ? mx_vername[cur_ver] : "none");
    vf_violation(key, cur_desc, "%s | suite=%s", msg, cur_suite);
}
static cx_t *cx_of(void *c) { for (int i = 0; i < ncx; i++) if (cxs[i].ctx == c) return &cxs[i]; if (ncx == 256) ncx = 0; memset(&cxs[ncx], 0, sizeof cxs[0]); cxs[ncx].ctx = c; return &cxs[ncx++]; }
static void observe_entropy(const unsigned char *bytes, uint32_t size)
{
    ent_serial++;
    for (uint32_t off = 0; off + 16 <= size || (off == 0 && size >= 8); off += 16) {
        if (nents == capents) { capents = capents ? capents * 2 : 4096; ents = realloc(ents, capents * sizeof *ents); }
        memset(&ents[nents], 0, sizeof ents[0]); memcpy(ents[nents].b, bytes + off, size - off >= 16 ? 16 : size - off); ents[nents].serial = ent_serial; nents++;
        if (size - off < 16) break;
    }
}
static ent_t *find_entropy(const unsigned char *blk, int n) { for (long i = nents - 1; i >= 0; i--) if (!memcmp(ents[i].b, blk, n)) return &ents[i]; return NULL; }
/* (key, nonce) -> seal, open addressing (streams of > 65536 records per key are part of the workload) */
static long *sidx; static long sidxcap;
static uint64_t seal_h(uint64_t keyid, const unsigned char *nonce) { unsigned char b[20]; memcpy(b, &keyid, 8); memcpy(b + 8, nonce, 12); return vf_hash(b, 20); }
static void sidx_put(long i) { uint64_t h = seal_h(seals[i].keyid, seals[i].nonce) & (uint64_t) (sidxcap - 1); while (sidx[h] >= 0) h = (h + 1) & (uint64_t) (sidxcap - 1); sidx[h] = i; }
static void aead_seal(cx_t *x, const char *cipher, const unsigned char *nonce, uint64_t dig)
{
    n_aead_seals++; x->seals++;
    if ((nseals + 1) * 2 > sidxcap) { sidxcap = sidxcap ? sidxcap * 2 : 8192; free(sidx); sidx = malloc(sidxcap * sizeof *sidx); for (long i = 0; i < sidxcap; i++) sidx[i] = -1; for (long i = 0; i < nseals; i++) sidx_put(i); }
    for (uint64_t h = seal_h(x->keyid, nonce) & (uint64_t) (sidxcap - 1); sidx[h] >= 0; h = (h + 1) & (uint64_t) (sidxcap - 1)) { long i = sidx[h];
        if (seals[i].keyid == x->keyid && !memcmp(seals[i].nonce, nonce, 12)) {
            if (seals[i].dig != dig) report("nonce-reuse", cipher, "nonce %02x%02x%02x%02x..%02x%02x used twice under one key for different (AAD || plaintext)", nonce[0], nonce[1], nonce[2], nonce[3], nonce[10], nonce[11]);
            else n_reuse_same++;
            return;
        } }
    if (nseals == capseals) { capseals = capseals ? capseals * 2 : 4096; seals = realloc(seals, capseals * sizeof *seals); }
    seals[nseals].keyid = x->keyid; memcpy(seals[nseals].nonce, nonce, 12); seals[nseals].dig = dig; nseals++;
    sidx_put(nseals - 1);
}

/* ------------------------------------------------------------------ wrappers ---- */
extern int32_t __real_psAesInitGCM(psAesGcm_t *, const unsigned char *, uint8_t);
extern void __real_psAesReadyGCM(psAesGcm_t *, const unsigned char *, const unsigned char *, psSize_t);
extern int32_t __real_psAesReadyGCMRandomIV(psAesGcm_t *, unsigned char *, const unsigned char *, psSize_t, void *);
extern void __real_psAesEncryptGCM(psAesGcm_t *, const unsigned char *, unsigned char *, uint32_t);
extern psRes_t __real_psChacha20Poly1305IetfInit(psChacha20Poly1305Ietf_t *, const unsigned char *);
extern psResSize_t __real_psChacha20Poly1305IetfEncrypt(psChacha20Poly1305Ietf_t *, const unsigned char *, psSizeL_t, const unsigned char *, const unsigned char *, psSizeL_t, unsigned char *);
extern int32_t __real_psAesInitCBC(psAesCbc_t *, const unsigned char *, const unsigned char *, uint8_t, uint32_t);
extern void __real_psAesEncryptCBC(psAesCbc_t *, const unsigned char *, unsigned char *, uint32_t);

int32_t __wrap_psAesInitGCM(psAesGcm_t *c, const unsigned char *k, uint8_t kl) { cx_t *x = cx_of(c); x->keyid = vf_hash(k, kl) ^ 0x6763; x->ready = 0; x->calls = 0; n_keys++; return __real_psAesInitGCM(c, k, kl); }
void __wrap_psAesReadyGCM(psAesGcm_t *c, const unsigned char *iv, const unsigned char *aad, psSize_t al) { cx_t *x = cx_of(c); memcpy(x->nonce, iv, 12); x->aadh = vf_hash(aad, al); x->ready = 1; __real_psAesReadyGCM(c, iv, aad, al); }
int32_t __wrap_psAesReadyGCMRandomIV(psAesGcm_t *c, unsigned char *iv, const unsigned char *aad, psSize_t al, void *p) { int32_t rc = __real_psAesReadyGCMRandomIV(c, iv, aad, al, p); cx_t *x = cx_of(c); memcpy(x->nonce, iv, 12); x->aadh = vf_hash(aad, al); x->ready = 1; return rc; }
void __wrap_psAesEncryptGCM(psAesGcm_t *c, const unsigned char *pt, unsigned char *ct, uint32_t len)
{
    cx_t *x = cx_of(c);
    if (!x->ready) report("seal-without-fresh-nonce", "aes-gcm", "psAesEncryptGCM called again without a new nonce (continuing the previous record's counter stream)");
    aead_seal(x, "aes-gcm", x->nonce, vf_hash(pt, len) * 31 + x->aadh + len);
    x->ready = 0;
    __real_psAesEncryptGCM(c, pt, ct, len);
}
psRes_t __wrap_psChacha20Poly1305IetfInit(psChacha20Poly1305Ietf_t *c, const unsigned char *k) { cx_t *x = cx_of(c); x->keyid = vf_hash(k, 32) ^ 0x6368; x->calls = 0; n_keys++; return __real_psChacha20Poly1305IetfInit(c, k); }
psResSize_t __wrap_psChacha20Poly1305IetfEncrypt(psChacha20Poly1305Ietf_t *c, const unsigned char *pt, psSizeL_t pl, const unsigned char *iv, const unsigned char *aad, psSizeL_t al, unsigned char *ct)
{
    cx_t *x = cx_of(c); aead_seal(x, "chacha20-poly1305", iv, vf_hash(pt, pl) * 31 + vf_hash(aad, al) + pl);
    return __real_psChacha20Poly1305IetfEncrypt(c, pt, pl, iv, aad, al, ct);
}
static unsigned char cbc_init_iv[256][16];
static int cbc_in_record_layer;   /* >0 while the harness is inside an API call of an established/handshaking endpoint */
int32_t __wrap_psAesInitCBC(psAesCbc_t *c, const unsigned char *iv, const unsigned char *k, uint8_t kl, uint32_t flags)
{
    cx_t *x = cx_of(c); x->keyid = vf_hash(k, kl) ^ 0x6362; x->calls = 0; x->isenc = flags == PS_AES_ENCRYPT; memcpy(cbc_init_iv[x - cxs], iv, 16);
    return __real_psAesInitCBC(c, iv, k, kl, flags);
}
   /* set by the harness around API calls of a TLS/DTLS endpoint using a CBC suite */
void __wrap_psAesEncryptCBC(psAesCbc_t *c, const unsigned char *pt, unsigned char *ct, uint32_t len)
{
    /* The record layer writes one block of PRNG output as first plaintext block of every record (explicit IV) and encrypts
       it in a call of its own, followed by one or two calls for the body; one-shot users (tickets) pass a random IV to Init.
       Here: count the record starts that carry a fresh PRNG block; seq_check() compares that count with the number of
       records sealed (sequence-number delta), so a record whose IV is not fresh PRNG output is noticed. */
    cx_t *x = cx_of(c);
    if (vf_verbose > 1) fprintf(stderr, "  CBC enc ctx=%p len=%u entropy_first=%d seals=%ld\n", (void *) c, len, len >= 16 && find_entropy(pt, 16) != NULL, x->seals);
    if (len >= 16) {
        ent_t *e = find_entropy(pt, 16);
        if (e && !e->used) {
            n_cbc_records++; x->seals++;
            if (e->serial <= x->lastIvSerial) report("cbc-iv-drawn-before-previous-record", "aes-cbc", "explicit IV was drawn before the previous record of this context was sealed");
            e->used = 1; x->lastIvSerial = e->serial;
        } else if (e && e->used && len == 16) {
            report("cbc-iv-reused", "aes-cbc", "the random block used as explicit CBC IV had been used for an earlier record");
        } else if (x->calls == 0 && !cbc_in_record_layer) {
            /* first use of a context outside the record layer: the IV given to psAesInitCBC must be fresh PRNG output */
            ent_t *e2 = find_entropy(cbc_init_iv[x - cxs], 16);
            if (!e2) report("cbc-iv-not-fresh-random", "aes-cbc", "one-shot CBC encryption (ticket) with an IV that is not PRNG output");
            else { if (e2->used) report("cbc-iv-reused", "aes-cbc", "the random IV given to psAesInitCBC had been used before"); e2->used = 1; n_cbc_oneshot++; }
        }
    }
    x->calls++;
    __real_psAesEncryptCBC(c, pt, ct, len);
}

/* ------------------------------------------------------------------ workload ---- */
typedef struct { mx_conn k; long lastSeals[2]; unsigned long long lastSeq[2]; int baselined[2]; uint64_t lastKey[2]; int wasSecure[2]; } wl_t;
static unsigned long long seq8(const unsigned char *s) { unsigned long long v = 0; for (int i = 0; i < 8; i++) v = (v << 8) | s[i]; return v; }
static void *enc_ctx(mx_ep *e) { return (void *) &e->ssl->sec.encryptCtx; }
/* sequence accounting across one harness step: delta(seq) == delta(seals) for TLS endpoints once encrypting */
static void seq_check(wl_t *w, const char *when)
{
    for (int r = 0; r < 2; r++) {
        mx_ep *e = r ? &w->k.s : &w->k.c; if (!e->ssl || MX_IS_DTLS(e->ver)) continue;
        cx_t *x = cx_of(enc_ctx(e)); unsigned long long s = seq8(e->ssl->sec.seq); long dseals = x->seals - w->lastSeals[r];
        if (!(e->ssl->flags & SSL_FLAGS_WRITE_SECURE)) { w->lastSeals[r] = x->seals; w->lastSeq[r] = s; w->wasSecure[r] = 0; continue; }
        if (s < w->lastSeq[r]) {                                                               /* sequence restarted: legitimate only together with a new write key */
            if (w->wasSecure[r] && w->baselined[r] && x->keyid == w->lastKey[r])
                report("sequence-rewound-under-same-key", "record-layer", "write sequence number went back %llu -> %llu while the write key stayed the same: the next record repeats a nonce (%s)", w->lastSeq[r], s, when);
            vf_stat("write_key_changes_seen", 1); }
        else if (dseals == 0 && s != w->lastSeq[r]) report("sequence-advanced-without-record", "record-layer", "write sequence number moved %llu -> %llu although no record with a fresh nonce/IV was sealed (%s)", w->lastSeq[r], s, when);
        else if (dseals > 0 && w->baselined[r] && (s - w->lastSeq[r]) != (unsigned long long) dseals)
            report("sequence-not-advanced-per-record", "record-layer", "%ld records sealed (fresh nonce / fresh explicit IV each) but the write sequence number moved %llu -> %llu (%s)", dseals, w->lastSeq[r], s, when);
        w->baselined[r] = 1; w->lastSeals[r] = x->seals; w->lastSeq[r] = s; w->lastKey[r] = x->keyid; w->wasSecure[r] = 1;
    }
}
/* wire-level uniqueness */
typedef struct { uint64_t id; uint64_t h; int off, len; } wire_t; static wire_t wires[2][20000]; static int nwires[2];
static void wire_scan(wl_t *w, int dir, int from)
{
    mx_conn *k = &w->k; int off = from; mx_rec r; int gcm12 = 0; const mx_suite_t *su = mx_suite_by_id(k->cfg.suite);
    if (su && su->aead == 1 && !su->tls13) gcm12 = 1;
    while (mx_rec_at(k->wire[dir], k->wirelen[dir], off, k->dtls, &r)) {
        const unsigned char *p = k->wire[dir] + off; int tot = r.hdr + r.len; uint64_t id = 0; int have = 0;
        if (k->dtls && r.epoch >= 1) { id = ((uint64_t) r.epoch << 48) | r.seq; have = 1; }   /* protected records only: epoch 0 carries no MAC / nonce */
        else if (gcm12 && r.len >= 24 && (p[0] == 23 || p[0] == 21 || (p[0] == 22 && r.len > 8))) { /* only protected records carry an explicit nonce: after CCS */ }
        if (have) {
            uint64_t h = vf_hash(p, tot); int dup = 0;
            for (int i = 0; i < nwires[dir]; i++) if (wires[dir][i].id == id) { dup = 1; if (wires[dir][i].h != h) { const unsigned char *q = k->wire[dir] + wires[dir][i].off; int l0 = wires[dir][i].len, dd = 0; while (dd < l0 && dd < tot && q[dd] == p[dd]) dd++;
                    report("dtls-epoch-seq-reused-for-different-record", "record-layer", "epoch %d seq %llu sent twice with different contents (dir %d): lengths %d/%d, first difference at byte %d, type %d", r.epoch, r.seq, dir, l0, tot, dd, p[0]); } else vf_stat("dtls_identical_retransmissions", 1); break; }
            if (!dup && nwires[dir] < 20000) { wires[dir][nwires[dir]].id = id; wires[dir][nwires[dir]].h = h; wires[dir][nwires[dir]].off = off; wires[dir][nwires[dir]].len = tot; nwires[dir]++; }
        }
        off += tot;
    }
}
static int wl_step_all(wl_t *w, int maxsteps, const char *when)
{
    int n = 0; int w0 = w->k.wirelen[0], w1 = w->k.wirelen[1];
    while (n < maxsteps) { int d = mx_conn_step(&w->k, 0); if (d < 0) break; n++; seq_check(w, when); }
    mx_conn_collect(&w->k); seq_check(w, when);
    (void) w0; (void) w1;
    return n;
}
static void wl_send(wl_t *w, mx_ep *e, int len, int serial) { static unsigned char p[17000]; mx_payload(p, len, 0x0c17, e->role, serial); int rc = mx_send(e, p, len); if (vf_verbose) fprintf(stderr, " send %s len=%d rc=%d\n", e->name, len, rc); seq_check(w, "encode"); }

typedef struct { int ver; uint16_t suite; int resumed, ticket, ca, early; } scn_t;
static void run_scn(void *a_)
{
    const scn_t *s = a_; wl_t W; memset(&W, 0, sizeof W); sslSessionId_t *sid; matrixSslNewSessionId(&sid, NULL);
    const mx_suite_t *su = mx_suite_by_id(s->suite); cur_ver = s->ver; cur_suite = su->name;
    mx_entropy_observer = observe_entropy; nwires[0] = nwires[1] = 0;
    mx_cfg cfg = { .ver = s->ver, .suite = s->suite, .clientAuth = s->ca, .useTicket = s->ticket, .earlyData = s->early ? 16384 : 0 };
    vf_stat("cases", 1);
    for (int round = 0; round < (s->resumed ? 2 : 1); round++) {
        if (mx_conn_open(&W.k, &cfg, sid) != 0) { vf_incon("open failed"); return; }
        memset(W.lastSeals, 0, sizeof W.lastSeals); memset(W.lastSeq, 0, sizeof W.lastSeq); memset(W.baselined, 0, sizeof W.baselined); memset(W.lastKey, 0, sizeof W.lastKey); memset(W.wasSecure, 0, sizeof W.wasSecure); cbc_in_record_layer = 1; nwires[0] = nwires[1] = 0;
        if (round == 1 && s->early && matrixSslGetMaxEarlyData(W.k.c.ssl) > 0) { wl_send(&W, &W.k.c, 200, 500); wl_send(&W, &W.k.c, 1, 501); vf_stat("early_data_connections", 1); }
        if (W.k.dtls) {
            /* handshake in which one whole flight (chosen per scenario/round) is lost once: the waiting side times out
               (matrixDtlsGetOutdata on an idle endpoint, as the reference apps do) and flights are retransmitted */
            int flight = 0, dropped = 0, dropFlight = (s->suite + s->ver + round * 3 + (int) vf_seed) % 7;
            for (int iter = 0; iter < 400 && !mx_conn_established(&W.k); iter++) {
                int b0 = W.k.qlen[0], b1 = W.k.qlen[1];
                mx_conn_collect(&W.k);
                for (int d = 0; d < 2; d++) if (W.k.qlen[d] > (d ? b1 : b0)) { if (flight == dropFlight && !dropped) { W.k.qoff[d] = W.k.qlen[d]; dropped = 1; vf_stat("dtls_flights_dropped", 1); } flight++; }
                int sd = mx_conn_step(&W.k, 0);
                if (vf_verbose) fprintf(stderr, "  dtls iter=%d flight=%d dropped=%d step=%d  C:hs=%d done=%d dead=%d err=%d  S:hs=%d done=%d dead=%d err=%d  q0=%d/%d q1=%d/%d\n", iter, flight, dropped, sd,
                    W.k.c.ssl->hsState, matrixSslHandshakeIsComplete(W.k.c.ssl), W.k.c.dead, W.k.c.ssl->err, W.k.s.ssl->hsState, matrixSslHandshakeIsComplete(W.k.s.ssl), W.k.s.dead, W.k.s.ssl->err, W.k.qoff[0], W.k.qlen[0], W.k.qoff[1], W.k.qlen[1]);
                if (sd >= 0) continue;
                int fired = 0;
                for (int r = 0; r < 2 && !fired; r++) { mx_ep *e = r ? &W.k.s : &W.k.c;
                    if (matrixSslHandshakeIsComplete(e->ssl) || e->dead || (r == 1 && W.k.delivered[0] == 0)) continue;
                    unsigned char *ob; MX_ENTER(); int n = matrixDtlsGetOutdata(e->ssl, &ob); MX_LEAVE();
                    if (vf_verbose) fprintf(stderr, "  timeout on %s -> %d bytes\n", e->name, n);
                    if (n > 0) { e->wantTake = 1; fired = 1; vf_stat("dtls_timeouts_that_resent", 1); } }
                if (!fired) break;
            }
            mx_conn_run(&W.k, NULL, NULL, 100);
        } else if (round == 1 && s->early) {
            /* 0.5-RTT data: a server that accepted early data may write application data after its own Finished and before the
               client's Finished arrives; those records, the NewSessionTicket and everything later share one traffic key */
            int tried = 0;
            for (int st = 0; st < 300; st++) {
                int d = mx_conn_step(&W.k, 0); if (d < 0) break; seq_check(&W, "handshake");
                mx_conn_collect(&W.k);
                if (!tried && d == 0 && !matrixSslHandshakeIsComplete(W.k.s.ssl) && W.k.qlen[1] > W.k.qoff[1] && W.k.qoff[0] >= W.k.qlen[0]) {
                    tried = 1; long before = n_aead_seals;
                    for (int j = 0; j < 3; j++) wl_send(&W, &W.k.s, 64 + j, 700 + j);
                    if (n_aead_seals > before) vf_stat("half_rtt_server_writes", n_aead_seals - before); else vf_stat("half_rtt_writes_refused", 1);
                }
            }
            mx_conn_collect(&W.k); seq_check(&W, "handshake");
        } else wl_step_all(&W, 300, "handshake");
        if (!mx_conn_established(&W.k)) { vf_incon("scenario %s %s did not establish (round %d) [%s]", mx_vername[s->ver], su->name, round, cur_desc); mx_conn_close(&W.k); return; }
        vf_stat("connections", 1);
        /* send mix: sizes incl. empty and maximal, bursts without draining (forces output buffer growth / SSL_FULL retries), interleaved receives */
        static const int sz[] = { 1, 0, 15, 16, 17, 255, 1024, 16384, 1, 16383, 33 };
        int maxl = W.k.dtls ? 1000 : 16384;
        for (int i = 0; i < 11; i++) { int l = sz[i] > maxl ? maxl : sz[i]; wl_send(&W, &W.k.c, l, i); if (i % 3 == 2) wl_step_all(&W, 100, "data"); wl_send(&W, &W.k.s, l ? l : 2, 100 + i); if (i % 4 == 3) wl_step_all(&W, 100, "data"); }
        wl_step_all(&W, 200, "data");
        /* a long stream: more than 256 records per direction under one key (the sequence number crosses a byte boundary) */
        if (round == 0 || vf_thorough) { for (int i = 0; i < 300; i++) { wl_send(&W, &W.k.c, 1 + i % 3, 1000 + i); wl_send(&W, &W.k.s, 1 + i % 2, 2000 + i); if (i % 25 == 24) wl_step_all(&W, 200, "stream"); } wl_step_all(&W, 200, "stream"); vf_stat("long_streams", 1); }
        /* an error on one side: a corrupted record makes the receiver seal an alert; then closure alerts */
        if (round == 0 && !W.k.dtls) {
            wl_send(&W, &W.k.c, 40, 900); mx_conn_collect(&W.k);
            int d = 0; if (W.k.qlen[d] > W.k.qoff[d]) { W.k.q[d][W.k.qlen[d] - 1] ^= 1; wl_step_all(&W, 50, "corrupt"); vf_stat("error_alerts_sealed", 1); }
        } else {
            MX_ENTER(); matrixSslEncodeClosureAlert(W.k.c.ssl); MX_LEAVE(); W.k.c.wantTake = 1; seq_check(&W, "closure"); wl_step_all(&W, 50, "closure");
            MX_ENTER(); matrixSslEncodeClosureAlert(W.k.s.ssl); MX_LEAVE(); W.k.s.wantTake = 1; seq_check(&W, "closure"); wl_step_all(&W, 50, "closure");
        }
        wire_scan(&W, 0, 0); wire_scan(&W, 1, 0);
        mx_conn_close(&W.k);
    }
    matrixSslDeleteSessionId(sid);
    vf_stat("aead_seals", n_aead_seals); vf_stat("cbc_records", n_cbc_records); vf_stat("cbc_oneshot_encryptions", n_cbc_oneshot); vf_stat("aead_keys", n_keys);
    vf_stat("identical_reseals", n_reuse_same); vf_stat("entropy_blocks_tracked", nents);
    vf_distinct("%d|%04x|%d|%d|%d|%d", s->ver, s->suite, s->resumed, s->ticket, s->ca, s->early);
}

/* ------------------------------------------------------------------ very long streams ----
 * More than 65536 records per direction on one connection: the record sequence number (TLS 1.2 explicit nonce / AAD, TLS 1.3
 * per-record nonce, the CBC MAC input) carries out of its low 16 bits under one key.  The receiver is the library too, so a
 * sender/receiver pair that agree on a wrong sequence are only told apart by the monitor (nonce per key, sequence delta). */
typedef struct { int ver; uint16_t suite; int nrec; } lscn_t;
static void wl_reset(wl_t *w);
static void run_long(void *a_)
{
    const lscn_t *s = a_; wl_t W; memset(&W, 0, sizeof W); sslSessionId_t *sid; matrixSslNewSessionId(&sid, NULL);
    const mx_suite_t *su = mx_suite_by_id(s->suite); cur_ver = s->ver; cur_suite = su->name;
    mx_entropy_observer = observe_entropy;
    mx_cfg cfg = { .ver = s->ver, .suite = s->suite };
    vf_stat("cases", 1);
    if (mx_conn_open(&W.k, &cfg, sid) != 0) { vf_incon("open failed"); return; }
    wl_reset(&W); cbc_in_record_layer = 1; nwires[0] = nwires[1] = 0;
    wl_step_all(&W, 300, "handshake");
    if (!mx_conn_established(&W.k)) { vf_incon("long-stream scenario %s %s did not establish [%s]", mx_vername[s->ver], su->name, cur_desc); mx_conn_close(&W.k); return; }
    size_t g0 = W.k.s.gotlen, g1 = W.k.c.gotlen;
    for (int i = 0; i < s->nrec; i++) {
        wl_send(&W, &W.k.c, 1, 5000 + i); wl_send(&W, &W.k.s, 1, 6000 + i);
        if (i % 64 == 63) {
            wl_step_all(&W, 400, "long-stream");
            /* drop what has been delivered: the queues and the wire log are not needed here */
            for (int d = 0; d < 2; d++) if (W.k.qoff[d] == W.k.qlen[d]) { W.k.qoff[d] = W.k.qlen[d] = 0; W.k.wirelen[d] = 0; }
        }
    }
    wl_step_all(&W, 400, "long-stream");
    if (W.k.c.dead || W.k.s.dead) report("long-stream-broken", "record-layer", "the connection died during a stream of %d one-octet records per direction (client dead=%d, server dead=%d)", s->nrec, W.k.c.dead, W.k.s.dead);
    else if (W.k.s.gotlen - g0 != (size_t) s->nrec || W.k.c.gotlen - g1 != (size_t) s->nrec) report("long-stream-broken", "record-layer", "%d one-octet records sent per direction, %zu / %zu octets delivered", s->nrec, W.k.s.gotlen - g0, W.k.c.gotlen - g1);
    vf_stat("very_long_streams", 1); vf_stat("very_long_stream_records", 2L * s->nrec);
    mx_conn_close(&W.k); matrixSslDeleteSessionId(sid);
    vf_stat("aead_seals", n_aead_seals); vf_stat("aead_keys", n_keys);
    vf_distinct("long|%d|%04x", s->ver, s->suite);
}

/* ------------------------------------------------------------------ TLS 1.3 0-RTT corner scenarios ----
 * A client that has written early data keeps the client_early_traffic key as its write key until its second flight.
 * Whatever it protects in between (a closure alert of the application, an alert answering bad input) and whatever
 * happens to its state (HelloRetryRequest, early data rejected or accepted) must not bring a (key, nonce) pair back;
 * likewise for the server's alerts after a HelloRetryRequest / after rejecting or accepting early data. */
enum { Z_HRR_CLOSE, Z_HRR_CLOSE_UNSENT, Z_HRR_BADSH, Z_HRR_UNEXPECTED, Z_HRR_BADFLIGHT, Z_HRR_COMPLETE, Z_HRR_SRV_CLOSE,
       Z_REJ_CLOSE, Z_REJ_BADFLIGHT, Z_REJ_COMPLETE, Z_REJ_SRV_CLOSE,
       Z_ACC_CLOSE, Z_ACC_BADFLIGHT, Z_ACC_SRV_CLOSE, Z_NKIND };
static const char *zname[Z_NKIND] = { "hrr-client-closure", "hrr-client-closure-hello2-unsent", "hrr-client-bad-serverhello", "hrr-client-unexpected-message", "hrr-client-bad-protected-record", "hrr-complete", "hrr-server-closure",
    "rejected-client-closure", "rejected-client-bad-protected-record", "rejected-complete", "rejected-server-closure",
    "accepted-client-closure", "accepted-client-bad-protected-record", "accepted-server-closure" };
typedef struct { uint16_t suite; int kind; } zscn_t;
static void wl_reset(wl_t *w) { memset(w->lastSeals, 0, sizeof w->lastSeals); memset(w->lastSeq, 0, sizeof w->lastSeq); memset(w->baselined, 0, sizeof w->baselined); memset(w->lastKey, 0, sizeof w->lastKey); memset(w->wasSecure, 0, sizeof w->wasSecure); }
/* as mx_conn_open, plus key-exchange groups: the client's only share is for x25519, the server has secp256r1 alone -> HelloRetryRequest */
static int z_open(mx_conn *k, const mx_cfg *cfg, sslSessionId_t *sid, int hrr)
{
    if (!hrr) return mx_conn_open(k, cfg, sid);
    memset(k, 0, sizeof *k); k->cfg = *cfg; k->dtls = 0;
    for (int role = MX_SERVER; role >= MX_CLIENT; role--) {
        sslSessOpts_t o; mx_opts(&o, cfg, role); mx_ep *e = role == MX_SERVER ? &k->s : &k->c; uint16_t gs[1] = { 23 }, gc[2] = { 29, 23 }; int rc;
        if ((role == MX_SERVER ? matrixSslSessOptsSetKeyExGroups(&o, gs, 1, 1) : matrixSslSessOptsSetKeyExGroups(&o, gc, 2, 1)) < 0) return -3;
        memset(e, 0, sizeof *e); e->role = role; e->ver = cfg->ver; e->id = role == MX_SERVER ? 1 : 0; e->name = role == MX_SERVER ? "S" : "C"; mx_actor = e->id;
        psCipher16_t cs[1] = { cfg->suite }; e->sid = role == MX_CLIENT ? sid : NULL; MX_ENTER();
        rc = role == MX_SERVER ? matrixSslNewServerSession(&e->ssl, mx_pick_skeys(cfg), NULL, &o)
                               : matrixSslNewClientSession(&e->ssl, mx_pick_ckeys(cfg), sid, cs, 1, mx_cert_cb_accept, NULL, NULL, NULL, &o);
        MX_LEAVE(); e->wantTake = 1; if (rc < 0) return role == MX_SERVER ? -1 : -2;
    }
    return 0;
}
/* deliver up to `max` pending records of direction d (0 = client -> server); output of the receiver stays inside it until the next collect */
static int z_deliver(wl_t *w, int d, int max, const char *when)
{
    mx_conn *k = &w->k; int n = 0; mx_conn_collect(k); seq_check(w, when);
    while (n < max && k->qoff[d] < k->qlen[d]) {
        mx_rec r; int len = mx_rec_at(k->q[d], k->qlen[d], k->qoff[d], 0, &r) ? r.hdr + r.len : k->qlen[d] - k->qoff[d]; mx_ep *rcv = d == 0 ? &k->s : &k->c;
        if (!rcv->dead) mx_feed(rcv, k->q[d] + k->qoff[d], len);
        k->qoff[d] += len; k->delivered[d]++; n++; seq_check(w, when);
    }
    return n;
}
static void z_closure(wl_t *w, mx_ep *e, const char *when)
{
    long before = n_aead_seals; MX_ENTER(); mx_actor = e->id; int rc = matrixSslEncodeClosureAlert(e->ssl); MX_LEAVE(); e->wantTake = 1;
    if (vf_verbose) fprintf(stderr, " closure alert on %s rc=%d sealed=%ld seq=%llu\n", e->name, rc, n_aead_seals - before, seq8(e->ssl->sec.seq));
    vf_stat(n_aead_seals > before ? "zrtt_alerts_sealed_before_second_flight" : "zrtt_alerts_in_plaintext", 1);
    seq_check(w, when); mx_conn_collect(&w->k); seq_check(w, when);
}
static void z_after_bad_input(wl_t *w, mx_ep *e, long before, const char *when)
{
    seq_check(w, when); mx_conn_collect(&w->k); seq_check(w, when);
    if (vf_verbose) fprintf(stderr, " bad input to %s: lastrc=%d dead=%d sealed=%ld seq=%llu\n", e->name, e->lastrc, e->dead, n_aead_seals - before, seq8(e->ssl->sec.seq));
    if (!e->dead && e->lastrc >= 0 && !e->closeReq) vf_stat("zrtt_bad_input_without_alert", 1);
    else vf_stat(n_aead_seals > before ? "zrtt_alerts_sealed_before_second_flight" : "zrtt_alerts_in_plaintext", 1);
}
static const unsigned char z_hrr_random[8] = { 0xCF, 0x21, 0xAD, 0x74, 0xE5, 0x9A, 0x61, 0x11 };
static void run_zrtt(void *a_)
{
    const zscn_t *z = a_; wl_t W; memset(&W, 0, sizeof W); sslSessionId_t *sid; matrixSslNewSessionId(&sid, NULL);
    const mx_suite_t *su = mx_suite_by_id(z->suite); cur_ver = MX_TLS13; cur_suite = su->name; mx_entropy_observer = observe_entropy; cbc_in_record_layer = 1;
    int hrr = z->kind <= Z_HRR_SRV_CLOSE, rej = z->kind >= Z_REJ_CLOSE && z->kind <= Z_REJ_SRV_CLOSE; mx_conn *k = &W.k;
    mx_cfg cfg = { .ver = MX_TLS13, .suite = z->suite, .earlyData = 16384 };
    vf_stat("cases", 1); vf_stat("zrtt_corner_scenarios", 1);
    /* priming connection: leaves a ticket that permits early data in sid */
    if (mx_conn_open(k, &cfg, sid) != 0) { vf_incon("open failed"); return; }
    wl_step_all(&W, 300, "handshake"); if (!mx_conn_established(k)) { vf_incon("priming connection did not establish [%s]", cur_desc); return; }
    wl_send(&W, &k->c, 30, 1); wl_send(&W, &k->s, 30, 2); wl_step_all(&W, 50, "data"); mx_conn_close(k); mx_now += 2;
    if (z_open(k, &cfg, sid, hrr) != 0) { vf_incon("open failed [%s]", cur_desc); return; }
    wl_reset(&W);
    if (matrixSslGetMaxEarlyData(k->c.ssl) <= 0) { vf_incon("the ticket of the priming connection does not permit early data [%s]", cur_desc); return; }
    int nearly = 1 + (int) ((vf_seed + z->kind) % 3); static const int esz[3] = { 200, 1, 40 };
    for (int i = 0; i < nearly; i++) wl_send(&W, &k->c, esz[i], 500 + i);
    if (seq8(k->c.ssl->sec.seq) != (unsigned long long) nearly) { vf_incon("early data was not written [%s]", cur_desc); return; }
    vf_stat("early_data_connections", 1);
    if (rej) mx_now += 60;      /* the server's view of the ticket age now differs from the client's claim by more than the window: early data is rejected, the PSK is still good */
    /* ClientHello -> server */
    z_deliver(&W, 0, 1, "hello"); mx_conn_collect(k);
    int isHrr = k->qlen[1] >= 5 + 6 + 8 && k->q[1][0] == 22 && k->q[1][5] == 2 && !memcmp(k->q[1] + 11, z_hrr_random, 8);
    if (hrr != isHrr) { vf_incon("%s [%s]", hrr ? "the server did not answer with HelloRetryRequest" : "unexpected HelloRetryRequest", cur_desc); return; }
    if (hrr) {
        vf_stat("zrtt_helloretryrequest_after_early_data", 1);
        k->qoff[0] = k->qlen[0];                      /* the early-data records are lost (this server answers them with unexpected_message after a HelloRetryRequest) */
        if (z->kind == Z_HRR_SRV_CLOSE) { z_closure(&W, &k->s, "closure"); z_deliver(&W, 1, 9, "hello"); goto done; }
        z_deliver(&W, 1, 9, "hello-retry");           /* HelloRetryRequest -> client; ClientHello2 now waits in its output buffer */
        if (z->kind == Z_HRR_CLOSE_UNSENT) { z_closure(&W, &k->c, "closure"); goto done; }
        mx_conn_collect(k); seq_check(&W, "hello2");
        if (z->kind == Z_HRR_CLOSE) { z_closure(&W, &k->c, "closure"); goto done; }
        if (z->kind == Z_HRR_UNEXPECTED) {
            unsigned char f[5 + 4 + 32] = { 22, 3, 3, 0, 36, 20, 0, 0, 32 }; long b = n_aead_seals;
            mx_feed(&k->c, f, sizeof f); z_after_bad_input(&W, &k->c, b, "alert"); goto done;
        }
        z_deliver(&W, 0, 1, "hello2"); mx_conn_collect(k);   /* ClientHello2 -> server, its flight is now queued */
    } else {
        z_deliver(&W, 0, 9, "early-data"); mx_conn_collect(k);   /* the early-data records: decrypted (accepted) or skipped (rejected) */
        int accepted = k->s.ssl->tls13ServerEarlyDataEnabled == PS_TRUE;
        if (accepted == rej) { vf_incon("early data %s [%s]", accepted ? "accepted although the ticket age is off" : "not accepted", cur_desc); return; }
        vf_stat(accepted ? "zrtt_early_data_accepted" : "zrtt_early_data_rejected", 1);
        if (z->kind == Z_REJ_SRV_CLOSE || z->kind == Z_ACC_SRV_CLOSE) { z_closure(&W, &k->s, "closure"); z_deliver(&W, 1, 20, "flight"); goto done; }
    }
    if (k->qlen[1] - k->qoff[1] < 5 + 40 || k->q[1][k->qoff[1]] != 22 || k->q[1][k->qoff[1] + 5] != 2) { vf_incon("no ServerHello queued [%s]", cur_desc); return; }
    if (z->kind == Z_HRR_BADSH) {
        unsigned char *sh = k->q[1] + k->qoff[1]; int sidl = sh[5 + 4 + 2 + 32]; long b = n_aead_seals;
        sh[5 + 4 + 2 + 32 + 1 + sidl + 1] ^= 3;       /* another cipher suite than the one of the HelloRetryRequest */
        z_deliver(&W, 1, 1, "alert"); z_after_bad_input(&W, &k->c, b, "alert"); goto done;
    }
    if (z->kind == Z_HRR_COMPLETE || z->kind == Z_REJ_COMPLETE) {
        wl_step_all(&W, 300, "handshake");
        if (!mx_conn_established(k)) { vf_incon("scenario did not establish [%s]", cur_desc); return; }
        vf_stat("connections", 1);
        for (int i = 0; i < 6; i++) { wl_send(&W, &k->c, 1 + 40 * i, 600 + i); wl_send(&W, &k->s, 3 + 50 * i, 700 + i); if (i % 2) wl_step_all(&W, 50, "data"); }
        wl_step_all(&W, 50, "data"); z_closure(&W, &k->c, "closure"); wl_step_all(&W, 20, "closure"); z_closure(&W, &k->s, "closure"); wl_step_all(&W, 20, "closure");
        goto done;
    }
    z_deliver(&W, 1, 1, "serverhello");               /* ServerHello alone -> client */
    if (z->kind == Z_REJ_CLOSE || z->kind == Z_ACC_CLOSE) { z_closure(&W, &k->c, "closure"); z_deliver(&W, 0, 9, "closure"); goto done; }
    /* *_BADFLIGHT: the first protected record of the server's flight arrives corrupted */
    { mx_rec r; if (!mx_rec_at(k->q[1], k->qlen[1], k->qoff[1], 0, &r)) { vf_incon("no protected server record queued [%s]", cur_desc); return; }
      if (r.type == 20) { z_deliver(&W, 1, 1, "ccs"); if (!mx_rec_at(k->q[1], k->qlen[1], k->qoff[1], 0, &r)) { vf_incon("no protected server record queued [%s]", cur_desc); return; } }
      long b = n_aead_seals; k->q[1][k->qoff[1] + r.hdr + r.len - 1] ^= 1;
      z_deliver(&W, 1, 1, "alert"); z_after_bad_input(&W, &k->c, b, "alert"); z_deliver(&W, 0, 9, "alert"); }
done:
    mx_conn_collect(k); seq_check(&W, "end");
    mx_conn_close(k); matrixSslDeleteSessionId(sid);
    vf_stat("aead_seals", n_aead_seals); vf_stat("aead_keys", n_keys); vf_stat("identical_reseals", n_reuse_same); vf_stat("entropy_blocks_tracked", nents);
    vf_distinct("zrtt|%04x|%d", z->suite, z->kind);
}

int main(int argc, char **argv)
{
    vf_init(argc, argv); if (vf_flag("-vv")) vf_verbose = 2; mx_global_init(); mx_keys_load();
    static scn_t list[400]; int n = 0;
    for (int v = 0; v < MX_NVER; v++) for (int i = 0; i < MX_NSUITES; i++) {
        const mx_suite_t *su = &mx_suites[i]; if (!mx_suite_ok_for(su, v)) continue;
        if (!vf_thorough && su->auth == MX_AUTH_ECDSA && !(i % 2)) continue;
        list[n++] = (scn_t) { v, su->id, 0, 0, 0, 0 };
        if ((i % 2) == 0 || vf_thorough) list[n++] = (scn_t) { v, su->id, 1, v != MX_TLS13 && (i % 4) == 0, su->auth != MX_AUTH_PSK && (i % 3) == 0, v == MX_TLS13 };
    }
    int reps = vf_thorough ? 25 : 1;
    long idx = 0;
    for (int rep = 0; rep < reps; rep++) for (int i = 0; i < n; i++) {
        if (!vf_mine(idx++)) continue;
        mx_entropy_seed(vf_seed * 131 + i + rep * 1000003);
        snprintf(cur_desc, sizeof cur_desc, "scn=%d rep=%d (%s %04x res%d tk%d ca%d early%d)", i, rep, mx_vername[list[i].ver], list[i].suite, list[i].resumed, list[i].ticket, list[i].ca, list[i].early);
        if (vf_case && strncmp(vf_case, cur_desc, strchr(cur_desc, '(') - cur_desc)) continue;
        if (i % 17 == 0) vf_sample("%s", cur_desc);
        vf_fork_case(run_scn, &list[i], "c17", cur_desc, 300);
    }
    /* TLS 1.3 0-RTT corner scenarios: every kind x every TLS 1.3 suite (both tiers; thorough repeats them with other entropy) */
    static zscn_t zl[64]; int nz = 0;
    for (int i = 0; i < MX_NSUITES; i++) if (mx_suites[i].tls13) for (int kd = 0; kd < Z_NKIND; kd++) zl[nz++] = (zscn_t) { mx_suites[i].id, kd };
    for (int rep = 0; rep < (vf_thorough ? 5 : 1); rep++) for (int i = 0; i < nz; i++) {
        if (!vf_mine(idx++)) continue;
        mx_entropy_seed(vf_seed * 257 + i + rep * 1000033 + 77);
        snprintf(cur_desc, sizeof cur_desc, "zrtt=%d rep=%d (tls1.3 %04x %s)", i, rep, zl[i].suite, zname[zl[i].kind]);
        if (vf_case && strncmp(vf_case, cur_desc, strchr(cur_desc, '(') - cur_desc)) continue;
        if (i % 9 == 0) vf_sample("%s", cur_desc);
        vf_fork_case(run_zrtt, &zl[i], "c17", cur_desc, 120);
    }
    /* very long streams: every AEAD suite x TLS version that carries it (quick: three of them), one CBC suite per version */
    static lscn_t ll[64]; int nl = 0;
    for (int v = 0; v < MX_NVER; v++) { if (MX_IS_DTLS(v)) continue; int cbc = 0;
        for (int i = 0; i < MX_NSUITES; i++) { const mx_suite_t *su = &mx_suites[i]; if (!mx_suite_ok_for(su, v) || su->auth == MX_AUTH_ECDSA || nl == 64) continue;
            if (su->aead) ll[nl++] = (lscn_t) { v, su->id, 66000 }; else if (!cbc++) ll[nl++] = (lscn_t) { v, su->id, 66000 }; } }
    for (int i = 0; i < nl; i++) {
        if (!vf_mine(idx++)) continue;
        const mx_suite_t *su = mx_suite_by_id(ll[i].suite);
        if (!vf_thorough && !(su->aead && (i % 3) == 0)) continue;
        mx_entropy_seed(vf_seed * 311 + i + 99);
        snprintf(cur_desc, sizeof cur_desc, "long=%d rep=0 (%s %04x %d records per direction)", i, mx_vername[ll[i].ver], ll[i].suite, ll[i].nrec);
        if (vf_case && strncmp(vf_case, cur_desc, strchr(cur_desc, '(') - cur_desc)) continue;
        vf_sample("%s", cur_desc);
        vf_fork_case(run_long, &ll[i], "c17", cur_desc, 600);
    }
    mx_keys_free(); matrixSslClose(); vf_flush();
    return 0;
}
