#!/usr/bin/env python3
"""setup: verifies the offline toolchain and pre-builds the sanitizer variants of /repo's tree."""
import sys, os, shutil
sys.path.insert(0, os.path.dirname(os.path.abspath(__file__)))
import vflib
from concurrent.futures import ThreadPoolExecutor
for tool in ("gcc", "clang-14", "make", "rsync", "python3"):
    if not shutil.which(tool):
        print("missing tool " + tool); sys.exit(2)
with ThreadPoolExecutor(2) as ex:
    print(list(ex.map(vflib.build, ["asan", "prod"])))
print("setup ok")
