#!/bin/sh
# import_seed4.sh <PID>: fourth-round seeds: /tmp/seed4-<PID>/SEED/{A,B} -> seeded/<PID>e|f, drop the worktree
p=$1
for x in A:g B:h; do s=${x%%:*}; l=${x##*:}; if [ -f /tmp/seed4-$p/SEED/$s/patch.diff ]; then mkdir -p /verif/seeded/$p$l; cp /tmp/seed4-$p/SEED/$s/* /verif/seeded/$p$l/ 2>/dev/null; rm -f /verif/seeded/$p$l/demo /verif/seeded/$p$l/demoA /verif/seeded/$p$l/demoB; fi; done
git -C /repo worktree remove --force /tmp/seed4-$p
