#!/bin/sh
# import_seed2.sh <PID>: second-round seeds: /tmp/seed2-<PID>/SEED/{A,B} -> seeded/<PID>c|d, drop the worktree
p=$1
for x in A:c B:d; do s=${x%%:*}; l=${x##*:}; if [ -f /tmp/seed2-$p/SEED/$s/patch.diff ]; then mkdir -p /verif/seeded/$p$l; cp /tmp/seed2-$p/SEED/$s/* /verif/seeded/$p$l/ 2>/dev/null; rm -f /verif/seeded/$p$l/demo /verif/seeded/$p$l/demoA /verif/seeded/$p$l/demoB; fi; done
git -C /repo worktree remove --force /tmp/seed2-$p
